mod bisync;
mod c01bytes;
mod c04;
mod c04wire;
mod c13;
mod c14;
mod c16;
mod driver;
mod prelude;
mod report;
mod rng;

fn arg(args: &[String], name: &str, default: &str) -> String {
    args.iter().position(|a| a == name).and_then(|i| args.get(i + 1)).cloned().unwrap_or_else(|| default.to_string())
}

fn main() {
    let args: Vec<String> = std::env::args().collect();
    if args.len() < 2 { eprintln!("usage: syverif <stream> --tier T --seed N --driver PATH --out FILE --work DIR"); std::process::exit(2); }
    let stream = args[1].as_str();
    let tier = arg(&args, "--tier", "quick");
    let seed: u64 = arg(&args, "--seed", "1").parse().unwrap_or(1);
    let driver = arg(&args, "--driver", "/verif/lean/.lake/build/bin/sydriver");
    let out = arg(&args, "--out", "/dev/stdout");
    let work = std::path::PathBuf::from(arg(&args, "--work", "/verif/.build/work/tmp"));
    let chunk: usize = arg(&args, "--chunk", "262144").parse().unwrap();
    let sy_bin = arg(&args, "--sy", "/verif/.build/target/debug/sy");
    let replay: Option<String> = args.iter().position(|a| a == "--replay").and_then(|i| args.get(i + 1)).cloned();
    let rep = match stream {
        "c01bytes" => c01bytes::run(&tier, seed, &driver, &work),
        "c04" => c04::run(&tier, seed, &driver, chunk, &work),
        "c04wire" => c04wire::run(&tier, seed, &driver, &work),
        "c11" => bisync::run("C11", &tier, seed, &driver, &work, &sy_bin, replay.as_deref()),
        "c12" => bisync::run("C12", &tier, seed, &driver, &work, &sy_bin, replay.as_deref()),
        "c13" => c13::run(&tier, seed, &driver, &work),
        "prelude" => prelude::run(&tier, seed, &driver),
        "c14" => c14::run(&tier, seed, &driver, &work),
        "c16" => {
            // the real `sy` executable: built into the same target directory as this harness
            let sibling = std::env::current_exe().ok().and_then(|p| p.parent().map(|d| d.join("sy"))).unwrap_or_default();
            let sy = arg(&args, "--sy", &sibling.to_string_lossy());
            c16::run(&tier, seed, &driver, &work, std::path::Path::new(&sy))
        }
        _ => { eprintln!("unknown stream {}", stream); std::process::exit(2); }
    };
    std::fs::write(&out, serde_json::to_string_pretty(&rep.to_json()).unwrap()).unwrap();
}
