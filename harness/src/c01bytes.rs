//! C01 (byte level) — the local transfer paths behind the engine model's "content id":
//! `LocalTransport::sync_file_with_delta` / `copy_file` (src/transport/local.rs:235-892) and
//! `estimate_change_ratio` (src/delta/ratio.rs), run in-process on temp files with the verification
//! hooks `SY_VERIF_DELTA_THRESHOLD` / `SY_VERIF_BLOCK_SIZE` / `SY_VERIF_FORCE_COW`.
//!
//! K: the Lean model `SyModel/Transfer/BlockCompare.lean` (`xfer.route`, `xfer.ratio`) predicts the
//!    destination bytes, `TransferResult` (bytes_written, delta_operations, literal_bytes,
//!    used_delta) and the sampler's numbers; every difference is a disagreement.
//! O: written from the property text: after the call the destination is byte-identical to the source
//!    (`C01/content-differs`) and carries its mtime (`C01/mtime-not-carried`); the call succeeds
//!    (`C01/transfer-error`); the source is untouched (`C02/source-modified`, another property's oracle).
use crate::driver::{hex, Driver};
use crate::report::Report;
use crate::rng::Rng;
use serde_json::json;
use std::os::unix::fs::MetadataExt;
use std::path::Path;
use std::time::{Duration, UNIX_EPOCH};
use sy::delta::estimate_change_ratio;
use sy::fs_util::{has_hard_links, same_filesystem, supports_cow_reflinks};
use sy::sparse::detect_data_regions;
use sy::transport::local::LocalTransport;
use sy::transport::{TransferResult, Transport};

const MIB: usize = 1024 * 1024;
const BUF_CAP: usize = 256 * 1024;

fn set_mtime(path: &Path, secs: u64, nanos: u32) {
    let f = std::fs::OpenOptions::new().write(true).open(path).unwrap();
    f.set_modified(UNIX_EPOCH + Duration::new(secs, nanos)).unwrap();
}
fn get_mtime(path: &Path) -> (u64, u32) {
    let d = std::fs::metadata(path).unwrap().modified().unwrap().duration_since(UNIX_EPOCH).unwrap();
    (d.as_secs(), d.subsec_nanos())
}
/// mtimes well in the past (never "now"): the oracle must be able to tell a carried mtime from the time of the run
fn gen_mtime(rng: &mut Rng) -> (u64, u32) {
    let secs = *rng.pick(&[1u64, 86_400, 1_000_000_000, 1_234_567_890, 1_500_000_000, 1_700_000_000]) + rng.below(100_000);
    let nanos = match rng.below(4) { 0 => 0, 1 => 1, 2 => 999_999_999, _ => rng.below(1_000_000_000) } as u32;
    (secs, nanos)
}
fn is_sparse_local(p: &Path) -> bool {
    let md = std::fs::metadata(p).unwrap();                                   // local.rs:16-24
    let (size, allocated) = (md.len(), md.blocks() * 512);
    size > 4096 && allocated < size.saturating_sub(4096)
}
fn write_file(p: &Path, data: &[u8], sync: bool) {
    use std::io::Write;
    let mut f = std::fs::File::create(p).unwrap();
    f.write_all(data).unwrap();
    if sync { f.sync_all().unwrap(); }
}
fn opt<T: ToString>(o: Option<T>) -> String { o.map(|v| v.to_string()).unwrap_or_else(|| "-".into()) }
fn short(h: &str) -> String { if h.len() <= 400 { h.to_string() } else { format!("{}…({} hex chars)", &h[..200], h.len()) } }

struct Env { thr: Option<u64>, bs: Option<usize>, cow: bool }
fn apply_env(e: &Env) {
    match e.thr { Some(t) => std::env::set_var("SY_VERIF_DELTA_THRESHOLD", t.to_string()), None => std::env::remove_var("SY_VERIF_DELTA_THRESHOLD") }
    match e.bs { Some(b) => std::env::set_var("SY_VERIF_BLOCK_SIZE", b.to_string()), None => std::env::remove_var("SY_VERIF_BLOCK_SIZE") }
    if e.cow { std::env::set_var("SY_VERIF_FORCE_COW", "1") } else { std::env::remove_var("SY_VERIF_FORCE_COW") }
}

/// prior destination and source derived from it by a structured edit
fn gen_pair(rng: &mut Rng, thr: usize, bs: usize, thorough: bool) -> (Vec<u8>, Vec<u8>, &'static str) {
    let alphabet = *rng.pick(&[2u64, 4, 256, 256, 256]);
    let cap = if thorough { 24_000 } else { 12_000 };
    let around = |rng: &mut Rng, x: usize| -> usize { (x as i64 + rng.range(0, 2) as i64 - 1).max(0) as usize };
    let dlen = match rng.below(12) {
        0 => 0,
        1 => around(rng, bs),
        2 => around(rng, 2 * bs),
        3 | 4 => around(rng, thr),
        5 => thr + rng.below(2 * bs as u64 + 2) as usize,
        6 => thr + bs * rng.range(1, 8) as usize,
        7 => (bs * rng.range(1, 40) as usize).max(thr),
        8 => (bs * rng.range(21, 60) as usize + rng.below(bs as u64) as usize).max(thr),
        9 => rng.range(0, thr as u64) as usize,
        _ => rng.range(thr as u64, (3 * thr.max(bs)) as u64 + 64) as usize,
    }.min(cap);
    let dst = rng.bytes(dlen, alphabet);
    let nb = dlen.div_ceil(bs).max(1);
    let mut src = dst.clone();
    let flip = |v: &mut Vec<u8>, i: usize| { if i < v.len() { v[i] ^= 1; } };
    let kind = match rng.below(18) {
        0 => "equal",
        1 => { let b = rng.below(nb as u64) as usize; flip(&mut src, b * bs + rng.below(bs as u64) as usize); if src == dst && dlen > 0 { src[0] ^= 1; } "one-block" }
        2 => { for _ in 0..rng.range(2, 5) { let b = rng.below(nb as u64) as usize; let i = (b * bs + rng.below(bs as u64) as usize).min(dlen.saturating_sub(1)); if dlen > 0 { src[i] ^= 0x55; } } "few-blocks" }
        3 => { for b in src.iter_mut() { *b ^= 0xA5; } "all-changed" }
        4 => { // a fraction of the blocks around the 3/4 threshold
               let num = rng.range(12, 18); for b in 0..nb { if (b as u64 * 7 + 3) % 20 < num && b * bs < dlen { src[b * bs] ^= 0x11; } } "near-threshold" }
        5 => { let k = rng.range(1, (bs as u64).min(dlen as u64).max(1)) as usize; src.truncate(dlen.saturating_sub(k)); "shorter-lt-block" }
        6 => { let k = bs * rng.range(1, 4) as usize + rng.below(bs as u64) as usize; src.truncate(dlen.saturating_sub(k)); "shorter-blocks" }
        7 => { let keep = (dlen as u64 * rng.range(20, 55) / 100) as usize; src.truncate(keep); "shorter-half" }
        8 => { let k = (dlen / bs) * bs; let k = if k >= bs && rng.chance(1, 2) { k - bs } else { k }; src.truncate(k); "aligned-prefix" }
        9 => { let k = rng.range(1, bs as u64) as usize; src.extend(rng.bytes(k, alphabet)); "longer-lt-block" }
        10 => { let k = bs * rng.range(1, 4) as usize + rng.below(bs as u64) as usize; src.extend(rng.bytes(k, alphabet)); "longer-blocks" }
        11 => { let k = (dlen as u64 * rng.range(45, 110) / 100) as usize; src.extend(rng.bytes(k.min(cap), alphabet)); "longer-half" }
        12 => { let n = around(rng, dlen); src = rng.bytes(n, alphabet); "unrelated" }
        13 => { src.clear(); "empty-source" }
        14 => { if dlen > 0 { let i = dlen - 1 - rng.below((dlen % bs).max(1) as u64) as usize; src[i] ^= 0x0F; } "tail-block" }
        15 => { src.insert(0, 7); "shifted" }
        16 => { let k = rng.range(1, 2 * bs as u64) as usize; src.truncate(dlen.saturating_sub(k)); if !src.is_empty() { let i = rng.below(src.len() as u64) as usize; src[i] ^= 0x3C; } "shorter-and-changed" }
        _ => { let k = rng.range(1, 2 * bs as u64) as usize; src.extend(rng.bytes(k, alphabet)); if dlen > 0 { let i = rng.below(dlen as u64) as usize; src[i] ^= 0x3C; } "longer-and-changed" }
    };
    (src, dst, kind)
}

/// fixed-size block comparison (what `changed_blocks_spec_plain` states for block sizes dividing 256 KiB)
fn plain_counters(src: &[u8], dst: &[u8], bs: usize) -> (usize, u64) {
    let (mut changed, mut literal) = (0usize, 0u64);
    let mut off = 0;
    while off < src.len() {
        let s = &src[off..(off + bs).min(src.len())];
        let d = if off < dst.len() { &dst[off..(off + bs).min(dst.len())] } else { &[][..] };
        if s != d { changed += 1; literal += s.len() as u64; }
        off += bs;
    }
    (changed, literal)
}

struct Ctx<'a> { rt: tokio::runtime::Runtime, lt: LocalTransport, drv: Driver, srcp: &'a Path, dstp: &'a Path, tmpp: &'a Path }

/// one hooked `sync_file_with_delta` call: O on the files, K against `xfer.route` / `xfer.ratio`
#[allow(clippy::too_many_arguments)]
fn one_case(cx: &mut Ctx, rep: &mut Report, rng: &mut Rng, env: &Env, src: &[u8], dst: Option<&[u8]>, kind: &str, sparse_layout: Option<&[(u64, Vec<u8>)]>, sample: bool) {
    let (srcp, dstp, tmpp) = (cx.srcp, cx.dstp, cx.tmpp);
    let thr = env.thr.unwrap();
    let bs = env.bs.unwrap();
    let _ = std::fs::remove_file(dstp);
    let _ = std::fs::remove_file(tmpp);
    let _ = std::fs::remove_file(srcp);
    match sparse_layout {
        None => write_file(srcp, src, src.len() > 4096),
        Some(writes) => {
            use std::io::{Seek, SeekFrom, Write};
            let mut f = std::fs::File::create(srcp).unwrap();
            f.set_len(src.len() as u64).unwrap();
            for (off, data) in writes { f.seek(SeekFrom::Start(*off)).unwrap(); f.write_all(data).unwrap(); }
            f.sync_all().unwrap();
        }
    }
    if let Some(d) = dst { write_file(dstp, d, false); }
    let smt = gen_mtime(rng);
    set_mtime(srcp, smt.0, smt.1);
    let smt = get_mtime(srcp);                         // as stored by this file system
    if dst.is_some() { let mut dmt = gen_mtime(rng); if dmt == smt { dmt.0 += 7; } set_mtime(dstp, dmt.0, dmt.1); }
    let sparse_before = is_sparse_local(srcp);
    let regions = if sparse_before {
        match detect_data_regions(srcp) { Ok(r) => Some(r), Err(_) if src.iter().all(|b| *b == 0) => Some(Vec::new()), Err(_) => None }
    } else { None };
    let use_cow = dst.is_some() && ((supports_cow_reflinks(dstp) && same_filesystem(srcp, dstp) && !has_hard_links(dstp)) || (env.cow && !has_hard_links(dstp)));   // local.rs:518-526
    apply_env(env);

    // the sampler on the prior destination (the call below replaces it)
    let gate_passed = dst.map(|d| d.len() as u64 >= thr).unwrap_or(false);
    let mut ratio_use_delta: Option<bool> = None;
    if let (Some(d), true) = (dst, gate_passed && bs > 0) {
        match estimate_change_ratio(srcp, dstp, bs, Some(20), Some(0.75)) {
            Ok(r) => {
                ratio_use_delta = Some(r.use_delta);
                let m = cx.drv.ask(&format!("xfer.ratio {} {} {}", bs, hex(src), hex(d)));
                let parts: Vec<&str> = m.split(' ').collect();
                let ok = parts.len() == 4 && parts[0] == r.blocks_sampled.to_string() && parts[1] == r.blocks_changed.to_string()
                    && parts[2] == (r.use_delta as u8).to_string()
                    && parts[3].split_once('/').and_then(|(a, b)| Some((a.parse::<f64>().ok()?, b.parse::<f64>().ok()?))).map(|(a, b)| (a / b - r.change_ratio).abs() < 1e-9).unwrap_or(false);
                rep.tag(if r.blocks_sampled == 0 { "ratio.size-gate" } else if r.use_delta { "ratio.sampled.delta" } else { "ratio.sampled.full" });
                if r.blocks_sampled >= 20 { rep.tag("ratio.20-samples"); }
                if !ok { rep.disagree(json!({"stream":"xfer.ratio","bs":bs,"kind":kind,"src_len":src.len(),"dst_len":d.len(),"src":short(&hex(src)),"dst":short(&hex(d)),
                    "impl":format!("{} {} {} {}", r.blocks_sampled, r.blocks_changed, r.use_delta as u8, r.change_ratio),"model":m})); }
            }
            Err(e) => rep.disagree(json!({"stream":"xfer.ratio","what":"estimate_change_ratio failed","error":e.to_string()})),
        }
    }

    let res: Result<TransferResult, _> = cx.rt.block_on(cx.lt.sync_file_with_delta(srcp, dstp));
    let sparse_after = is_sparse_local(srcp);
    let got = std::fs::read(dstp).ok();
    let input = json!({"threshold":thr,"bs":bs,"force_cow":env.cow,"kind":kind,"src_len":src.len(),"dst_len":dst.map(|d| d.len()),"src":short(&hex(src)),"dst":dst.map(|d| short(&hex(d)))});

    // ---- O ----
    let mut mtime_carried = false;
    match (&res, &got) {
        (Err(e), _) => rep.oracle_fail("C01/transfer-error", &format!("sync_file_with_delta failed: {}", e), input.clone()),
        (Ok(_), None) => rep.oracle_fail("C01/content-differs", "destination missing after a successful transfer", input.clone()),
        (Ok(_), Some(g)) => {
            if g != src { rep.oracle_fail("C01/content-differs", &format!("destination ({} bytes) differs from the source ({} bytes) after a successful transfer", g.len(), src.len()), input.clone()); }
            mtime_carried = get_mtime(dstp) == smt;
            if !mtime_carried { rep.oracle_fail("C01/mtime-not-carried", &format!("destination mtime {:?} is not the source mtime {:?}", get_mtime(dstp), smt), input.clone()); }
        }
    }
    if std::fs::read(srcp).ok().as_deref() != Some(src) || get_mtime(srcp) != smt {
        rep.oracle_fail("C02/source-modified", "the source file changed during the transfer", input.clone());
    }

    // ---- K ----
    let dst_arg = match dst { None => "absent".to_string(), Some(d) => hex(d) };
    let sparse_arg = if sparse_before { match &regions { Some(r) => format!(" sparse:{}", if r.is_empty() { "-".to_string() } else { r.iter().map(|x| format!("{},{}", x.offset, x.length)).collect::<Vec<_>>().join(";") }), None => String::new() } } else { String::new() };
    let stable = sparse_before == sparse_after && (!sparse_before || regions.is_some());
    let m = cx.drv.ask(&format!("xfer.route {} {} {} {} {}{}", thr, bs, use_cow as u8, hex(src), dst_arg, sparse_arg));
    let parts: Vec<&str> = m.split(' ').collect();
    if parts.len() != 6 { rep.disagree(json!({"stream":"xfer.route","what":"unparsable model answer","model":short(&m),"input":input})); return; }
    let route = parts[0];
    rep.tag(&format!("route.{}", route));
    rep.tag(&format!("kind.{}", kind));
    rep.tag(&format!("bs.{}", bs));
    if use_cow { rep.tag("strategy.cow"); } else { rep.tag("strategy.inplace"); }
    if let Some(d) = dst { rep.tag(if src.len() < d.len() { "dst.longer" } else if src.len() > d.len() { "dst.shorter" } else { "dst.same-size" }); } else { rep.tag("dst.absent"); }
    if !stable { rep.tag("sparse-unstable"); }
    if let (Ok(tr), Some(g), true) = (&res, &got, stable) {
        // "<bytes_written> <delta_operations> <literal_bytes> <mtime carried>"
        let imp = format!("{} {} {} {}", tr.bytes_written, opt(tr.delta_operations), opt(tr.literal_bytes), mtime_carried as u8);
        let model = parts[2..].join(" ");
        let bytes_equal = hex(g) == parts[1];
        let used_model = route == "delta-cow" || route == "delta-inplace";
        if !bytes_equal || imp != model || tr.used_delta() != used_model {
            rep.disagree(json!({"stream":"xfer.route","route":route,"input":input,"result_bytes_equal":bytes_equal,"impl":imp,"model":model,
                "impl_result":short(&hex(g)),"model_result":short(parts[1]),"impl_used_delta":tr.used_delta()}));
        }
        if let Some(u) = ratio_use_delta {
            // the ratio gate as observed: sampled decision ⇒ delta used (when the source is not sparse)
            if !sparse_before && tr.used_delta() != u { rep.disagree(json!({"stream":"xfer.route","what":"used_delta differs from the sampler's use_delta","input":input})); }
        }
        if used_model {
            if tr.delta_operations == Some(0) { rep.tag("delta.zero-changed"); if g.as_slice() != dst.unwrap_or(&[]) { rep.tag("delta.zero-changed-but-truncated"); } }
            if src.len() > BUF_CAP && BUF_CAP % bs != 0 && bs < BUF_CAP {
                rep.tag("delta.bufreader-short-chunk");
                // the counters count read chunks, not fixed-size blocks (model: `chunkAt`, `short_chunk_witness`)
                let (c, l) = plain_counters(src, dst.unwrap_or(&[]), bs);
                if tr.delta_operations != Some(c) || tr.literal_bytes != Some(l) { rep.tag("delta.counters-differ-from-fixed-size-blocks"); }
            }
        }
        if tmpp.exists() { rep.disagree(json!({"stream":"xfer.route","what":"temp file left behind after a successful transfer","input":input})); }
    }
    let nontrivial = dst.is_some() && !src.is_empty() && (route == "delta-cow" || route == "delta-inplace" || route == "ratio-full" || route == "sparse");
    rep.case(&[&thr.to_le_bytes()[..], &(bs as u64).to_le_bytes()[..], &[use_cow as u8], src, b"|", dst.unwrap_or(b"<absent>")].concat(), nontrivial);
    if sample { rep.sample(json!({"route":route,"kind":kind,"threshold":thr,"bs":bs,"cow":use_cow,"src_len":src.len(),"dst_len":dst.map(|d| d.len()),
        "result":res.as_ref().ok().map(|t| json!({"bytes_written":t.bytes_written,"delta_operations":t.delta_operations,"literal_bytes":t.literal_bytes}))})); }
}

pub fn run(tier: &str, seed: u64, driver_path: &str, work: &Path) -> Report {
    let mut rep = Report::default();
    rep.rule = "H: hooked sync_file_with_delta (threshold 4096/1000/256/0, block sizes 64..4096 incl. non-powers of two, COW forced or not) on (prior destination, source) pairs: destination sizes around 0 / bs / 2bs / threshold±1 / many blocks (> 20 sampled), source = equal, one/few/most/all blocks changed, shorter (< block, blocks, > half), block-aligned prefix, longer (< block, blocks, > half), unrelated, empty, tail block, shifted; destination absent; sparse sources; files > 256 KiB with a block size that does not divide the BufReader capacity. F: copy_file directly. R (thorough; one pair in quick): real >= 10 MiB files without any hook. non-trivial: destination present, source non-empty and a route past the size gate (block compare, ratio fallback or sparse); distinct = distinct (threshold, bs, strategy, src, dst)".into();
    let mut rng = Rng::new(seed);
    let thorough = tier == "thorough";
    let dir = work.join("c01bytes");
    std::fs::create_dir_all(&dir).unwrap();
    let srcp = dir.join("src.bin");
    let dstp = dir.join("dst.bin");
    let tmpp = dir.join("dst.bin.sy.tmp");
    let mut cx = Ctx {
        rt: tokio::runtime::Builder::new_multi_thread().worker_threads(2).enable_all().build().unwrap(),
        lt: LocalTransport::new(),
        drv: Driver::spawn(driver_path).expect("spawn sydriver"),
        srcp: &srcp, dstp: &dstp, tmpp: &tmpp,
    };

    // ---- H: hooked pairs ----
    let n_h = if thorough { 6000 } else { 700 };
    for i in 0..n_h {
        let thr = *rng.pick(&[4096u64, 4096, 4096, 1000, 256, 0]);
        let bs = *rng.pick(&[64usize, 64, 100, 128, 256, 1000, 1024, 4096]);
        let env = Env { thr: Some(thr), bs: Some(bs), cow: rng.chance(1, 2) };
        let (src, dst, kind) = gen_pair(&mut rng, thr as usize, bs, thorough);
        if rng.chance(1, 25) {
            one_case(&mut cx, &mut rep, &mut rng, &env, &src, None, "absent", None, i % 97 == 0);
        } else {
            one_case(&mut cx, &mut rep, &mut rng, &env, &src, Some(&dst), kind, None, i % 97 == 0);
        }
    }

    // ---- sparse sources under the hook (route `sparse`, local.rs:424-454) ----
    let n_s = if thorough { 60 } else { 10 };
    for _ in 0..n_s {
        let size = *rng.pick(&[8192u64, 12288, 20000, 40960]);
        let mut writes: Vec<(u64, Vec<u8>)> = Vec::new();
        match rng.below(4) {
            0 => {}
            1 => { let l = rng.range(1, 3000); writes.push((size - l, rng.bytes(l as usize, 255).iter().map(|b| b + 1).collect())); }
            2 => { let l = rng.range(1, 3000); writes.push((0, rng.bytes(l as usize, 255).iter().map(|b| b + 1).collect())); }
            _ => { for _ in 0..rng.range(1, 3) { let off = rng.below(size); let l = rng.range(1, 600).min(size - off); writes.push((off, rng.bytes(l as usize, 256))); } }
        }
        let mut content = vec![0u8; size as usize];
        for (off, d) in &writes { content[*off as usize..*off as usize + d.len()].copy_from_slice(d); }
        let dn = rng.range(4096, 9000) as usize;
        let dst = rng.bytes(dn, 256);
        let env = Env { thr: Some(4096), bs: Some(*rng.pick(&[256usize, 1024, 4096])), cow: rng.chance(1, 2) };
        one_case(&mut cx, &mut rep, &mut rng, &env, &content, Some(&dst), "sparse-source", Some(&writes), false);
    }

    // ---- files longer than the BufReader capacity, block size not dividing it ----
    let n_b = if thorough { 12 } else { 2 };
    for j in 0..n_b {
        let bs = if j == 0 { 3000 } else { *rng.pick(&[3000usize, 1000, 5000, 100_000]) };
        let dlen = BUF_CAP + rng.range(1, 3 * bs as u64) as usize + if j % 2 == 1 { BUF_CAP } else { 0 };
        let dst = rng.bytes(dlen, 256);
        let mut src = dst.clone();
        // changes on both sides of a refill boundary (one fixed-size block, two read chunks) and elsewhere
        for p in [BUF_CAP - 1, BUF_CAP, BUF_CAP + 1, 17, dlen - 1] { if (j == 0 && p < 2 * BUF_CAP && p > 17 && p < dlen - 1) || (j > 0 && rng.chance(2, 3)) { src[p] ^= 0x5A; } }
        let k = rng.range(1, bs as u64) as usize;
        match if j == 0 { 2 } else { rng.below(3) } { 0 => src.truncate(dlen - k), 1 => src.extend(rng.bytes(k, 256)), _ => {} }
        let env = Env { thr: Some(4096), bs: Some(bs), cow: rng.chance(1, 2) };
        one_case(&mut cx, &mut rep, &mut rng, &env, &src, Some(&dst), "over-bufreader-capacity", None, j == 0);
    }

    // ---- F: copy_file directly (local.rs:235-342) ----
    apply_env(&Env { thr: None, bs: None, cow: false });
    let n_f = if thorough { 300 } else { 60 };
    for _ in 0..n_f {
        let sn = match rng.below(5) { 0 => 0, 1 => 1, 2 => rng.range(2, 5000), 3 => 4096, _ => rng.range(4097, 70_000) } as usize;
        let src = rng.bytes(sn, 256);
        let (p1, p2) = (rng.below(src.len() as u64 + 1) as usize, src.len() + rng.range(1, 5000) as usize);
        let prior: Option<Vec<u8>> = match rng.below(4) { 0 => None, 1 => Some(rng.bytes(p1, 256)), 2 => Some(rng.bytes(p2, 256)), _ => Some(src.clone()) };
        let _ = std::fs::remove_file(&dstp);
        write_file(&srcp, &src, src.len() > 4096);
        if let Some(p) = &prior { write_file(&dstp, p, false); set_mtime(&dstp, 5, 0); }
        let smt = gen_mtime(&mut rng); set_mtime(&srcp, smt.0, smt.1); let smt = get_mtime(&srcp);
        let res = cx.rt.block_on(cx.lt.copy_file(&srcp, &dstp));
        let input = json!({"call":"copy_file","src_len":src.len(),"prior_len":prior.as_ref().map(|p| p.len())});
        rep.tag(match &prior { None => "copy.dest-absent", Some(p) if p.len() > src.len() => "copy.dest-longer", Some(p) if p.len() < src.len() => "copy.dest-shorter", _ => "copy.dest-same-size" });
        rep.case(&[b"copy|", &src[..], b"|", prior.as_deref().unwrap_or(b"<absent>")].concat(), !src.is_empty() && prior.is_some());
        match res {
            Err(e) => rep.oracle_fail("C01/transfer-error", &format!("copy_file failed: {}", e), input),
            Ok(tr) => {
                let g = std::fs::read(&dstp).unwrap_or_default();
                if g != src { rep.oracle_fail("C01/content-differs", "copy_file: destination differs from the source", input.clone()); }
                if get_mtime(&dstp) != smt { rep.oracle_fail("C01/mtime-not-carried", "copy_file: destination mtime is not the source mtime", input.clone()); }
                // model: `copyFile` — bytes_written = |src|, no delta fields
                if tr.bytes_written != src.len() as u64 || tr.used_delta() || tr.literal_bytes.is_some() {
                    rep.disagree(json!({"stream":"copy_file","input":input,"impl":format!("{} {} {}", tr.bytes_written, opt(tr.delta_operations), opt(tr.literal_bytes)),"model":format!("{} - -", src.len())}));
                }
            }
        }
    }

    // ---- R: real >= 10 MiB files, no hook (production threshold, 64 KiB blocks) ----
    let n_r = if thorough { 5 } else { 1 };
    for j in 0..n_r {
        let bs = 64 * 1024;
        let base = rng.bytes(10 * MIB + 12_345, 256);
        let (src, dst, kind): (Vec<u8>, Vec<u8>, &str) = match j {
            0 => { let mut s = base.clone(); let b = rng.below(160) as usize; s[b * bs + 5] ^= 1; s[10 * MIB + 12_000] ^= 1; (s, base, "real.two-blocks-changed") }
            1 => { let mut d = base.clone(); d.extend(rng.bytes(MIB, 256)); let mut s = base.clone(); s.truncate(10 * MIB + 1); for b in [3usize, 77, 150] { s[b * bs] ^= 0xFF; } (s, d, "real.shrinks") }
            2 => { let mut d = base.clone(); d.truncate(10 * MIB); let mut s = d.clone(); s.extend(rng.bytes(4 * MIB + 7, 256)); s[0] ^= 1; (s, d, "real.grows-40-percent") }
            3 => { let s: Vec<u8> = base.iter().map(|b| b ^ 0xA5).collect(); (s, base, "real.all-changed") }
            _ => { let mut d = base.clone(); d.truncate(10 * MIB - 1); let mut s = base.clone(); s[1] ^= 1; (s, d, "real.dest-one-byte-below-threshold") }
        };
        let _ = std::fs::remove_file(&dstp); let _ = std::fs::remove_file(&tmpp);
        write_file(&srcp, &src, true);
        write_file(&dstp, &dst, false);
        let smt = gen_mtime(&mut rng); set_mtime(&srcp, smt.0, smt.1); let smt = get_mtime(&srcp);
        set_mtime(&dstp, 12_345, 0);
        let sparse = is_sparse_local(&srcp);
        let gate = dst.len() >= 10 * MIB;
        let ratio = if gate { estimate_change_ratio(&srcp, &dstp, bs, Some(20), Some(0.75)).ok() } else { None };
        let res = cx.rt.block_on(cx.lt.sync_file_with_delta(&srcp, &dstp));
        let input = json!({"kind":kind,"src_len":src.len(),"dst_len":dst.len(),"hook":false});
        rep.tag(kind);
        rep.case(&[kind.as_bytes(), &src[..4096], &dst[..4096]].concat(), true);
        match res {
            Err(e) => rep.oracle_fail("C01/transfer-error", &format!("sync_file_with_delta failed: {}", e), input),
            Ok(tr) => {
                let g = std::fs::read(&dstp).unwrap_or_default();
                if g != src { rep.oracle_fail("C01/content-differs", "real >= 10 MiB update: destination differs from the source", input.clone()); }
                if get_mtime(&dstp) != smt { rep.oracle_fail("C01/mtime-not-carried", &format!("real >= 10 MiB update: destination mtime {:?} is not the source mtime {:?}", get_mtime(&dstp), smt), input.clone()); }
                // model (by `changed_blocks_spec_plain`: 64 KiB divides 256 KiB, so the counters are those of fixed-size blocks;
                // the files are too large for the line protocol)
                let expect_delta = gate && !sparse && ratio.as_ref().map(|r| r.use_delta).unwrap_or(true);
                let (c, l) = plain_counters(&src, &dst, bs);
                let model = if expect_delta { format!("{} {} {}", src.len(), c, l) } else { format!("{} - -", src.len()) };
                let imp = format!("{} {} {}", tr.bytes_written, opt(tr.delta_operations), opt(tr.literal_bytes));
                rep.tag(if tr.used_delta() { "real.route.block-compare" } else { "real.route.full-copy" });
                if imp != model { rep.disagree(json!({"stream":"real-10MiB","input":input,"impl":imp,"model":model,"sparse":sparse,"ratio_use_delta":ratio.as_ref().map(|r| r.use_delta)})); }
                if tmpp.exists() { rep.disagree(json!({"stream":"real-10MiB","what":"temp file left behind","input":input})); }
                rep.sample(json!({"kind":kind,"src_len":src.len(),"dst_len":dst.len(),"bytes_written":tr.bytes_written,"delta_operations":tr.delta_operations,"literal_bytes":tr.literal_bytes}));
            }
        }
    }
    apply_env(&Env { thr: None, bs: None, cow: false });
    let _ = std::fs::remove_dir_all(&dir);
    rep
}
