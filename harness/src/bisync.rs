//! C11 / C12 — bidirectional sync.
//!
//! K (correspondence):
//!   1. pure differential: `classify_changes` / `resolve_changes` / `conflict_filename` in-process on
//!      fabricated metadata vs `bisync.classify|resolve|plan|conflictname` of the Lean model,
//!      exhaustive over a small metadata universe;
//!   2. engine level: histories of edits and syncs on two real directories, through
//!      `BisyncEngine::sync` in-process and through the real `sy` binary, content snapshots of both
//!      roots and the rows of the state database after every sync vs `bisync.history`.
//! O (oracle): a content-based three-way-merge reference written from the property text
//!   (never consults the model), with one structural signature per failure class.
//!
//! Time: the model's logical clock tick k is realised as mtime BASE + k*gap ns (gap drawn per
//! history from {1 ns, 1 µs, 1 s}); every edit stamps its file explicitly. The only place sy
//! stamps "now" itself is the destination of a copy; after each sync those files (and the rows
//! that recorded them) are re-stamped with the sync's tick, and conflict copies are renamed from
//! the wall-clock second to the logical stamp. Nothing compares a real "now" with anything.
use crate::driver::{hex, Driver};
use crate::report::Report;
use crate::rng::Rng;
use serde_json::json;
use std::collections::{BTreeMap, BTreeSet, HashMap};
use std::path::{Path, PathBuf};
use std::sync::{Arc, Mutex};
use std::time::{Duration, UNIX_EPOCH};
use sy::bisync::{
    classify_changes, conflict_filename, resolve_changes, BisyncEngine, BisyncOptions, BisyncStateDb, Change, ChangeType,
    ConflictResolution, Side, SyncAction, SyncState,
};
use sy::sync::scanner::FileEntry;

const BASE_NS: u64 = 1_000_000_000_000_000_000; // 2001-09-09
const REAL_NS: u64 = 1_500_000_000_000_000_000; // anything younger was stamped by the kernel
const STRATS: [&str; 6] = ["newer", "larger", "smaller", "source", "dest", "rename"];

#[derive(Clone, Copy, PartialEq, Eq, Debug, Hash)]
pub enum Op { Create(u64), ModSize, ModSame, Delete, Touch, Nothing }

#[derive(Clone, Debug, PartialEq, Eq, Hash)]
pub enum Ev { Edit(bool, String, Op), Sync(&'static str, u8) }

fn enc_op(op: Op) -> String {
    match op { Op::Create(n) => format!("c{}", n), Op::ModSize => "mS".into(), Op::ModSame => "mK".into(),
               Op::Delete => "d".into(), Op::Touch => "t".into(), Op::Nothing => "n".into() }
}
/// stamp of the i-th event if it is a sync
fn stamp_of(i: usize) -> u64 { 100 + i as u64 }
pub fn encode(h: &[Ev]) -> String {
    if h.is_empty() { return "-".into(); }
    h.iter().enumerate().map(|(i, e)| match e {
        Ev::Edit(left, p, op) => format!("e{}:{}:{}", if *left { "L" } else { "R" }, hex(p.as_bytes()), enc_op(*op)),
        Ev::Sync(s, md) => format!("s:{}:{}:{}", s, md, stamp_of(i)),
    }).collect::<Vec<_>>().join(";")
}
fn dec_op(s: &str) -> Option<Op> {
    match s { "mS" => Some(Op::ModSize), "mK" => Some(Op::ModSame), "d" => Some(Op::Delete), "t" => Some(Op::Touch), "n" => Some(Op::Nothing),
        _ => s.strip_prefix('c').and_then(|n| n.parse().ok()).map(Op::Create) }
}
/// inverse of `encode` (the stamps are positional and are recomputed)
pub fn decode(enc: &str) -> Option<Vec<Ev>> {
    if enc == "-" { return Some(vec![]); }
    enc.split(';').map(|tok| {
        let f: Vec<&str> = tok.split(':').collect();
        match f.as_slice() {
            [side @ ("eL" | "eR"), p, op] => Some(Ev::Edit(*side == "eL", String::from_utf8(unhex(p)).ok()?, dec_op(op)?)),
            ["s", st, md, _stamp] => Some(Ev::Sync(STRATS.iter().find(|x| *x == st)?, md.parse().ok()?)),
            _ => None,
        }
    }).collect()
}
fn show_history(h: &[Ev]) -> String {
    h.iter().map(|e| match e {
        Ev::Edit(left, p, op) => format!("{}:{}:{}", if *left { "L" } else { "R" }, p, enc_op(*op)),
        Ev::Sync(s, md) => format!("sync({},{})", s, md),
    }).collect::<Vec<_>>().join(" ")
}

// ---------------------------------------------------------------------------------------------
// real directories

type Snap = BTreeMap<String, (u64, u64, u64)>; // rel path -> (cid, size, mtime ns)

fn walk(root: &Path, dir: &Path, out: &mut Snap) {
    if let Ok(rd) = std::fs::read_dir(dir) {
        for e in rd.flatten() {
            let p = e.path();
            let md = match std::fs::symlink_metadata(&p) { Ok(m) => m, Err(_) => continue };
            if md.is_dir() { walk(root, &p, out); continue; }
            let rel = p.strip_prefix(root).unwrap().to_string_lossy().to_string();
            let data = std::fs::read(&p).unwrap_or_default();
            let cid = String::from_utf8_lossy(&data).trim_start_matches('0').parse::<u64>().unwrap_or(u64::MAX);
            let mt = md.modified().unwrap().duration_since(UNIX_EPOCH).unwrap().as_nanos() as u64;
            out.insert(rel, (cid, md.len(), mt));
        }
    }
}
fn snapshot(root: &Path) -> Snap { let mut s = Snap::new(); walk(root, root, &mut s); s }

fn set_mtime(p: &Path, ns: u64) {
    let f = std::fs::OpenOptions::new().write(true).open(p).unwrap();
    f.set_modified(UNIX_EPOCH + Duration::from_nanos(ns)).unwrap();
}
fn write_file(p: &Path, cid: u64, size: u64, ns: u64) {
    if let Some(par) = p.parent() { std::fs::create_dir_all(par).unwrap(); }
    std::fs::write(p, format!("{:0>width$}", cid, width = size as usize)).unwrap();
    set_mtime(p, ns);
}

pub struct Arena { pub a: PathBuf, pub b: PathBuf, pub home: PathBuf, pub gap: u64 }

impl Arena {
    pub fn new(dir: &Path, gap: u64) -> Arena {
        let _ = std::fs::remove_dir_all(dir);
        let a = dir.join("a"); let b = dir.join("b"); let home = dir.join("home");
        std::fs::create_dir_all(&a).unwrap(); std::fs::create_dir_all(&b).unwrap(); std::fs::create_dir_all(&home).unwrap();
        Arena { a, b, home, gap }
    }
    fn ns(&self, tick: u64) -> u64 { BASE_NS + tick * self.gap }
    fn tick(&self, ns: u64) -> String {
        if ns >= BASE_NS && ns < REAL_NS && (ns - BASE_NS) % self.gap == 0 { ((ns - BASE_NS) / self.gap).to_string() } else { format!("?{}", ns) }
    }
    fn edit(&self, left: bool, rel: &str, op: Op, tick: u64) {
        let p = if left { self.a.join(rel) } else { self.b.join(rel) };
        let cur = std::fs::symlink_metadata(&p).ok().filter(|m| m.is_file());
        match (op, cur) {
            (Op::Create(sz), None) => write_file(&p, tick, sz, self.ns(tick)),
            (Op::ModSize, Some(m)) => write_file(&p, tick, m.len() + 1, self.ns(tick)),
            (Op::ModSame, Some(m)) => write_file(&p, tick, m.len(), self.ns(tick)),
            (Op::Delete, Some(_)) => std::fs::remove_file(&p).unwrap(),
            (Op::Touch, Some(_)) => set_mtime(&p, self.ns(tick)),
            _ => {}
        }
    }
    /// rows of the state database, through sy's own API
    fn rows(&self) -> Vec<(String, &'static str, u64, u64)> {
        let mut out = Vec::new();
        if let Ok(db) = BisyncStateDb::open(&self.a, &self.b) {
            if let Ok(all) = db.load_all() {
                for (_, (s, d)) in all {
                    for st in [s, d].into_iter().flatten() {
                        let ns = st.mtime.duration_since(UNIX_EPOCH).unwrap().as_nanos() as u64;
                        out.push((st.path.to_string_lossy().to_string(), if st.side == Side::Source { "source" } else { "dest" }, ns, st.size));
                    }
                }
            }
        }
        out.sort();
        out
    }
    /// re-stamp everything the kernel stamped during the sync with the sync's tick; rename the
    /// conflict copies from the wall-clock second to the logical stamp.
    fn canonicalise(&self, tick: u64, stamp: u64) {
        for root in [&self.a, &self.b] {
            for (rel, (_, _, mt)) in snapshot(root) {
                let mut p = root.join(&rel);
                if let Some(newrel) = relabel_conflict(&rel, stamp) {
                    let np = root.join(&newrel);
                    std::fs::rename(&p, &np).unwrap();
                    p = np;
                }
                if mt >= REAL_NS { set_mtime(&p, self.ns(tick)); }
            }
        }
        if let Ok(mut db) = BisyncStateDb::open(&self.a, &self.b) {
            if let Ok(all) = db.load_all() {
                for (_, (s, d)) in all {
                    for st in [s, d].into_iter().flatten() {
                        let ns = st.mtime.duration_since(UNIX_EPOCH).unwrap().as_nanos() as u64;
                        if ns >= REAL_NS {
                            let st2 = SyncState { mtime: UNIX_EPOCH + Duration::from_nanos(self.ns(tick)), ..st };
                            db.store(&st2).unwrap();
                        }
                    }
                }
            }
        }
    }
}

/// `x.conflict-<wall clock secs>-side[.ext]` -> the same with the logical stamp
fn relabel_conflict(rel: &str, stamp: u64) -> Option<String> {
    let key = ".conflict-";
    let i = rel.rfind(key)?;
    let rest = &rel[i + key.len()..];
    let digits: String = rest.chars().take_while(|c| c.is_ascii_digit()).collect();
    if digits.is_empty() { return None; }
    let n: u64 = digits.parse().ok()?;
    if n < 1_000_000_000 { return None; } // already logical
    let after = &rest[digits.len()..];
    if !(after.starts_with("-source") || after.starts_with("-dest")) { return None; }
    Some(format!("{}{}{}{}", &rel[..i], key, stamp, after))
}

#[derive(Default, Debug, Clone)]
pub struct SyncObs {
    pub refused: bool,
    pub failed: Option<String>, // any other Err / non-zero exit
    pub errors: usize,
    pub conflicts: Vec<String>,
    pub to_dest: Option<usize>, pub to_source: Option<usize>, pub del_source: Option<usize>, pub del_dest: Option<usize>,
}

fn sync_inproc(ar: &Arena, strat: &str, md: u8) -> SyncObs {
    let opts = BisyncOptions { conflict_resolution: ConflictResolution::from_str(strat).unwrap(), max_delete_percent: md, dry_run: false, clear_state: false };
    match BisyncEngine::new().sync(&ar.a, &ar.b, opts) {
        Ok(res) => SyncObs {
            refused: false, failed: None, errors: res.errors.len(),
            conflicts: { let mut c: Vec<String> = res.conflicts.iter().map(|c| c.path.to_string_lossy().to_string()).collect(); c.sort(); c },
            to_dest: Some(res.stats.files_synced_to_dest), to_source: Some(res.stats.files_synced_to_source),
            del_source: Some(res.stats.files_deleted_from_source), del_dest: Some(res.stats.files_deleted_from_dest),
        },
        Err(e) => { let m = e.to_string(); if m.contains("Deletion limit exceeded") { SyncObs { refused: true, ..Default::default() } } else { SyncObs { failed: Some(m), ..Default::default() } } }
    }
}

fn sync_binary(ar: &Arena, sy: &str, strat: &str, md: u8) -> SyncObs {
    let out = std::process::Command::new(sy)
        .arg(&ar.a).arg(&ar.b).arg("-b").arg("--conflict-resolve").arg(strat).arg("--max-delete").arg(md.to_string())
        // HOME / XDG_CACHE_HOME / XDG_CONFIG_HOME: the private directories this process set for itself are inherited
        .env_remove("RUST_LOG").env("RUST_BACKTRACE", "0").env("NO_COLOR", "1")
        .output();
    let out = match out { Ok(o) => o, Err(e) => return SyncObs { failed: Some(format!("spawn: {}", e)), ..Default::default() } };
    let so = String::from_utf8_lossy(&out.stdout).to_string();
    let se = String::from_utf8_lossy(&out.stderr).to_string();
    if !out.status.success() {
        if so.contains("Deletion limit exceeded") || se.contains("Deletion limit exceeded") { return SyncObs { refused: true, ..Default::default() }; }
        return SyncObs { failed: Some(format!("exit {:?}: {}", out.status.code(), se.chars().take(300).collect::<String>())), ..Default::default() };
    }
    // "N conflicts detected:" followed by "  <path> - <what>"
    let mut conflicts = Vec::new();
    let mut in_c = false;
    for line in so.lines() {
        if line.contains("conflicts detected:") { in_c = true; continue; }
        if in_c {
            if line.starts_with("  ") { if let Some(i) = line.rfind(" - ") { conflicts.push(line[2..i].to_string()); } } else { in_c = false; }
        }
    }
    conflicts.sort();
    SyncObs { refused: false, failed: None, errors: 0, conflicts, ..Default::default() }
}

// ---------------------------------------------------------------------------------------------
// the model's answer

#[derive(Debug, Clone, Default)]
pub struct Block { pub refused: bool, pub fresh: bool, pub tie: bool, pub errors: usize, pub changes: String, pub actions: String, pub l: String, pub r: String, pub db: String }

pub fn parse_blocks(resp: &str) -> Option<Vec<Block>> {
    if resp == "-" { return Some(vec![]); }
    if resp == "bad-op" { return None; }
    let mut out = Vec::new();
    for b in resp.split(" | ") {
        let mut blk = Block::default();
        for tok in b.split(' ') {
            let (k, v) = tok.split_once('=')?;
            match k {
                "refused" => blk.refused = v == "1", "fresh" => blk.fresh = v == "1", "tie" => blk.tie = v == "1",
                "errors" => blk.errors = v.parse().ok()?, "changes" => blk.changes = v.into(), "actions" => blk.actions = v.into(),
                "L" => blk.l = v.into(), "R" => blk.r = v.into(), "DB" => blk.db = v.into(),
                _ => return None,
            }
        }
        out.push(blk);
    }
    Some(out)
}

fn show_snap(ar: &Arena, s: &Snap) -> String {
    if s.is_empty() { return "-".into(); }
    let mut v: Vec<(String, String)> = s.iter().map(|(p, (cid, sz, mt))| { let h = hex(p.as_bytes()); (h.clone(), format!("{}:{}:{}:{}", h, cid, sz, ar.tick(*mt))) }).collect();
    v.sort();
    v.into_iter().map(|x| x.1).collect::<Vec<_>>().join(",")
}
fn show_rows(ar: &Arena, rows: &[(String, &'static str, u64, u64)]) -> String {
    if rows.is_empty() { return "-".into(); }
    let mut v: Vec<(String, String)> = rows.iter().map(|(p, side, mt, sz)| { let h = hex(p.as_bytes()); (format!("{}{}", h, if *side == "source" { "s" } else { "d" }), format!("{}:{}:{}:{}", h, side, ar.tick(*mt), sz)) }).collect();
    v.sort();
    v.into_iter().map(|x| x.1).collect::<Vec<_>>().join(",")
}
fn count_actions(actions: &str, kind: &str) -> usize { if actions == "-" { 0 } else { actions.split(',').filter(|a| a.split(':').nth(1).map(|k| k.starts_with(kind)).unwrap_or(false)).count() } }
fn conflict_paths(changes: &str) -> Vec<String> {
    if changes == "-" { return vec![]; }
    let mut v: Vec<String> = changes.split(',').filter_map(|c| { let (p, k) = c.split_once(':')?;
        if k == "ModifiedBoth" || k == "CreateCreateConflict" || k == "ModifyDeleteConflict" { Some(String::from_utf8(unhex(p)).unwrap()) } else { None } }).collect();
    v.sort(); v
}
fn unhex(s: &str) -> Vec<u8> { if s == "-" { vec![] } else { (0..s.len() / 2).map(|i| u8::from_str_radix(&s[2 * i..2 * i + 2], 16).unwrap()).collect() } }

// ---------------------------------------------------------------------------------------------
// the reference: a content-based three-way merge, from the property text

type Cmap = BTreeMap<String, u64>;
fn cmap(s: &Snap) -> Cmap { s.iter().map(|(p, v)| (p.clone(), v.0)).collect() }

/// `base` = for every path both sides agreed on at the last sync: (content, mtime) of the left and of
/// the right copy. A side "changed since the last sync" when what it holds now differs from that in
/// content OR in mtime: a `touch` is one of the edit events of the property's alphabet, so a touched
/// side counts as changed (whether it should is where the property text is silent; such cases are
/// counted under the tag `observation.touch-only-side-in-conflict`, never reported as failures).
/// What must be propagated, what may be lost and what "identical" means is judged on content only.
#[derive(Default)]
pub struct Oracle { base: BTreeMap<String, ((u64, u64), (u64, u64))>, pending_converge: bool }

pub struct Fail { pub sig: String, pub what: String }

impl Oracle {
    /// judge one completed, error-free, not refused sync
    fn judge(&mut self, prop: &str, strat: &str, lpre: &Snap, rpre: &Snap, lpost: &Snap, rpost: &Snap, obs: &SyncObs, next_is_sync: bool, tags: &mut Vec<String>) -> Vec<Fail> {
        let mut fails = Vec::new();
        let (l0, r0, l1, r1) = (cmap(lpre), cmap(rpre), cmap(lpost), cmap(rpost));
        let mut paths: BTreeSet<String> = BTreeSet::new();
        for m in [&l0, &r0] { paths.extend(m.keys().cloned()); }
        paths.extend(self.base.keys().cloned());
        let key = |s: &Snap, p: &str| s.get(p).map(|v| (v.0, v.2));
        let mut any_change = false;
        let mut two_sided: BTreeSet<String> = BTreeSet::new();
        let mut changed: BTreeMap<String, (bool, bool)> = BTreeMap::new();
        for p in &paths {
            let (bl, br) = match self.base.get(p) { Some((a, b)) => (Some(*a), Some(*b)), None => (None, None) };
            let b = bl.map(|x| x.0); // the agreed content
            let (l, r) = (l0.get(p), r0.get(p));
            let (cl, cr) = (key(lpre, p) != bl, key(rpre, p) != br);
            changed.insert(p.clone(), (cl, cr));
            if cl || cr { any_change = true; }
            if cl && cr {
                two_sided.insert(p.clone());
                if l.cloned() == b || r.cloned() == b { tags.push("observation.touch-only-side-in-conflict".into()); }
            }
            if prop == "C12" {
                // "a creation, modification or deletion made on exactly one side since the last sync is
                //  propagated to the other side whatever the conflict strategy: a deleted file is not
                //  resurrected and an edit is not reverted"
                if cl != cr {
                    let want = if cl { l } else { r };
                    if l1.get(p) != want || r1.get(p) != want {
                        let sig = if want.is_none() { "C12/resurrect-after-one-sided-delete" }
                            else if b.is_none() { if l1.get(p).is_none() && r1.get(p).is_none() { "C12/one-sided-create-deleted" } else { "C12/one-sided-create-not-propagated" } }
                            else if l1.get(p) == r1.get(p) { "C12/one-sided-edit-reverted-by-strategy" }
                            else { "C12/one-sided-edit-not-propagated" };
                        fails.push(Fail { sig: sig.into(), what: format!("path {}: changed on the {} only; base={:?} left={:?} right={:?} -> left={:?} right={:?} (strategy {})", p, if cl { "left" } else { "right" }, b, l, r, l1.get(p), r1.get(p), strat) });
                    }
                }
                // "a sync with no intervening change performs no action" (per path)
                if !cl && !cr && (lpost.get(p) != lpre.get(p) || rpost.get(p) != rpre.get(p)) {
                    fails.push(Fail { sig: "C12/unchanged-path-modified".into(), what: format!("path {} unchanged on both sides but {:?}/{:?} -> {:?}/{:?}", p, lpre.get(p), rpre.get(p), lpost.get(p), rpost.get(p)) });
                }
            }
        }
        if prop == "C12" {
            // "only paths changed on both sides are treated as conflicts"
            for c in &obs.conflicts {
                if !two_sided.contains(c) {
                    fails.push(Fail { sig: "C12/one-sided-change-treated-as-conflict".into(), what: format!("path {} reported as conflict; changed (left,right)={:?}; left={:?} right={:?}", c, changed.get(c), l0.get(c), r0.get(c)) });
                }
            }
            if !any_change && (lpre != lpost || rpre != rpost) {
                fails.push(Fail { sig: "C12/idle-sync-acted".into(), what: "no change since the last sync but a root was modified".into() });
            }
        }
        if prop == "C11" {
            let renamed = l1.keys().chain(r1.keys()).any(|k| k.contains(".conflict-") && !l0.contains_key(k) && !r0.contains_key(k));
            // "both roots contain the same set of files with identical contents (after at most one further
            //  sync when the rename strategy produced conflict copies)"
            if l1 != r1 && (!renamed || self.pending_converge) {
                let p = paths.iter().chain(l1.keys()).chain(r1.keys()).find(|p| l1.get(*p) != r1.get(*p)).unwrap().clone();
                let eqsize = match (lpost.get(&p), rpost.get(&p)) { (Some(a), Some(b)) => a.1 == b.1, _ => false };
                fails.push(Fail { sig: if eqsize { "C11/equal-size-different-content".into() } else { "C11/not-converged".into() },
                    what: format!("after the sync path {} holds {:?} on the left and {:?} on the right", p, l1.get(&p), r1.get(&p)) });
            }
            self.pending_converge = renamed && l1 != r1 && next_is_sync;
            // "every file version present before the run still exists afterwards on at least one side, as
            //  the path's content or as a conflict copy"
            let post: BTreeSet<u64> = l1.values().chain(r1.values()).cloned().collect();
            for (side, pre, presnap) in [("left", &l0, lpre), ("right", &r0, rpre)] {
                for (p, v) in pre.iter() {
                    if post.contains(v) { continue; }
                    let other = if side == "left" { r0.get(p) } else { l0.get(p) };
                    let othersnap = if side == "left" { rpre.get(p) } else { lpre.get(p) };
                    let (cl, cr) = changed.get(p).cloned().unwrap_or((true, true));
                    let (mine_changed, other_changed) = if side == "left" { (cl, cr) } else { (cr, cl) };
                    // "unless it was the previously synchronised version superseded by a one-sided change"
                    if !mine_changed && other_changed { continue; }
                    // "or the loser explicitly chosen by the selected resolution strategy"
                    if mine_changed && other_changed {
                        let me = presnap.get(p).unwrap();
                        let loses = match (strat, othersnap) {
                            ("source", _) => side == "right",
                            ("dest", _) => side == "left",
                            ("newer", Some(o)) => me.2 < o.2,
                            ("larger", Some(o)) => me.1 < o.1,
                            ("smaller", Some(o)) => me.1 > o.1,
                            _ => false,
                        };
                        if loses { continue; }
                    }
                    let sig = match (mine_changed, other_changed) {
                        (true, false) => "C11/silent-loss/one-sided-change-overwritten",
                        (true, true) => "C11/silent-loss/conflict-version-not-the-chosen-loser",
                        (false, false) => "C11/silent-loss/unchanged-version-lost",
                        (false, true) => unreachable!(),
                    };
                    fails.push(Fail { sig: sig.into(), what: format!("version {} ({} of {}) exists nowhere after the sync; other side={:?}; changed (mine,other)=({},{}); strategy {}", v, side, p, other, mine_changed, other_changed, strat) });
                }
            }
        }
        // the new agreed base: paths holding one content on both sides
        self.base = lpost.iter().filter_map(|(p, a)| rpost.get(p).filter(|b| b.0 == a.0).map(|b| (p.clone(), ((a.0, a.2), (b.0, b.2))))).collect();
        fails
    }
}

// ---------------------------------------------------------------------------------------------
// one history on real directories vs the model

pub struct CaseOut { pub disagreements: Vec<serde_json::Value>, pub fails: Vec<Fail>, pub tags: Vec<String>, pub syncs: usize, pub nontrivial: bool }

pub fn run_case(prop: &str, cfg: &str, h: &[Ev], dir: &Path, gap: u64, binary: Option<&str>, drv: &mut Driver) -> CaseOut {
    let mut out = CaseOut { disagreements: vec![], fails: vec![], tags: vec![], syncs: 0, nontrivial: false };
    let resp = drv.ask(&format!("bisync.history {} {}", cfg, encode(h)));
    let blocks = match parse_blocks(&resp) { Some(b) => b, None => { out.disagreements.push(json!({"stream":"history","history":show_history(h),"model":resp})); return out; } };
    let ar = Arena::new(dir, gap);
    let mut oracle = Oracle::default();
    let mut k = 0usize;
    let mode = if binary.is_some() { "binary" } else { "inproc" };
    for (i, ev) in h.iter().enumerate() {
        let tick = i as u64 + 1;
        match ev {
            Ev::Edit(left, p, op) => ar.edit(*left, p, *op, tick),
            Ev::Sync(strat, md) => {
                let (lpre, rpre) = (snapshot(&ar.a), snapshot(&ar.b));
                let obs = match binary { Some(sy) => sync_binary(&ar, sy, strat, *md), None => sync_inproc(&ar, strat, *md) };
                ar.canonicalise(tick, stamp_of(i));
                let (lpost, rpost) = (snapshot(&ar.a), snapshot(&ar.b));
                let rows = ar.rows();
                let blk = &blocks[k];
                k += 1;
                out.syncs += 1;
                let ctx = |what: &str, imp: String, model: String| json!({"stream": format!("history.{}", mode), "what": what, "history": show_history(h), "sync_index": k, "cfg": cfg, "gap": gap, "impl": imp, "model": model});
                if let Some(f) = &obs.failed { out.disagreements.push(ctx("sync failed", f.clone(), "ok".into())); break; }
                if !blk.fresh { out.tags.push("stamp-not-fresh".into()); }
                if blk.tie { out.tags.push("deletion-limit-tie".into()); }
                if obs.refused != blk.refused && !blk.tie { out.disagreements.push(ctx("refused", obs.refused.to_string(), blk.refused.to_string())); }
                let (il, ir, idb) = (show_snap(&ar, &lpost), show_snap(&ar, &rpost), show_rows(&ar, &rows));
                if il != blk.l { out.disagreements.push(ctx("left root", il, blk.l.clone())); }
                if ir != blk.r { out.disagreements.push(ctx("right root", ir, blk.r.clone())); }
                if idb != blk.db { out.disagreements.push(ctx("state rows", idb, blk.db.clone())); }
                if obs.errors != blk.errors { out.disagreements.push(ctx("error count", obs.errors.to_string(), blk.errors.to_string())); }
                if !obs.refused {
                    let mc = conflict_paths(&blk.changes);
                    if mc != obs.conflicts { out.disagreements.push(ctx("conflict list", format!("{:?}", obs.conflicts), format!("{:?}", mc))); }
                    if let Some(n) = obs.to_dest { let m = count_actions(&blk.actions, "CopyToDest") + count_actions(&blk.actions, "RenameConflict"); if n != m { out.disagreements.push(ctx("files_synced_to_dest", n.to_string(), m.to_string())); } }
                    if let Some(n) = obs.to_source { let m = count_actions(&blk.actions, "CopyToSource") + count_actions(&blk.actions, "RenameConflict"); if n != m { out.disagreements.push(ctx("files_synced_to_source", n.to_string(), m.to_string())); } }
                    if let Some(n) = obs.del_source { let m = count_actions(&blk.actions, "DeleteFromSource"); if n != m { out.disagreements.push(ctx("files_deleted_from_source", n.to_string(), m.to_string())); } }
                    if let Some(n) = obs.del_dest { let m = count_actions(&blk.actions, "DeleteFromDest"); if n != m { out.disagreements.push(ctx("files_deleted_from_dest", n.to_string(), m.to_string())); } }
                }
                // branch tags from the model's verdicts
                if blk.refused { out.tags.push("refused".into()); }
                for c in blk.changes.split(',').filter(|c| *c != "-") { if let Some((_, kind)) = c.split_once(':') { out.tags.push(format!("verdict.{}", kind)); out.nontrivial = true; } }
                for a in blk.actions.split(',').filter(|c| *c != "-") { if let Some((_, kind)) = a.split_once(':') { out.tags.push(format!("action.{}", kind.split('@').next().unwrap())); } }
                if blk.changes == "-" { out.tags.push("verdict.none".into()); }
                // oracle
                if !obs.refused && obs.errors == 0 {
                    let next_is_sync = matches!(h.get(i + 1), Some(Ev::Sync(..)));
                    let mut otags = Vec::new();
                    out.fails.extend(oracle.judge(prop, strat, &lpre, &rpre, &lpost, &rpost, &obs, next_is_sync, &mut otags));
                    out.tags.extend(otags);
                }
            }
        }
    }
    // drop this pair's state database
    if let (Ok(db), Ok(cache)) = (BisyncStateDb::open(&ar.a, &ar.b), std::env::var("XDG_CACHE_HOME")) {
        let f = Path::new(&cache).join("sy").join("bisync").join(format!("{}.db", db.sync_pair_hash()));
        drop(db);
        let _ = std::fs::remove_file(f);
    }
    let _ = std::fs::remove_dir_all(dir);
    out
}

// ---------------------------------------------------------------------------------------------
// which code is linked? (tree as shipped, or with the repairs)

pub fn detect_cfg(work: &Path) -> String {
    // fixContent: equal size, different content, no prior state -> acted upon?
    let ar = Arena::new(&work.join("probe1"), 1_000_000_000);
    ar.edit(true, "g", Op::Create(3), 1);
    ar.edit(false, "g", Op::Create(3), 2);
    let _ = sync_inproc(&ar, "newer", 0);
    let fix_content = cmap(&snapshot(&ar.a)) == cmap(&snapshot(&ar.b));
    // fixState: after a plain copy, how many rows?
    let ar2 = Arena::new(&work.join("probe2"), 1_000_000_000);
    ar2.edit(true, "f", Op::Create(3), 1);
    let _ = sync_inproc(&ar2, "newer", 0);
    let fix_state = ar2.rows().len() == 2;
    let _ = std::fs::remove_dir_all(work.join("probe1"));
    let _ = std::fs::remove_dir_all(work.join("probe2"));
    format!("{}{}", if fix_content { 1 } else { 0 }, if fix_state { 1 } else { 0 })
}

// ---------------------------------------------------------------------------------------------
// pure differential

fn fe(rel: &str, abs: PathBuf, size: u64, mtime: u64, is_dir: bool) -> FileEntry {
    FileEntry { path: abs, relative_path: PathBuf::from(rel), size, modified: UNIX_EPOCH + Duration::from_nanos(BASE_NS + mtime), is_dir, is_symlink: false,
        symlink_target: None, is_sparse: false, allocated_size: size, xattrs: None, inode: None, nlink: 1, acls: None, bsd_flags: None }
}
fn st(rel: &str, side: Side, mtime: u64, size: u64) -> SyncState {
    SyncState { path: PathBuf::from(rel), side, mtime: UNIX_EPOCH + Duration::from_nanos(BASE_NS + mtime), size, checksum: None, last_sync: UNIX_EPOCH }
}
fn ct_name(c: &ChangeType) -> &'static str {
    match c { ChangeType::NewInSource => "NewInSource", ChangeType::NewInDest => "NewInDest", ChangeType::ModifiedInSource => "ModifiedInSource",
        ChangeType::ModifiedInDest => "ModifiedInDest", ChangeType::DeletedFromSource => "DeletedFromSource", ChangeType::DeletedFromDest => "DeletedFromDest",
        ChangeType::ModifiedBoth => "ModifiedBoth", ChangeType::CreateCreateConflict => "CreateCreateConflict", ChangeType::ModifyDeleteConflict => "ModifyDeleteConflict" }
}
const CTS: [ChangeType; 9] = [ChangeType::NewInSource, ChangeType::NewInDest, ChangeType::ModifiedInSource, ChangeType::ModifiedInDest, ChangeType::DeletedFromSource,
    ChangeType::DeletedFromDest, ChangeType::ModifiedBoth, ChangeType::CreateCreateConflict, ChangeType::ModifyDeleteConflict];
fn act_name(a: &SyncAction) -> &'static str {
    match a { SyncAction::CopyToSource(_) => "CopyToSource", SyncAction::CopyToDest(_) => "CopyToDest", SyncAction::DeleteFromSource(_) => "DeleteFromSource",
        SyncAction::DeleteFromDest(_) => "DeleteFromDest", SyncAction::RenameConflict { .. } => "RenameConflict" }
}
fn strip_stamp(s: &str) -> String { // RenameConflict@123 -> RenameConflict
    let mut out = String::new(); let mut skip = false;
    for c in s.chars() { if c == '@' { skip = true; continue; } if skip && c.is_ascii_digit() { continue; } skip = false; out.push(c); }
    out
}

/// abstract entry of the small universe: (size, mtime, is_dir, content id or unreadable)
#[derive(Clone, Copy, Debug)]
struct AE { size: u64, mtime: u64, dir: bool, content: Option<u64> }
fn ae_str(e: &Option<AE>) -> String { match e { None => "-".into(), Some(e) => format!("{}:{}:{}:{}", e.size, e.mtime, if e.dir { 1 } else { 0 }, e.content.map(|c| c.to_string()).unwrap_or("-".into())) } }
fn row_str(r: &Option<(u64, u64)>) -> String { match r { None => "-".into(), Some((m, s)) => format!("{}:{}", m, s) } }

struct Pure { dir: PathBuf }
impl Pure {
    /// a real file holding content id `c` of `size` bytes, or a path that does not exist
    fn abs(&self, e: &AE) -> PathBuf {
        match e.content { Some(c) => { let p = self.dir.join(format!("c{}_s{}", c, e.size)); if !p.exists() { std::fs::write(&p, format!("{:0>w$}", c, w = e.size as usize)).unwrap(); } p }
                          None => self.dir.join("does-not-exist") }
    }
    fn entry(&self, rel: &str, e: &AE) -> FileEntry { fe(rel, self.abs(e), e.size, e.mtime, e.dir) }
}

fn pure_stream(rep: &mut Report, cfg: &str, thorough: bool, rng: &mut Rng, drv: &mut Driver, work: &Path) {
    let dir = work.join("pure"); std::fs::create_dir_all(&dir).unwrap();
    let pu = Pure { dir };
    // universe
    let mut entries: Vec<Option<AE>> = vec![None];
    for size in [3u64, 4] { for mtime in [10u64, 20, 30] { for content in [Some(1u64), Some(2), None] { entries.push(Some(AE { size, mtime, dir: false, content })); } } }
    entries.push(Some(AE { size: 0, mtime: 20, dir: true, content: None }));
    let mut rows: Vec<Option<(u64, u64)>> = vec![None];
    for m in [10u64, 20, 30] { for s in [3u64, 4] { rows.push(Some((m, s))); } }
    // (a) classify: exhaustive
    for s in &entries { for d in &entries { for ps in &rows { for pd in &rows {
        let src: Vec<FileEntry> = s.iter().map(|e| pu.entry("x", e)).collect();
        let dst: Vec<FileEntry> = d.iter().map(|e| pu.entry("x", e)).collect();
        let mut prior: HashMap<PathBuf, (Option<SyncState>, Option<SyncState>)> = HashMap::new();
        if ps.is_some() || pd.is_some() { prior.insert(PathBuf::from("x"), (ps.map(|(m, z)| st("x", Side::Source, m, z)), pd.map(|(m, z)| st("x", Side::Dest, m, z)))); }
        let imp = match classify_changes(&src, &dst, &prior) { Ok(cs) => match cs.len() { 0 => "none".to_string(), 1 => ct_name(&cs[0].change_type).to_string(), n => format!("{}-changes", n) }, Err(e) => format!("err {}", e) };
        let req = format!("bisync.classify {} {} {} {} {}", cfg, ae_str(s), ae_str(d), row_str(ps), row_str(pd));
        let m = drv.ask(&req);
        let (mv, tag) = m.split_once(" tag=").unwrap_or((&m, "?"));
        rep.tag(&format!("classify.{}", tag)); rep.tag(&format!("verdict.{}", mv));
        rep.case(req.as_bytes(), mv != "none");
        if mv != imp { rep.disagree(json!({"stream":"pure.classify","request":req,"impl":imp,"model":mv})); }
    } } } }
    // (b) resolve: exhaustive over strategy x verdict x entries (mtime/size ties included)
    let small: Vec<Option<AE>> = entries.iter().filter(|e| e.map(|e| !e.dir && e.content == Some(1)).unwrap_or(true)).cloned().collect();
    for strat in STRATS { for ct in CTS.iter() { for s in &small { for d in &small {
        if s.is_none() && d.is_none() && strat == "rename" && matches!(ct, ChangeType::ModifiedBoth | ChangeType::CreateCreateConflict | ChangeType::ModifyDeleteConflict) {
            rep.tag("resolve.skipped-unwrap-on-none"); continue; // resolver.rs:154 `dest.unwrap()` — unreachable from the classifier
        }
        let ch = Change { path: PathBuf::from("x"), change_type: ct.clone(), source_entry: s.map(|e| pu.entry("x", &e)), dest_entry: d.map(|e| pu.entry("x", &e)) };
        let res = resolve_changes(vec![ch], ConflictResolution::from_str(strat).unwrap()).unwrap();
        let imp = match res.actions.len() { 0 => "none".to_string(), 1 => act_name(&res.actions[0]).to_string(), n => format!("{}-actions", n) };
        let req = format!("bisync.resolve {} 7 {} {} {}", strat, ct_name(ct), ae_str(s), ae_str(d));
        let m = strip_stamp(&drv.ask(&req));
        rep.tag(&format!("resolve.{}.{}", strat, m));
        rep.case(req.as_bytes(), true);
        if m != imp { rep.disagree(json!({"stream":"pure.resolve","request":req,"impl":imp,"model":m})); }
    } } } }
    // (c) whole plans over several paths: pairing of prior rows by path, union of path sets, counters
    let n_plans = if thorough { 6000 } else { 1200 };
    let names = ["f", "g.txt", "d/h", "a b.tar.gz", ".hid"];
    for _ in 0..n_plans {
        let np = rng.range(1, 4) as usize;
        let mut src = Vec::new(); let mut dst = Vec::new(); let mut prior: HashMap<PathBuf, (Option<SyncState>, Option<SyncState>)> = HashMap::new();
        let (mut ssrc, mut sdst, mut sprior) = (Vec::new(), Vec::new(), Vec::new());
        for name in names.iter().take(np) {
            let s = rng.pick(&entries).clone(); let d = rng.pick(&entries).clone();
            let (ps, pd) = if rng.chance(1, 3) { (None, None) } else if rng.chance(3, 4) { (rng.pick(&rows[1..]).clone(), rng.pick(&rows[1..]).clone()) } else { (rng.pick(&rows).clone(), rng.pick(&rows).clone()) };
            let h = hex(name.as_bytes());
            if let Some(e) = &s { src.push(pu.entry(name, e)); ssrc.push(format!("{}={}", h, ae_str(&s))); }
            if let Some(e) = &d { dst.push(pu.entry(name, e)); sdst.push(format!("{}={}", h, ae_str(&d))); }
            if ps.is_some() || pd.is_some() { prior.insert(PathBuf::from(name), (ps.map(|(m, z)| st(name, Side::Source, m, z)), pd.map(|(m, z)| st(name, Side::Dest, m, z))));
                sprior.push(format!("{}={}|{}", h, row_str(&ps), row_str(&pd))); }
        }
        let strat = *rng.pick(&STRATS);
        let j = |v: &Vec<String>| if v.is_empty() { "-".to_string() } else { v.join(";") };
        let req = format!("bisync.plan {} {} 7 0 {} {} {}", cfg, strat, j(&ssrc), j(&sdst), j(&sprior));
        let changes = classify_changes(&src, &dst, &prior).unwrap();
        let unwrap_trap = strat == "rename" && changes.iter().any(|c| c.source_entry.is_none() && c.dest_entry.is_none());
        if unwrap_trap { continue; }
        let mut items: Vec<(String, String)> = Vec::new();
        for c in &changes {
            let r = resolve_changes(vec![c.clone()], ConflictResolution::from_str(strat).unwrap()).unwrap();
            let a = r.actions.first().map(|a| act_name(a)).unwrap_or("none");
            let h = hex(c.path.to_string_lossy().as_bytes());
            items.push((h.clone(), format!("{}:{}:{}", h, ct_name(&c.change_type), a)));
        }
        items.sort();
        let all = resolve_changes(changes.clone(), ConflictResolution::from_str(strat).unwrap()).unwrap();
        let imp = format!("{} resolved={} renamed={}", if items.is_empty() { "-".to_string() } else { items.iter().map(|x| x.1.clone()).collect::<Vec<_>>().join(";") }, all.conflicts_resolved, all.conflicts_renamed);
        let m = strip_stamp(&drv.ask(&req));
        let mcut = m.split(" refused=").next().unwrap_or("").to_string();
        rep.tag("plan"); rep.case(req.as_bytes(), !items.is_empty());
        if mcut != imp { rep.disagree(json!({"stream":"pure.plan","request":req,"impl":imp,"model":mcut})); }
    }
    // (d) conflict_filename
    for name in ["f", "g.txt", "d/h", "d/e/a b.tar.gz", ".hid", "d/.hid.x", "x.", "a.b.c", "dir.d/plain", "..x", "n.", "sp ace.t x"] {
        for (side, stamp) in [("source", 1234567890u64), ("dest", 7)] {
            let imp = conflict_filename(&PathBuf::from(name), &stamp.to_string(), side).to_string_lossy().to_string();
            let m = drv.ask(&format!("bisync.conflictname {} {} {}", hex(name.as_bytes()), stamp, side));
            rep.tag("conflictname"); rep.case(format!("cn{}{}", name, side).as_bytes(), true);
            if m != hex(imp.as_bytes()) { rep.disagree(json!({"stream":"pure.conflictname","name":name,"side":side,"impl":imp,"model":String::from_utf8_lossy(&unhex(&m)).to_string()})); }
        }
    }
    // malformed requests are rejected, never defaulted
    for bad in ["bisync.classify 00 3:1 - - -", "bisync.classify 2x - - - -", "bisync.resolve sometimes 7 ModifiedBoth - -", "bisync.history 11 eL:zz:c3", "bisync.history 11 s:newer:0", "bisync.plan 11 newer 7 0 66 - -", "bisync.nothing"] {
        let m = drv.ask(bad); rep.tag("malformed");
        if m != "bad-op" { rep.disagree(json!({"stream":"pure.malformed","request":bad,"model":m})); }
    }
}

// ---------------------------------------------------------------------------------------------
// history generators

fn corpus() -> Vec<(&'static str, Vec<Ev>)> {
    let e = |l: bool, p: &str, op: Op| Ev::Edit(l, p.to_string(), op);
    vec![
        ("A8-resurrect", vec![e(true, "f.txt", Op::Create(6)), Ev::Sync("newer", 0), e(true, "f.txt", Op::Delete), Ev::Sync("newer", 0), Ev::Sync("newer", 0)]),
        ("A9-equal-size", vec![e(true, "g", Op::Create(3)), e(false, "g", Op::Create(3)), Ev::Sync("newer", 0), Ev::Sync("newer", 0)]),
        ("A16-revert", vec![e(true, "f.txt", Op::Create(6)), Ev::Sync("dest", 0), e(true, "f.txt", Op::ModSize), Ev::Sync("dest", 0), Ev::Sync("dest", 0)]),
        ("same-size-edit", vec![e(true, "f", Op::Create(3)), Ev::Sync("newer", 0), e(false, "f", Op::ModSame), Ev::Sync("source", 0), Ev::Sync("source", 0)]),
        ("rename-then-converge", vec![e(true, "d/a b.tar.gz", Op::Create(3)), e(false, "d/a b.tar.gz", Op::Create(4)), Ev::Sync("rename", 0), Ev::Sync("rename", 0), Ev::Sync("newer", 0)]),
        ("both-deleted-then-recreated", vec![e(true, "f", Op::Create(3)), Ev::Sync("newer", 0), e(true, "f", Op::Delete), e(false, "f", Op::Delete), Ev::Sync("newer", 0), e(true, "f", Op::Create(3)), Ev::Sync("dest", 0), Ev::Sync("dest", 0)]),
        ("deletion-limit", vec![e(true, "f", Op::Create(3)), e(true, "g", Op::Create(3)), Ev::Sync("newer", 50), e(true, "f", Op::Delete), Ev::Sync("newer", 50), e(false, "g", Op::ModSize), Ev::Sync("newer", 50), Ev::Sync("newer", 50)]),
        ("touch-both", vec![e(true, "f", Op::Create(3)), Ev::Sync("newer", 0), e(true, "f", Op::Touch), e(false, "f", Op::Touch), Ev::Sync("larger", 0), e(true, "f", Op::ModSame), Ev::Sync("smaller", 0), Ev::Sync("smaller", 0)]),
    ]
}

/// presence of `path` on (left, right) after the model ran `h`
fn presence(drv: &mut Driver, cfg: &str, h: &[Ev], path: &str, memo: &mut HashMap<String, (bool, bool)>) -> (bool, bool) {
    // replay the edits after the last sync on top of the last block
    let enc = encode(h);
    if let Some(v) = memo.get(&enc) { return *v; }
    let resp = drv.ask(&format!("bisync.history {} {}", cfg, enc));
    let blocks = parse_blocks(&resp).unwrap_or_default();
    let hp = hex(path.as_bytes());
    let has = |s: &str| s != "-" && s.split(',').any(|it| it.split(':').next() == Some(hp.as_str()));
    let (mut l, mut r) = blocks.last().map(|b| (has(&b.l), has(&b.r))).unwrap_or((false, false));
    let last_sync = h.iter().rposition(|e| matches!(e, Ev::Sync(..))).map(|i| i + 1).unwrap_or(0);
    for ev in &h[last_sync..] {
        if let Ev::Edit(left, p, op) = ev { if p == path {
            let cur = if *left { &mut l } else { &mut r };
            match op { Op::Create(_) => *cur = true, Op::Delete => *cur = false, _ => {} }
        } }
    }
    memo.insert(enc, (l, r));
    (l, r)
}

fn applicable(present: bool) -> Vec<Op> {
    if present { vec![Op::Nothing, Op::ModSize, Op::ModSame, Op::Delete, Op::Touch] } else { vec![Op::Nothing, Op::Create(3), Op::Create(4)] }
}

/// all histories of exactly `depth` rounds (left edit, right edit, sync) over one path, one strategy
fn enumerate(drv: &mut Driver, cfg: &str, path: &str, strat: &'static str, depth: usize, double_last: bool, out: &mut Vec<Vec<Ev>>) {
    let mut memo = HashMap::new();
    let mut frontier: Vec<Vec<Ev>> = vec![vec![]];
    for round in 0..depth {
        let mut next = Vec::new();
        for h in &frontier {
            let (pl, pr) = presence(drv, cfg, h, path, &mut memo);
            for lo in applicable(pl) { for ro in applicable(pr) {
                if round == 0 && lo == Op::Nothing && ro == Op::Nothing { continue; }
                let mut h2 = h.clone();
                if lo != Op::Nothing { h2.push(Ev::Edit(true, path.to_string(), lo)); }
                if ro != Op::Nothing { h2.push(Ev::Edit(false, path.to_string(), ro)); }
                h2.push(Ev::Sync(strat, 0));
                next.push(h2);
            } }
        }
        frontier = next;
    }
    for mut h in frontier { if double_last { h.push(Ev::Sync(strat, 0)); } out.push(h); }
}

fn random_history(rng: &mut Rng, paths: &[&str], len: usize, double_sync: bool) -> Vec<Ev> {
    let mut h = Vec::new();
    let ops = [Op::Create(3), Op::Create(4), Op::Create(3), Op::ModSize, Op::ModSame, Op::Delete, Op::Touch, Op::ModSize, Op::ModSame];
    while h.len() < len {
        if !h.is_empty() && rng.chance(1, 3) {
            let s = *rng.pick(&STRATS);
            let md = *rng.pick(&[0u8, 0, 0, 0, 50, 100, 34]);
            h.push(Ev::Sync(s, md));
            if double_sync && rng.chance(1, 2) { h.push(Ev::Sync(s, md)); }
        } else {
            h.push(Ev::Edit(rng.chance(1, 2), rng.pick(paths).to_string(), *rng.pick(&ops)));
        }
    }
    let s = *rng.pick(&STRATS);
    h.push(Ev::Sync(s, 0));
    if double_sync { h.push(Ev::Sync(s, 0)); }
    h
}

// ---------------------------------------------------------------------------------------------

pub fn run(prop: &str, tier: &str, seed: u64, driver_path: &str, work: &Path, sy_bin: &str, replay: Option<&str>) -> Report {
    let mut rep = Report::default();
    rep.rule = "pure: (entry, entry, row, row) tuples / (strategy, verdict, entries) / multi-path plans — non-trivial when the verdict is not `none`; engine: histories of edits and syncs on real directories — distinct = distinct encoded history, non-trivial when at least one sync saw a change".into();
    let thorough = tier == "thorough";
    let _ = std::fs::remove_dir_all(work);
    std::fs::create_dir_all(work).unwrap();
    // private cache for the in-process engine and for sy's own DB API
    let home = work.join("home-inproc");
    std::fs::create_dir_all(&home).unwrap();
    std::env::set_var("HOME", &home);
    std::env::set_var("XDG_CACHE_HOME", home.join("cache"));
    std::env::set_var("XDG_CONFIG_HOME", home.join("config"));
    let mut rng = Rng::new(seed ^ if prop == "C11" { 0x11 } else { 0x12 });
    let mut drv = Driver::spawn(driver_path).expect("spawn sydriver");

    // ns-precision probe
    let probe = work.join("ns-probe"); std::fs::write(&probe, b"x").unwrap(); set_mtime(&probe, BASE_NS + 1);
    let ns_ok = std::fs::metadata(&probe).unwrap().modified().unwrap().duration_since(UNIX_EPOCH).unwrap().as_nanos() as u64 == BASE_NS + 1;
    if !ns_ok { rep.skipped.push("work directory does not keep nanosecond mtimes: 1 ns / 1 µs gaps skipped".into()); }
    let gaps: Vec<u64> = if ns_ok { vec![1, 1_000, 1_000_000_000] } else { vec![1_000_000_000] };

    let cfg = detect_cfg(work);
    rep.tag(&format!("impl-variant.{}", cfg));

    // ---- replay of one recorded case (check.py --replay F / corpus/<id>/*.json) ----
    if let Some(file) = replay {
        let v: serde_json::Value = std::fs::read_to_string(file).ok().and_then(|t| serde_json::from_str(&t).ok()).unwrap_or(json!({}));
        let input = [v.pointer("/failure/input"), v.pointer("/input"), Some(&v)].into_iter().flatten().find(|x| x.get("encoded").is_some()).cloned();
        let hist = input.as_ref().and_then(|i| i.get("encoded")).and_then(|e| e.as_str()).and_then(decode);
        match (input, hist) {
            (Some(input), Some(h)) => {
                let gap = input.get("gap_ns").and_then(|g| g.as_u64()).filter(|g| *g > 0 && (ns_ok || *g >= 1_000_000_000)).unwrap_or(1_000_000_000);
                let want_bin = input.get("binary").and_then(|b| b.as_bool()).unwrap_or(false) && Path::new(sy_bin).exists();
                for bin in [false, true] {
                    if bin && !want_bin { continue; }
                    let out = run_case(prop, &cfg, &h, &work.join(if bin { "replay-bin" } else { "replay" }), gap, if bin { Some(sy_bin) } else { None }, &mut drv);
                    rep.tag("replay"); rep.case(encode(&h).as_bytes(), out.nontrivial);
                    rep.sample(json!({"replayed": show_history(&h), "binary": bin, "gap_ns": gap, "variant": cfg}));
                    for d in out.disagreements { rep.disagree(d); }
                    for f in out.fails { rep.oracle_fail(&f.sig, &f.what, json!({"history": show_history(&h), "encoded": encode(&h), "cfg": cfg, "binary": bin, "gap_ns": gap})); }
                }
            }
            _ => rep.skipped.push(format!("replay file {} holds no encoded bisync history", file)),
        }
        let _ = std::fs::remove_dir_all(work);
        return rep;
    }

    // ---- stream 1: pure ----
    pure_stream(&mut rep, &cfg, thorough, &mut rng, &mut drv, work);

    // ---- stream 2: histories ----
    let double = prop == "C11";
    let mut cases: Vec<(String, Vec<Ev>, bool)> = Vec::new(); // (kind, history, through the binary)
    for (name, h) in corpus() { cases.push((format!("corpus.{}", name), h.clone(), false)); cases.push((format!("corpus.{}", name), h, true)); }
    let mut exh: Vec<Vec<Ev>> = Vec::new();
    for strat in STRATS {
        for d in 1..=2 { enumerate(&mut drv, &cfg, "f", strat, d, double, &mut exh); }
        let mut d3 = Vec::new();
        enumerate(&mut drv, &cfg, "f", strat, 3, double, &mut d3);
        if thorough { exh.extend(d3); } else {
            // quick tier: the depth-3 layer is thinned deterministically by seed (every history of depth <= 2 is kept)
            for (i, h) in d3.into_iter().enumerate() { if (i as u64 + seed) % 6 == 0 { exh.push(h); } }
        }
    }
    if thorough {
        let mut d4 = Vec::new();
        for strat in STRATS { enumerate(&mut drv, &cfg, "f", strat, 4, double, &mut d4); }
        let n = d4.len() as u64;
        for _ in 0..6000.min(n) { let i = rng.below(n) as usize; exh.push(d4[i].clone()); }
    }
    for h in exh { cases.push(("exhaustive".into(), h, false)); }
    let n_rand = if thorough { 4000 } else { 500 };
    for i in 0..n_rand {
        let two = i % 2 == 1;
        let paths: Vec<&str> = if two { vec!["f", "d/a b.tar.gz"] } else { vec![*rng.pick(&["f", "g.txt", ".hid", "d/h"])] };
        let len = rng.range(3, if thorough { 14 } else { 10 }) as usize;
        let h = random_history(&mut rng, &paths, len, double);
        cases.push((if two { "random.two-paths".into() } else { "random.one-path".into() }, h, false));
    }
    let n_bin = if thorough { 600 } else { 100 };
    for _ in 0..n_bin {
        let paths: Vec<&str> = vec!["f", "d/a b.tar.gz"];
        let len = rng.range(3, 9) as usize;
        let h = random_history(&mut rng, &paths, len, double);
        cases.push(("random.binary".into(), h, true));
    }
    if !Path::new(sy_bin).exists() { rep.skipped.push(format!("sy binary not found at {}: binary-level histories skipped", sy_bin)); cases.retain(|c| !c.2); }

    // run on a pool of workers, each with its own driver and directory
    let n_workers = std::thread::available_parallelism().map(|n| n.get()).unwrap_or(4).min(12).max(2);
    let queue: Arc<Mutex<Vec<(usize, String, Vec<Ev>, bool, u64)>>> = Arc::new(Mutex::new(Vec::new()));
    { let mut q = queue.lock().unwrap(); for (i, (kind, h, bin)) in cases.into_iter().enumerate() { let gap = gaps[(i + seed as usize) % gaps.len()]; q.push((i, kind, h, bin, gap)); } q.reverse(); }
    let results: Arc<Mutex<Vec<(usize, String, Vec<Ev>, bool, u64, CaseOut)>>> = Arc::new(Mutex::new(Vec::new()));
    std::thread::scope(|sc| {
        for wi in 0..n_workers {
            let queue = queue.clone(); let results = results.clone();
            let cfg = cfg.clone(); let work = work.to_path_buf(); let driver_path = driver_path.to_string(); let sy_bin = sy_bin.to_string(); let prop = prop.to_string();
            sc.spawn(move || {
                let mut drv = Driver::spawn(&driver_path).expect("spawn sydriver");
                loop {
                    let item = queue.lock().unwrap().pop();
                    let (i, kind, h, bin, gap) = match item { Some(x) => x, None => break };
                    let dir = work.join(format!("w{}", wi)).join(format!("c{}", i));
                    let out = run_case(&prop, &cfg, &h, &dir, gap, if bin { Some(sy_bin.as_str()) } else { None }, &mut drv);
                    results.lock().unwrap().push((i, kind, h, bin, gap, out));
                }
            });
        }
    });
    let mut results = Arc::try_unwrap(results).ok().unwrap().into_inner().unwrap();
    results.sort_by_key(|r| r.0);
    let mut per_sig: HashMap<String, usize> = HashMap::new();
    for (i, kind, h, bin, gap, out) in results {
        rep.tag(&format!("history.{}", kind)); rep.tag(if bin { "mode.binary" } else { "mode.inproc" }); rep.tag(&format!("gap.{}ns", gap));
        rep.histogram.entry("syncs".into()).and_modify(|n| *n += out.syncs as u64).or_insert(out.syncs as u64);
        for t in &out.tags { rep.tag(t); }
        rep.case(encode(&h).as_bytes(), out.nontrivial);
        if i % 997 == 0 { rep.sample(json!({"kind": kind, "history": show_history(&h), "binary": bin, "gap_ns": gap})); }
        for d in out.disagreements { rep.disagree(d); }
        for f in out.fails {
            rep.tag(&format!("oracle.{}", f.sig));
            let n = per_sig.entry(f.sig.clone()).or_insert(0); *n += 1;
            if *n > 3 { continue; } // three replays per signature are enough; the tag counts all
            rep.oracle_fail(&f.sig, &f.what, json!({"history": show_history(&h), "encoded": encode(&h), "cfg": cfg, "binary": bin, "gap_ns": gap}));
        }
    }
    let _ = std::fs::remove_dir_all(work);
    rep
}
