//! C16 — filters select exactly the documented set.
//!
//! K (correspondence of the Lean model with the code):
//!   1. glob      random (pattern, string) vs `glob::Pattern` (token list / error kind+pos, match result)
//!   2. engine    `add_rule` text parsing, `FilterRule::matches`, `FilterEngine::should_include`
//!                (verdict and index of the deciding rule) on random rule lists and paths
//!   3. universe  exhaustive small universes (all patterns of ≤ k symbols over {a,b,.,/,*,?} against all
//!                strings of length ≤ 4 over {a,b,.,/} resp. all paths of ≤ 3 components, as file and as dir);
//!                quick tier: a seeded sample of the patterns, thorough tier: all of them
//!   4. binary    filtered syncs of generated trees through the real `sy` executable with generated
//!                `--filter/--include/--exclude/--min-size/--max-size` (+ pattern files, template, `.syignore`);
//!                destination path set vs the model's `scanFilter` prediction
//!   5. single    single-file sources (`sync_single_file`) with generated flags through the real executable
//! O (oracle): on the binary-level cases an independent reference predicate written from the property
//!   text decides for every source entry whether it has to be transferred; signatures
//!   `C16/filtered-entry-transferred`, `C16/selected-entry-missing`, `C16/single-file-source-unfiltered`.
use crate::driver::{hex, Driver};
use crate::report::Report;
use crate::rng::Rng;
use serde_json::json;
use std::collections::{BTreeMap, BTreeSet};
use std::path::{Path, PathBuf};
use std::process::Command;
use sy::filter::{FilterAction, FilterEngine, FilterRule};

/// README.md ("`+ */` … Only .rs files in all directories", "Wildcard directory patterns (e.g., `*/` to
/// include all directories)") documents the bare `*/` as matching directories only. The property text says
/// "patterns ending in '/' match directories together with their whole subtree"; with `false` the oracle
/// follows the text literally and reports `C16/star-slash-dirs-only` for every case that tells the two apart
/// (Lean: `rule_dironly_subtree_closed_counterexample_star_slash`).
const STAR_SLASH_DIRS_ONLY_DOCUMENTED: bool = true;

fn hs(s: &str) -> String { hex(s.as_bytes()) }

// ---------------------------------------------------------------------------------------------
// reading Rust `Debug` output (char and string literals) — used to see the private token list of
// `glob::Pattern` and the private rule list of `FilterEngine`
// ---------------------------------------------------------------------------------------------

/// parses an escaped char starting at `i` (after the opening quote); returns (char, next index)
fn read_escaped(cs: &[char], i: usize) -> (char, usize) {
    if cs[i] != '\\' { return (cs[i], i + 1); }
    match cs[i + 1] {
        'n' => ('\n', i + 2), 'r' => ('\r', i + 2), 't' => ('\t', i + 2), '0' => ('\0', i + 2),
        'u' => {
            // \u{XXXX}
            let mut j = i + 3; let mut v: u32 = 0;
            while cs[j] != '}' { v = v * 16 + cs[j].to_digit(16).unwrap(); j += 1; }
            (char::from_u32(v).unwrap(), j + 1)
        }
        c => (c, i + 2),
    }
}

/// end index (exclusive, position of the closing quote) of a Debug string literal whose content starts at `i`
fn read_str_literal(cs: &[char], mut i: usize) -> (String, usize) {
    let mut out = String::new();
    while cs[i] != '"' { let (c, n) = read_escaped(cs, i); out.push(c); i = n; }
    (out, i)
}

fn find_sub(cs: &[char], pat: &str, from: usize) -> Option<usize> {
    let p: Vec<char> = pat.chars().collect();
    if cs.len() < p.len() { return None; }
    (from..=cs.len() - p.len()).find(|&i| cs[i..i + p.len()] == p[..])
}

/// `[Char('U+0061'), AnySequence, …]` from the Debug output of a `glob::Pattern`
fn canon_tokens(p: &glob::Pattern) -> String {
    let cs: Vec<char> = format!("{:?}", p).chars().collect();
    let o = find_sub(&cs, "original: \"", 0).unwrap() + "original: \"".len();
    let (_, q) = read_str_literal(&cs, o);
    // after the closing quote: `, tokens: [`
    let t = find_sub(&cs, "tokens: [", q).unwrap() + "tokens: ".len();
    let mut out = String::new();
    let mut i = t;
    let mut depth = 0i32;
    loop {
        let c = cs[i];
        if c == '\'' {
            let (ch, n) = read_escaped(&cs, i + 1);
            assert!(cs[n] == '\'');
            out.push_str(&format!("'U+{:04X}'", ch as u32));
            i = n + 1;
            continue;
        }
        out.push(c);
        if c == '[' { depth += 1; }
        if c == ']' { depth -= 1; if depth == 0 { break; } }
        i += 1;
    }
    out
}

fn pat_err(e: &glob::PatternError) -> String {
    let kind = if e.msg.starts_with("wildcards are either") { "wildcards" }
        else if e.msg.starts_with("recursive wildcards") { "recursive" }
        else if e.msg.starts_with("invalid range") { "range" } else { "unknown" };
    format!("err {} {}", kind, e.pos)
}

fn impl_glob_parse(p: &str) -> String {
    match glob::Pattern::new(p) { Ok(pt) => format!("ok {}", canon_tokens(&pt)), Err(e) => pat_err(&e) }
}

fn anyhow_err(e: &anyhow::Error) -> String {
    if let Some(pe) = e.root_cause().downcast_ref::<glob::PatternError>() { return pat_err(pe); }
    let s = format!("{:#}", e);
    if s.contains("Empty filter pattern") { "err empty".into() } else { format!("err other {}", s) }
}

/// one element of a rule list: `r` = `add_rule(text)`, `i` = `add_include(text)`, `x` = `add_exclude(text)`
#[derive(Clone, Debug)]
struct Item { kind: char, text: String }

fn apply_item(e: &mut FilterEngine, it: &Item) -> anyhow::Result<()> {
    match it.kind { 'r' => e.add_rule(&it.text), 'i' => e.add_include(&it.text), _ => e.add_exclude(&it.text) }
}

fn items_wire(items: &[Item]) -> String {
    if items.is_empty() { return "-".into(); }
    items.iter().map(|it| format!("{}{}", it.kind, if it.text.is_empty() { String::new() } else { hs(&it.text) })).collect::<Vec<_>>().join(";")
}

/// What a single item puts into a fresh engine, read back through `Debug`: Err(error), Ok(None) when nothing
/// was pushed, Ok(Some((is_include, pattern_str))).
fn impl_item_rule(it: &Item) -> Result<Option<(bool, String)>, String> {
    let mut e = FilterEngine::new();
    if let Err(err) = apply_item(&mut e, it) { return Err(anyhow_err(&err)); }
    if e.rule_count() == 0 { return Ok(None); }
    let cs: Vec<char> = format!("{:?}", e).chars().collect();
    let incl = find_sub(&cs, "action: Include", 0).is_some();
    // the last `pattern_str: "` belongs to the field (the glob Pattern's `original` comes earlier)
    let key: Vec<char> = "pattern_str: \"".chars().collect();
    let mut at = None;
    for i in 0..cs.len().saturating_sub(key.len()) { if cs[i..i + key.len()] == key[..] { at = Some(i + key.len()); } }
    let (s, _) = read_str_literal(&cs, at.unwrap());
    Ok(Some((incl, s)))
}

// ---------------------------------------------------------------------------------------------
// generators
// ---------------------------------------------------------------------------------------------

const GLOB_ALPHA: &[char] = &['a', 'b', '.', '/', '*', '?', '[', ']', '!', '-'];
const STR_ALPHA: &[char] = &['a', 'b', '.', '/'];

fn gen_glob_pattern(rng: &mut Rng) -> (String, &'static str) {
    match rng.below(10) {
        0..=3 => {
            // raw characters over the full alphabet
            let n = rng.below(9) as usize;
            ((0..n).map(|_| *rng.pick(GLOB_ALPHA)).collect(), "raw")
        }
        4..=8 => {
            const PIECES: &[&str] = &["a", "b", ".", "/", "*", "?", "**", "**/", "/**", "[ab]", "[!a]", "[a-b]", "[]]", "[!]]", "[a-]", "[-a]", "[!-]",
                                      "[a-b-]", "[b-a]", "[/]", "ab", "a/b", "*.", "[*]", "[?]", "[[]"];
            let n = rng.range(1, 5) as usize;
            ((0..n).map(|_| *rng.pick(PIECES)).collect::<Vec<_>>().join(""), "pieces")
        }
        _ => {
            // a few characters outside the small alphabet (unicode, quote, backslash, upper case)
            const EXTRA: &[char] = &['a', '*', '?', '[', ']', 'é', 'A', '\'', '\\', '"', ' ', '\u{3000}', 'z', '/', '-', '!'];
            let n = rng.range(1, 6) as usize;
            ((0..n).map(|_| *rng.pick(EXTRA)).collect(), "extra")
        }
    }
}

/// a string that has a fair chance of matching `pat`
fn gen_string_for(rng: &mut Rng, pat: &str) -> String {
    if rng.chance(2, 5) {
        let n = rng.below(7) as usize;
        return (0..n).map(|_| *rng.pick(STR_ALPHA)).collect();
    }
    let cs: Vec<char> = pat.chars().collect();
    let mut out = String::new();
    let mut i = 0;
    while i < cs.len() {
        match cs[i] {
            '*' => {
                if i + 1 < cs.len() && cs[i + 1] == '*' {
                    for _ in 0..rng.below(3) { out.push(*rng.pick(&['a', 'b'])); out.push('/'); }
                    if rng.chance(1, 4) { out.push('a'); }
                    i += 1;
                    if i + 1 < cs.len() && cs[i + 1] == '/' { i += 1; }
                } else { for _ in 0..rng.below(3) { out.push(*rng.pick(STR_ALPHA)); } }
            }
            '?' => out.push(*rng.pick(STR_ALPHA)),
            '[' => {
                if let Some(j) = cs[i + 1..].iter().skip(1).position(|c| *c == ']') {
                    let inner = &cs[i + 1..i + 2 + j];
                    let pickc = if inner[0] == '!' { *rng.pick(&['b', 'c', '/', '.']) } else { *rng.pick(inner) };
                    out.push(if pickc == '-' && rng.chance(1, 2) { 'a' } else { pickc });
                    i += j + 2;
                } else { out.push('['); }
            }
            c => out.push(c),
        }
        i += 1;
    }
    if rng.chance(1, 4) && !out.is_empty() {
        let k = rng.below(out.chars().count() as u64) as usize;
        let mut v: Vec<char> = out.chars().collect();
        match rng.below(3) { 0 => { v.remove(k); } 1 => v.insert(k, *rng.pick(STR_ALPHA)), _ => v[k] = *rng.pick(STR_ALPHA) }
        out = v.into_iter().collect();
    }
    out
}

const NAMES: &[&str] = &["a", "b", "ab", "ba", "a.b", ".a", "build", "aa", "b.log", "x y", "é"];

fn gen_rule_pattern(rng: &mut Rng, names: &[&str]) -> String {
    const COMPS: &[&str] = &["*", "?", "a*", "*.b", "*a", "**", "[ab]", "?b", "*.log", "b*d", "a?"];
    let n = match rng.below(10) { 0..=4 => 1, 5..=7 => 2, 8 => 3, _ => 0 };
    let mut comps: Vec<String> = Vec::new();
    for _ in 0..n {
        comps.push(if rng.chance(1, 2) { rng.pick(names).to_string() } else { rng.pick(COMPS).to_string() });
    }
    let mut p = comps.join("/");
    if rng.chance(1, 12) { p = format!("/{}", p); }
    if rng.chance(3, 10) { p.push('/'); if rng.chance(1, 10) { p.push('/'); } }
    if rng.chance(1, 40) { p.push_str("**a"); }
    if rng.chance(1, 40) { p.push('['); }
    p
}

fn gen_filter_line(rng: &mut Rng, names: &[&str]) -> String {
    if rng.chance(1, 25) { return rng.pick(&["", "   ", "# comment", "  # c", "+", "- ", " + ", "-", "\t"]).to_string(); }
    let pre = *rng.pick(&["+ ", "- ", "+ ", "- ", "+", "-", "", "  + ", "-  ", " ", "+ \t", "\u{a0}- ", "+\u{3000}"]);
    let post = *rng.pick(&["", "", "", " ", "\t", " \u{a0}"]);
    format!("{}{}{}", pre, gen_rule_pattern(rng, names), post)
}

fn gen_items(rng: &mut Rng, names: &[&str], max: u64) -> Vec<Item> {
    let n = rng.below(max + 1);
    (0..n).map(|_| match rng.below(4) {
        0 | 1 => Item { kind: 'r', text: gen_filter_line(rng, names) },
        2 => Item { kind: 'i', text: gen_rule_pattern(rng, names) },
        _ => Item { kind: 'x', text: gen_rule_pattern(rng, names) },
    }).collect()
}

fn gen_path(rng: &mut Rng, names: &[&str], maxdepth: u64) -> Vec<String> {
    let n = rng.range(1, maxdepth);
    (0..n).map(|_| rng.pick(names).to_string()).collect()
}

/// all lists of length exactly `n` over `alpha`, lexicographic (first position most significant) —
/// the same enumeration as `Driver.Filter.allLists`
fn all_lists<T: Clone>(alpha: &[T], n: usize) -> Vec<Vec<T>> {
    if n == 0 { return vec![vec![]]; }
    let sub = all_lists(alpha, n - 1);
    let mut out = Vec::with_capacity(sub.len() * alpha.len());
    for c in alpha { for s in &sub { let mut v = Vec::with_capacity(n); v.push(c.clone()); v.extend(s.iter().cloned()); out.push(v); } }
    out
}

/// all lists of length lo..=hi, length-major
fn up_to<T: Clone>(alpha: &[T], lo: usize, hi: usize) -> Vec<Vec<T>> {
    (lo..=hi).flat_map(|n| all_lists(alpha, n)).collect()
}

// ---------------------------------------------------------------------------------------------
// the independent reference predicate (oracle) — written from the property text only
// ---------------------------------------------------------------------------------------------

/// grammar of the property's quantifier: literals, `*`, `?` (both may match `/`: the property does not
/// restrict them and the documented examples `target/*`, `- *` rely on it); dynamic programming, no backtracking
fn ref_glob(p: &[char], s: &[char]) -> bool {
    let mut row = vec![false; s.len() + 1];
    row[0] = true;
    for &pc in p {
        let mut next = vec![false; s.len() + 1];
        if pc == '*' {
            let mut any = false;
            for j in 0..=s.len() { any = any || row[j]; next[j] = any; }
        } else {
            for j in 0..s.len() { if row[j] && (pc == '?' || pc == s[j]) { next[j + 1] = true; } }
        }
        row = next;
    }
    row[s.len()]
}

fn in_ref_grammar(p: &str) -> bool { !p.is_empty() && !p.contains('[') && !p.contains("**") && !p.contains(']') }

fn ref_rule_matches(pat: &str, rel: &[String], is_dir: bool) -> bool {
    let g = |p: &str, s: &str| ref_glob(&p.chars().collect::<Vec<_>>(), &s.chars().collect::<Vec<_>>());
    if pat.ends_with('/') {
        // "patterns ending in '/' match directories together with their whole subtree"
        let core = pat.trim_end_matches('/');
        if STAR_SLASH_DIRS_ONLY_DOCUMENTED && core == "*" { return is_dir; }
        for k in 1..=rel.len() {
            let k_is_dir = k < rel.len() || is_dir;
            if !k_is_dir { continue; }
            let target = if core.contains('/') { rel[..k].join("/") } else { rel[k - 1].clone() };
            if g(core, &target) { return true; }
        }
        false
    } else if pat.contains('/') {
        g(pat, &rel.join("/"))
    } else {
        // "patterns without '/' match the base name"
        g(pat, rel.last().unwrap())
    }
}

/// "+ pattern" include, "- pattern" exclude, "pattern" exclude; blank lines and `#` comments are skipped
fn ref_parse_filter_line(line: &str) -> Option<(bool, String)> {
    let l = line.trim();
    if l.is_empty() || l.starts_with('#') { return None; }
    if let Some(r) = l.strip_prefix('+') { return Some((true, r.trim().to_string())); }
    if let Some(r) = l.strip_prefix('-') { return Some((false, r.trim().to_string())); }
    Some((false, l.to_string()))
}

fn ref_verdict(rules: &[(bool, String)], rel: &[String], is_dir: bool) -> bool {
    for (incl, pat) in rules { if ref_rule_matches(pat, rel, is_dir) { return *incl; } }
    true
}

// ---------------------------------------------------------------------------------------------
// binary level
// ---------------------------------------------------------------------------------------------

#[derive(Clone, Debug)]
struct Ent { rel: Vec<String>, is_dir: bool, size: u64 }

fn gen_tree(rng: &mut Rng, names: &[&str], prefix: &[String], depth: u32, out: &mut Vec<Ent>, budget: &mut i32) {
    const SIZES: &[u64] = &[0, 1, 2, 3, 5, 10, 100, 1023, 1024, 1025, 3000];
    let n = if depth == 0 { rng.range(2, 5) } else { rng.range(0, 3) };
    let mut used: BTreeSet<String> = BTreeSet::new();
    for _ in 0..n {
        if *budget <= 0 { return; }
        let name = rng.pick(names).to_string();
        if !used.insert(name.clone()) { continue; }
        *budget -= 1;
        let mut rel = prefix.to_vec(); rel.push(name);
        if depth < 3 && rng.chance(2, 5) {
            out.push(Ent { rel: rel.clone(), is_dir: true, size: 0 });
            gen_tree(rng, names, &rel, depth + 1, out, budget);
        } else {
            out.push(Ent { rel, is_dir: false, size: *rng.pick(SIZES) });
        }
    }
}

fn file_content(rel: &[String], size: u64, salt: u8) -> Vec<u8> {
    let seed = crate::report::fnv(rel.join("/").as_bytes());
    (0..size).map(|i| (seed.wrapping_add(i * 31) as u8) ^ salt).collect()
}

fn snapshot(root: &Path) -> BTreeMap<String, Option<Vec<u8>>> {
    // rel path -> None for a directory, Some(content) for a file
    let mut out = BTreeMap::new();
    fn walk(dir: &Path, rel: &str, out: &mut BTreeMap<String, Option<Vec<u8>>>) {
        if let Ok(rd) = std::fs::read_dir(dir) {
            for e in rd.flatten() {
                let name = e.file_name().to_string_lossy().to_string();
                let r = if rel.is_empty() { name.clone() } else { format!("{}/{}", rel, name) };
                let md = std::fs::symlink_metadata(e.path()).unwrap();
                if md.is_dir() { out.insert(r.clone(), None); walk(&e.path(), &r, out); }
                else { out.insert(r, Some(std::fs::read(e.path()).unwrap_or_default())); }
            }
        }
    }
    walk(root, "", &mut out);
    out
}

fn lines_wire(ls: &[String]) -> String {
    if ls.is_empty() { "e".into() } else { ls.iter().map(|l| format!("h{}", if l.is_empty() { String::new() } else { hs(l) })).collect::<Vec<_>>().join(",") }
}
fn opt_lines_wire(ls: &Option<Vec<String>>) -> String { match ls { None => "none".into(), Some(l) => lines_wire(l) } }

fn gen_cli_pattern(rng: &mut Rng, tree: &[Ent], exotic: bool) -> String {
    let e = if tree.is_empty() { None } else { Some(rng.pick(tree).clone()) };
    let base = |e: &Ent| e.rel.last().unwrap().clone();
    match (rng.below(if exotic { 16 } else { 13 }), e) {
        (0, Some(e)) | (1, Some(e)) => base(&e),
        (2, Some(e)) => e.rel.join("/"),
        (3, Some(e)) => format!("{}/", base(&e)),
        (4, Some(e)) => format!("{}/", e.rel.join("/")),
        (5, Some(e)) => format!("{}/*", e.rel[..e.rel.len().max(2) - 1].join("/")),
        (6, _) => "*".into(),
        (7, _) => rng.pick(&["*.log", "*.b", "a*", "*a", "?", "??", "b*", ".*", "*b*"]).to_string(),
        (8, _) => "*/".into(),
        (9, _) => rng.pick(&["*/*", "*/a", "a/*", "*/*/*", "?/", "a*/", "*/b/", "b*/*"]).to_string(),
        (10, Some(e)) => { let mut b = base(&e); let n = b.chars().count(); if n > 1 { b = b.chars().take(n - 1).collect::<String>() + "*"; } b }
        (11, Some(e)) => { let b = base(&e); let mut v: Vec<char> = b.chars().collect(); let k = rng.below(v.len() as u64) as usize; v[k] = '?'; v.into_iter().collect() }
        (12, _) => rng.pick(NAMES).to_string(),
        (13, Some(e)) => format!("**/{}", base(&e)),
        (14, _) => rng.pick(&["[ab]*", "**/", "**", "[!a]*", "**/*.log", "a/**"]).to_string(),
        (_, Some(e)) => format!("{}/**", e.rel[0]),
        (_, None) => "*".into(),
    }
}

struct BinCase {
    tree: Vec<Ent>,
    filters: Vec<String>, includes: Vec<String>, excludes: Vec<String>,
    include_from: Option<Vec<String>>, exclude_from: Option<Vec<String>>,
    templates: Vec<(String, Option<Vec<String>>)>,   // name, lines (None: file does not exist)
    syignore: Option<Vec<String>>,
    min: Option<u64>, max: Option<u64>,
    pre: BTreeSet<usize>,                             // indices of tree entries that already exist (stale) in dst
    argv_order: Vec<(char, usize)>,
}

fn gen_bin_case(rng: &mut Rng, malformed: bool) -> BinCase {
    let mut tree = Vec::new();
    let pool: Vec<&str> = { let k = rng.range(4, NAMES.len() as u64) as usize; NAMES[..k].to_vec() };
    let mut budget = rng.range(3, 14) as i32;
    gen_tree(rng, &pool, &[], 0, &mut tree, &mut budget);
    let exotic = rng.chance(1, 5);
    let nf = *rng.pick(&[0u64, 0, 1, 1, 2, 3]); let ni = *rng.pick(&[0u64, 0, 0, 1, 1, 2]); let nx = *rng.pick(&[0u64, 0, 1, 1, 2]);
    let mut filters: Vec<String> = (0..nf).map(|_| {
        let p = gen_cli_pattern(rng, &tree, exotic);
        let pre = *rng.pick(&["+ ", "- ", "+ ", "- ", "- ", "+", "-", ""]);
        format!("{}{}", pre, p)
    }).collect();
    let includes: Vec<String> = (0..ni).map(|_| gen_cli_pattern(rng, &tree, exotic)).collect();
    let mut excludes: Vec<String> = (0..nx).map(|_| gen_cli_pattern(rng, &tree, exotic)).collect();
    if malformed {
        match rng.below(4) { 0 => filters.push("+ [a".into()), 1 => excludes.push("a**".into()), 2 => filters.push("+ ".into()), _ => excludes.push("***".into()) }
    }
    let file_lines = |rng: &mut Rng, tree: &[Ent], rules: bool| -> Vec<String> {
        let n = rng.range(0, 3);
        (0..n).map(|_| {
            if rng.chance(1, 6) { return rng.pick(&["", "# note", "   "]).to_string(); }
            let p = gen_cli_pattern(rng, tree, false);
            if rules { format!("{}{}", rng.pick(&["+ ", "- ", ""]), p) } else { p }
        }).collect()
    };
    let include_from = if rng.chance(1, 10) { Some(file_lines(rng, &tree, false)) } else { None };
    let exclude_from = if rng.chance(1, 8) { Some(file_lines(rng, &tree, false)) } else { None };
    let mut templates = Vec::new();
    if rng.chance(1, 10) { templates.push(("t1".to_string(), Some(file_lines(rng, &tree, true)))); }
    if rng.chance(1, 25) { templates.push(("missing".to_string(), None)); }
    if rng.chance(1, 25) { let mut l = file_lines(rng, &tree, true); l.insert(rng.below(l.len() as u64 + 1) as usize, "- [".into()); l.push("- a".into()); templates.push(("t2".to_string(), Some(l))); }
    let syignore = if rng.chance(1, 8) { Some(file_lines(rng, &tree, true)) } else { None };
    if let Some(ls) = &syignore {
        let size = ls.iter().map(|l| l.len() as u64 + 1).sum();
        tree.push(Ent { rel: vec![".syignore".into()], is_dir: false, size });
    }
    const BOUNDS: &[u64] = &[0, 1, 2, 3, 4, 10, 100, 1024, 1025, 2048, 5000];
    let min = if rng.chance(3, 10) { Some(*rng.pick(BOUNDS)) } else { None };
    let mut max = if rng.chance(3, 10) { Some(*rng.pick(BOUNDS)) } else { None };
    if let (Some(a), Some(b)) = (min, max) { if a > b && !rng.chance(1, 6) { max = Some(a + b); } }
    let mut pre = BTreeSet::new();
    if rng.chance(3, 10) { for i in 0..tree.len() { if rng.chance(1, 2) { pre.insert(i); } } }
    // argv: the three repeatable flags interleaved at random — the engine must still order filter, include, exclude
    let mut argv_order: Vec<(char, usize)> = Vec::new();
    let (mut a, mut b, mut c) = (0, 0, 0);
    while a < filters.len() || b < includes.len() || c < excludes.len() {
        match rng.below(3) {
            0 if a < filters.len() => { argv_order.push(('f', a)); a += 1; }
            1 if b < includes.len() => { argv_order.push(('i', b)); b += 1; }
            2 if c < excludes.len() => { argv_order.push(('x', c)); c += 1; }
            _ => {}
        }
    }
    BinCase { tree, filters, includes, excludes, include_from, exclude_from, templates, syignore, min, max, pre, argv_order }
}

fn size_arg(rng: &mut Rng, v: u64) -> String {
    if v > 0 && v % 1024 == 0 && rng.chance(1, 2) { format!("{}KB", v / 1024) } else { v.to_string() }
}

pub fn run(tier: &str, seed: u64, driver_path: &str, work: &Path, sy_bin: &Path) -> Report {
    let mut rep = Report::default();
    rep.rule = "glob: (pattern,string) pairs over {a,b,.,/,*,?,[,],!,-} (+few unicode/quote chars), strings derived from the pattern or random; non-trivial = pattern parses and contains a wildcard/class; engine: rule lists of ≤5 items (add_rule text with prefix/whitespace variants, add_include, add_exclude) × clean relative paths of ≤4 components × file/dir; non-trivial = some rule matched; universe: one case per pattern evaluated over the whole small universe; binary: generated tree (≤14 entries, depth ≤3) + generated flags through the real sy executable; non-trivial = at least one entry filtered and one kept; distinct = distinct inputs".into();
    let mut rng = Rng::new(seed);
    let mut drv = Driver::spawn(driver_path).expect("spawn sydriver");
    let thorough = tier == "thorough";
    std::fs::create_dir_all(work).unwrap();

    // ---------------- stream 1: glob ----------------
    let n_glob = if thorough { 250000 } else { 12000 };
    for i in 0..n_glob {
        let (pat, kind) = gen_glob_pattern(&mut rng);
        let s = gen_string_for(&mut rng, &pat);
        rep.tag(&format!("glob.gen.{}", kind));
        let ip = impl_glob_parse(&pat);
        let mp = drv.ask(&format!("glob.parse {}", hs(&pat)));
        if ip != mp { rep.disagree(json!({"stream":"glob.parse","pattern":pat,"impl":ip,"model":mp})); }
        let (im, nontrivial) = match glob::Pattern::new(&pat) {
            Ok(p) => {
                let m = p.matches(&s);
                rep.tag(if m { "glob.match.true" } else { "glob.match.false" });
                if ip.contains("AnyRecursiveSequence") { rep.tag("glob.tok.recursive"); }
                if ip.contains("AnyWithin") || ip.contains("AnyExcept") { rep.tag("glob.tok.class"); }
                if ip.contains("CharRange") { rep.tag("glob.tok.range"); }
                (m.to_string(), ip.contains("Any"))
            }
            Err(e) => { rep.tag(&format!("glob.{}", pat_err(&e).split(' ').take(2).collect::<Vec<_>>().join("-"))); (pat_err(&e), false) }
        };
        let mm = drv.ask(&format!("glob.match {} {}", hs(&pat), hs(&s)));
        if im != mm { rep.disagree(json!({"stream":"glob.match","pattern":pat,"string":s,"impl":im,"model":mm})); }
        rep.case(format!("g|{}|{}", pat, s).as_bytes(), nontrivial);
        if i % 1500 == 7 { rep.sample(json!({"stream":"glob","pattern":pat,"string":s,"parse":ip,"match":im})); }
    }

    // ---------------- stream 2: rule text, rule matching, engine ----------------
    let n_eng = if thorough { 150000 } else { 10000 };
    for i in 0..n_eng {
        let items = gen_items(&mut rng, NAMES, 5);
        let path = gen_path(&mut rng, NAMES, 4);
        let is_dir = rng.chance(1, 2);
        let pstr = path.join("/");
        let df = if is_dir { "d" } else { "f" };
        // (a) text part of every add_rule item, (b) single-rule matching
        let mut real_rules: Vec<FilterRule> = Vec::new();
        let mut build_err: Option<String> = None;
        for it in &items {
            let r = impl_item_rule(it);
            if it.kind == 'r' {
                let is = match &r { Err(e) if e == "err empty" => e.clone(), Ok(None) => "none".into(),
                    Ok(Some((incl, p))) => format!("{} {}", if *incl { "include" } else { "exclude" }, hs(p)),
                    Err(_) => { // pattern error: the text part itself succeeded; compare on the rulematch/include level
                        String::new() } };
                if !is.is_empty() {
                    let ms = drv.ask(&format!("filter.spec {}", hs(&it.text)));
                    rep.tag(&format!("spec.{}", is.split(' ').next().unwrap()));
                    if is != ms { rep.disagree(json!({"stream":"filter.spec","line":it.text,"impl":is,"model":ms})); }
                }
            }
            match r {
                Ok(Some((incl, p))) => {
                    if build_err.is_none() {
                        let fr = FilterRule::new(if incl { FilterAction::Include } else { FilterAction::Exclude }, &p).unwrap();
                        let im = fr.matches(Path::new(&pstr), is_dir).to_string();
                        let mm = drv.ask(&format!("filter.rulematch {}{} {} {}", if incl { 'i' } else { 'x' }, hs(&p), hs(&pstr), df));
                        let branch = if fr.is_dir_only { if fr.has_slash { "dironly-slash" } else if p.trim_end_matches('/') == "*" { "star-slash" } else { "dironly-base" } }
                                     else if fr.has_slash { "fullpath" } else { "basename" };
                        rep.tag(&format!("rule.{}.{}", branch, im));
                        if im != mm { rep.disagree(json!({"stream":"filter.rulematch","pattern":p,"path":pstr,"is_dir":is_dir,"impl":im,"model":mm})); }
                        real_rules.push(fr);
                    }
                }
                Ok(None) => {}
                Err(e) => { if build_err.is_none() { build_err = Some(e); } }
            }
        }
        // (c) the engine
        let mut eng = FilterEngine::new();
        let mut eng_err = None;
        for it in &items { if let Err(e) = apply_item(&mut eng, it) { eng_err = Some(anyhow_err(&e)); break; } }
        let is = match &eng_err {
            Some(e) => e.clone(),
            None => {
                let inc = eng.should_include(Path::new(&pstr), is_dir);
                let idx = real_rules.iter().position(|r| r.matches(Path::new(&pstr), is_dir));
                // first match wins, on the implementation itself
                let expect = idx.map(|k| real_rules[k].action == FilterAction::Include).unwrap_or(true);
                if expect != inc {
                    rep.oracle_fail("C16/first-match-does-not-win", "should_include differs from the action of the first rule whose matches() is true",
                        json!({"items": items.iter().map(|i| format!("{}:{}", i.kind, i.text)).collect::<Vec<_>>(), "path": pstr, "is_dir": is_dir}));
                }
                rep.tag(&format!("engine.{}.{}", if inc { "include" } else { "exclude" }, if idx.is_some() { "rule" } else { "default" }));
                format!("{} rule={}", if inc { "include" } else { "exclude" }, idx.map(|k| k.to_string()).unwrap_or("none".into()))
            }
        };
        if eng_err.is_some() { rep.tag("engine.build-error"); }
        let ms = drv.ask(&format!("filter.include {} {} {}", items_wire(&items), hs(&pstr), df));
        if is != ms { rep.disagree(json!({"stream":"filter.include","items": items.iter().map(|i| format!("{}:{}", i.kind, i.text)).collect::<Vec<_>>(),"path":pstr,"is_dir":is_dir,"impl":is,"model":ms})); }
        rep.case(format!("e|{:?}|{}|{}", items, pstr, is_dir).as_bytes(), is.contains("rule=") && !is.contains("rule=none"));
        if i % 1200 == 3 { rep.sample(json!({"stream":"engine","items": items.iter().map(|i| format!("{}:{}", i.kind, i.text)).collect::<Vec<_>>(),"path":pstr,"is_dir":is_dir,"result":is})); }
    }

    // ---------------- stream 3: exhaustive small universes ----------------
    {
        const PSYM: &[char] = &['a', 'b', '.', '/', '*', '?'];
        let maxlen = 4;
        let mut pats: Vec<String> = up_to(PSYM, 0, maxlen).into_iter().map(|v| v.into_iter().collect()).collect();
        let n_exhaustive = pats.len();
        // beyond the exhaustive bound: a seeded sample of 5- and 6-symbol patterns
        for _ in 0..(if thorough { 3000 } else { 60 }) {
            let n = rng.range(5, 6) as usize;
            pats.push((0..n).map(|_| *rng.pick(PSYM)).collect());
        }
        let strings: Vec<String> = up_to(STR_ALPHA, 0, 4).into_iter().map(|v| v.into_iter().collect()).collect();
        let uni_names: Vec<String> = up_to(&['a', 'b', '.'], 1, 2).into_iter().map(|v| v.into_iter().collect::<String>()).filter(|n| n != "." && n != "..").collect();
        let paths: Vec<Vec<String>> = up_to(&uni_names, 1, 3);
        let names_wire = uni_names.iter().map(|n| hs(n)).collect::<Vec<_>>().join(",");
        let alpha_wire = hs(&STR_ALPHA.iter().collect::<String>());
        let stride = if thorough { 1 } else { 6 };
        let offset = rng.below(stride);
        for (k, pat) in pats.iter().enumerate() {
            if k < n_exhaustive && (k as u64) % stride != offset { continue; }
            // glob universe
            let ig = match glob::Pattern::new(pat) {
                Ok(p) => strings.iter().map(|s| if p.matches(s) { '1' } else { '0' }).collect::<String>(),
                Err(e) => pat_err(&e),
            };
            let mg = drv.ask(&format!("glob.universe {} {} 4", hs(pat), alpha_wire));
            rep.tag("universe.glob");
            if ig != mg {
                let first = ig.chars().zip(mg.chars()).position(|(a, b)| a != b);
                rep.disagree(json!({"stream":"glob.universe","pattern":pat,"first_diff_string": first.map(|j| strings.get(j).cloned()),"impl_len":ig.len(),"model_len":mg.len(),
                                    "impl": if ig.len() < 40 { ig.clone() } else { String::new() }, "model": if mg.len() < 40 { mg.clone() } else { String::new() }}));
            }
            rep.case(format!("ug|{}", pat).as_bytes(), ig.contains('1') && ig.contains('0'));
            // rule universe (exclude rule: excluded ⇔ the rule matches)
            if pat.is_empty() { continue; }
            let ir = match FilterRule::new(FilterAction::Exclude, pat) {
                Ok(r) => {
                    let mut s = String::with_capacity(paths.len() * 2);
                    for p in &paths { let ps = p.join("/"); for d in [false, true] { s.push(if r.matches(Path::new(&ps), d) { 'e' } else { 'i' }); } }
                    s
                }
                Err(e) => anyhow_err(&e),
            };
            let mr = drv.ask(&format!("filter.universe x{} {} 3", hs(pat), names_wire));
            rep.tag("universe.rule");
            if ir != mr {
                let first = ir.chars().zip(mr.chars()).position(|(a, b)| a != b);
                rep.disagree(json!({"stream":"filter.universe","pattern":pat,"first_diff": first.map(|j| (paths[j / 2].join("/"), j % 2 == 1)),"impl_len":ir.len(),"model_len":mr.len()}));
            }
            // the documented matching classes, checked on the implementation with the reference matcher
            if let (true, Ok(r)) = (in_ref_grammar(pat), FilterRule::new(FilterAction::Exclude, pat)) {
                let mut bad: Option<(String, bool)> = None;
                for p in &paths { let ps = p.join("/"); for d in [false, true] {
                    if r.matches(Path::new(&ps), d) != ref_rule_matches(pat, p, d) && bad.is_none() { bad = Some((ps.clone(), d)); }
                } }
                if let Some((ps, d)) = bad {
                    rep.oracle_fail("C16/rule-matching-class", "FilterRule::matches differs from the documented matching class (base name / full path / directory with subtree)",
                        json!({"pattern":pat,"path":ps,"is_dir":d}));
                }
            }
            rep.case(format!("ur|{}", pat).as_bytes(), ir.contains('e') && ir.contains('i'));
        }
        // two-rule lists over a seeded sample: first match wins on the whole universe
        let n2 = if thorough { 10000 } else { 250 };
        for _ in 0..n2 {
            let a = rng.pick(&pats[1..n_exhaustive]).clone(); let b = rng.pick(&pats[1..n_exhaustive]).clone();
            let items = vec![Item { kind: if rng.chance(1, 2) { 'i' } else { 'x' }, text: a }, Item { kind: if rng.chance(1, 2) { 'i' } else { 'x' }, text: b }];
            let mut eng = FilterEngine::new();
            let mut err = None;
            for it in &items { if let Err(e) = apply_item(&mut eng, it) { err = Some(anyhow_err(&e)); break; } }
            let is = match err { Some(e) => e, None => {
                let mut s = String::with_capacity(paths.len() * 2);
                for p in &paths { let ps = p.join("/"); for d in [false, true] { s.push(if eng.should_include(Path::new(&ps), d) { 'i' } else { 'e' }); } }
                s } };
            let ms = drv.ask(&format!("filter.universe {} {} 3", items_wire(&items), names_wire));
            rep.tag("universe.two-rules");
            if is != ms { rep.disagree(json!({"stream":"filter.universe2","items": items.iter().map(|i| format!("{}:{}", i.kind, i.text)).collect::<Vec<_>>()})); }
            rep.case(format!("u2|{:?}", items).as_bytes(), is.contains('e') && is.contains('i'));
        }
    }

    // ---------------- stream 4: the real binary ----------------
    if !sy_bin.exists() {
        rep.skipped.push(format!("binary stream: {} not found", sy_bin.display()));
        return rep;
    }
    let n_bin = if thorough { 8000 } else { 350 };
    let home = work.join("home");
    let cfg_home = home.join("config");
    for ci in 0..n_bin {
        let malformed = rng.chance(1, 20);
        let c = gen_bin_case(&mut rng, malformed);
        let root = work.join(format!("b{}", ci));
        let _ = std::fs::remove_dir_all(&root);
        let _ = std::fs::remove_dir_all(&home);
        let src = root.join("src"); let dst = root.join("dst");
        std::fs::create_dir_all(&src).unwrap();
        std::fs::create_dir_all(home.join("cache")).unwrap();
        std::fs::create_dir_all(cfg_home.join("sy").join("templates")).unwrap();
        for e in &c.tree {
            let p = src.join(e.rel.join("/"));
            if e.is_dir { std::fs::create_dir_all(&p).unwrap(); }
            else if e.rel == [".syignore".to_string()] { std::fs::write(&p, c.syignore.as_ref().unwrap().iter().map(|l| format!("{}\n", l)).collect::<String>()).unwrap(); }
            else { std::fs::write(&p, file_content(&e.rel, e.size, 0)).unwrap(); }
        }
        // stale destination entries (files with a different size, so that a selected one must be updated)
        let mut stale: BTreeMap<String, Option<Vec<u8>>> = BTreeMap::new();
        for &i in &c.pre {
            let e = &c.tree[i];
            let p = dst.join(e.rel.join("/"));
            if e.is_dir { std::fs::create_dir_all(&p).unwrap(); stale.insert(e.rel.join("/"), None); }
            else { std::fs::create_dir_all(p.parent().unwrap()).unwrap(); let data = file_content(&e.rel, e.size + 7, 0x5a); std::fs::write(&p, &data).unwrap(); stale.insert(e.rel.join("/"), Some(data)); }
            for k in 1..e.rel.len() { stale.entry(e.rel[..k].join("/")).or_insert(None); }
        }
        let mut args: Vec<String> = vec![src.to_string_lossy().to_string(), dst.to_string_lossy().to_string(), "-q".into()];
        for (k, i) in &c.argv_order {
            match k { 'f' => args.push(format!("--filter={}", c.filters[*i])), 'i' => args.push(format!("--include={}", c.includes[*i])), _ => args.push(format!("--exclude={}", c.excludes[*i])) }
        }
        if let Some(ls) = &c.include_from { let p = root.join("inc.txt"); std::fs::write(&p, ls.iter().map(|l| format!("{}\n", l)).collect::<String>()).unwrap(); args.push(format!("--include-from={}", p.display())); }
        if let Some(ls) = &c.exclude_from { let p = root.join("exc.txt"); std::fs::write(&p, ls.iter().map(|l| format!("{}\n", l)).collect::<String>()).unwrap(); args.push(format!("--exclude-from={}", p.display())); }
        for (name, ls) in &c.templates {
            if let Some(ls) = ls { std::fs::write(cfg_home.join("sy").join("templates").join(format!("{}.syignore", name)), ls.iter().map(|l| format!("{}\n", l)).collect::<String>()).unwrap(); }
            args.push(format!("--ignore-template={}", name));
        }
        if let Some(v) = c.min { args.push(format!("--min-size={}", size_arg(&mut rng, v))); }
        if let Some(v) = c.max { args.push(format!("--max-size={}", size_arg(&mut rng, v))); }
        let out = Command::new(sy_bin).args(&args).env_clear().env("PATH", "/usr/bin:/bin")
            .env("HOME", &home).env("XDG_CACHE_HOME", home.join("cache")).env("XDG_CONFIG_HOME", &cfg_home).env("XDG_DATA_HOME", home.join("data"))
            .current_dir(&root).output();
        let out = match out { Ok(o) => o, Err(e) => { rep.skipped.push(format!("binary stream: cannot run sy: {}", e)); break; } };
        let ok = out.status.success();
        let after = snapshot(&dst);

        // --- model prediction
        let mut ents = c.tree.clone();
        ents.sort_by(|a, b| a.rel.cmp(&b.rel));      // a parents-first order (component-wise lexicographic)
        let e_wire = if ents.is_empty() { "-".to_string() } else { ents.iter().map(|e| format!("{}:{}:{}", if e.is_dir { 'd' } else { 'f' }, e.size, hs(&e.rel.join("/")))).collect::<Vec<_>>().join(",") };
        let t_wire = { let ex: Vec<String> = c.templates.iter().filter_map(|(_, l)| l.as_ref().map(|l| lines_wire(l))).collect(); if ex.is_empty() { "-".to_string() } else { ex.join("|") } };
        let req = format!("filter.scan F={} I={} X={} IF={} XF={} T={} S={} min={} max={} E={}",
            lines_wire(&c.filters), lines_wire(&c.includes), lines_wire(&c.excludes), opt_lines_wire(&c.include_from), opt_lines_wire(&c.exclude_from),
            t_wire, opt_lines_wire(&c.syignore), c.min.map(|v| v.to_string()).unwrap_or("none".into()), c.max.map(|v| v.to_string()).unwrap_or("none".into()), e_wire);
        let m = drv.ask(&req);
        let describe = || json!({"args": args[2..].to_vec(), "tree": c.tree.iter().map(|e| format!("{}{}:{}", e.rel.join("/"), if e.is_dir { "/" } else { "" }, e.size)).collect::<Vec<_>>(),
            "syignore": c.syignore, "include_from": c.include_from, "exclude_from": c.exclude_from, "templates": c.templates.iter().map(|(n, l)| json!({"name": n, "lines": l})).collect::<Vec<_>>(),
            "pre_existing": stale.keys().collect::<Vec<_>>(), "exit_ok": ok, "stderr": String::from_utf8_lossy(&out.stderr).chars().take(300).collect::<String>(),
            "dst": after.keys().collect::<Vec<_>>(), "model": m});
        let mut kept_model: Option<BTreeSet<String>> = None;
        if m.starts_with("err") {
            rep.tag(&format!("bin.model-{}", m.split(' ').take(2).collect::<Vec<_>>().join("-")));
            // the process must refuse before touching the destination
            if ok { rep.disagree(json!({"stream":"binary","what":"model rejects the configuration, sy exits 0","case":describe()})); }
            if after != stale { rep.disagree(json!({"stream":"binary","what":"destination changed although the configuration is rejected","case":describe()})); }
        } else if let Some(list) = m.strip_prefix("ok ") {
            let kept: BTreeSet<String> = if list == "-" { BTreeSet::new() } else { list.split(',').map(|h| {
                let b: Vec<u8> = (0..h.len() / 2).map(|i| u8::from_str_radix(&h[2 * i..2 * i + 2], 16).unwrap()).collect(); String::from_utf8(b).unwrap() }).collect() };
            let expect: BTreeSet<String> = kept.iter().cloned().chain(stale.keys().cloned()).collect();
            let got: BTreeSet<String> = after.keys().cloned().collect();
            if !ok { rep.disagree(json!({"stream":"binary","what":"sy failed on a configuration the model accepts","case":describe()})); }
            else if expect != got {
                rep.disagree(json!({"stream":"binary","what":"destination path set differs from scanFilter prediction",
                    "missing": expect.difference(&got).collect::<Vec<_>>(), "unexpected": got.difference(&expect).collect::<Vec<_>>(), "case":describe()}));
            }
            kept_model = Some(kept);
        } else {
            rep.disagree(json!({"stream":"binary","what":"driver refused the request","request":req,"answer":m}));
        }

        // --- oracle (independent of the model)
        let mut all_pats: Vec<String> = Vec::new();
        let mut ref_rules: Vec<(bool, String)> = Vec::new();
        for f in &c.filters { if let Some(r) = ref_parse_filter_line(f) { ref_rules.push(r); } }
        for p in &c.includes { ref_rules.push((true, p.clone())); }
        for p in &c.excludes { ref_rules.push((false, p.clone())); }
        let plain = |l: &String| { let t = l.trim(); if t.is_empty() || t.starts_with('#') { None } else { Some(t.to_string()) } };
        if let Some(ls) = &c.include_from { for l in ls { if let Some(p) = plain(l) { ref_rules.push((true, p)); } } }
        if let Some(ls) = &c.exclude_from { for l in ls { if let Some(p) = plain(l) { ref_rules.push((false, p)); } } }
        let mut lenient_ok = true;
        for (_, ls) in &c.templates { if let Some(ls) = ls { for l in ls { if let Some(r) = ref_parse_filter_line(l) { ref_rules.push(r); } } } }
        if let Some(ls) = &c.syignore { for l in ls { if let Some(r) = ref_parse_filter_line(l) { ref_rules.push(r); } } }
        for (_, p) in &ref_rules { all_pats.push(p.clone()); }
        if all_pats.iter().any(|p| !in_ref_grammar(p)) { lenient_ok = false; }
        let judged = ok && lenient_ok && c.min.zip(c.max).map(|(a, b)| a <= b).unwrap_or(true);
        let mut n_sel = 0; let mut n_fil = 0;
        if judged {
            rep.tag("bin.oracle-judged");
            for e in &c.tree {
                let mut sel = ref_verdict(&ref_rules, &e.rel, e.is_dir);
                for k in 1..e.rel.len() { if !ref_verdict(&ref_rules, &e.rel[..k].to_vec(), true) { sel = false; } }
                if !e.is_dir {
                    if let Some(mn) = c.min { if e.size < mn { sel = false; } }
                    if let Some(mx) = c.max { if e.size > mx { sel = false; } }
                }
                let key = e.rel.join("/");
                let star_slash_involved = !STAR_SLASH_DIRS_ONLY_DOCUMENTED && ref_rules.iter().any(|(_, p)| p.trim_end_matches('/') == "*" && p.ends_with('/'));
                let sig = |s: &str| if star_slash_involved { "C16/star-slash-dirs-only".to_string() } else { s.to_string() };
                if sel {
                    n_sel += 1;
                    let good = match after.get(&key) {
                        Some(None) => e.is_dir,
                        Some(Some(data)) => !e.is_dir && (key == ".syignore" || *data == file_content(&e.rel, e.size, 0)),
                        None => false,
                    };
                    if !good { rep.oracle_fail(&sig("C16/selected-entry-missing"), "an entry the rule list includes (no ancestor excluded, size within bounds) is missing or stale in the destination", json!({"entry": key, "case": describe()})); }
                } else {
                    n_fil += 1;
                    let bad = match (after.get(&key), stale.get(&key)) {
                        (None, _) => false,
                        (Some(now), Some(before)) => now != before,          // updated although filtered out
                        (Some(_), None) => true,                             // created although filtered out
                    };
                    if bad { rep.oracle_fail(&sig("C16/filtered-entry-transferred"), "an entry that is filtered out (rule, excluded ancestor or size) was created or updated in the destination", json!({"entry": key, "case": describe()})); }
                }
            }
        } else { rep.tag("bin.oracle-silent"); }
        if let Some(k) = &kept_model { if !judged { n_sel = k.len(); n_fil = c.tree.len() - k.len().min(c.tree.len()); } }
        rep.tag(if ok { "bin.exit-0" } else { "bin.exit-nonzero" });
        if !c.pre.is_empty() { rep.tag("bin.stale-destination"); }
        if c.min.is_some() || c.max.is_some() { rep.tag("bin.size-bounds"); }
        if c.syignore.is_some() { rep.tag("bin.syignore"); }
        if c.include_from.is_some() || c.exclude_from.is_some() { rep.tag("bin.pattern-file"); }
        if !c.templates.is_empty() { rep.tag("bin.template"); }
        rep.case(format!("b|{:?}|{:?}", args[2..].to_vec(), c.tree).as_bytes(), n_sel > 0 && n_fil > 0);
        if ci % 40 == 5 { rep.sample(json!({"stream":"binary","args": args[2..].to_vec(), "tree_entries": c.tree.len(), "kept": kept_model.as_ref().map(|k| k.len()), "exit_ok": ok})); }
        let _ = std::fs::remove_dir_all(&root);
    }
    // ---------------- stream 5: single-file sources (`sync_single_file`) ----------------
    // The source path is a regular file; its entry has relative path = file name. The property makes no
    // exception for this mode ("entries that are filtered out are never created or updated").
    let n_single = if thorough { 1200 } else { 60 };
    for ci in 0..n_single {
        let name = rng.pick(NAMES).to_string();
        const SIZES: &[u64] = &[0, 1, 2, 3, 5, 10, 100, 1024, 3000];
        let size = *rng.pick(SIZES);
        let ent = Ent { rel: vec![name.clone()], is_dir: false, size };
        let tree = vec![ent.clone()];
        let nf = *rng.pick(&[0u64, 1, 1, 2]); let ni = *rng.pick(&[0u64, 0, 1]); let nx = *rng.pick(&[0u64, 1, 1]);
        let filters: Vec<String> = (0..nf).map(|_| format!("{}{}", rng.pick(&["+ ", "- ", "- "]), gen_cli_pattern(&mut rng, &tree, false))).collect();
        let includes: Vec<String> = (0..ni).map(|_| gen_cli_pattern(&mut rng, &tree, false)).collect();
        let excludes: Vec<String> = (0..nx).map(|_| gen_cli_pattern(&mut rng, &tree, false)).collect();
        const BOUNDS: &[u64] = &[0, 1, 2, 4, 10, 100, 1024, 2048];
        let min = if rng.chance(1, 4) { Some(*rng.pick(BOUNDS)) } else { None };
        let mut max = if rng.chance(1, 4) { Some(*rng.pick(BOUNDS)) } else { None };
        if let (Some(a), Some(b)) = (min, max) { if a > b { max = Some(a + b); } }
        let root = work.join(format!("s{}", ci));
        let _ = std::fs::remove_dir_all(&root);
        let _ = std::fs::remove_dir_all(&home);
        let src = root.join("src"); let dst = root.join("dst");
        std::fs::create_dir_all(&src).unwrap(); std::fs::create_dir_all(&dst).unwrap();
        std::fs::create_dir_all(home.join("cache")).unwrap();
        std::fs::write(src.join(&name), file_content(&ent.rel, size, 0)).unwrap();
        let mut args: Vec<String> = vec![src.join(&name).to_string_lossy().to_string(), dst.join(&name).to_string_lossy().to_string(), "-q".into()];
        for f in &filters { args.push(format!("--filter={}", f)); }
        for f in &includes { args.push(format!("--include={}", f)); }
        for f in &excludes { args.push(format!("--exclude={}", f)); }
        if let Some(v) = min { args.push(format!("--min-size={}", v)); }
        if let Some(v) = max { args.push(format!("--max-size={}", v)); }
        let out = Command::new(sy_bin).args(&args).env_clear().env("PATH", "/usr/bin:/bin")
            .env("HOME", &home).env("XDG_CACHE_HOME", home.join("cache")).env("XDG_CONFIG_HOME", &cfg_home).env("XDG_DATA_HOME", home.join("data"))
            .current_dir(&root).output();
        let out = match out { Ok(o) => o, Err(e) => { rep.skipped.push(format!("single-file stream: cannot run sy: {}", e)); break; } };
        let ok = out.status.success();
        let after = snapshot(&dst);
        let req = format!("filter.single F={} I={} X={} IF=none XF=none T=- S=none min={} max={} E=f:{}:{}",
            lines_wire(&filters), lines_wire(&includes), lines_wire(&excludes),
            min.map(|v| v.to_string()).unwrap_or("none".into()), max.map(|v| v.to_string()).unwrap_or("none".into()), size, hs(&name));
        let m = drv.ask(&req);
        let describe = || json!({"mode": "single-file source", "args": args[2..].to_vec(), "file": name, "size": size, "exit_ok": ok,
            "stderr": String::from_utf8_lossy(&out.stderr).chars().take(300).collect::<String>(), "dst": after.keys().collect::<Vec<_>>(), "model": m});
        let transferred = after.get(&name).map(|c| *c == Some(file_content(&ent.rel, size, 0))).unwrap_or(false);
        if m.starts_with("err") {
            if ok || !after.is_empty() { rep.disagree(json!({"stream":"single","what":"model rejects the configuration, sy ran","case":describe()})); }
        } else if m == format!("ok {}", hs(&name)) {
            if !ok || !transferred { rep.disagree(json!({"stream":"single","what":"model: the file is transferred; sy did not","case":describe()})); }
        } else if m == "ok -" {
            if !ok || !after.is_empty() { rep.disagree(json!({"stream":"single","what":"model: the file is filtered out; sy transferred it","case":describe()})); }
        } else { rep.disagree(json!({"stream":"single","what":"driver refused the request","request":req,"answer":m})); }
        // oracle
        let mut ref_rules: Vec<(bool, String)> = Vec::new();
        for f in &filters { if let Some(r) = ref_parse_filter_line(f) { ref_rules.push(r); } }
        for p in &includes { ref_rules.push((true, p.clone())); }
        for p in &excludes { ref_rules.push((false, p.clone())); }
        let sel = ref_verdict(&ref_rules, &ent.rel, false) && min.map(|v| size >= v).unwrap_or(true) && max.map(|v| size <= v).unwrap_or(true);
        if ok && ref_rules.iter().all(|(_, p)| in_ref_grammar(p)) {
            if sel && !transferred {
                rep.oracle_fail("C16/selected-entry-missing", "single-file source: the file is selected by the rule list and size bounds but was not transferred", describe());
            }
            if !sel && !after.is_empty() {
                rep.oracle_fail("C16/single-file-source-unfiltered", "single-file source: the file is filtered out (rule or size bound) but was created in the destination", describe());
            }
            rep.tag(if sel { "single.selected" } else { "single.filtered" });
        }
        rep.tag(if transferred { "single.transferred" } else { "single.not-transferred" });
        rep.case(format!("s|{:?}|{}|{}", args[2..].to_vec(), name, size).as_bytes(), !sel);
        let _ = std::fs::remove_dir_all(&root);
    }

    // ---------------- observation (no verdict): ignore files hide entries from the scan ----------------
    // The model's `scan` is what the walker yields. `ignore::WalkBuilder` (src/sync/scanner.rs:225-236) honours
    // `.ignore` files always and `.gitignore` files when the source lies inside a git work tree; entries they
    // match never reach the filter. Generated trees above contain no such files; this records what happens when
    // they do (DESIGN §6 C16 "Assumed").
    for k in 0..3 {
        let root = work.join(format!("obs{}", k));
        let _ = std::fs::remove_dir_all(&root);
        let src = root.join("src"); let dst = root.join("dst");
        std::fs::create_dir_all(src.join("d")).unwrap();
        std::fs::create_dir_all(home.join("cache")).unwrap();
        std::fs::write(src.join("a.log"), b"1").unwrap();
        std::fs::write(src.join("d").join("a.log"), b"2").unwrap();
        std::fs::write(src.join("d").join("k"), b"3").unwrap();
        std::fs::write(src.join(if k == 2 { ".gitignore" } else { ".ignore" }), b"a.log\n").unwrap();
        let out = Command::new(sy_bin).args([src.to_string_lossy().as_ref(), dst.to_string_lossy().as_ref(), "-q"]).env_clear().env("PATH", "/usr/bin:/bin")
            .env("HOME", &home).env("XDG_CACHE_HOME", home.join("cache")).env("XDG_CONFIG_HOME", &cfg_home).current_dir(&root).output();
        if let Ok(o) = out {
            let after = snapshot(&dst);
            let hidden = o.status.success() && !after.contains_key("a.log") && !after.contains_key("d/a.log") && after.contains_key("d/k");
            rep.tag(&format!("obs.{}-{}", if k == 2 { "gitignore" } else { "ignore" }, if hidden { "hides-entries-from-scan" } else { "not-honoured" }));
        }
        let _ = std::fs::remove_dir_all(&root);
    }
    let _ = std::fs::remove_dir_all(&home);
    let _ = PathBuf::new();
    rep
}
