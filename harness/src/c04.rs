//! C04 — delta encoding: correspondence (K) of the Lean model with sy's delta code, and the
//! oracle (O) `apply(generate(new, checksums(old))) == new` on the implementation itself.
use crate::driver::{hex, Driver};
use crate::report::Report;
use crate::rng::Rng;
use serde_json::json;
use std::io::Write;
use sy::delta::{apply_delta, compute_checksums, generate_delta, generate_delta_streaming, Adler32, Delta, DeltaOp};

fn show_ops(ops: &[DeltaOp]) -> String {
    if ops.is_empty() { return "-".into(); }
    ops.iter().map(|op| match op {
        DeltaOp::Copy { offset, size } => format!("C{},{}", offset, size),
        DeltaOp::Data(d) => format!("D{}", hex(d)),
    }).collect::<Vec<_>>().join(";")
}

/// structured edits of a base string
fn mutate(rng: &mut Rng, old: &[u8], bs: usize, alphabet: u64) -> (Vec<u8>, &'static str) {
    let mut new = old.to_vec();
    let kind = rng.below(10);
    let n = new.len();
    match kind {
        0 => (new, "equal"),
        1 => { let k = rng.range(1, 2 * bs as u64 + 1) as usize; let ins = rng.bytes(k, alphabet);
               let p = rng.below(n as u64 + 1) as usize; new.splice(p..p, ins); (new, "insert") }
        2 => { if n > 0 { let p = rng.below(n as u64) as usize; let k = (rng.range(1, 2 * bs as u64) as usize).min(n - p);
               new.drain(p..p + k); } (new, "delete") }
        3 => { if n > 0 { let p = rng.below(n as u64) as usize; new[p] = new[p].wrapping_add(1); } (new, "overwrite1") }
        4 => { let k = rng.range(1, bs as u64) as usize; let pre = rng.bytes(k, alphabet); new.splice(0..0, pre); (new, "shift") }
        5 => { if n >= bs { let b = rng.below((n / bs) as u64) as usize; let blk = new[b * bs..(b + 1) * bs].to_vec();
               let p = rng.below(n as u64 + 1) as usize; new.splice(p..p, blk); } (new, "dup-block") }
        6 => { if n >= 2 * bs { let nb = n / bs; let a = rng.below(nb as u64) as usize; let b = rng.below(nb as u64) as usize;
               for i in 0..bs { new.swap(a * bs + i, b * bs + i); } } (new, "swap-blocks") }
        7 => { let k = rng.below(n as u64 + 1) as usize; new.truncate(k); (new, "truncate") }
        8 => { let k = rng.range(1, 3 * bs as u64) as usize; new.extend(rng.bytes(k, alphabet)); (new, "append") }
        _ => { let k = rng.below(4 * bs as u64 + 2) as usize; (rng.bytes(k, alphabet), "unrelated") }
    }
}

pub fn run(tier: &str, seed: u64, driver_path: &str, chunk: usize, work: &std::path::Path) -> Report {
    let mut rep = Report::default();
    rep.rule = "byte-string pairs (old,new): new derived from old by a structured edit (insert/delete/overwrite/shift/dup/swap/truncate/append/unrelated), small alphabets to force weak-checksum collisions and repeated blocks; lengths around 0, bs, 2bs and (few) around the 256 KiB streaming window; a case is non-trivial when old and new are non-empty and at least one Copy and one Data op were produced or a refill happened; distinct = distinct (bs,old,new)".into();
    let mut rng = Rng::new(seed);
    let mut drv = Driver::spawn(driver_path).expect("spawn sydriver");
    let thorough = tier == "thorough";
    std::fs::create_dir_all(work).unwrap();
    let oldp = work.join("old.bin");
    let newp = work.join("new.bin");
    let outp = work.join("out.bin");

    // ---- stream 1: Adler hash and rolling ----
    let n_adler = if thorough { 4000 } else { 600 };
    for i in 0..n_adler {
        let len = match rng.below(6) { 0 => 0, 1 => 1, 2 => rng.range(2, 16), 3 => rng.range(16, 300), 4 => rng.range(300, 6000), _ => rng.range(1, 64) } as usize;
        let alphabet = *rng.pick(&[2u64, 4, 256, 256]);
        let mut d = rng.bytes(len, alphabet);
        if rng.chance(1, 8) { for b in d.iter_mut() { *b = 255; } }
        let h = Adler32::hash(&d);
        let m = drv.ask(&format!("adler.hash {}", hex(&d)));
        rep.case(&[b"adler", &d[..]].concat(), len > 1);
        rep.tag("adler.hash");
        if m != h.to_string() { rep.disagree(json!({"stream":"adler.hash","data":hex(&d),"impl":h,"model":m})); }
        if len >= 2 {
            let n = rng.range(1, (len as u64 - 1).min(if i % 7 == 0 { 4096 } else { 64 })) as usize;
            let k = rng.range(1, (len - n) as u64) as usize;
            let mut r = Adler32::new(n);
            r.update_block(&d[0..n]);
            for j in 0..k { r.roll(d[j], d[j + n]); }
            let direct = Adler32::hash(&d[k..k + n]);
            let m = drv.ask(&format!("adler.roll {} {} {}", n, hex(&d), k));
            rep.tag("adler.roll");
            if m != r.digest().to_string() { rep.disagree(json!({"stream":"adler.roll","n":n,"k":k,"data":hex(&d),"impl":r.digest(),"model":m})); }
            if r.digest() != direct {
                rep.oracle_fail("C04/rolling-differs-from-direct", "rolling checksum after k rolls differs from the direct checksum of the window",
                    json!({"n":n,"k":k,"data":hex(&d)}));
            }
        }
    }

    // ---- stream 2: generators, checksums, apply ----
    let n_pairs = if thorough { 12000 } else { 1500 };
    let n_big = if thorough { 40 } else { 6 };
    for i in 0..(n_pairs + n_big) {
        let big = i >= n_pairs;
        let (bs, old, new, kind) = if !big {
            let bs = *rng.pick(&[1usize, 2, 3, 4, 7, 8, 16, 64]);
            let alphabet = *rng.pick(&[2u64, 3, 4, 16, 256]);
            let len = match rng.below(8) { 0 => 0, 1 => rng.range(0, 2), 2 => bs as u64, 3 => (bs as u64 * 2).saturating_sub(1), 4 => bs as u64 * 3 + 1,
                                          5 => rng.range(0, 40), 6 => rng.range(40, 400), _ => rng.range(0, if thorough { 8000 } else { 3000 }) } as usize;
            let old = rng.bytes(len, alphabet);
            let (new, kind) = mutate(&mut rng, &old, bs, alphabet);
            (bs, old, new, kind)
        } else {
            // around the streaming window
            let bs = *rng.pick(&[512usize, 700, 4096, 1000]);
            let delta = rng.range(0, 2 * bs as u64) as usize;
            let len = match rng.below(4) { 0 => chunk - delta.min(chunk), 1 => chunk + delta, 2 => 2 * chunk - delta.min(chunk), _ => chunk + chunk / 2 + delta };
            let old = rng.bytes(len, 256);
            let (new, kind) = mutate(&mut rng, &old, bs, 256);
            (bs, old, new, kind)
        };
        std::fs::File::create(&oldp).unwrap().write_all(&old).unwrap();
        std::fs::File::create(&newp).unwrap().write_all(&new).unwrap();
        rep.tag(&format!("edit.{}", kind));
        rep.tag(if big { "size.window" } else { "size.small" });

        // checksums
        let cs = compute_checksums(&oldp, bs).unwrap();
        let cs_s = if cs.is_empty() { "-".to_string() } else { cs.iter().map(|c| format!("{},{},{}", c.offset, c.size, c.weak)).collect::<Vec<_>>().join(";") };
        let old_h = hex(&old);
        let new_h = hex(&new);
        let m = drv.ask(&format!("delta.checksums {} {}", bs, old_h));
        if m != cs_s { rep.disagree(json!({"stream":"delta.checksums","bs":bs,"old":old_h,"impl":cs_s,"model":m})); }

        // generators
        let dm: Delta = generate_delta(&newp, &cs, bs).unwrap();
        let ds: Delta = generate_delta_streaming(&newp, &cs, bs).unwrap();
        let mm = drv.ask(&format!("delta.gen mem {} {} {} {}", bs, chunk, old_h, new_h));
        let ms = drv.ask(&format!("delta.gen stream {} {} {} {}", bs, chunk, old_h, new_h));
        let im = show_ops(&dm.ops);
        let is = show_ops(&ds.ops);
        if mm != im { rep.disagree(json!({"stream":"delta.gen.mem","bs":bs,"old":old_h,"new":new_h,"impl":im,"model":mm})); }
        if ms != is { rep.disagree(json!({"stream":"delta.gen.stream","bs":bs,"old":old_h,"new":new_h,"impl":is,"model":ms})); }
        let ncopy = dm.ops.iter().filter(|o| matches!(o, DeltaOp::Copy { .. })).count();
        let ndata = dm.ops.len() - ncopy;
        if ncopy > 0 { rep.tag("ops.has-copy"); }
        if ndata > 0 { rep.tag("ops.has-data"); }
        if cs.last().map(|c| c.size < bs).unwrap_or(false) && dm.ops.iter().any(|o| matches!(o, DeltaOp::Copy{size,..} if *size < bs)) { rep.tag("ops.partial-tail-match"); }
        if new.len() > chunk { rep.tag("stream.refill"); }
        let key = [&(bs as u64).to_le_bytes()[..], &old[..], b"|", &new[..]].concat();
        rep.case(&key, !old.is_empty() && !new.is_empty() && ((ncopy > 0 && ndata > 0) || new.len() > chunk));
        if i % 400 == 0 { rep.sample(json!({"bs":bs,"edit":kind,"old_len":old.len(),"new_len":new.len(),"ops_mem":if im.len() < 200 { im.clone() } else { format!("{}…", &im[..200]) }})); }

        // oracle on the implementation: apply(generate) == new, copies in range
        for (name, d) in [("mem", &dm), ("stream", &ds)] {
            for op in &d.ops { if let DeltaOp::Copy { offset, size } = op { if *offset as usize + *size > old.len() {
                rep.oracle_fail("C04/copy-out-of-range", "a Copy op references bytes outside old", json!({"gen":name,"bs":bs,"old":old_h,"new":new_h}));
            } } }
            match apply_delta(&oldp, d, &outp) {
                Ok(_) => { let got = std::fs::read(&outp).unwrap(); if got != new {
                    rep.oracle_fail("C04/reconstruction-differs", "apply(generate(new, checksums(old))) != new", json!({"gen":name,"bs":bs,"old":old_h,"new":new_h})); } }
                Err(e) => rep.oracle_fail("C04/apply-error", &format!("apply_delta failed: {}", e), json!({"gen":name,"bs":bs,"old":old_h,"new":new_h})),
            }
        }

        // apply_delta on arbitrary (possibly out-of-range) op lists
        if !big && i % 3 == 0 {
            let mut ops = dm.ops.clone();
            if rng.chance(1, 2) { ops.push(DeltaOp::Copy { offset: rng.below(old.len() as u64 + 3), size: rng.below(old.len() as u64 + 3) as usize }); }
            if rng.chance(1, 3) && !ops.is_empty() { let j = rng.below(ops.len() as u64) as usize; ops.swap(0, j); }
            let d = Delta { ops: ops.clone(), source_size: 0, block_size: bs };
            let r = apply_delta(&oldp, &d, &outp);
            let is = match r { Ok(_) => format!("ok {}", hex(&std::fs::read(&outp).unwrap())), Err(_) => "err eof".to_string() };
            let m = drv.ask(&format!("delta.apply {} {}", old_h, show_ops(&ops)));
            rep.tag(if is.starts_with("ok") { "apply.ok" } else { "apply.err" });
            if m != is { rep.disagree(json!({"stream":"delta.apply","old":old_h,"ops":show_ops(&ops),"impl":is,"model":m})); }
        }
    }
    rep
}
