//! Report written by every harness stream; check.py turns it into evidence and verdicts.
use serde_json::{json, Value};
use std::collections::{BTreeMap, HashSet};

#[derive(Default)]
pub struct Report {
    pub evaluations: u64,
    pub nontrivial: HashSet<u64>,
    pub histogram: BTreeMap<String, u64>,
    pub samples: Vec<Value>,
    pub disagreements: Vec<Value>,
    pub oracle_failures: Vec<Value>,
    pub skipped: Vec<String>,
    pub rule: String,
}

pub fn fnv(data: &[u8]) -> u64 {
    let mut h: u64 = 0xcbf29ce484222325;
    for b in data { h ^= *b as u64; h = h.wrapping_mul(0x100000001b3); }
    h
}

impl Report {
    pub fn tag(&mut self, t: &str) { *self.histogram.entry(t.to_string()).or_insert(0) += 1; }
    pub fn case(&mut self, key: &[u8], nontrivial: bool) {
        self.evaluations += 1;
        if nontrivial { self.nontrivial.insert(fnv(key)); }
    }
    pub fn sample(&mut self, v: Value) { if self.samples.len() < 6 { self.samples.push(v); } }
    pub fn disagree(&mut self, v: Value) { if self.disagreements.len() < 50 { self.disagreements.push(v); } }
    pub fn oracle_fail(&mut self, signature: &str, what: &str, input: Value) {
        if self.oracle_failures.len() < 50 {
            self.oracle_failures.push(json!({"signature": signature, "what": what, "input": input}));
        }
    }
    pub fn to_json(&self) -> Value {
        json!({
            "evaluations": self.evaluations,
            "distinct_nontrivial": self.nontrivial.len(),
            "rule": self.rule,
            "histogram": self.histogram,
            "samples": self.samples,
            "disagreements": self.disagreements,
            "oracle_failures": self.oracle_failures,
            "skipped": self.skipped,
        })
    }
}
