//! Correspondence of the translated code's vocabulary (lean/SyModel/Generated/Prelude.lean) with the real std functions:
//! `Path::{parent, file_name, file_stem, extension, join, with_file_name, strip_prefix}`, the crate's own `temp_file::working_file_path` against its TRANSLATION (unit TempFile), `Path::starts_with`, `str::{to_lowercase, eq_ignore_ascii_case, rsplit, starts_with, ends_with}`, `sort_by_key` (bool key, stable), `partition`, `div_ceil`, `abs_diff`, `saturating_sub`,
//! `SystemTime::duration_since`, `Duration::as_secs`, `format!("{}", n)`.  Inputs inside the documented domain of the
//! Prelude (clean relative path texts: no empty, `.` or `..` component, no leading or trailing `/`; ASCII) must agree;
//! inputs outside it are run as well and only counted (tags `outside.*`), so that the evidence shows where the domain ends.
use crate::driver::{hex, Driver};
use crate::report::Report;
use crate::rng::Rng;
use serde_json::json;
use std::path::{Path, PathBuf};
use std::time::{Duration, UNIX_EPOCH};

fn comp(rng: &mut Rng) -> String {
    let pool = ["a", "b", "c.txt", "d.bin", ".hidden", "x.tar.gz", "e f", "noext", "..x", "a.", ".", "..", "", "A.TXT", "Zz", "k.conflict-17-source.txt"];
    pool[rng.below(pool.len() as u64) as usize].to_string()
}
fn path_text(rng: &mut Rng) -> String {
    let n = rng.range(0, 4);
    let mut parts: Vec<String> = (0..n).map(|_| comp(rng)).collect();
    if rng.chance(1, 8) { parts.insert(0, String::new()); }          // leading '/'
    if rng.chance(1, 10) { parts.push(String::new()); }              // trailing '/'
    parts.join("/")
}
fn in_domain(p: &str) -> bool {
    !p.is_empty() && p.split('/').all(|c| !c.is_empty() && c != "." && c != "..")
}
fn opt(o: Option<&str>) -> String { match o { Some(s) => format!("some:{}", hex(s.as_bytes())), None => "none".into() } }

pub fn run(tier: &str, seed: u64, driver_path: &str) -> Report {
    let mut rep = Report::default();
    rep.rule = "path texts of 0..4 components drawn from names with / without extensions, dot files, double extensions, '.', '..', empty components, leading and trailing '/'; every std function the Prelude gives a meaning to is evaluated on them and compared with the Prelude's definition through the driver; non-trivial = an input inside the Prelude's documented domain; distinct = distinct (function, input)".into();
    let mut rng = Rng::new(seed ^ 0x9e1d);
    let mut drv = Driver::spawn(driver_path).expect("spawn sydriver");
    let n = if tier == "thorough" { 6000 } else { 800 };
    let mut dis = 0;
    for _ in 0..n {
        let p = path_text(&mut rng);
        let dom = in_domain(&p);
        let pp = Path::new(&p);
        let h = hex(p.as_bytes());
        let mut check = |rep: &mut Report, drv: &mut Driver, name: &str, req: String, real: String, dom: bool| {
            let m = drv.ask(&req);
            rep.case(format!("{}|{}", name, req).as_bytes(), dom);
            if m == real { rep.tag(&format!("agree.{}", name)); }
            else if dom {
                rep.tag(&format!("DISAGREE.{}", name));
                if dis < 20 { rep.disagree(json!({"stream": "prelude", "function": name, "input": req, "std": real, "prelude": m})); dis += 1; }
            } else { rep.tag(&format!("outside.{}", name)); }
        };
        check(&mut rep, &mut drv, "parent", format!("prelude.parent {}", h), opt(pp.parent().and_then(|x| x.to_str())), dom);
        check(&mut rep, &mut drv, "file_name", format!("prelude.file_name {}", h), opt(pp.file_name().and_then(|x| x.to_str())), dom);
        check(&mut rep, &mut drv, "file_stem", format!("prelude.file_stem {}", h), opt(pp.file_stem().and_then(|x| x.to_str())), dom);
        check(&mut rep, &mut drv, "extension", format!("prelude.extension {}", h), opt(pp.extension().and_then(|x| x.to_str())), dom);
        let nm = comp(&mut rng);
        let nm_ok = !nm.is_empty() && nm != "." && nm != "..";
        // `join` of a root (possibly absolute, never with a trailing '/') and a relative name
        let rootdom = p.is_empty() || p.trim_start_matches('/').split('/').all(|c| !c.is_empty() && c != "." && c != "..") && !p.ends_with('/') && !p.starts_with("//");
        check(&mut rep, &mut drv, "join", format!("prelude.join {} {}", h, hex(nm.as_bytes())), hex(pp.join(&nm).to_string_lossy().as_bytes()), rootdom && nm_ok);
        // `with_file_name` (vocabulary of unit TempFile) and the TRANSLATED `working_file_path` itself against the real function of the
        // crate: inside the domain of `Props/GenTempFile.ProperName` (a clean text; an absolute clean text is counted as outside)
        check(&mut rep, &mut drv, "with_file_name", format!("prelude.with_file_name {} {}", h, hex(nm.as_bytes())), hex(pp.with_file_name(&nm).to_string_lossy().as_bytes()), dom && nm_ok);
        check(&mut rep, &mut drv, "working_file_path", format!("prelude.working_file_path {}", h), hex(sy::temp_file::working_file_path(pp).to_string_lossy().as_bytes()), dom);
        // strip_prefix: base = a prefix of the components, or another path
        // one case in six: a TEXTUAL prefix cut at an arbitrary byte (`ab/c` vs `a`) — where component-wise and textual tests part
        let base: String = if rng.chance(1, 6) && !p.is_empty() { p[..rng.below(p.len() as u64 + 1) as usize].to_string() } else if rng.chance(2, 3) { let cs: Vec<&str> = p.split('/').collect(); cs[..rng.below(cs.len() as u64 + 1) as usize].join("/") } else { path_text(&mut rng) };
        let real = match pp.strip_prefix(Path::new(&base)) { Ok(r) => format!("ok:{}", hex(r.to_string_lossy().as_bytes())), Err(_) => "err".into() };
        check(&mut rep, &mut drv, "strip_prefix", format!("prelude.strip_prefix {} {}", h, hex(base.as_bytes())), real, dom && (base.is_empty() || in_domain(&base)));
        // component-wise `Path::starts_with` (the guard of repair 0e87354 and the exclusion of children rest on it), textual
        // `str::starts_with`, `str::ends_with('/')`
        let bdom = dom && (base.is_empty() || in_domain(&base));
        check(&mut rep, &mut drv, "path_starts_with", format!("prelude.path_starts_with {} {}", h, hex(base.as_bytes())), pp.starts_with(Path::new(&base)).to_string(), bdom);
        rep.tag(if pp.starts_with(Path::new(&base)) { if p == base { "dist.path_starts_with.equal" } else { "dist.path_starts_with.strictly_below" } } else if p.starts_with(base.as_str()) { "dist.path_starts_with.textual_prefix_only" } else { "dist.path_starts_with.unrelated" });
        check(&mut rep, &mut drv, "str_starts_with", format!("prelude.str_starts_with {} {}", h, hex(base.as_bytes())), p.starts_with(base.as_str()).to_string(), true);
        check(&mut rep, &mut drv, "ends_with_slash", format!("prelude.ends_with_slash {}", h), p.ends_with('/').to_string(), true);
        // list vocabulary of unit EngineOrder: the STABLE sort by a boolean key (false first) and `partition`
        let xs: Vec<u64> = (0..rng.range(0, 9)).map(|_| rng.below(20)).collect();
        let lst = if xs.is_empty() { "-".to_string() } else { xs.iter().map(|x| x.to_string()).collect::<Vec<_>>().join(",") };
        let mut sorted = xs.clone(); sorted.sort_by_key(|x| x % 2 == 1);
        let show = |v: &Vec<u64>| v.iter().map(|x| x.to_string()).collect::<Vec<_>>().join(",");
        check(&mut rep, &mut drv, "sort_by_key_bool", format!("prelude.sort_by_key_odd {}", lst), show(&sorted), true);
        let (pa, pb): (Vec<u64>, Vec<u64>) = xs.iter().partition(|x| *x % 2 == 1);
        check(&mut rep, &mut drv, "partition", format!("prelude.partition_odd {}", lst), format!("{}|{}", show(&pa), show(&pb)), true);
        let (da, db) = (rng.below(1 << 40), 1 + rng.below(1 << 20));
        check(&mut rep, &mut drv, "div_ceil", format!("prelude.div_ceil {} {}", da, db), da.div_ceil(db).to_string(), true);
        let (aa, ab) = (rng.below(1000), rng.below(1000));
        check(&mut rep, &mut drv, "abs_diff", format!("prelude.abs_diff {} {}", aa, ab), aa.abs_diff(ab).to_string(), true);
        check(&mut rep, &mut drv, "saturating_sub", format!("prelude.saturating_sub {} {}", aa, ab), aa.saturating_sub(ab).to_string(), true);
        // strings
        let s = comp(&mut rng) + &comp(&mut rng);
        check(&mut rep, &mut drv, "to_lowercase", format!("prelude.to_lowercase {}", hex(s.as_bytes())), hex(s.to_lowercase().as_bytes()), true);
        let t = if rng.chance(1, 2) { s.to_uppercase() } else { comp(&mut rng) };
        check(&mut rep, &mut drv, "eq_ignore_ascii_case", format!("prelude.eq_ignore_ascii_case {} {}", hex(s.as_bytes()), hex(t.as_bytes())), s.eq_ignore_ascii_case(&t).to_string(), true);
        check(&mut rep, &mut drv, "rsplit_first", format!("prelude.rsplit_first {} {}", hex(s.as_bytes()), hex(b".")), opt(s.rsplit('.').next()), true);
        // numbers and times
        let k = match rng.below(4) { 0 => rng.below(12), 1 => rng.below(100000), _ => rng.next() % 10u64.pow(rng.range(1, 19) as u32) };
        check(&mut rep, &mut drv, "display_nat", format!("prelude.display_nat {}", k), hex(format!("{}", k).as_bytes()), true);
        let (a, b) = (rng.next() % 4_000_000_000_000_000_000, rng.next() % 4_000_000_000_000_000_000);
        let (ta, tb) = (UNIX_EPOCH + Duration::from_nanos(a), UNIX_EPOCH + Duration::from_nanos(b));
        let real = match ta.duration_since(tb) { Ok(d) => format!("ok:{}", d.as_nanos()), Err(e) => format!("err:{}", e.duration().as_nanos()) };
        check(&mut rep, &mut drv, "duration_since", format!("prelude.duration_since {} {}", a, b), real, true);
        check(&mut rep, &mut drv, "as_secs", format!("prelude.as_secs {}", a), Duration::from_nanos(a).as_secs().to_string(), true);
        if rep.samples.len() < 4 { rep.sample(json!({"path": p, "in_domain": dom, "parent": pp.parent().map(PathBuf::from), "stem": pp.file_stem().and_then(|x| x.to_str())})); }
    }
    rep
}
