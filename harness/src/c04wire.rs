//! C04 (wire leg) — correspondence (K) of the Lean model of the delta wire encoding
//! (`SyModel/Delta/Wire.lean`) with `serde_json` on sy's `Delta`, and the oracle (O)
//! "checksums → streaming generator → JSON → zstd → `sy-remote apply-delta` reproduces new"
//! on the real binaries, with compressed and uncompressed stdin.
use crate::driver::{hex, Driver};
use crate::report::Report;
use crate::rng::Rng;
use serde_json::json;
use std::io::Write;
use std::path::{Path, PathBuf};
use std::process::{Command, Stdio};
use sy::compress::{compress, decompress, Compression};
use sy::delta::{compute_checksums, generate_delta, generate_delta_streaming, BlockChecksum, Delta, DeltaOp};

pub const ZSTD_MAGIC: [u8; 4] = [0x28, 0xB5, 0x2F, 0xFD];

pub fn unhex(s: &str) -> Option<Vec<u8>> {
    if s == "-" { return Some(Vec::new()); }
    if s.len() % 2 != 0 { return None; }
    (0..s.len() / 2).map(|i| u8::from_str_radix(&s[2 * i..2 * i + 2], 16).ok()).collect()
}

/// the `sy-remote` binary built from /repo's working tree: `$SY_REMOTE_BIN`, or next to this executable
/// (both are built into `$CARGO_TARGET_DIR/debug`).
pub fn sy_remote_bin() -> Option<PathBuf> {
    if let Ok(p) = std::env::var("SY_REMOTE_BIN") { let p = PathBuf::from(p); if p.exists() { return Some(p); } }
    let exe = std::env::current_exe().ok()?;
    let p = exe.parent()?.join("sy-remote");
    if p.exists() { Some(p) } else { None }
}

/// keeps the report lists diverse: at most `PER_KEY` entries per disagreement stream / oracle signature,
/// so that one noisy class cannot crowd the others out of the (capped) report.
#[derive(Default)]
pub struct Limiter(std::collections::HashMap<String, u32>);
const PER_KEY: u32 = 6;
impl Limiter {
    fn pass(&mut self, key: &str) -> bool { let c = self.0.entry(key.to_string()).or_insert(0); *c += 1; *c <= PER_KEY }
    pub fn disagree(&mut self, rep: &mut Report, v: serde_json::Value) {
        let key = format!("K:{}", v.get("stream").and_then(|s| s.as_str()).unwrap_or("?"));
        if self.pass(&key) { rep.disagree(v); }
    }
    pub fn oracle_fail(&mut self, rep: &mut Report, signature: &str, what: &str, input: serde_json::Value) {
        if self.pass(&format!("O:{}", signature)) { rep.oracle_fail(signature, what, input); }
    }
}

pub struct HelperOut { pub ok: bool, pub stdout: String, pub stderr: String }

/// run `sy-remote <args>` with `stdin`, private HOME, wait for exit.
pub fn run_helper(bin: &Path, home: &Path, args: &[String], stdin: &[u8]) -> HelperOut {
    let mut child = Command::new(bin).args(args)
        .env("HOME", home).env("XDG_CACHE_HOME", home.join("cache")).env("XDG_CONFIG_HOME", home.join("config"))
        .env_remove("RUST_LOG").env("RUST_BACKTRACE", "0").env("RUST_LIB_BACKTRACE", "0")
        .stdin(Stdio::piped()).stdout(Stdio::piped()).stderr(Stdio::piped()).spawn().expect("spawn sy-remote");
    let mut si = child.stdin.take().unwrap();
    let data = stdin.to_vec();
    // write from a thread: the helper reads all of stdin before answering, but be safe against pipe limits
    // every 5th call the payload arrives in two pieces — 1, 2 or 3 bytes, a pause, then the rest — as it may over a real SSH
    // channel (seeded change C14b: magic sniffing on whatever the first read returns)
    static CALLS: std::sync::atomic::AtomicUsize = std::sync::atomic::AtomicUsize::new(0);
    let n = CALLS.fetch_add(1, std::sync::atomic::Ordering::Relaxed);
    let split = if n % 5 == 4 && data.len() > 4 { Some(1 + (n / 5) % 3) } else { None };
    let w = std::thread::spawn(move || {
        match split {
            Some(k) => { let _ = si.write_all(&data[..k]); let _ = si.flush(); std::thread::sleep(std::time::Duration::from_millis(40)); let _ = si.write_all(&data[k..]); }
            None => { let _ = si.write_all(&data); }
        }
        drop(si);
    });
    let out = child.wait_with_output().expect("wait sy-remote");
    let _ = w.join();
    HelperOut { ok: out.status.success(), stdout: String::from_utf8_lossy(&out.stdout).into_owned(), stderr: String::from_utf8_lossy(&out.stderr).into_owned() }
}

pub fn show_ops(ops: &[DeltaOp]) -> String {
    if ops.is_empty() { return "-".into(); }
    ops.iter().map(|op| match op {
        DeltaOp::Copy { offset, size } => format!("C{},{}", offset, size),
        DeltaOp::Data(d) => format!("D{}", hex(d)),
    }).collect::<Vec<_>>().join(";")
}

fn show_delta(d: &Delta) -> String { format!("ops={} src={} bs={}", show_ops(&d.ops), d.source_size, d.block_size) }

/// numbers around decimal-length boundaries and the type limits
fn num(rng: &mut Rng, small_only: bool) -> u64 {
    let k = rng.below(if small_only { 6 } else { 10 });
    match k {
        0 => 0,
        1 => rng.below(10),
        2 => { let p = rng.below(15) as u32; let b = 10u64.pow(p); *rng.pick(&[b.saturating_sub(1), b, b + 1]) }
        3 => rng.below(1000),
        4 => rng.below(1 << 20),
        5 => rng.below(100_000_000_000_000),
        6 => u64::MAX,
        7 => u64::MAX - rng.below(3),
        8 => { let p = rng.below(20) as u32; let b = 10u64.pow(p); *rng.pick(&[b.saturating_sub(1), b, b.saturating_add(1)]) }
        _ => rng.next(),
    }
}

fn gen_delta(rng: &mut Rng, small_only: bool) -> Delta {
    let n_ops = match rng.below(6) { 0 => 0, 1 => 1, 2 => 2, _ => rng.range(1, 12) } as usize;
    let mut ops = Vec::new();
    for _ in 0..n_ops {
        if rng.chance(1, 2) {
            ops.push(DeltaOp::Copy { offset: num(rng, small_only), size: num(rng, small_only) as usize });
        } else {
            let len = match rng.below(6) { 0 => 0, 1 => 1, 2 => 2, 3 => rng.range(3, 40), 4 => rng.range(40, 300), _ => rng.range(0, 8) } as usize;
            let d: Vec<u8> = (0..len).map(|_| match rng.below(5) { 0 => *rng.pick(&[0u8, 9, 10, 99, 100, 199, 200, 255]), _ => rng.below(256) as u8 }).collect();
            ops.push(DeltaOp::Data(d));
        }
    }
    Delta { ops, source_size: num(rng, small_only), block_size: num(rng, small_only) as usize }
}

/// structured edit of a base string (same alphabet of edits as the c04 stream)
fn mutate(rng: &mut Rng, old: &[u8], bs: usize, alphabet: u64) -> (Vec<u8>, &'static str) {
    let mut new = old.to_vec();
    let n = new.len();
    // same-length rearrangements of whole blocks: the delta consists of Copy ops only, in an order / multiplicity that
    // differs from old's (seeded change C04b: a helper fast path keyed on "no literal bytes and equal length")
    if n >= 2 * bs && rng.chance(1, 4) {
        let nb = n / bs;
        let a = rng.below(nb as u64) as usize; let mut b = rng.below(nb as u64) as usize; if a == b { b = (a + 1) % nb; }
        return match rng.below(4) {
            0 => { for i in 0..bs { new.swap(a * bs + i, b * bs + i); } (new, "swap-blocks") }
            1 => { for i in 0..bs { new[b * bs + i] = old[a * bs + i]; } (new, "repeat-block") }
            2 => { new[..nb * bs].rotate_left(bs); (new, "rotate-blocks") }
            _ => { let mut r = Vec::with_capacity(n); for k in (0..nb).rev() { r.extend_from_slice(&old[k * bs..(k + 1) * bs]); } r.extend_from_slice(&old[nb * bs..]); (r, "reverse-blocks") }
        };
    }
    match rng.below(9) {
        0 => (new, "equal"),
        1 => { let k = rng.range(1, 2 * bs as u64 + 1) as usize; let ins = rng.bytes(k, alphabet); let p = rng.below(n as u64 + 1) as usize; new.splice(p..p, ins); (new, "insert") }
        2 => { if n > 0 { let p = rng.below(n as u64) as usize; let k = (rng.range(1, 2 * bs as u64) as usize).min(n - p); new.drain(p..p + k); } (new, "delete") }
        3 => { if n > 0 { let p = rng.below(n as u64) as usize; new[p] = new[p].wrapping_add(1); } (new, "overwrite1") }
        4 => { let k = rng.range(1, bs as u64) as usize; let pre = rng.bytes(k, alphabet); new.splice(0..0, pre); (new, "shift") }
        5 => { let k = rng.below(n as u64 + 1) as usize; new.truncate(k); (new, "truncate") }
        6 => { let k = rng.range(1, 3 * bs as u64) as usize; new.extend(rng.bytes(k, alphabet)); (new, "append") }
        7 => (Vec::new(), "empty"),
        _ => { let k = rng.below(4 * bs as u64 + 2) as usize; (rng.bytes(k, alphabet), "unrelated") }
    }
}

pub fn run(tier: &str, seed: u64, driver_path: &str, work: &Path) -> Report {
    let mut rep = Report::default();
    rep.rule = "W1: generated Delta values (0..12 ops; Copy offsets/sizes and the two size fields drawn around decimal-length boundaries, u32/u64 limits incl. u64::MAX; Data of length 0,1,2,..300 with bytes around 0/9/10/99/100/255): serde_json text == model printer byte for byte, model parser on serde's text, serde on the model's text. W2: malformed texts (truncation, trailing byte, deleted/replaced char, leading zero, element 256) — accept/reject and value equal. W3: real `sy-remote checksums` → real generator → serde_json → real zstd → real `sy-remote apply-delta`, compressed and uncompressed stdin, output file vs new and vs the model's remoteApply. non-trivial: the delta has at least one Copy and one Data op; distinct = distinct JSON text / (bs,old,new)".into();
    let mut lim = Limiter::default();
    let mut rng = Rng::new(seed ^ 0x04_77_1e);
    let mut drv = Driver::spawn(driver_path).expect("spawn sydriver");
    let thorough = tier == "thorough";
    std::fs::create_dir_all(work).unwrap();

    // ---- W1: printer / parser correspondence ----
    let n1 = if thorough { 6000 } else { 900 };
    for i in 0..n1 {
        let d = gen_delta(&mut rng, false);
        let text = serde_json::to_string(&d).unwrap();
        let ops_s = show_ops(&d.ops);
        let m_enc = drv.ask(&format!("wire.encode {} {} {}", ops_s, d.source_size, d.block_size));
        let text_h = hex(text.as_bytes());
        if m_enc != text_h { lim.disagree(&mut rep, json!({"stream":"wire.encode","delta":show_delta(&d),"impl":text,"model_hex":m_enc})); }
        let m_dec = drv.ask(&format!("wire.decode {}", text_h));
        if m_dec != show_delta(&d) { lim.disagree(&mut rep, json!({"stream":"wire.decode","json":text,"impl":show_delta(&d),"model":m_dec})); }
        // serde on the model's output
        match unhex(&m_enc).and_then(|b| String::from_utf8(b).ok()) {
            Some(mt) => match serde_json::from_str::<Delta>(&mt) {
                Ok(d2) => if show_delta(&d2) != show_delta(&d) { lim.disagree(&mut rep, json!({"stream":"wire.serde-on-model-text","model_text":mt,"expected":show_delta(&d),"got":show_delta(&d2)})); },
                Err(e) => lim.disagree(&mut rep, json!({"stream":"wire.serde-on-model-text","model_text":mt,"error":e.to_string()})),
            },
            None => lim.disagree(&mut rep, json!({"stream":"wire.encode","delta":show_delta(&d),"model_hex":m_enc,"error":"model output is not hex of UTF-8"})),
        }
        let ncopy = d.ops.iter().filter(|o| matches!(o, DeltaOp::Copy { .. })).count();
        let ndata = d.ops.len() - ncopy;
        if d.ops.is_empty() { rep.tag("w1.ops-empty"); }
        if d.ops.iter().any(|o| matches!(o, DeltaOp::Data(x) if x.is_empty())) { rep.tag("w1.data-empty"); }
        if d.ops.iter().any(|o| matches!(o, DeltaOp::Copy{offset,..} if *offset == u64::MAX)) { rep.tag("w1.offset-u64max"); }
        if d.ops.iter().any(|o| matches!(o, DeltaOp::Copy{size,..} if *size == usize::MAX)) { rep.tag("w1.size-usizemax"); }
        if d.ops.iter().any(|o| matches!(o, DeltaOp::Data(x) if x.contains(&255))) { rep.tag("w1.byte-255"); }
        rep.tag("w1.case");
        rep.case(text.as_bytes(), ncopy > 0 && ndata > 0);
        if i % 300 == 0 { rep.sample(json!({"stream":"w1","json": if text.len() < 240 { text.clone() } else { format!("{}…", &text[..240]) }})); }
    }

    // ---- W2: malformed texts ----
    let n2 = if thorough { 3000 } else { 500 };
    for _ in 0..n2 {
        let d = gen_delta(&mut rng, true);   // numbers < 10^15: an inserted digit cannot leave u64 (the model's numbers are unbounded)
        let text = serde_json::to_string(&d).unwrap();
        let mut b = text.clone().into_bytes();
        let kind = rng.below(7);
        let tag = match kind {
            0 => { let k = rng.below(b.len() as u64) as usize; b.truncate(k); "truncate" }
            1 => { b.push(*rng.pick(&[b'x', b'}', b']', b',', b'0', b'{'])); "trailing" }
            2 => { let k = rng.below(b.len() as u64) as usize; b.remove(k); "delete-char" }
            3 => { let k = rng.below(b.len() as u64) as usize; b[k] = *rng.pick(&[b'0', b'1', b'9', b'-', b'.', b'e', b'x', b'"', b':', b',', b'[', b']', b'{', b'}']); "replace-char" }
            4 => { // leading zero in front of some digit run
                   let pos: Vec<usize> = (0..b.len()).filter(|&i| b[i].is_ascii_digit() && (i == 0 || !b[i - 1].is_ascii_digit())).collect();
                   if !pos.is_empty() { let p = *rng.pick(&pos); b.insert(p, b'0'); } "leading-zero" }
            5 => { // a Data element above 255
                   if let Some(p) = text.find("\"Data\":[") { let at = p + 8; let v = *rng.pick(&["256", "300", "1000", "255"]); let mut s = text.clone();
                       if s.as_bytes()[at] == b']' { s.insert_str(at, v); } else { s.insert_str(at, &format!("{},", v)); } b = s.into_bytes(); } "elem-range" }
            _ => { let k = rng.below(b.len() as u64 + 1) as usize; b.insert(k, *rng.pick(&[b'0', b'5', b',', b'x'])); "insert-char" }
        };
        let s = match String::from_utf8(b.clone()) { Ok(s) => s, Err(_) => continue };
        let imp = match serde_json::from_str::<Delta>(&s) { Ok(d2) => show_delta(&d2), Err(_) => "err".to_string() };
        let m = drv.ask(&format!("wire.decode {}", hex(&b)));
        rep.tag(&format!("w2.{}.{}", tag, if imp == "err" { "rejected" } else { "accepted" }));
        rep.case(&[b"w2", &b[..]].concat(), imp == "err");
        if m != imp { lim.disagree(&mut rep, json!({"stream":"wire.decode.malformed","kind":tag,"text":s,"impl":imp,"model":m})); }
    }

    // ---- W3: binary level ----
    let bin = match sy_remote_bin() {
        Some(b) => b,
        None => { rep.skipped.push("w3: sy-remote binary not found next to the harness (binary-level wire stream skipped)".into()); return rep; }
    };
    let home = work.join("home");
    std::fs::create_dir_all(&home).unwrap();
    let oldp = work.join("old.bin");
    let newp = work.join("new.bin");
    let outp = work.join("out.bin");
    let n3 = if thorough { 700 } else { 160 };
    for i in 0..n3 {
        let bs = *rng.pick(&[1usize, 2, 3, 7, 8, 16, 64, 512, 700]);
        let alphabet = *rng.pick(&[2u64, 4, 16, 256, 256]);
        let len = match rng.below(8) { 0 => 0, 1 => rng.range(0, 2), 2 => bs as u64, 3 => bs as u64 * 3 + 1, 4 => rng.range(0, 60), 5 => rng.range(60, 600), 6 => bs as u64 * rng.range(2, 7), _ => rng.range(0, 3000) } as usize;
        let old = rng.bytes(len, alphabet);
        let (new, kind) = mutate(&mut rng, &old, bs, alphabet);
        std::fs::write(&oldp, &old).unwrap();
        std::fs::write(&newp, &new).unwrap();
        let old_h = hex(&old);
        let key = [&(bs as u64).to_le_bytes()[..], &old[..], b"|", &new[..]].concat();
        // 1. remote checksums through the binary
        let o = run_helper(&bin, &home, &["checksums".into(), oldp.to_string_lossy().into_owned(), "--block-size".into(), bs.to_string()], &[]);
        let cs: Vec<BlockChecksum> = match serde_json::from_str(o.stdout.trim()) {
            Ok(c) if o.ok => c,
            _ => { lim.oracle_fail(&mut rep, "C04/wire-checksums-failed", "sy-remote checksums failed or printed unparsable output", json!({"bs":bs,"old":old_h,"stderr":o.stderr})); continue; }
        };
        if cs != compute_checksums(&oldp, bs).unwrap() { lim.disagree(&mut rep, json!({"stream":"w3.checksums","bs":bs,"old":old_h,"what":"binary and library checksums differ"})); }
        // 2. generator (the remote path uses the streaming one)
        let streaming = i % 3 != 0;
        let delta = if streaming { generate_delta_streaming(&newp, &cs, bs).unwrap() } else { generate_delta(&newp, &cs, bs).unwrap() };
        let text = serde_json::to_string(&delta).unwrap();
        let zc = compress(text.as_bytes(), Compression::Zstd).unwrap();
        // Codec.Sound on this payload
        match decompress(&zc, Compression::Zstd) {
            Ok(back) if back == text.as_bytes() => {}
            _ => lim.oracle_fail(&mut rep, "C04/codec-roundtrip", "zstd decompress(compress(json)) != json", json!({"json":text})),
        }
        if zc.len() < 4 || zc[..4] != ZSTD_MAGIC { lim.oracle_fail(&mut rep, "C04/codec-no-magic", "zstd frame does not start with 28 B5 2F FD", json!({"json":text})); }
        let ncopy = delta.ops.iter().filter(|o| matches!(o, DeltaOp::Copy { .. })).count();
        let ndata = delta.ops.len() - ncopy;
        rep.tag(&format!("w3.edit.{}", kind));
        rep.tag(if streaming { "w3.gen.stream" } else { "w3.gen.mem" });
        rep.case(&key, ncopy > 0 && ndata > 0);
        // 3. apply through the binary, both stdin forms
        for (form, stdin) in [("zstd", zc.clone()), ("plain", text.clone().into_bytes())] {
            let _ = std::fs::remove_file(&outp);
            let o = run_helper(&bin, &home, &["apply-delta".into(), oldp.to_string_lossy().into_owned(), outp.to_string_lossy().into_owned()], &stdin);
            let imp = if o.ok { match std::fs::read(&outp) { Ok(b) => format!("ok {}", hex(&b)), Err(_) => "err".into() } } else { "err".to_string() };
            if imp != format!("ok {}", hex(&new)) {
                lim.oracle_fail(&mut rep, "C04/wire-reconstruction-differs", "output of sy-remote apply-delta differs from new (or the helper failed)",
                    json!({"stdin":form,"bs":bs,"gen":if streaming {"stream"} else {"mem"},"old":old_h,"new":hex(&new),"stderr":o.stderr}));
            }
            let dz = if stdin.len() >= 4 && stdin[..4] == ZSTD_MAGIC { match decompress(&stdin, Compression::Zstd) { Ok(b) => hex(&b), Err(_) => "fail".into() } } else { "na".into() };
            let m = drv.ask(&format!("wire.remote {} {} {}", old_h, hex(&stdin), dz));
            rep.tag(&format!("w3.apply.{}", form));
            if m != imp { lim.disagree(&mut rep, json!({"stream":"wire.remote","stdin":form,"bs":bs,"old":old_h,"new":hex(&new),"impl":imp,"model":m})); }
        }
        // 4. damaged stdin (every 5th case): helper must fail exactly when the model says so
        if i % 5 == 0 {
            let (form, stdin): (&str, Vec<u8>) = match rng.below(3) {
                0 => ("zstd-truncated", zc[..zc.len() - 1 - rng.below((zc.len() as u64 - 4).min(6)) as usize].to_vec()),
                1 => ("plain-truncated", text.as_bytes()[..rng.below(text.len() as u64) as usize].to_vec()),
                _ => ("magic-junk", [&ZSTD_MAGIC[..], &rng.bytes(12, 256)[..]].concat()),
            };
            let _ = std::fs::remove_file(&outp);
            let o = run_helper(&bin, &home, &["apply-delta".into(), oldp.to_string_lossy().into_owned(), outp.to_string_lossy().into_owned()], &stdin);
            let imp = if o.ok { match std::fs::read(&outp) { Ok(b) => format!("ok {}", hex(&b)), Err(_) => "err".into() } } else { "err".to_string() };
            let dz = if stdin.len() >= 4 && stdin[..4] == ZSTD_MAGIC { match decompress(&stdin, Compression::Zstd) { Ok(b) => hex(&b), Err(_) => "fail".into() } } else { "na".into() };
            let m = drv.ask(&format!("wire.remote {} {} {}", old_h, hex(&stdin), dz));
            rep.tag(&format!("w3.damaged.{}.{}", form, if imp == "err" { "rejected" } else { "accepted" }));
            if m != imp { lim.disagree(&mut rep, json!({"stream":"wire.remote.damaged","form":form,"stdin":hex(&stdin),"old":old_h,"impl":imp,"model":m})); }
        }
        if i % 40 == 0 { rep.sample(json!({"stream":"w3","bs":bs,"edit":kind,"old_len":old.len(),"new_len":new.len(),"json_len":text.len(),"zstd_len":zc.len(),"ops":delta.ops.len()})); }
    }
    rep
}
