//! C13 — hard-link hand-off: correspondence (K) of the Lean labelled transition system
//! (`lean/SyModel/Hardlink/Protocol.lean`, driver area `hl.`) with the real `Transferrer::create`
//! futures polled by a deterministic executor over a mock `Transport` (hook H3), and the oracles (O)
//! "no future stays pending while nobody can make progress" and, at binary level, "destination
//! files share an inode exactly when their sources do, with the source's content".
use crate::driver::Driver;
use crate::report::Report;
use crate::rng::Rng;
use async_trait::async_trait;
use serde_json::json;
use std::collections::{BTreeMap, HashMap};
use std::future::Future;
use std::path::{Path, PathBuf};
use std::pin::Pin;
use std::sync::Mutex;
use std::task::{Context, Poll, Waker};
use std::time::{Duration, Instant, SystemTime};
use sy::error::{Result as SyResult, SyncError};
use sy::sync::scanner::FileEntry;
use sy::sync::transfer::verif::{transferrer, HardlinkMapHandle, InodeStateView};
use sy::transport::{TransferResult, Transport};

// ------------------------------------------------------------------------------------------------
// configuration of one worker = one `create()` call (mirrors `WorkerCfg` of the model)
// ------------------------------------------------------------------------------------------------

#[derive(Clone, Copy, Debug, PartialEq, Eq, Hash)]
pub enum Act { Create, Update, Skip }

#[derive(Clone, Debug, PartialEq, Eq, Hash)]
pub struct WCfg {
    pub inode: u64,
    pub linked: bool,
    pub action: Act,
    /// update only: the destination is at or above the delta gate (temp file + rename)
    pub large: bool,
    /// destination file before the run: (inode id >= OLD_INO, content id)
    pub dst0: Option<(u64, u64)>,
    /// yields / failure of create_dir_all (create) resp. remove (update)
    pub y_mkdir: u32,
    /// yields / failure of copy_file (create) resp. sync_file_with_delta (update)
    pub y_copy: u32,
    pub y_link: u32,
    pub f_mkdir: bool,
    pub f_copy: bool,
    pub f_link: bool,
}

/// inode ids of files that exist before the run (ids below are the fresh inodes of the workers)
const OLD_INO: u64 = 100;

impl WCfg {
    fn new(inode: u64, linked: bool) -> Self {
        WCfg { inode, linked, action: Act::Create, large: false, dst0: None, y_mkdir: 0, y_copy: 0, y_link: 0, f_mkdir: false, f_copy: false, f_link: false }
    }
    fn update(inode: u64, linked: bool, large: bool, old_ino: u64, old_content: u64) -> Self {
        WCfg { action: Act::Update, large, dst0: Some((old_ino, old_content)), ..WCfg::new(inode, linked) }
    }
    fn skip(inode: u64, linked: bool, old_ino: u64) -> Self {
        WCfg { action: Act::Skip, dst0: Some((old_ino, inode)), ..WCfg::new(inode, linked) }
    }
    fn wire(&self) -> String {
        let a = match self.action { Act::Create => "c", Act::Update => "u", Act::Skip => "s" };
        let d = match self.dst0 { Some((i, c)) => format!("{},{}", i, c), None => "-,-".into() };
        format!("{},{},{},{},{},{},{},{},{},{},0,{}", self.inode, self.linked as u8, a, self.large as u8, d,
                self.y_mkdir, self.y_copy, self.y_link, self.f_mkdir as u8, self.f_copy as u8, self.f_link as u8)
    }
    fn any_fault(&self) -> bool { self.f_mkdir || self.f_copy || self.f_link }
}

fn cfg_wire(cfg: &[WCfg]) -> String { cfg.iter().map(|c| c.wire()).collect::<Vec<_>>().join(" ") }
fn sched_wire(s: &[usize]) -> String {
    if s.is_empty() { "-".into() } else { s.iter().map(|w| w.to_string()).collect::<Vec<_>>().join(".") }
}

fn src_path(w: usize) -> PathBuf { PathBuf::from(format!("/s/f{}", w)) }
fn dst_dir(w: usize) -> PathBuf { PathBuf::from(format!("/d/p{}", w)) }
fn dst_path(w: usize) -> PathBuf { dst_dir(w).join(format!("f{}", w)) }

// ------------------------------------------------------------------------------------------------
// mock transport: every operation yields a scripted number of times and fails on command
// ------------------------------------------------------------------------------------------------

struct YieldOnce(bool);
impl Future for YieldOnce {
    type Output = ();
    fn poll(mut self: Pin<&mut Self>, cx: &mut Context<'_>) -> Poll<()> {
        if self.0 { Poll::Ready(()) } else { self.0 = true; cx.waker().wake_by_ref(); Poll::Pending }
    }
}

#[derive(Default)]
struct MockState {
    log: Vec<String>,
    /// destination path -> (inode identity, content id)
    files: BTreeMap<PathBuf, (u64, u64)>,
}

struct Mock {
    cfg: Vec<WCfg>,
    by_dir: HashMap<PathBuf, usize>,
    by_dst: HashMap<PathBuf, usize>,
    st: Mutex<MockState>,
}

/// Directory of token files: `std::fs::Metadata` cannot be constructed, so the mock answers
/// `metadata(path)` with the metadata of a real, empty file that stands for the mock inode the path
/// names — two mock paths are the same inode iff their tokens are (that is all `same_inode` reads).
static TOKENS: std::sync::OnceLock<PathBuf> = std::sync::OnceLock::new();

fn token(ino: u64) -> PathBuf {
    let dir = TOKENS.get().expect("token dir");
    let p = dir.join(format!("ino_{}", ino));
    if !p.exists() { let _ = std::fs::write(&p, b""); }
    p
}

impl Mock {
    fn new(cfg: &[WCfg]) -> Self {
        let mut by_dir = HashMap::new();
        let mut by_dst = HashMap::new();
        let mut st = MockState::default();
        for w in 0..cfg.len() {
            by_dir.insert(dst_dir(w), w); by_dst.insert(dst_path(w), w);
            if let Some(f) = cfg[w].dst0 { st.files.insert(dst_path(w), f); }
        }
        Mock { cfg: cfg.to_vec(), by_dir, by_dst, st: Mutex::new(st) }
    }
    fn log(&self, s: String) { self.st.lock().unwrap().log.push(s); }
    fn fail(op: &str) -> SyncError { SyncError::Io(std::io::Error::other(format!("mock-fail:{}", op))) }
    fn unsupported<T>(what: &str) -> SyResult<T> { Err(SyncError::Io(std::io::Error::other(format!("mock-unsupported:{}", what)))) }
}

#[async_trait]
impl Transport for Mock {
    async fn scan(&self, _path: &Path) -> SyResult<Vec<FileEntry>> { Self::unsupported("scan") }
    async fn exists(&self, path: &Path) -> SyResult<bool> { Ok(self.st.lock().unwrap().files.contains_key(path)) }
    async fn metadata(&self, path: &Path) -> SyResult<std::fs::Metadata> {
        let ino = self.st.lock().unwrap().files.get(path).map(|f| f.0);
        match ino {
            Some(i) => std::fs::metadata(token(i)).map_err(SyncError::Io),
            None => Err(SyncError::Io(std::io::Error::new(std::io::ErrorKind::NotFound, "mock-enoent:metadata"))),
        }
    }
    /// the model's `syncOp`: full copy when the destination vanished, fresh inode at or above the
    /// delta gate (temp file + rename) or when the destination name is multiply linked
    /// (`break_unshared_hard_link`, 8b4f96e), otherwise a write through the existing inode
    async fn sync_file_with_delta(&self, _source: &Path, dest: &Path) -> SyResult<TransferResult> {
        let w = match self.by_dst.get(dest) { Some(w) => *w, None => return Self::unsupported("sync-path") };
        for _ in 0..self.cfg[w].y_copy { self.log("y-sync".into()); YieldOnce(false).await; }
        if self.cfg[w].f_copy { self.log("err-sync".into()); return Err(Self::fail("sync")); }
        let mut st = self.st.lock().unwrap();
        let content = self.cfg[w].inode;
        match st.files.get(dest).cloned() {
            None => { st.files.insert(dest.to_path_buf(), (w as u64, content)); }
            Some((ino, _)) => {
                let shared = st.files.iter().any(|(p, f)| p != dest && f.0 == ino);
                if self.cfg[w].large || shared {
                    st.files.insert(dest.to_path_buf(), (w as u64, content));
                } else {
                    for f in st.files.values_mut() { if f.0 == ino { f.1 = content; } }
                }
            }
        }
        st.log.push("ok-sync".into());
        Ok(TransferResult::new(1))
    }
    async fn create_dir_all(&self, path: &Path) -> SyResult<()> {
        let w = match self.by_dir.get(path) { Some(w) => *w, None => return Self::unsupported("mkdir-path") };
        for _ in 0..self.cfg[w].y_mkdir { self.log("y-mkdir".into()); YieldOnce(false).await; }
        if self.cfg[w].f_mkdir { self.log("err-mkdir".into()); return Err(Self::fail("mkdir")); }
        self.log("ok-mkdir".into());
        Ok(())
    }
    async fn copy_file(&self, _source: &Path, dest: &Path) -> SyResult<TransferResult> {
        let w = match self.by_dst.get(dest) { Some(w) => *w, None => return Self::unsupported("copy-path") };
        for _ in 0..self.cfg[w].y_copy { self.log("y-copy".into()); YieldOnce(false).await; }
        if self.cfg[w].f_copy { self.log("err-copy".into()); return Err(Self::fail("copy")); }
        let mut st = self.st.lock().unwrap();
        st.files.insert(dest.to_path_buf(), (w as u64, self.cfg[w].inode));
        st.log.push("ok-copy".into());
        Ok(TransferResult::new(1))
    }
    async fn remove(&self, path: &Path, _is_dir: bool) -> SyResult<()> {
        let w = match self.by_dst.get(path) { Some(w) => *w, None => return Self::unsupported("remove-path") };
        for _ in 0..self.cfg[w].y_mkdir { self.log("y-remove".into()); YieldOnce(false).await; }
        let mut st = self.st.lock().unwrap();
        if self.cfg[w].f_mkdir || !st.files.contains_key(path) { st.log.push("err-remove".into()); return Err(Self::fail("remove")); }
        st.files.remove(path);
        st.log.push("ok-remove".into());
        Ok(())
    }
    async fn create_hardlink(&self, source: &Path, dest: &Path) -> SyResult<()> {
        let w = match self.by_dst.get(dest) { Some(w) => *w, None => return Self::unsupported("link-path") };
        for _ in 0..self.cfg[w].y_link { self.log("y-link".into()); YieldOnce(false).await; }
        if self.cfg[w].f_link { self.log("err-link".into()); return Err(Self::fail("link")); }
        let mut st = self.st.lock().unwrap();
        match st.files.get(source).cloned() {
            Some(f) => { st.files.insert(dest.to_path_buf(), f); st.log.push("ok-link".into()); Ok(()) }
            None => { st.log.push("enoent-link".into()); Err(SyncError::Io(std::io::Error::other("mock-enoent:link"))) }
        }
    }
    async fn create_symlink(&self, _target: &Path, _dest: &Path) -> SyResult<()> { Self::unsupported("symlink") }
}

// ------------------------------------------------------------------------------------------------
// deterministic executor over the real futures
// ------------------------------------------------------------------------------------------------

/// observable record of one poll, in the driver's format (`w:out:visible-labels:map:dst`)
#[derive(Clone, Debug, PartialEq, Eq)]
struct Rec { w: usize, out: String, labels: String, map: String, dst: String }

impl Rec {
    fn progress(&self, before_map: &str, before_dst: &str) -> bool {
        self.out != "P" || self.labels != "-" || self.map != before_map || self.dst != before_dst
    }
    fn show(&self) -> String { format!("{}:{}:{}:{}:{}", self.w, self.out, self.labels, self.map, self.dst) }
}

struct RealRun { recs: Vec<Rec>, done: Vec<bool>, map: String, dst: String }

fn join_or(v: Vec<String>, sep: &str) -> String { if v.is_empty() { "-".into() } else { v.join(sep) } }

fn entry_for(w: usize, c: &WCfg) -> FileEntry {
    FileEntry {
        path: src_path(w), relative_path: PathBuf::from(format!("f{}", w)), size: 1,
        modified: SystemTime::UNIX_EPOCH, is_dir: false, is_symlink: false, symlink_target: None,
        is_sparse: false, allocated_size: 1, xattrs: None, inode: Some(c.inode),
        nlink: if c.linked { 2 } else { 1 }, acls: None, bsd_flags: None,
    }
}

/// Build real `Transferrer`s over the mock and poll their `create()` futures in the given order
/// with a no-op waker. A worker that has already returned is not polled again (the entry is skipped).
fn run_real(cfg: &[WCfg], sched: &[usize]) -> RealRun {
    let n = cfg.len();
    let mock = Mock::new(cfg);
    let handle = HardlinkMapHandle::new();
    let entries: Vec<FileEntry> = (0..n).map(|w| entry_for(w, &cfg[w])).collect();
    let dests: Vec<PathBuf> = (0..n).map(dst_path).collect();
    let trs: Vec<_> = (0..n).map(|_| transferrer(&mock, true, &handle)).collect();
    type Fut<'a> = Pin<Box<dyn Future<Output = SyResult<Option<TransferResult>>> + 'a>>;
    let mut futs: Vec<Option<Fut<'_>>> = Vec::with_capacity(n);
    let mut done = vec![false; n];
    for w in 0..n {
        match cfg[w].action {
            Act::Create => futs.push(Some(Box::pin(trs[w].create(&entries[w], &dests[w])))),
            Act::Update => futs.push(Some(Box::pin(trs[w].update(&entries[w], &dests[w])))),
            // a skipped path has no task: it only is a name in the destination
            Act::Skip => { futs.push(None); done[w] = true; }
        }
    }
    let waker = Waker::noop();
    let mut cx = Context::from_waker(waker);
    let by_dst: HashMap<PathBuf, usize> = (0..n).map(|w| (dst_path(w), w)).collect();
    let show_map = |h: &HardlinkMapHandle| -> String {
        join_or(h.snapshot().into_iter().map(|(ino, v)| match v {
            InodeStateView::InProgress => format!("{}=I", ino),
            InodeStateView::Completed(p) => format!("{}=C{}", ino, by_dst.get(&p).map(|w| w.to_string()).unwrap_or_else(|| "?".into())),
        }).collect(), ",")
    };
    let show_dst = |m: &Mock| -> String {
        let st = m.st.lock().unwrap();
        let mut v: Vec<(usize, String)> = st.files.iter().map(|(p, (ino, c))| {
            let w = *by_dst.get(p).unwrap_or(&usize::MAX);
            (w, format!("{}={}/{}", w, ino, c))
        }).collect();
        v.sort();
        join_or(v.into_iter().map(|x| x.1).collect(), ",")
    };
    let mut recs = Vec::new();
    for &w in sched {
        if done[w] { continue; }
        let log_before = mock.st.lock().unwrap().log.len();
        let r = futs[w].as_mut().unwrap().as_mut().poll(&mut cx);
        let out = match r {
            Poll::Pending => "P".to_string(),
            Poll::Ready(Ok(_)) => { done[w] = true; futs[w] = None; "ok".into() }
            Poll::Ready(Err(e)) => {
                done[w] = true; futs[w] = None;
                let s = e.to_string();
                match s.find("mock-fail:") { Some(i) => format!("E-{}", &s[i + 10..].split_whitespace().next().unwrap_or("?")), None => format!("E?{}", s) }
            }
        };
        let labels = join_or(mock.st.lock().unwrap().log[log_before..].to_vec(), ",");
        recs.push(Rec { w, out, labels, map: show_map(&handle), dst: show_dst(&mock) });
    }
    let map = show_map(&handle);
    let dst = show_dst(&mock);
    drop(futs);
    RealRun { recs, done, map, dst }
}

// ------------------------------------------------------------------------------------------------
// the model's answer
// ------------------------------------------------------------------------------------------------

struct ModelRun { recs: Vec<Rec>, all_labels: Vec<String>, done: bool, enabled: String, raw: String }

fn is_visible(l: &str) -> bool {
    (l.starts_with("y-") || l.starts_with("ok-") || l.starts_with("err-")) && !l.ends_with("-attrs")
}

fn ask_model(drv: &mut Driver, variant: &str, cfg: &[WCfg], sched: &[usize]) -> Option<ModelRun> {
    let raw = drv.ask(&format!("hl.run {} {} {} {}", variant, cfg.len(), cfg_wire(cfg), sched_wire(sched)));
    let (body, tail) = raw.split_once(" | ")?;
    let mut recs = Vec::new();
    let mut all_labels = Vec::new();
    if body != "-" {
        for r in body.split(';') {
            let f: Vec<&str> = r.split(':').collect();
            if f.len() != 5 { return None; }
            let labels: Vec<&str> = if f[2] == "-" { vec![] } else { f[2].split(',').collect() };
            for l in &labels { all_labels.push(l.trim_end_matches(|c: char| c.is_ascii_digit()).to_string()); }
            let vis = join_or(labels.iter().filter(|l| is_visible(l)).map(|l| l.to_string()).collect(), ",");
            // the real map does not reveal which worker owns an `InProgress` entry
            let map = if f[3] == "-" { "-".to_string() } else {
                f[3].split(',').map(|e| match e.split_once("=I") { Some((i, _)) => format!("{}=I", i), None => e.to_string() }).collect::<Vec<_>>().join(",")
            };
            recs.push(Rec { w: f[0].parse().ok()?, out: f[1].to_string(), labels: vis, map, dst: f[4].to_string() });
        }
    }
    let done = tail.contains("done=1");
    let enabled = tail.split("enabled=").nth(1).unwrap_or("?").to_string();
    Some(ModelRun { recs, all_labels, done, enabled, raw })
}

// ------------------------------------------------------------------------------------------------
// exhaustive schedules of the real futures
// ------------------------------------------------------------------------------------------------

/// Depth-first enumeration of every poll order: at each node every worker that has not returned
/// is tried; a poll that changes nothing observable (a blocked waiter) is kept in the schedule as
/// a no-op and not branched on. `out` receives every maximal schedule (everybody returned, or
/// nobody can make progress = hang) together with its hang flag.
fn explore(cfg: &[WCfg], prefix: &mut Vec<usize>, out: &mut Vec<(Vec<usize>, bool)>, budget: &mut usize) {
    if *budget == 0 { return; }
    let base = run_real(cfg, prefix);
    let mut movers = Vec::new();
    let mut blocked = Vec::new();
    for w in 0..cfg.len() {
        if base.done[w] { continue; }
        prefix.push(w);
        let r = run_real(cfg, prefix);
        prefix.pop();
        // a first poll always moves the worker (start -> waiting is invisible from outside); a repeated
        // poll that changes nothing observable is a no-op (a blocked waiter)
        let first_poll = !prefix.contains(&w);
        if first_poll || r.recs.last().map(|x| x.progress(&base.map, &base.dst)).unwrap_or(false) { movers.push(w); } else { blocked.push(w); }
    }
    let keep = prefix.len();
    // no-op polls of blocked waiters are part of the schedule (they must stay no-ops in the model too)
    prefix.extend(blocked.iter().cloned());
    if movers.is_empty() {
        *budget -= 1;
        out.push((prefix.clone(), !blocked.is_empty()));
    } else {
        for w in movers {
            prefix.push(w);
            explore(cfg, prefix, out, budget);
            prefix.pop();
        }
    }
    prefix.truncate(keep);
}

/// `Cfg.DstOk` of the model: names of one pre-run destination inode belong to one source inode
/// (and show one content)
fn dst_ok(cfg: &[WCfg]) -> bool {
    for a in cfg { for b in cfg {
        if let (Some(x), Some(y)) = (a.dst0, b.dst0) {
            if x.0 == y.0 && (a.inode != b.inode || x.1 != y.1) { return false; }
        }
    } }
    true
}

fn hang_signature(cfg: &[WCfg]) -> &'static str {
    if cfg.iter().any(|c| c.linked && (c.f_mkdir || c.f_copy)) { "C13/hang-owner-failure-leaves-waiters" }
    else if cfg.iter().any(|c| c.any_fault()) { "C13/hang-after-link-failure" }
    else { "C13/hang-without-failure" }
}

struct Stats { schedules: u64, polls: u64, hangs: u64, pinned_like: u64 }

/// Compare one schedule of the real futures with the model (record by record) and judge the oracle.
fn check_schedule(rep: &mut Report, drv: &mut Driver, cfg: &[WCfg], sched: &[usize], stream: &str, stats: &mut Stats) {
    let real = run_real(cfg, sched);
    stats.schedules += 1;
    stats.polls += real.recs.len() as u64;
    // after the schedule: keep polling round-robin until everybody returned or a whole round is a no-op
    let mut full: Vec<usize> = sched.to_vec();
    let mut cur = real;
    loop {
        if cur.done.iter().all(|d| *d) { break; }
        let before = (cur.recs.len(), cur.map.clone(), cur.dst.clone());
        let pending: Vec<usize> = (0..cfg.len()).filter(|w| !cur.done[*w]).collect();
        full.extend(pending.iter().cloned());
        let nxt = run_real(cfg, &full);
        let progressed = nxt.recs[before.0..].iter().any(|r| r.progress(&before.1, &before.2))
            || nxt.map != before.1 || nxt.dst != before.2;
        cur = nxt;
        if !progressed { break; }
    }
    let real = cur;
    let hang = !real.done.iter().all(|d| *d);
    let key = format!("{}|{}", cfg_wire(cfg), sched_wire(&full));
    let nontrivial = real.recs.iter().any(|r| r.out == "P") && cfg.iter().filter(|c| c.linked).count() >= 2;
    rep.case(key.as_bytes(), nontrivial);
    rep.tag(&format!("{}:workers={}", stream, cfg.len()));
    if cfg.iter().any(|c| c.any_fault()) { rep.tag(&format!("{}:with-fault", stream)); } else { rep.tag(&format!("{}:clean", stream)); }

    // ---- O: termination of the hand-off on the implementation itself ----
    if hang {
        stats.hangs += 1;
        let sig = hang_signature(cfg);
        rep.oracle_fail(sig, "a create() future stays Pending although no worker can make progress (every remaining future was polled again and nothing changed)",
            json!({"workers": cfg_wire(cfg), "schedule": sched_wire(&full), "pending": (0..cfg.len()).filter(|w| !real.done[*w]).collect::<Vec<_>>(),
                   "map": real.map, "trace": real.recs.iter().map(|r| r.show()).collect::<Vec<_>>()}));
    }
    // ---- O: link structure among the paths whose create()/update() returned Ok; skipped names keep their content ----
    {
        let files: HashMap<usize, (String, String)> = real.dst.split(',').filter(|s| *s != "-").filter_map(|e| {
            let (w, rest) = e.split_once('=')?; let (ino, c) = rest.split_once('/')?; Some((w.parse().ok()?, (ino.to_string(), c.to_string())))
        }).collect();
        // foreign links in the pre-run destination: written through before 8b4f96e (recorded as fixed)
        let sig = if dst_ok(cfg) { "C13/link-structure-differs/mock" } else { "C13/update-writes-through-foreign-link" };
        let ok: Vec<usize> = real.recs.iter().filter(|r| r.out == "ok").map(|r| r.w).collect();
        let mut reported = false;
        for &a in &ok { for &b in &ok {
            let (fa, fb) = (files.get(&a), files.get(&b));
            let bad = match (fa, fb) {
                (Some(x), Some(y)) => ((x.0 == y.0) != (cfg[a].inode == cfg[b].inode)) || x.1 != cfg[a].inode.to_string(),
                _ => true,
            };
            if bad && a <= b && !reported {
                reported = true;
                rep.oracle_fail(sig, "paths transferred Ok do not share an inode exactly when their sources do (or content differs)",
                    json!({"workers": cfg_wire(cfg), "schedule": sched_wire(&full), "a": a, "b": b, "dst": real.dst}));
            }
        } }
        for w in 0..cfg.len() {
            if cfg[w].action == Act::Skip && !reported {
                let want = cfg[w].dst0.map(|f| f.1.to_string());
                if files.get(&w).map(|f| f.1.clone()) != want {
                    reported = true;
                    rep.oracle_fail(sig, "the content of a skipped (up-to-date) destination name changed during the run",
                        json!({"workers": cfg_wire(cfg), "schedule": sched_wire(&full), "skipped": w, "dst": real.dst}));
                }
            }
        }
    }

    // ---- K: the model's poll semantics, record by record ----
    let eff: Vec<usize> = real.recs.iter().map(|r| r.w).collect();
    let full = eff; // polls of workers that had already returned are skipped by the executor
    let model = match ask_model(drv, "repaired", cfg, &full) {
        Some(m) => m,
        None => { rep.disagree(json!({"stream": stream, "what": "driver answered bad-op", "workers": cfg_wire(cfg), "schedule": sched_wire(&full)})); return; }
    };
    for l in &model.all_labels { rep.tag(&format!("label:{}", l)); }
    // the model's records include no-op polls of finished workers never (the harness skips them too)
    let same = model.recs.len() == real.recs.len() && model.recs.iter().zip(real.recs.iter()).all(|(m, r)| m == r) && model.done == !hang;
    if same {
        if model.enabled != "-" && !hang && model.done { rep.disagree(json!({"stream": stream, "what": "model final state has enabled workers", "raw": model.raw})); }
        return;
    }
    // which behaviour does the real code have? try the pinned protocol
    let pinned = ask_model(drv, "pinned", cfg, &full);
    let pinned_same = pinned.as_ref().map(|p| p.recs.len() == real.recs.len() && p.recs.iter().zip(real.recs.iter()).all(|(m, r)| m == r) && p.done == !hang).unwrap_or(false);
    if pinned_same { stats.pinned_like += 1; rep.tag("impl-matches-pinned-model"); }
    let first = model.recs.iter().zip(real.recs.iter()).position(|(m, r)| m != r).unwrap_or(model.recs.len().min(real.recs.len()));
    rep.disagree(json!({"stream": stream, "workers": cfg_wire(cfg), "schedule": sched_wire(&full), "first_difference_at_poll": first,
        "model_repaired": model.recs.get(first).map(|r| r.show()), "implementation": real.recs.get(first).map(|r| r.show()),
        "implementation_matches_pinned_model": pinned_same, "implementation_hangs": hang}));
}

fn exhaustive(rep: &mut Report, drv: &mut Driver, cfg: &[WCfg], stream: &str, stats: &mut Stats, cap: usize) {
    let mut out = Vec::new();
    let mut budget = cap;
    explore(cfg, &mut Vec::new(), &mut out, &mut budget);
    if budget == 0 { rep.tag(&format!("{}:schedule-cap-reached", stream)); }
    for (sched, _hang) in out { check_schedule(rep, drv, cfg, &sched, stream, stats); }
}

/// every way to put `k` faults on the copy-side / link operations of the workers
fn fault_sets(n: usize, k: usize) -> Vec<Vec<(usize, u8)>> {
    let slots: Vec<(usize, u8)> = (0..n).flat_map(|w| (0..3u8).map(move |f| (w, f))).collect();
    let mut res = vec![vec![]];
    if k >= 1 { for s in &slots { res.push(vec![*s]); } }
    if k >= 2 { for i in 0..slots.len() { for j in i + 1..slots.len() { res.push(vec![slots[i], slots[j]]); } } }
    res
}

fn apply_faults(cfg: &mut [WCfg], fs: &[(usize, u8)]) {
    for (w, f) in fs { match f { 0 => cfg[*w].f_mkdir = true, 1 => cfg[*w].f_copy = true, _ => cfg[*w].f_link = true } }
}

// ------------------------------------------------------------------------------------------------
// binary level
// ------------------------------------------------------------------------------------------------

fn sy_bin() -> PathBuf {
    if let Ok(p) = std::env::var("SY_BIN") { return PathBuf::from(p); }
    std::env::current_exe().unwrap().parent().unwrap().join("sy")
}

/// (relative path -> (inode class id, nlink, content bytes)) of the regular files below `root`
fn snapshot(root: &Path) -> BTreeMap<String, (u64, Vec<u8>)> {
    use std::os::unix::fs::MetadataExt;
    let mut res = BTreeMap::new();
    let mut stack = vec![root.to_path_buf()];
    while let Some(d) = stack.pop() {
        let rd = match std::fs::read_dir(&d) { Ok(r) => r, Err(_) => continue };
        for e in rd.flatten() {
            let p = e.path();
            let md = match std::fs::symlink_metadata(&p) { Ok(m) => m, Err(_) => continue };
            if md.is_dir() { stack.push(p); }
            else if md.is_file() {
                let rel = p.strip_prefix(root).unwrap().to_string_lossy().to_string();
                res.insert(rel, (md.ino(), std::fs::read(&p).unwrap_or_default()));
            }
        }
    }
    res
}

/// partition of the paths into inode classes, as a canonical string
fn classes(s: &BTreeMap<String, (u64, Vec<u8>)>) -> String {
    let mut by: BTreeMap<u64, Vec<&String>> = BTreeMap::new();
    for (p, (ino, _)) in s { by.entry(*ino).or_default().push(p); }
    let mut groups: Vec<String> = by.values().map(|v| v.iter().map(|x| x.as_str()).collect::<Vec<_>>().join("+")).collect();
    groups.sort();
    groups.join(" | ")
}

struct SyOut { timed_out: bool, status: Option<i32>, wall: Duration }

fn run_sy(work: &Path, src: &Path, dst: &Path, extra: &[&str], limit: Duration) -> SyOut {
    run_sy_env(work, src, dst, extra, &[], limit)
}

fn run_sy_env(work: &Path, src: &Path, dst: &Path, extra: &[&str], env: &[(&str, &str)], limit: Duration) -> SyOut {
    let home = work.join("home");
    std::fs::create_dir_all(&home).unwrap();
    let mut cmd = std::process::Command::new(sy_bin());
    for (k, v) in env { cmd.env(k, v); }
    cmd.env_remove("SY_VERIF_FORCE_COW").env_remove("SY_VERIF_BLOCK_SIZE");
    if env.is_empty() { cmd.env_remove("SY_VERIF_DELTA_THRESHOLD"); }
    cmd.arg(src).arg(dst).arg("-H").arg("-q").args(extra)
        .env("HOME", &home).env("XDG_CACHE_HOME", home.join("cache")).env("XDG_CONFIG_HOME", home.join("config"))
        .env("RUST_BACKTRACE", "0").env_remove("RUST_LOG")
        .stdin(std::process::Stdio::null()).stdout(std::process::Stdio::null()).stderr(std::process::Stdio::null());
    let t0 = Instant::now();
    let mut child = match cmd.spawn() { Ok(c) => c, Err(_) => return SyOut { timed_out: false, status: None, wall: Duration::ZERO } };
    loop {
        match child.try_wait() {
            Ok(Some(st)) => return SyOut { timed_out: false, status: st.code(), wall: t0.elapsed() },
            Ok(None) => {
                if t0.elapsed() > limit { let _ = child.kill(); let _ = child.wait(); return SyOut { timed_out: true, status: None, wall: t0.elapsed() }; }
                std::thread::sleep(Duration::from_millis(5));
            }
            Err(_) => return SyOut { timed_out: false, status: None, wall: t0.elapsed() },
        }
    }
}

fn set_mtime(p: &Path, secs: i64) {
    let _ = std::process::Command::new("touch").arg("-d").arg(format!("@{}", secs)).arg(p).status();
}

/// a generated source tree: groups of hard links (sizes 1..=4) spread over sub-directories, plus
/// ordinary files; every mtime is set explicitly, well in the past.
fn gen_tree(rng: &mut Rng, src: &Path, big: bool) -> Vec<Vec<String>> {
    std::fs::create_dir_all(src).unwrap();
    let dirs = ["", "a", "a/b", "c d"];
    let ngroups = rng.range(1, 4) as usize;
    let mut groups = Vec::new();
    let mut counter = 0;
    for g in 0..ngroups {
        let size = if g == 0 { rng.range(2, 4) } else { rng.range(1, 4) } as usize;
        let mut names: Vec<String> = Vec::new();
        for _ in 0..size {
            let d = *rng.pick(&dirs);
            let name = if d.is_empty() { format!("f{}.dat", counter) } else { format!("{}/f{}.dat", d, counter) };
            counter += 1;
            names.push(name);
        }
        let first = src.join(&names[0]);
        std::fs::create_dir_all(first.parent().unwrap()).unwrap();
        let len = if big && g == 0 { 10 * 1024 * 1024 + 4096 + rng.below(1000) as usize } else { rng.range(0, 3000) as usize };
        let mut data = vec![0u8; len];
        let mut x = rng.next();
        for b in data.iter_mut() { x = x.wrapping_mul(6364136223846793005).wrapping_add(1442695040888963407); *b = (x >> 33) as u8; }
        std::fs::write(&first, &data).unwrap();
        for nm in &names[1..] {
            let p = src.join(nm);
            std::fs::create_dir_all(p.parent().unwrap()).unwrap();
            std::fs::hard_link(&first, &p).unwrap();
        }
        set_mtime(&first, 1_500_000_000 + g as i64 * 1000);
        groups.push(names);
    }
    groups
}

/// compare the destination with the source: same paths, same contents, same inode classes
fn judge_structure(rep: &mut Report, src: &Path, dst: &Path, signature: &str, what: &str, input: serde_json::Value) -> bool {
    let s = snapshot(src);
    let d = snapshot(dst);
    let content_ok = s.len() == d.len() && s.iter().all(|(p, (_, c))| d.get(p).map(|x| &x.1 == c).unwrap_or(false));
    let (cs, cd) = (classes(&s), classes(&d));
    if !content_ok || cs != cd {
        rep.oracle_fail(signature, what, json!({"input": input, "source_classes": cs, "dest_classes": cd, "content_equal": content_ok}));
        false
    } else { true }
}

fn binary_level(rep: &mut Report, rng: &mut Rng, work: &Path, thorough: bool) {
    let bin = sy_bin();
    if !bin.exists() { rep.skipped.push(format!("binary level: {} not found", bin.display())); return; }
    // capability probe: hard links in the work directory
    let probe = work.join("probe");
    let _ = std::fs::remove_dir_all(&probe);
    std::fs::create_dir_all(&probe).unwrap();
    std::fs::write(probe.join("x"), b"x").unwrap();
    if std::fs::hard_link(probe.join("x"), probe.join("y")).is_err() { rep.skipped.push("binary level: hard links unsupported in work dir".into()); return; }
    let _ = std::fs::remove_dir_all(&probe);
    let generous = Duration::from_secs(90);

    // ---- A11-style deterministic scenario: the first copy of a link group must fail ----
    let mut a11_hung = false;
    for j in ["1", "4"] {
        if a11_hung { rep.tag("bin:a11-second-run-skipped-after-hang"); break; }
        let root = work.join(format!("a11-j{}", j));
        let _ = std::fs::remove_dir_all(&root);
        let (src, dst) = (root.join("s"), root.join("d"));
        std::fs::create_dir_all(src.join("sub")).unwrap();
        std::fs::create_dir_all(&dst).unwrap();
        std::fs::write(src.join("sub/a"), b"hello\n").unwrap();
        std::fs::hard_link(src.join("sub/a"), src.join("sub/b")).unwrap();
        std::fs::hard_link(src.join("sub/a"), src.join("sub/c")).unwrap();
        set_mtime(&src.join("sub/a"), 1_500_000_000);
        std::fs::write(dst.join("sub"), b"x").unwrap(); // a regular file where the directory should go
        let o = run_sy(&root, &src, &dst, &["-j", j], generous);
        rep.case(format!("a11-j{}", j).as_bytes(), true);
        rep.tag("bin:a11-owner-copy-fails");
        if o.timed_out {
            a11_hung = true;
            rep.oracle_fail("C13/hang-owner-failure-leaves-waiters",
                "sy -H does not terminate when the first copy of a link group fails (killed after 90 s; the run takes milliseconds otherwise)",
                json!({"scenario": "A11", "source": "sub/{a,b,c} hard-linked", "dest": "regular file named sub", "flags": format!("-H -q -j{}", j)}));
        } else {
            rep.sample(json!({"scenario": "A11", "j": j, "exit": o.status, "wall_ms": o.wall.as_millis() as u64}));
            // the failure must not have damaged the destination's file
            if std::fs::read(dst.join("sub")).ok().as_deref() != Some(b"x") {
                rep.oracle_fail("C13/a11-destination-changed", "destination file `sub` was modified", json!({"scenario": "A11", "j": j}));
            }
        }
        let _ = std::fs::remove_dir_all(&root);
    }

    // ---- regrouped sources (deterministic): what the current code still gets wrong, and what it gets right ----
    {
        let mk = |name: &str| -> (PathBuf, PathBuf, PathBuf) {
            let root = work.join(name);
            let _ = std::fs::remove_dir_all(&root);
            let (src, dst) = (root.join("s"), root.join("d"));
            std::fs::create_dir_all(&src).unwrap();
            std::fs::create_dir_all(&dst).unwrap();
            (root, src, dst)
        };
        // (1) x,y,z one group, synced; then y,z become a NEW group (new content), x unchanged: deterministic —
        //     both names of the new group exist in the destination, so its owner is an update in place
        let (root, src, dst) = mk("regroup-foreign");
        std::fs::write(src.join("x"), b"xx1\n").unwrap();
        std::fs::hard_link(src.join("x"), src.join("y")).unwrap();
        std::fs::hard_link(src.join("x"), src.join("z")).unwrap();
        set_mtime(&src.join("x"), 1_500_000_000);
        let o1 = run_sy(&root, &src, &dst, &["-j", "1"], generous);
        std::fs::remove_file(src.join("y")).unwrap();
        std::fs::remove_file(src.join("z")).unwrap();
        std::fs::write(src.join("y"), b"yy2\n").unwrap();
        std::fs::hard_link(src.join("y"), src.join("z")).unwrap();
        set_mtime(&src.join("y"), 1_600_000_000);
        let o2 = run_sy(&root, &src, &dst, &["-j", "1"], generous);
        rep.case(b"regroup-foreign", true);
        rep.tag("bin:regroup-foreign-link");
        if o1.timed_out || o2.timed_out { rep.skipped.push("regroup-foreign: no result within 90 s".into()); }
        else {
            judge_structure(rep, &src, &dst, "C13/update-writes-through-foreign-link",
                "names that left their group in the source (and still have several names) are updated in place through the destination inode they still share with the old group: the unchanged, skipped name receives their content",
                json!({"scenario": "x,y,z linked and synced; y,z replaced by a new file with two names; sy -H again", "flags": "-H -q -j1"}));
        }
        let _ = std::fs::remove_dir_all(&root);
        // (1b) two groups of two regrouped CROSSWISE (seeded change C13c): {a1,b1} and {a2,b2} synced; then a1,a2 become one
        //      new file with two names while b1, b2 keep their content as single names — the link counts of a1 / a2 are the
        //      same before and after (2), only the partners changed; with several sizes so that the small in-place route and
        //      the hooked temp-file route are both taken
        for (tag, len, env) in [("small", 5usize, &[][..]), ("delta", 6000usize, &[("SY_VERIF_DELTA_THRESHOLD", "4096"), ("SY_VERIF_BLOCK_SIZE", "1024")][..])] {
            let (root, src, dst) = mk("regroup-cross");
            let body = |c: u8| -> Vec<u8> { vec![c; len] };
            std::fs::write(src.join("a1"), body(b'1')).unwrap();
            std::fs::hard_link(src.join("a1"), src.join("b1")).unwrap();
            std::fs::write(src.join("a2"), body(b'2')).unwrap();
            std::fs::hard_link(src.join("a2"), src.join("b2")).unwrap();
            set_mtime(&src.join("a1"), 1_500_000_000); set_mtime(&src.join("a2"), 1_500_000_000);
            let o1 = run_sy_env(&root, &src, &dst, &["-j", "1"], env, generous);
            std::fs::remove_file(src.join("a1")).unwrap();
            std::fs::remove_file(src.join("a2")).unwrap();
            std::fs::write(src.join("a1"), body(b'N')).unwrap();
            std::fs::hard_link(src.join("a1"), src.join("a2")).unwrap();
            set_mtime(&src.join("a1"), 1_600_000_000);
            let o2 = run_sy_env(&root, &src, &dst, &["-j", "1"], env, generous);
            rep.case(format!("regroup-cross-{}", tag).as_bytes(), true);
            rep.tag("bin:regroup-crosswise-equal-link-counts");
            if o1.timed_out || o2.timed_out { rep.skipped.push("regroup-cross: no result within 90 s".into()); }
            else {
                judge_structure(rep, &src, &dst, "C13/link-structure-differs/after-crosswise-regrouping",
                    "after two groups of two were regrouped crosswise in the source (equal link counts before and after) the destination's inode classes or contents differ from the source's: a name that kept its content received the new group's content through a destination inode it still shared",
                    json!({"scenario": "{a1,b1},{a2,b2} linked and synced; a1,a2 replaced by one new file with two names; sy -H again", "route": tag, "flags": "-H -q -j1"}));
            }
            let _ = std::fs::remove_dir_all(&root);
        }
        // (2) the same with a single-named y: the stale link is broken, x keeps its content (88af04c)
        let (root, src, dst) = mk("regroup-single");
        std::fs::write(src.join("x"), b"xx1\n").unwrap();
        std::fs::hard_link(src.join("x"), src.join("y")).unwrap();
        set_mtime(&src.join("x"), 1_500_000_000);
        let o1 = run_sy(&root, &src, &dst, &["-j", "1"], generous);
        std::fs::remove_file(src.join("y")).unwrap();
        std::fs::write(src.join("y"), b"yy2\n").unwrap();
        set_mtime(&src.join("y"), 1_600_000_000);
        let o2 = run_sy(&root, &src, &dst, &["-j", "1"], generous);
        rep.case(b"regroup-single", true);
        rep.tag("bin:regroup-single-named");
        if !(o1.timed_out || o2.timed_out) {
            judge_structure(rep, &src, &dst, "C13/link-structure-differs/after-link-broken-in-source",
                "after a link was broken in the source (the changed name has a single name now) the destination's structure or contents differ",
                json!({"scenario": "x,y linked and synced; y replaced by an independent file; sy -H again"}));
        }
        let _ = std::fs::remove_dir_all(&root);
        // (3) regrouped with equal size and mtime: every name is skipped, the destination keeps the old structure
        for (name, what) in [("skip-broken", "group broken up"), ("skip-formed", "group formed")] {
            let (root, src, dst) = mk(name);
            std::fs::write(src.join("a"), b"v1\n").unwrap();
            if name == "skip-broken" { std::fs::hard_link(src.join("a"), src.join("b")).unwrap(); } else { std::fs::write(src.join("b"), b"v1\n").unwrap(); }
            set_mtime(&src.join("a"), 1_500_000_000); set_mtime(&src.join("b"), 1_500_000_000);
            let o1 = run_sy(&root, &src, &dst, &["-j", "1"], generous);
            std::fs::remove_file(src.join("b")).unwrap();
            if name == "skip-broken" { std::fs::write(src.join("b"), b"v1\n").unwrap(); } else { std::fs::hard_link(src.join("a"), src.join("b")).unwrap(); }
            set_mtime(&src.join("a"), 1_500_000_000); set_mtime(&src.join("b"), 1_500_000_000);
            let o2 = run_sy(&root, &src, &dst, &["-j", "1"], generous);
            rep.case(name.as_bytes(), true);
            rep.tag("bin:regroup-equal-size-mtime-skipped");
            if !(o1.timed_out || o2.timed_out) {
                judge_structure(rep, &src, &dst, "C13/skipped-members-keep-stale-structure",
                    "a hard-link group broken up or formed in the source with equal size and mtime is skipped altogether: the destination keeps the old inode structure",
                    json!({"scenario": what, "flags": "-H -q -j1"}));
            }
            let _ = std::fs::remove_dir_all(&root);
        }
    }

    // ---- thread-level stress (sampled, reported as such): many small groups, all workers ----
    {
        let runs = if thorough { 12 } else { 3 };
        for r in 0..runs {
            let root = work.join(format!("stress{}", r));
            let _ = std::fs::remove_dir_all(&root);
            let (src, dst) = (root.join("s"), root.join("d"));
            std::fs::create_dir_all(&src).unwrap();
            std::fs::create_dir_all(&dst).unwrap();
            let ngroups = 24;
            for g in 0..ngroups {
                let first = src.join(format!("g{}-0", g));
                std::fs::write(&first, format!("group {} run {} {}", g, r, rng.next())).unwrap();
                for k in 1..(2 + g % 3) { std::fs::hard_link(&first, src.join(format!("g{}-{}", g, k))).unwrap(); }
                set_mtime(&first, 1_500_000_000 + g as i64);
            }
            let j = *rng.pick(&["2", "4", "8", "16"]);
            let o = run_sy(&root, &src, &dst, &["-j", j], generous);
            rep.case(format!("stress{}-j{}", r, j).as_bytes(), true);
            rep.tag("bin:stress-thread-level");
            if o.timed_out {
                // a wall-clock bound proves nothing by itself outside the deterministic A11 scenario
                rep.skipped.push(format!("stress run {} (-j{}): no result within 90 s — inconclusive, not counted as passed", r, j));
            } else {
                judge_structure(rep, &src, &dst, "C13/link-structure-differs", "after a fresh multi-threaded `sy -H` the destination's inode classes or contents differ from the source's",
                    json!({"scenario": "stress", "groups": ngroups, "flags": format!("-H -q -j{}", j)}));
            }
            let _ = std::fs::remove_dir_all(&root);
        }
    }

    // ---- generated trees: fresh create, then updates ----
    let ntrees = if thorough { 24 } else { 6 };
    for t in 0..ntrees {
        let root = work.join(format!("tree{}", t));
        let _ = std::fs::remove_dir_all(&root);
        let (src, dst) = (root.join("s"), root.join("d"));
        std::fs::create_dir_all(&dst).unwrap();
        let big = t == 0 || (thorough && t % 6 == 0);
        let groups = gen_tree(rng, &src, big);
        let j = *rng.pick(&["1", "2", "4", "8"]);
        let input = json!({"groups": groups, "big_first_group": big, "flags": format!("-H -q -j{}", j)});
        let o = run_sy(&root, &src, &dst, &["-j", j], generous);
        rep.case(format!("tree{}:{:?}", t, groups).as_bytes(), groups.iter().any(|g| g.len() > 1));
        rep.tag("bin:fresh-create");
        if o.timed_out { rep.skipped.push(format!("binary level tree {}: no result within 90 s (inconclusive, not counted)", t)); let _ = std::fs::remove_dir_all(&root); continue; }
        if !judge_structure(rep, &src, &dst, "C13/link-structure-differs", "after a fresh `sy -H` the destination's inode classes or contents differ from the source's", input.clone()) {
            let _ = std::fs::remove_dir_all(&root); continue;
        }
        // -- update A: new content for the first group (all its names change, they share the inode)
        let first = src.join(&groups[0][0]);
        let rewrite = |stamp: i64| {
            let mut data = std::fs::read(&first).unwrap();
            if data.is_empty() { data.push(7); } else { let k = data.len() / 2; data[k] ^= 0x5a; data.push(1); }
            { use std::io::Write; let mut f = std::fs::OpenOptions::new().write(true).truncate(true).open(&first).unwrap(); f.write_all(&data).unwrap(); }
            set_mtime(&first, stamp);
        };
        rewrite(1_600_000_000 + t as i64);
        let o = run_sy(&root, &src, &dst, &["-j", j], generous);
        if o.timed_out { rep.skipped.push(format!("binary level tree {} update: no result within 90 s", t)); let _ = std::fs::remove_dir_all(&root); continue; }
        rep.case(format!("tree{}:update-content", t).as_bytes(), true);
        if big {
            rep.tag("bin:update-content-large");
            judge_structure(rep, &src, &dst, "C13/update-splits-link-group",
                "after the content update of a hard-linked group at or above the 10 MiB delta threshold the destination group is split (or contents differ)",
                json!({"input": input, "update": "content of first (>= 10 MiB) group changed"}));
        } else {
            rep.tag("bin:update-content-small");
            judge_structure(rep, &src, &dst, "C13/link-structure-differs/after-small-update",
                "after updating the content of a link group below the delta threshold the destination's structure differs",
                json!({"input": input, "update": "content of first group changed"}));
        }
        // -- update B: the same through the temp-file path, reached with small files by hook H1
        if !big {
            rewrite(1_610_000_000 + t as i64);
            let o = run_sy_env(&root, &src, &dst, &["-j", j], &[("SY_VERIF_DELTA_THRESHOLD", "1")], generous);
            if !o.timed_out {
                rep.case(format!("tree{}:update-content-h1", t).as_bytes(), true);
                rep.tag("bin:update-content-large-h1");
                judge_structure(rep, &src, &dst, "C13/update-splits-link-group",
                    "after the content update of a hard-linked group through the temp-file + rename path (delta gate lowered by SY_VERIF_DELTA_THRESHOLD) the destination group is split (or contents differ)",
                    json!({"input": input, "update": "content of first group changed", "env": "SY_VERIF_DELTA_THRESHOLD=1"}));
            }
        }
        // -- update C: content change and a new name of the group in one run (updates and a create share the map)
        if !big {
            rewrite(1_620_000_000 + t as i64);
            std::fs::hard_link(&first, src.join("mixed.dat")).unwrap();
            let h1 = t % 2 == 1;
            let o = if h1 { run_sy_env(&root, &src, &dst, &["-j", j], &[("SY_VERIF_DELTA_THRESHOLD", "1")], generous) } else { run_sy(&root, &src, &dst, &["-j", j], generous) };
            if !o.timed_out {
                rep.case(format!("tree{}:update-mixed", t).as_bytes(), true);
                rep.tag(if h1 { "bin:update-content-and-new-link-h1" } else { "bin:update-content-and-new-link" });
                judge_structure(rep, &src, &dst, "C13/link-structure-differs/after-update-with-new-link",
                    "after a run that updates the members of a group and creates a new member the destination's structure differs",
                    json!({"input": input, "update": "content of first group changed and mixed.dat linked to it", "h1": h1}));
            }
        }
        // -- update D: a new name joins the (already synced, therefore skipped) first group
        if !big {
            let extra = src.join("joined.dat");
            std::fs::hard_link(&first, &extra).unwrap();
            let o = run_sy(&root, &src, &dst, &["-j", j], generous);
            if !o.timed_out {
                rep.case(format!("tree{}:update-join", t).as_bytes(), true);
                rep.tag("bin:update-new-link-joins-group");
                judge_structure(rep, &src, &dst, "C13/update-new-link-not-joined",
                    "a new hard link to an already synced group is created as an independent copy (the other members are skipped, so nothing is recorded in the inode map)",
                    json!({"input": input, "update": "joined.dat hard-linked to the first group"}));
            }
        }
        let _ = std::fs::remove_dir_all(&root);
    }
}

// ------------------------------------------------------------------------------------------------

pub fn run(tier: &str, seed: u64, driver_path: &str, work: &Path) -> Report {
    let mut rep = Report::default();
    rep.rule = "mock level: one case = (worker configuration [each path created, updated or skipped; pre-run destination inodes], complete poll schedule of the real create()/update() futures); exhaustive over every poll order for 2 workers x 1 group x every single failure (quick) and 3 workers / 2 groups x every pair of failures (thorough), plus seeded random configurations of 3-6 workers; non-trivial = at least two hard-link candidates and at least one Pending poll; distinct = distinct (configuration, schedule). binary level: A11 scenario, regrouped-source scenarios, generated trees with link groups (fresh create, content update below / at the delta gate / through the temp-file path via hook H1, update together with a new member, new link joining a skipped group); non-trivial = a group of >= 2 links".into();
    let thorough = tier == "thorough";
    let mut rng = Rng::new(seed);
    let mut drv = Driver::spawn(driver_path).expect("spawn sydriver");
    std::fs::create_dir_all(work).unwrap();
    let tokens = work.join("tokens");
    std::fs::create_dir_all(&tokens).unwrap();
    let _ = TOKENS.set(tokens);
    let mut stats = Stats { schedules: 0, polls: 0, hangs: 0, pinned_like: 0 };

    // ---- malformed requests are rejected ----
    for bad in ["hl.run repaired 2 7,1,c,0,-,-,0,0,0,0,0,0,0 0", "hl.run fixed 1 7,1,c,0,-,-,0,0,0,0,0,0,0 0",
                "hl.run repaired 1 7,1,c,0,-,-,0,0,0,0,0,0,0 5", "hl.run repaired 1 7,2,c,0,-,-,0,0,0,0,0,0,0 0",
                "hl.run repaired 1 7,1,x,0,-,-,0,0,0,0,0,0,0 0", "hl.run repaired 1 7,1,0,0,0,0,0,0,0 0", "hl.poll 0"] {
        let a = drv.ask(bad);
        rep.tag("malformed-request");
        if a != "bad-op" { rep.disagree(json!({"what": "driver accepted a malformed request", "request": bad, "answer": a})); }
    }

    // ---- exhaustive: 2 workers x 1 group x all single failures x yield scripts ----
    let yield_scripts: &[(u32, u32, u32)] = &[(0, 0, 0), (0, 1, 0), (1, 1, 1), (0, 2, 1), (1, 0, 2)];
    for ys in yield_scripts {
        for fs in fault_sets(2, 1) {
            let mut cfg = vec![WCfg::new(7, true), WCfg::new(7, true)];
            for c in cfg.iter_mut() { c.y_mkdir = ys.0; c.y_copy = ys.1; c.y_link = ys.2; }
            apply_faults(&mut cfg, &fs);
            exhaustive(&mut rep, &mut drv, &cfg, "x2", &mut stats, 20_000);
        }
    }
    // two link candidates and an ordinary file; two singleton groups
    for fs in fault_sets(3, 1) {
        let mut cfg = vec![WCfg::new(7, true), WCfg::new(7, true), WCfg::new(9, false)];
        cfg[0].y_copy = 1; cfg[1].y_copy = 1; cfg[2].y_mkdir = 1;
        apply_faults(&mut cfg, &fs);
        exhaustive(&mut rep, &mut drv, &cfg, "x2+plain", &mut stats, 20_000);
    }
    {
        let mut cfg = vec![WCfg::new(7, true), WCfg::new(8, true)];
        cfg[0].y_copy = 1; cfg[1].y_copy = 1;
        exhaustive(&mut rep, &mut drv, &cfg, "x1+1", &mut stats, 20_000);
    }
    // three links of one inode, the A11 shape: every parent-directory creation fails
    {
        let mut cfg = vec![WCfg::new(7, true), WCfg::new(7, true), WCfg::new(7, true)];
        for c in cfg.iter_mut() { c.f_mkdir = true; }
        exhaustive(&mut rep, &mut drv, &cfg, "x3-a11", &mut stats, 20_000);
        let mut cfg = vec![WCfg::new(7, true), WCfg::new(7, true), WCfg::new(7, true)];
        cfg[0].y_copy = 1;
        exhaustive(&mut rep, &mut drv, &cfg, "x3", &mut stats, 20_000);
    }

    // ---- updates: every member of a group updated in one run (a68466f) ----
    for large in [false, true] {
        for shared in [true, false] {
            for fs in fault_sets(2, 1) {
                // two names of inode 7, stale content 1; one destination inode (shared) or two files (split earlier)
                let mut cfg = vec![WCfg::update(7, true, large, OLD_INO, 1), WCfg::update(7, true, large, if shared { OLD_INO } else { OLD_INO + 1 }, 1)];
                cfg[0].y_copy = 1; cfg[1].y_copy = 1; cfg[1].y_mkdir = 1;
                apply_faults(&mut cfg, &fs);
                exhaustive(&mut rep, &mut drv, &cfg, "u2", &mut stats, 20_000);
            }
        }
        // two updated names and a new one joining the group in the same run
        for fs in fault_sets(3, 1) {
            let mut cfg = vec![WCfg::update(7, true, large, OLD_INO, 1), WCfg::update(7, true, large, OLD_INO, 1), WCfg::new(7, true)];
            cfg[0].y_copy = 1; cfg[2].y_copy = 1;
            apply_faults(&mut cfg, &fs);
            exhaustive(&mut rep, &mut drv, &cfg, "u2+create", &mut stats, 20_000);
        }
        // three updated names of one inode; an ordinary update next to them
        {
            let mut cfg = vec![WCfg::update(7, true, large, OLD_INO, 1), WCfg::update(7, true, large, OLD_INO, 1), WCfg::update(7, true, large, OLD_INO, 1), WCfg::update(9, false, large, OLD_INO + 5, 2)];
            cfg[0].y_copy = 1; cfg[3].y_copy = 1;
            exhaustive(&mut rep, &mut drv, &cfg, "u3+plain", &mut stats, 20_000);
        }
    }
    // skipped names next to a new link of their group (the new name cannot be joined: known finding at binary level)
    {
        let mut cfg = vec![WCfg::skip(7, true, OLD_INO), WCfg::skip(7, true, OLD_INO), WCfg::new(7, true)];
        cfg[2].y_copy = 1;
        exhaustive(&mut rep, &mut drv, &cfg, "skip+create", &mut stats, 20_000);
    }
    // a single-named source whose destination is still linked to another name: the link is broken (88af04c)
    {
        let cfg = vec![WCfg::skip(1, false, OLD_INO), WCfg { dst0: Some((OLD_INO, 1)), ..WCfg::update(2, false, false, OLD_INO, 1) }];
        exhaustive(&mut rep, &mut drv, &cfg, "foreign-plain", &mut stats, 20_000);
    }
    // a foreign link and a source that still has several names: written through (known finding)
    {
        let cfg = vec![WCfg::skip(1, false, OLD_INO), WCfg::update(2, true, false, OLD_INO, 1), WCfg::update(2, true, false, OLD_INO, 1)];
        exhaustive(&mut rep, &mut drv, &cfg, "foreign-linked", &mut stats, 20_000);
        let cfg = vec![WCfg::skip(1, false, OLD_INO), WCfg::update(2, true, false, OLD_INO, 1), WCfg::new(2, true)];
        exhaustive(&mut rep, &mut drv, &cfg, "foreign-linked+create", &mut stats, 20_000);
    }

    // ---- thorough: 3 workers, 2 groups (and 1 group), pairs of failures ----
    if thorough {
        for (shape, inodes) in [("x3g2", [7u64, 7, 8]), ("x3g1", [7, 7, 7])] {
            for fs in fault_sets(3, 2) {
                let mut cfg: Vec<WCfg> = inodes.iter().map(|i| WCfg::new(*i, true)).collect();
                for c in cfg.iter_mut() { c.y_copy = 1; }
                cfg[1].y_link = 1;
                apply_faults(&mut cfg, &fs);
                exhaustive(&mut rep, &mut drv, &cfg, shape, &mut stats, 6_000);
            }
        }
    }

    if thorough {
        for large in [false, true] {
            for fs in fault_sets(3, 2) {
                let mut cfg = vec![WCfg::update(7, true, large, OLD_INO, 1), WCfg::update(7, true, large, OLD_INO, 1), WCfg::update(7, true, large, OLD_INO + 1, 1)];
                for c in cfg.iter_mut() { c.y_copy = 1; }
                cfg[1].y_link = 1;
                apply_faults(&mut cfg, &fs);
                exhaustive(&mut rep, &mut drv, &cfg, "u3-pairs", &mut stats, 6_000);
            }
        }
        // 4 workers in two groups of two, every single failure; three yield scripts for 2 workers x pairs
        for fs in fault_sets(4, 1) {
            let mut cfg: Vec<WCfg> = [7u64, 7, 8, 8].iter().map(|i| WCfg::new(*i, true)).collect();
            cfg[0].y_copy = 1; cfg[2].y_copy = 1;
            apply_faults(&mut cfg, &fs);
            exhaustive(&mut rep, &mut drv, &cfg, "x4g2", &mut stats, 4_000);
        }
        for ys in yield_scripts {
            for fs in fault_sets(2, 2) {
                let mut cfg = vec![WCfg::new(7, true), WCfg::new(7, true)];
                for c in cfg.iter_mut() { c.y_mkdir = ys.0; c.y_copy = ys.1; c.y_link = ys.2; }
                apply_faults(&mut cfg, &fs);
                exhaustive(&mut rep, &mut drv, &cfg, "x2-pairs", &mut stats, 20_000);
            }
        }
    }

    // ---- seeded random configurations and schedules ----
    let nrand = if thorough { 20_000 } else { 400 };
    for _ in 0..nrand {
        let n = rng.range(3, 6) as usize;
        let ngroups = rng.range(1, 3);
        let mut cfg: Vec<WCfg> = Vec::new();
        let faulty = !rng.chance(1, 3);
        // per group: how its names are found in the destination
        // 0 all new | 1 all updated, one inode | 2 all updated, separate files | 3 up to date (skipped) + new names
        // 4 updated (one inode) + new names
        let modes: Vec<u64> = (0..ngroups).map(|_| rng.below(5)).collect();
        let larges: Vec<bool> = (0..ngroups).map(|_| rng.chance(1, 2)).collect();
        let mut first_of_group = vec![true; ngroups as usize];
        for w in 0..n {
            let plain = rng.chance(1, 6);
            let mut c = if plain {
                if rng.chance(1, 2) { WCfg::new(200 + w as u64, false) } else { WCfg::update(200 + w as u64, false, rng.chance(1, 2), OLD_INO + 50 + w as u64, 1) }
            } else {
                let g = rng.below(ngroups) as usize;
                let ino = 7 + g as u64;
                let first = first_of_group[g];
                first_of_group[g] = false;
                match modes[g] {
                    0 => WCfg::new(ino, true),
                    1 => WCfg::update(ino, true, larges[g], OLD_INO + g as u64, 1),
                    2 => WCfg::update(ino, true, larges[g], OLD_INO + 10 + w as u64, 1),
                    3 => if first || rng.chance(1, 2) { WCfg::skip(ino, true, OLD_INO + g as u64) } else { WCfg::new(ino, true) },
                    _ => if first || rng.chance(1, 2) { WCfg::update(ino, true, larges[g], OLD_INO + g as u64, 1) } else { WCfg::new(ino, true) },
                }
            };
            c.y_mkdir = rng.below(3) as u32; c.y_copy = rng.below(3) as u32; c.y_link = rng.below(3) as u32;
            if faulty { c.f_mkdir = rng.chance(1, 8); c.f_copy = rng.chance(1, 5); c.f_link = rng.chance(1, 6); }
            cfg.push(c);
        }
        // random schedule: mostly workers that have not returned; the tail is completed by check_schedule
        let len = rng.range(0, 40) as usize;
        let sched: Vec<usize> = (0..len).map(|_| rng.below(n as u64) as usize).collect();
        check_schedule(&mut rep, &mut drv, &cfg, &sched, "random", &mut stats);
    }
    rep.sample(json!({"mock_level": {"schedules": stats.schedules, "polls": stats.polls, "hangs": stats.hangs, "schedules_matching_pinned_model_only": stats.pinned_like}}));

    // ---- binary level ----
    binary_level(&mut rep, &mut rng, &work.join("bin"), thorough);
    let _ = std::fs::remove_dir_all(work.join("bin"));
    rep
}
