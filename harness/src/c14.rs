//! C14 — compression decision, codec dispatch, `receive-file` / `receive-sparse-file` and the local
//! sparse copier: correspondence (K) of the Lean model (`SyModel/Compress/*.lean`) with sy's library
//! and the real `sy-remote` binary, and the oracle (O) "the remote file holds exactly the original
//! bytes and the given mtime".
//!
//! `ssh.rs` cannot be driven without an SSH server; its payload construction is replayed here with
//! the same library calls in the same order (cited inline) and piped into the real helper binary.
use crate::c04wire::{run_helper, sy_remote_bin, Limiter, ZSTD_MAGIC};
use crate::driver::{hex, Driver};
use crate::report::Report;
use crate::rng::Rng;
use serde_json::json;
use std::io::{Read, Seek, SeekFrom, Write};
use std::os::unix::fs::MetadataExt;
use std::path::{Path, PathBuf};
use std::time::{Duration, UNIX_EPOCH};
use sy::compress::{compress, decompress, is_compressed_extension, should_compress, should_compress_adaptive,
                   should_compress_smart, Compression, CompressionDetection};
use sy::sparse::{detect_data_regions, DataRegion};

const MIB: u64 = 1024 * 1024;
const LZ4_FRAME_MAGIC: [u8; 4] = [0x04, 0x22, 0x4D, 0x18];
/// files above this size are judged by the oracle only (not sent through the line protocol)
const MODEL_MAX: usize = 96 * 1024;

fn cstr(c: Compression) -> &'static str { match c { Compression::None => "none", Compression::Lz4 => "lz4", Compression::Zstd => "zstd" } }
fn mstr(m: CompressionDetection) -> &'static str {
    match m { CompressionDetection::Auto => "auto", CompressionDetection::Extension => "extension", CompressionDetection::Always => "always", CompressionDetection::Never => "never" }
}
const MODES: [CompressionDetection; 4] = [CompressionDetection::Auto, CompressionDetection::Extension, CompressionDetection::Always, CompressionDetection::Never];

fn has_magic(b: &[u8]) -> bool { b.len() >= 4 && b[..4] == ZSTD_MAGIC }

/// what the real `decompress(stdin, Zstd)` answers, in the driver's notation
fn dz_of(stdin: &[u8]) -> String {
    if has_magic(stdin) { match decompress(stdin, Compression::Zstd) { Ok(b) => hex(&b), Err(_) => "fail".into() } } else { "na".into() }
}

fn set_mtime(path: &Path, secs: u64, nanos: u32) {
    let f = std::fs::OpenOptions::new().write(true).open(path).unwrap();
    f.set_modified(UNIX_EPOCH + Duration::new(secs, nanos)).unwrap();
}
fn get_mtime(path: &Path) -> (u64, u32) {
    let d = std::fs::metadata(path).unwrap().modified().unwrap().duration_since(UNIX_EPOCH).unwrap();
    (d.as_secs(), d.subsec_nanos())
}

fn gen_mtime(rng: &mut Rng) -> (u64, u32) {
    let secs = match rng.below(7) { 0 => 0, 1 => 1, 2 => 1_000_000_000, 3 => 1_700_000_000, 4 => 2_147_483_647, 5 => 2_147_483_648, _ => 4_294_967_301 } + if rng.chance(1, 3) { rng.below(1000) } else { 0 };
    let nanos = match rng.below(4) { 0 => 0, 1 => 1, 2 => 999_999_999, _ => rng.below(1_000_000_000) } as u32;
    (secs, nanos)
}

/// payload generator: empty, tiny, incompressible, compressible, magic-prefixed, nested frames
fn gen_payload(rng: &mut Rng, max: usize) -> (Vec<u8>, &'static str) {
    let len = match rng.below(6) { 0 => rng.range(0, 8), 1 => rng.range(8, 200), 2 => rng.range(200, 5000), 3 => rng.range(5000, max as u64), _ => rng.range(0, 2000) } as usize;
    match rng.below(11) {
        0 => (Vec::new(), "empty"),
        1 => (rng.bytes(1, 256), "one-byte"),
        2 => (rng.bytes(len, 256), "random"),
        3 => (vec![0u8; len], "zeros"),
        4 => (b"the quick brown fox jumps over the lazy dog. ".iter().cycle().take(len).cloned().collect(), "text"),
        5 => ([&ZSTD_MAGIC[..], &rng.bytes(len, 256)[..]].concat(), "zstd-magic+random"),
        6 => (ZSTD_MAGIC[..rng.range(1, 4) as usize].to_vec(), "zstd-magic-prefix-only"),
        7 => ([&LZ4_FRAME_MAGIC[..], &rng.bytes(len, 256)[..]].concat(), "lz4-magic+random"),
        8 => { let inner = rng.bytes(len.min(3000), 4); (compress(&inner, Compression::Zstd).unwrap(), "a-zstd-frame") }
        9 => { let inner = rng.bytes(len.min(3000), 4); (compress(&inner, Compression::Lz4).unwrap(), "an-lz4-block") }
        _ => { let mut v = rng.bytes(len / 2, 256); v.extend(vec![0u8; len - len / 2]); (v, "half-random") }
    }
}

const STEMS: [&str; 9] = ["a", "photo", "archive.tar", ".hidden", "x.y.z", "Übung", "name with space", "", "noext"];
const EXTS: [&str; 34] = ["jpg", "JPG", "JpEg", "png", "mp4", "zip", "gz", "tar.gz", "tgz", "bz2", "zst", "7z", "wasm", "br", "ZST", "pdf", "heic", "opus",
                          "txt", "rs", "log", "jpgx", "xjpg", "", "dat", "img", "sql", "json", "c", "bin", "tar", "j pg", "zıp", "db"];

fn gen_name(rng: &mut Rng) -> String {
    match rng.below(8) {
        0 => (*rng.pick(&EXTS)).to_string(),                        // no dot at all: the whole name is the "extension"
        1 => format!("{}.", rng.pick(&STEMS)),                      // trailing dot
        2 => format!(".{}", rng.pick(&EXTS)),
        _ => { let e: String = rng.pick(&EXTS).chars().map(|c| if rng.chance(1, 4) { c.to_ascii_uppercase() } else { c }).collect();
               format!("{}.{}", rng.pick(&STEMS), e) }
    }
}

/// `detect_compressibility`'s inputs recomputed with the same calls (first `read` of ≤ 64 KiB, lz4 size-prepended)
fn sample_desc(path: Option<&Path>) -> String {
    match path {
        None => "nopath".into(),
        Some(p) => match std::fs::File::open(p) {
            Err(_) => "err".into(),
            Ok(mut f) => { let mut buf = vec![0u8; 64 * 1024]; let n = f.read(&mut buf).unwrap();
                if n == 0 { "r0,0".into() } else { format!("r{},{}", compress(&buf[..n], Compression::Lz4).unwrap().len(), n) } }
        },
    }
}

fn regions_str(rs: &[DataRegion]) -> String {
    if rs.is_empty() { "-".into() } else { rs.iter().map(|r| format!("{},{}", r.offset, r.length)).collect::<Vec<_>>().join(";") }
}

/// `Covers content regions` (Lemmas/Sparse.lean): regions inside the file, every byte outside them zero
fn covers(content: &[u8], rs: &[DataRegion]) -> bool {
    let n = content.len() as u64;
    let mut covered = vec![false; content.len()];
    for r in rs { if r.offset + r.length > n { return false; } for i in r.offset..r.offset + r.length { covered[i as usize] = true; } }
    content.iter().zip(covered.iter()).all(|(b, c)| *c || *b == 0)
}

struct Layout { size: u64, writes: Vec<(u64, Vec<u8>)>, kind: &'static str }

fn gen_layout(rng: &mut Rng, thorough: bool, small: bool) -> Layout {
    let size = if small { *rng.pick(&[4097u64, 8192, 12288, 20000, 40960, 65536, 70001, 90000]) }
               else { *rng.pick(&[1u64, 4095, 4096, 4097, 20000, 65536, 100_000, 262_144, MIB + 123, if thorough { 4 * MIB } else { 2 * MIB }]) };
    let nb = size.div_ceil(4096);
    let mut writes = Vec::new();
    let kind = match rng.below(10) {
        8 | 9 => {
            // ONE data region that contains whole 64 KiB-aligned chunks of WRITTEN zeros followed by non-zero bytes (zero-filled
            // pages of a VM image or database inside allocated extents): a receiver that streams a region in chunks and
            // treats all-zero chunks specially must still place what follows them (seeded change C14c)
            let k = 65536u64; let lead = *rng.pick(&[0u64, 1, 2]); let zeros = *rng.pick(&[1u64, 2, 3]); let tail = rng.range(1, 70000);
            let start = *rng.pick(&[0u64, k, 4096]);
            let mut data: Vec<u8> = rng.bytes((lead * k) as usize, 255).iter().map(|b| b + 1).collect();
            data.extend(std::iter::repeat(0u8).take((zeros * k) as usize));
            data.extend(rng.bytes(tail as usize, 255).iter().map(|b| b + 1));
            let total = start + data.len() as u64 + *rng.pick(&[0u64, 4096, 100_000]);
            writes.push((start, data));
            return Layout { size: total, writes, kind: "zero-chunks-inside-region" };
        }
        0 => "all-hole",
        1 => { let l = rng.range(1, size.min(9000)); writes.push((size - l, rng.bytes(l as usize, 255).iter().map(|b| b + 1).collect())); "leading-hole" }
        2 => { let l = rng.range(1, size.min(9000)); writes.push((0, rng.bytes(l as usize, 255).iter().map(|b| b + 1).collect())); "trailing-hole" }
        3 => { for b in 0..nb { if rng.chance(1, 3) { let off = b * 4096 + rng.below(4096); if off < size { let l = rng.range(1, 600).min(size - off); writes.push((off, rng.bytes(l as usize, 256))); } } } "many-small" }
        4 => { for _ in 0..rng.range(1, 4) { let off = rng.below(size); let l = rng.range(1, 10000).min(size - off); writes.push((off, rng.bytes(l as usize, 256))); } "unaligned" }
        5 => { let mut off = 0; while off < size { let l = (size - off).min(65536); writes.push((off, rng.bytes(l as usize, 256))); off += l; } "dense" }
        6 => { // explicit zero blocks written as data (allocated zeros) next to holes
               let off = rng.below(nb) * 4096; if off < size { let l = 4096.min(size - off); writes.push((off, vec![0u8; l as usize])); }
               let off2 = rng.below(size); let l2 = rng.range(1, 3000).min(size - off2); writes.push((off2, rng.bytes(l2 as usize, 256))); "written-zeros" }
        _ => { for b in 0..nb { if b % 2 == 0 { let off = b * 4096; let l = 4096.min(size - off); writes.push((off, rng.bytes(l as usize, 255).iter().map(|x| x + 1).collect())); } } "alternating-blocks" }
    };
    Layout { size, writes, kind }
}

fn materialise(l: &Layout, path: &Path) {
    let _ = std::fs::remove_file(path);
    let mut f = std::fs::File::create(path).unwrap();
    f.set_len(l.size).unwrap();
    for (off, data) in &l.writes { f.seek(SeekFrom::Start(*off)).unwrap(); f.write_all(data).unwrap(); }
    f.sync_all().unwrap();
}

/// the regular path of `SshTransport::copy_file` (ssh.rs:658-886) up to the point where bytes leave the machine
enum Route { Helper { stdin: Vec<u8>, mtime: Option<u64> }, Sftp { content: Vec<u8>, mtime: Option<u64> } }

fn sender_regular(source: &Path, mode: CompressionDetection) -> (Compression, Route) {
    let metadata = std::fs::metadata(source).unwrap();                                   // ssh.rs:660
    let file_size = metadata.len();                                                      // :671
    let filename = source.file_name().and_then(|n| n.to_str()).unwrap_or("");            // :672
    let decision = should_compress_smart(Some(source), filename, file_size, false, mode); // :680 (mode is Auto there)
    let mtime_secs = metadata.modified().ok().and_then(|t| t.duration_since(UNIX_EPOCH).ok()).map(|d| d.as_secs()); // :729 / :866
    match decision {
        Compression::Lz4 | Compression::Zstd => {
            let file_data = std::fs::read(source).unwrap();                               // :699
            let compressed = compress(&file_data, decision).unwrap();                     // :709
            (decision, Route::Helper { stdin: compressed, mtime: mtime_secs })            // :741 `receive-file <dest> --mtime s`
        }
        Compression::None => {
            let content = std::fs::read(source).unwrap();                                 // :792-854 chunked read → SFTP write_all
            (decision, Route::Sftp { content, mtime: mtime_secs })                        // :866 setstat{mtime}
        }
    }
}

fn opt_s(m: Option<u64>) -> String { m.map(|s| s.to_string()).unwrap_or_else(|| "_".into()) }

/// run `receive-file`, return the driver-notation result
/// what the destination path holds before a helper runs: nothing (half of the cases), or a file of
/// non-zero bytes that is as long as, longer or shorter than what will be written
fn gen_prior(rng: &mut Rng, new_len: usize) -> Option<Vec<u8>> {
    let len = match rng.below(8) {
        0 | 1 | 2 | 3 => return None,
        4 => new_len,
        5 => new_len + 1 + rng.below(5000) as usize,
        6 => new_len / 2,
        _ => 1,
    };
    Some((0..len).map(|i| 0xA1u8.wrapping_add((i % 89) as u8) | 1).collect())
}

fn put_prior(dest: &Path, prior: Option<&[u8]>) {
    let _ = std::fs::remove_file(dest);
    if let Some(p) = prior {
        if let Some(d) = dest.parent() { let _ = std::fs::create_dir_all(d); }
        std::fs::write(dest, p).unwrap();
    }
}

fn prior_s(prior: Option<&[u8]>) -> String { match prior { Some(p) => hex(p), None => "-".into() } }

fn real_receive_file(bin: &Path, home: &Path, dest: &Path, stdin: &[u8], mtime: Option<u64>) -> (String, Option<u32>) {
    real_receive_file_over(bin, home, dest, None, stdin, mtime)
}

fn real_receive_file_over(bin: &Path, home: &Path, dest: &Path, prior: Option<&[u8]>, stdin: &[u8], mtime: Option<u64>) -> (String, Option<u32>) {
    put_prior(dest, prior);
    let mut args = vec!["receive-file".to_string(), dest.to_string_lossy().into_owned()];
    if let Some(s) = mtime { args.push("--mtime".into()); args.push(s.to_string()); }
    let o = run_helper(bin, home, &args, stdin);
    if !o.ok { return ("err".into(), None); }
    match std::fs::read(dest) {
        Ok(b) => { let (s, ns) = get_mtime(dest); (format!("ok {} {}", hex(&b), if mtime.is_some() { s.to_string() } else { "_".into() }), Some(ns)) }
        Err(_) => ("err".into(), None),
    }
}

pub fn run(tier: &str, seed: u64, driver_path: &str, work: &Path) -> Report {
    let mut rep = Report::default();
    rep.rule = "D: decision table over (name pool with listed/unlisted/mixed-case/dotless extensions × sizes around the 1 MiB gate × local × 4 modes × path none/missing/real file whose first 64 KiB is empty, tiny, zeros, text, random or a random/zero mix around the 0.9 ratio); R: compress/decompress round trip of both codecs on generated payloads (Codec.Sound); S: sender replica → real `sy-remote receive-file` (content + mtime) and helper-only payloads; P: sparse layouts (all-hole, leading/trailing hole, many small, unaligned, dense, written zeros, alternating blocks) → real detect_data_regions → sender replica → real `sy-remote receive-sparse-file`; L: local seek copier through LocalTransport::sync_file_with_delta. non-trivial: D reached the extension test or the content sample; S/P/L payload non-empty and (for P/L) at least one hole and one data region. distinct = distinct inputs".into();
    let mut lim = Limiter::default();
    let mut rng = Rng::new(seed ^ 0xC14);
    let mut drv = Driver::spawn(driver_path).expect("spawn sydriver");
    let thorough = tier == "thorough";
    std::fs::create_dir_all(work).unwrap();
    let home = work.join("home");
    std::fs::create_dir_all(&home).unwrap();

    // ================= D: decision table =================
    let sample_path = work.join("sample.dat");
    let missing_path = work.join("does-not-exist.dat");
    let n_d = if thorough { 20000 } else { 3000 };
    let mut have_sample = false;
    for i in 0..n_d {
        let name = gen_name(&mut rng);
        let size = match rng.below(11) { 0 => 0, 1 => 1, 2 => MIB - 1, 3 => MIB, 4 => MIB + 1, 5 => 2 * MIB, 6 => u64::MAX, 7 => rng.below(2 * MIB), _ => rng.range(MIB, 100 * MIB) };
        let is_local = rng.chance(1, 8);
        let mode = if rng.chance(1, 2) { CompressionDetection::Auto } else { *rng.pick(&MODES) };
        // the sampled file
        let pk = rng.below(10);
        if pk >= 2 && (!have_sample || rng.chance(1, 3)) {
            let len = *rng.pick(&[0usize, 1, 7, 100, 4096, 65535, 65536, 65537, 200_000]);
            let data: Vec<u8> = match rng.below(6) {
                0 => vec![0u8; len],
                1 => rng.bytes(len, 256),
                2 => b"lorem ipsum dolor sit amet ".iter().cycle().take(len).cloned().collect(),
                3 => rng.bytes(len, 4),
                _ => { // random prefix of 80–99 % then zeros: compression ratio lands around the 0.9 threshold
                       let head = len.min(65536); let k = head * (rng.range(800, 990) as usize) / 1000;
                       let mut v = rng.bytes(k, 256); v.extend(vec![0u8; len - k]); v }
            };
            std::fs::write(&sample_path, &data).unwrap();
            have_sample = true;
        }
        let path: Option<&Path> = match pk { 0 => None, 1 => Some(&missing_path), _ => Some(&sample_path) };
        let sample = sample_desc(path);
        let imp = should_compress_smart(path, &name, size, is_local, mode);
        let name_h = hex(name.as_bytes());
        let m = drv.ask(&format!("compress.smart {} {} {} {} {}", name_h, size, is_local as u8, mstr(mode), sample));
        if m != cstr(imp) { lim.disagree(&mut rep, json!({"stream":"compress.smart","name":name,"size":size,"local":is_local,"mode":mstr(mode),"sample":sample,"impl":cstr(imp),"model":m})); }
        if imp == Compression::Lz4 { lim.oracle_fail(&mut rep, "C14/decision-lz4", "should_compress_smart answered Lz4: the helper cannot decode lz4 payloads", json!({"name":name,"size":size,"mode":mstr(mode)})); }
        let ext = is_compressed_extension(&name);
        let me = drv.ask(&format!("compress.ext {}", name_h));
        if me != (ext as u8).to_string() { lim.disagree(&mut rep, json!({"stream":"compress.ext","name":name,"impl":ext,"model":me})); }
        if i % 4 == 0 {
            let ia = should_compress_adaptive(&name, size, is_local, None);
            let ma = drv.ask(&format!("compress.adaptive {} {} {}", name_h, size, is_local as u8));
            if ma != cstr(ia) { lim.disagree(&mut rep, json!({"stream":"compress.adaptive","name":name,"size":size,"local":is_local,"impl":cstr(ia),"model":ma})); }
            let il = should_compress(&name, size);
            let ml = drv.ask(&format!("compress.adaptive {} {} 0", name_h, size));
            if ml != cstr(il) { lim.disagree(&mut rep, json!({"stream":"compress.legacy","name":name,"size":size,"impl":cstr(il),"model":ml})); }
        }
        let gated = is_local || matches!(mode, CompressionDetection::Always | CompressionDetection::Never) || size < MIB;
        let sampled = !gated && !ext && mode == CompressionDetection::Auto;
        rep.tag(&format!("d.mode.{}", mstr(mode)));
        rep.tag(&format!("d.answer.{}", cstr(imp)));
        if ext { rep.tag("d.ext-listed"); }
        if sampled { rep.tag(&format!("d.sampled.{}", if sample.starts_with('r') { if imp == Compression::Zstd { "below" } else { "not-below" } } else { &sample })); }
        rep.case(format!("d|{}|{}|{}|{}|{}", name, size, is_local, mstr(mode), sample).as_bytes(), !gated);
        if i % 700 == 0 { rep.sample(json!({"stream":"d","name":name,"size":size,"local":is_local,"mode":mstr(mode),"sample":sample,"answer":cstr(imp)})); }
    }

    // ================= R: codec round trip (validates Codec.Lossless / Codec.Sound) =================
    let n_r = if thorough { 8000 } else { 1500 };
    for i in 0..n_r {
        let (x, kind) = if thorough && i % 500 == 0 { let n = (MIB + rng.below(MIB)) as usize; (rng.bytes(n, if i % 1000 == 0 { 256 } else { 3 }), "large") } else { gen_payload(&mut rng, 65536) };
        for alg in [Compression::None, Compression::Lz4, Compression::Zstd] {
            let c = compress(&x, alg).unwrap();
            match decompress(&c, alg) {
                Ok(back) if back == x => {}
                Ok(_) => lim.oracle_fail(&mut rep, "C14/codec-roundtrip", &format!("decompress(compress(x)) != x for {}", cstr(alg)), json!({"alg":cstr(alg),"kind":kind,"x":if x.len() <= 4096 { hex(&x) } else { format!("len={}", x.len()) }})),
                Err(e) => lim.oracle_fail(&mut rep, "C14/codec-roundtrip", &format!("decompress(compress(x)) failed for {}: {}", cstr(alg), e), json!({"alg":cstr(alg),"kind":kind,"x":if x.len() <= 4096 { hex(&x) } else { format!("len={}", x.len()) }})),
            }
            if alg == Compression::Zstd && !has_magic(&c) { lim.oracle_fail(&mut rep, "C14/codec-no-magic", "zstd output does not start with 28 B5 2F FD", json!({"kind":kind,"len":x.len()})); }
            if alg == Compression::None && c != x { lim.oracle_fail(&mut rep, "C14/codec-roundtrip", "compress(x, None) != x", json!({"kind":kind})); }
        }
        rep.tag(&format!("r.{}", kind));
        rep.case(&[b"r", &x[..]].concat(), !x.is_empty());
    }

    // ================= binary level =================
    let bin = match sy_remote_bin() {
        Some(b) => b,
        None => { rep.skipped.push("S/P: sy-remote binary not found next to the harness (binary-level streams skipped)".into()); return rep; }
    };

    // ---- S: sender replica → real receive-file ----
    let n_s = if thorough { 1500 } else { 400 };
    let src_dir = work.join("src");
    std::fs::create_dir_all(&src_dir).unwrap();
    for i in 0..n_s {
        let big = i % (if thorough { 50 } else { 37 }) == 5;           // crosses the real 1 MiB gate under every mode
        let (x, kind) = if big {
            let len = (MIB + rng.below(if thorough { 7 * MIB } else { MIB / 2 })) as usize;
            match rng.below(3) { 0 => (rng.bytes(len, 256), "big-random"), 1 => (rng.bytes(len, 3), "big-compressible"),
                                 _ => ([&ZSTD_MAGIC[..], &rng.bytes(len, 2)[..]].concat(), "big-magic+compressible") }
        } else { gen_payload(&mut rng, 65536) };
        let mut name = gen_name(&mut rng).replace('/', "_");
        if name.is_empty() || name == "." || name == ".." { name = "plain".into(); }
        let source = src_dir.join(&name);
        std::fs::write(&source, &x).unwrap();
        let (secs, nanos) = gen_mtime(&mut rng);
        set_mtime(&source, secs, nanos);
        let mode = if big { *rng.pick(&[CompressionDetection::Auto, CompressionDetection::Auto, CompressionDetection::Extension]) } else if rng.chance(1, 2) { CompressionDetection::Always } else { *rng.pick(&MODES) };
        let (decision, route) = sender_regular(&source, mode);
        let dest = if rng.chance(1, 4) { work.join("dst").join(format!("n{}", i)).join("deep").join("out.bin") } else { work.join("dst").join("out.bin") };
        let small = x.len() <= MODEL_MAX;
        rep.tag(&format!("s.payload.{}", kind));
        rep.tag(&format!("s.decision.{}.{}", mstr(mode), cstr(decision)));
        rep.case(&[b"s", name.as_bytes(), &x[..], mstr(mode).as_bytes()].concat(), !x.is_empty());
        let src_ns = secs as u128 * 1_000_000_000 + nanos as u128;
        // the model's routing
        if small {
            let (zc, lc) = match decision { Compression::Zstd => (hex(&compress(&x, Compression::Zstd).unwrap()), "na".to_string()),
                                            Compression::Lz4 => ("na".to_string(), hex(&compress(&x, Compression::Lz4).unwrap())), _ => ("na".to_string(), "na".to_string()) };
            let m = drv.ask(&format!("compress.send {} {} {} {} {}", cstr(decision), hex(&x), src_ns, zc, lc));
            let imp = match &route { Route::Helper { stdin, mtime } => format!("helper {} {}", hex(stdin), opt_s(*mtime)), Route::Sftp { content, mtime } => format!("sftp {} {}", hex(content), opt_s(*mtime)) };
            if m != imp { lim.disagree(&mut rep, json!({"stream":"compress.send","decision":cstr(decision),"x":hex(&x),"mtime_ns":src_ns.to_string(),"impl":imp,"model":m})); }
        }
        match route {
            Route::Helper { stdin, mtime } => {
                let prior = gen_prior(&mut rng, x.len());
                rep.tag(match &prior { None => "s.prior.absent", Some(p) if p.len() > x.len() => "s.prior.longer", Some(p) if p.len() == x.len() => "s.prior.same-size", Some(_) => "s.prior.shorter" });
                let (imp, ns) = real_receive_file_over(&bin, &home, &dest, prior.as_deref(), &stdin, mtime);
                // oracle: exactly the original bytes, exactly the source mtime in whole seconds
                let want_prefix = format!("ok {} ", hex(&x));
                if !imp.starts_with(&want_prefix) { lim.oracle_fail(&mut rep, "C14/receive-file-content-differs", "file written by sy-remote receive-file differs from the source (or the helper failed)",
                    json!({"kind":kind,"decision":cstr(decision),"x": if small { hex(&x) } else { format!("len={}", x.len()) }})); }
                else if imp != format!("{}{}", want_prefix, secs) || ns != Some(0) { lim.oracle_fail(&mut rep, "C14/receive-file-mtime-differs", "mtime of the written file is not the source mtime truncated to whole seconds",
                    json!({"kind":kind,"src_secs":secs,"src_nanos":nanos,"got":imp.rsplit(' ').next(),"got_nanos":ns})); }
                if small {
                    let m = drv.ask(&format!("compress.recvover {} {} {} {}", prior_s(prior.as_deref().filter(|p| p.len() <= MODEL_MAX * 2)), hex(&stdin), opt_s(mtime), dz_of(&stdin)));
                    if m != imp { lim.disagree(&mut rep, json!({"stream":"compress.recvover","stdin":hex(&stdin),"mtime":mtime,"prior_len":prior.as_ref().map(|p| p.len()),"impl":imp,"model":m})); }
                }
                rep.tag("s.route.helper");
            }
            Route::Sftp { content, mtime } => {
                // no sy code runs on the remote side; the route itself is the observable
                if content != x || mtime != Some(secs) { lim.oracle_fail(&mut rep, "C14/sftp-route-payload-differs", "SFTP route would not carry the original bytes / whole-second mtime", json!({"kind":kind})); }
                rep.tag("s.route.sftp");
            }
        }
        // helper-only payloads (never produced by the sender; K only): raw, magic+junk, lz4, no --mtime
        if !big && i % 3 == 0 {
            let (hk, stdin): (&str, Vec<u8>) = match rng.below(5) {
                0 => ("raw", x.clone()),
                1 => { let n = rng.range(0, 40) as usize; ("magic+junk", [&ZSTD_MAGIC[..], &rng.bytes(n, 256)[..]].concat()) }
                2 => ("lz4-block", compress(&x, Compression::Lz4).unwrap()),
                3 => ("zstd-truncated", { let c = compress(&x, Compression::Zstd).unwrap(); c[..c.len() - 1].to_vec() }),
                _ => ("zstd-frame+trailing-frame", [&compress(&x, Compression::Zstd).unwrap()[..], &compress(b"tail", Compression::Zstd).unwrap()[..]].concat()),
            };
            let mt = if rng.chance(1, 3) { None } else { Some(secs) };
            let (imp, _) = real_receive_file(&bin, &home, &dest, &stdin, mt);
            let m = drv.ask(&format!("compress.recv {} {} {}", hex(&stdin), opt_s(mt), dz_of(&stdin)));
            rep.tag(&format!("s.helper-only.{}.{}", hk, if imp == "err" { "rejected" } else { "written" }));
            if m != imp { lim.disagree(&mut rep, json!({"stream":"compress.recv.helper-only","kind":hk,"stdin":hex(&stdin),"impl":imp,"model":m})); }
        }
        let _ = std::fs::remove_file(&source);
        if i % 50 == 0 { rep.sample(json!({"stream":"s","payload":kind,"len":x.len(),"name":name,"mode":mstr(mode),"decision":cstr(decision),"mtime":[secs,nanos]})); }
    }

    // ---- P: sparse layouts ----
    let sp = work.join("sparse-src.img");
    // capability probe: does this file system report holes?
    let probe = Layout { size: MIB, writes: vec![(512 * 1024, vec![7u8; 100])], kind: "probe" };
    materialise(&probe, &sp);
    let probe_ok = match detect_data_regions(&sp) { Ok(r) => r.len() == 1 && r[0].offset > 0 && r[0].offset + r[0].length < MIB, Err(_) => false };
    if !probe_ok {
        rep.skipped.push("P/L: the work directory's file system does not report holes through SEEK_DATA/SEEK_HOLE (sparse streams skipped)".into());
        return rep;
    }
    let n_p = if thorough { 700 } else { 120 };
    for i in 0..n_p {
        let l = gen_layout(&mut rng, thorough, i % 2 == 0);
        materialise(&l, &sp);
        let (secs, nanos) = gen_mtime(&mut rng);
        set_mtime(&sp, secs, nanos);
        let content = std::fs::read(&sp).unwrap();
        let metadata = std::fs::metadata(&sp).unwrap();                                   // ssh.rs:623 / :342
        let file_size = metadata.len();
        let allocated = metadata.blocks() * 512;                                          // :625
        let is_sparse = allocated < file_size && file_size > 0;                           // :626
        let small = content.len() <= MODEL_MAX;
        let m = drv.ask(&format!("sparse.issparse remote {} {}", allocated, file_size));
        if m != (is_sparse as u8).to_string() { lim.disagree(&mut rep, json!({"stream":"sparse.issparse","allocated":allocated,"size":file_size,"impl":is_sparse,"model":m})); }
        let detected = detect_data_regions(&sp);                                          // :356
        let src_ns = secs as u128 * 1_000_000_000 + nanos as u128;
        let dest = work.join("dst").join("sparse-out.img");
        let _ = std::fs::remove_file(&dest);
        let holes = match &detected { Ok(r) => r.iter().map(|x| x.length).sum::<u64>() < file_size, Err(_) => false };
        rep.tag(&format!("p.layout.{}", l.kind));
        rep.case(&[b"p", &l.size.to_le_bytes()[..], regions_str(detected.as_deref().unwrap_or(&[])).as_bytes(), &content[..content.len().min(4096)]].concat(),
                 holes && detected.as_ref().map(|r| !r.is_empty()).unwrap_or(false));
        if let Ok(rs) = &detected {
            // the hypothesis `Covers` on what the kernel reported
            if !covers(&content, rs) { lim.oracle_fail(&mut rep, "C14/sparse-regions-do-not-cover", "detect_data_regions left non-zero bytes outside its regions or reported a region outside the file", json!({"layout":l.kind,"size":l.size,"regions":regions_str(rs)})); }
            rep.tag(&format!("p.regions.{}", match rs.len() { 0 => "0", 1 => "1", 2..=4 => "2-4", _ => "5+" }));
        }
        let mut went_sparse = false;
        if is_sparse {
            // copy_sparse_file (ssh.rs:334-505)
            let det_s = match &detected { Ok(rs) => regions_str(rs), Err(_) => "err".into() };
            let replica: Option<(u64, String, Vec<u8>, Option<u64>)> = match &detected {
                Ok(rs) if !rs.is_empty() => {                                             // :368
                    let regions_json = serde_json::to_string(rs).unwrap();                // :394
                    let mtime_secs = metadata.modified().ok().and_then(|t| t.duration_since(UNIX_EPOCH).ok()).map(|d| d.as_secs()); // :402
                    let mut f = std::fs::File::open(&sp).unwrap();                        // :420
                    let mut buf = Vec::new();
                    for r in rs { f.seek(SeekFrom::Start(r.offset)).unwrap(); let mut d = vec![0u8; r.length as usize]; f.read_exact(&mut d).unwrap(); buf.extend_from_slice(&d); } // :431-463
                    Some((file_size, regions_json, buf, mtime_secs))
                }
                _ => None,
            };
            if small {
                let m = drv.ask(&format!("sparse.send {} {} {}", hex(&content), det_s, src_ns));
                let imp = match &replica { Some((t, j, b, mt)) => format!("helper {} {} {} {}", t, hex(j.as_bytes()), hex(b), opt_s(*mt)), None => "fallback".into() };
                if m != imp { lim.disagree(&mut rep, json!({"stream":"sparse.send","layout":l.kind,"size":l.size,"regions":det_s,"impl":imp,"model":m})); }
            }
            if let Some((total, regions_json, buf, mt)) = replica {
                went_sparse = true;
                let mut args = vec!["receive-sparse-file".to_string(), dest.to_string_lossy().into_owned(), "--total-size".into(), total.to_string(), "--regions".into(), regions_json.clone()];
                if let Some(s) = mt { args.push("--mtime".into()); args.push(s.to_string()); }
                let prior = gen_prior(&mut rng, total as usize);
                rep.tag(match &prior { None => "p.prior.absent", Some(p) if p.len() as u64 > total => "p.prior.longer", Some(p) if p.len() as u64 == total => "p.prior.same-size", Some(_) => "p.prior.shorter" });
                put_prior(&dest, prior.as_deref());
                let o = run_helper(&bin, &home, &args, &buf);
                let got = if o.ok { std::fs::read(&dest).ok() } else { None };
                match &got {
                    Some(g) if *g == content => {
                        let (s, ns) = get_mtime(&dest);
                        if s != secs || ns != 0 { lim.oracle_fail(&mut rep, "C14/sparse-mtime-differs", "mtime of the file written by receive-sparse-file is not the source mtime in whole seconds", json!({"src":[secs,nanos],"got":[s,ns]})); }
                    }
                    _ => lim.oracle_fail(&mut rep, "C14/sparse-content-differs", "file written by sy-remote receive-sparse-file differs from the source (or the helper failed)",
                            json!({"layout":l.kind,"size":l.size,"writes":l.writes.iter().map(|(o, d)| json!([o, d.len()])).collect::<Vec<_>>(),"regions":regions_json,"prior_len":prior.as_ref().map(|p| p.len()),"stderr":o.stderr})),
                }
                if small {
                    let imp = match &got { Some(g) => format!("ok {} {}", hex(g), get_mtime(&dest).0), None => "err".into() };
                    let m = drv.ask(&format!("sparse.recvover {} {} {} {} {}", prior_s(prior.as_deref()), total, hex(regions_json.as_bytes()), hex(&buf), opt_s(mt)));
                    if m != imp { lim.disagree(&mut rep, json!({"stream":"sparse.recvover","prior_len":prior.as_ref().map(|p| p.len()),"layout":l.kind,"size":l.size,"regions":regions_json,"impl":if imp.len() < 300 { imp.clone() } else { "ok …".into() },"model":if m.len() < 300 { m.clone() } else { "ok …".into() }})); }
                    // helper-only: damaged argument / short stdin / regions out of order (K only)
                    if i % 2 == 0 {
                        let rs = detected.as_ref().unwrap();
                        let (hk, total2, json2, stdin2): (&str, u64, String, Vec<u8>) = match rng.below(4) {
                            0 => ("short-stdin", total, regions_json.clone(), buf[..buf.len().saturating_sub(1 + rng.below(5) as usize)].to_vec()),
                            1 => ("bad-json", total, regions_json[..regions_json.len() - 1].to_string(), buf.clone()),
                            2 => { let mut r2: Vec<DataRegion> = rs.clone(); r2.reverse();
                                   let mut b2 = Vec::new(); for r in &r2 { b2.extend_from_slice(&content[r.offset as usize..(r.offset + r.length) as usize]); }
                                   ("reversed-regions", total, serde_json::to_string(&r2).unwrap(), b2) }
                            _ => ("smaller-total", total / 2, regions_json.clone(), buf.clone()),
                        };
                        let _ = std::fs::remove_file(&dest);
                        let mut args = vec!["receive-sparse-file".to_string(), dest.to_string_lossy().into_owned(), "--total-size".into(), total2.to_string(), "--regions".into(), json2.clone()];
                        if let Some(s) = mt { args.push("--mtime".into()); args.push(s.to_string()); }
                        let o = run_helper(&bin, &home, &args, &stdin2);
                        let imp = if o.ok { match std::fs::read(&dest) { Ok(g) => format!("ok {} {}", hex(&g), get_mtime(&dest).0), Err(_) => "err".into() } } else { "err".into() };
                        let m = drv.ask(&format!("sparse.recv {} {} {} {}", total2, hex(json2.as_bytes()), hex(&stdin2), opt_s(mt)));
                        rep.tag(&format!("p.helper-only.{}.{}", hk, if imp == "err" { "rejected" } else { "written" }));
                        if m != imp { lim.disagree(&mut rep, json!({"stream":"sparse.recv.helper-only","kind":hk,"layout":l.kind,"size":l.size,"regions":json2,"impl_ok":imp != "err","model_ok":m != "err"})); }
                    }
                }
            }
        }
        rep.tag(if went_sparse { "p.route.sparse-helper" } else if is_sparse { "p.route.fallback-from-sparse" } else { "p.route.not-sparse" });
        if !went_sparse {
            // falls through to the regular path (ssh.rs:640-651): the same oracle through receive-file / SFTP
            let (decision, route) = sender_regular(&sp, CompressionDetection::Auto);
            match route {
                Route::Helper { stdin, mtime } => {
                    let (imp, ns) = real_receive_file(&bin, &home, &dest, &stdin, mtime);
                    if imp != format!("ok {} {}", hex(&content), secs) || ns != Some(0) { lim.oracle_fail(&mut rep, "C14/receive-file-content-differs", "fallback from the sparse path: file written by receive-file differs from the source", json!({"layout":l.kind,"size":l.size,"decision":cstr(decision)})); }
                    rep.tag("p.fallback.helper");
                }
                Route::Sftp { content: c, .. } => { if c != content { lim.oracle_fail(&mut rep, "C14/sftp-route-payload-differs", "fallback from the sparse path: SFTP payload differs", json!({"layout":l.kind})); } rep.tag("p.fallback.sftp"); }
            }
        }
        if i % 12 == 0 { rep.sample(json!({"stream":"p","layout":l.kind,"size":l.size,"allocated":allocated,"regions":detected.as_ref().map(|r| r.len()).unwrap_or(0),"route":if went_sparse {"receive-sparse-file"} else {"regular"}})); }
    }

    // ---- L: local seek copier through the public transport API ----
    // `copy_sparse_file` (local.rs:36) is private; it is reached through `sync_file_with_delta` when the
    // destination exists with ≥ 10 MiB (a hole-only file here) and the source passes `is_file_sparse`.
    let rt = tokio::runtime::Builder::new_multi_thread().worker_threads(2).enable_all().build().unwrap();
    let lt = sy::transport::local::LocalTransport::new();
    let n_l = if thorough { 120 } else { 20 };
    let ldst = work.join("local-dst.img");
    for _ in 0..n_l {
        let mut l = gen_layout(&mut rng, thorough, true);
        for _ in 0..4 { if l.kind != "dense" && l.size > 12288 { break; } l = gen_layout(&mut rng, thorough, true); }   // mostly layouts `is_file_sparse` accepts
        materialise(&l, &sp);
        let content = std::fs::read(&sp).unwrap();
        let md = std::fs::metadata(&sp).unwrap();
        let (size, allocated) = (md.len(), md.blocks() * 512);
        let sparse_local = size > 4096 && allocated < size.saturating_sub(4096);              // local.rs:16-24
        let m = drv.ask(&format!("sparse.issparse local {} {}", allocated, size));
        if m != (sparse_local as u8).to_string() { lim.disagree(&mut rep, json!({"stream":"sparse.issparse.local","allocated":allocated,"size":size,"replica":sparse_local,"model":m})); }
        if !sparse_local { rep.tag("l.not-sparse"); continue; }
        // an all-hole file makes the first SEEK_DATA fail with ENXIO: detect_data_regions reports Unsupported,
        // the copier takes its "all holes" exit (local.rs:72-80) — no region is copied
        let regions = match detect_data_regions(&sp) { Ok(r) => r, Err(_) if content.iter().all(|b| *b == 0) => Vec::new(), Err(_) => { rep.tag("l.detect-error"); continue } };
        { let _ = std::fs::remove_file(&ldst);
          if rng.chance(1, 2) { let f = std::fs::File::create(&ldst).unwrap(); f.set_len(10 * MIB).unwrap(); rep.tag("l.prior.hole-only"); }
          else { std::fs::write(&ldst, vec![0xA5u8; 10 * MIB as usize]).unwrap(); rep.tag("l.prior.stale-bytes"); } }
        use sy::transport::Transport;
        let res = rt.block_on(lt.sync_file_with_delta(&sp, &ldst));
        let got = std::fs::read(&ldst).unwrap_or_default();
        rep.tag(&format!("l.layout.{}", l.kind));
        rep.case(&[b"l", &l.size.to_le_bytes()[..], regions_str(&regions).as_bytes(), &content[..content.len().min(4096)]].concat(), !regions.is_empty());
        rep.tag(if regions.is_empty() { "l.exit.all-holes" } else { "l.exit.regions-copied" });
        if res.is_err() || got != content {
            lim.oracle_fail(&mut rep, "C14/local-sparse-copy-differs", "LocalTransport sparse copy produced different content (or failed)", json!({"layout":l.kind,"size":l.size,"regions":regions_str(&regions),"error":res.err().map(|e| e.to_string())}));
        }
        let m = drv.ask(&format!("sparse.localseek {} {}", hex(&content), regions_str(&regions)));
        if m != hex(&got) { lim.disagree(&mut rep, json!({"stream":"sparse.localseek","layout":l.kind,"size":l.size,"regions":regions_str(&regions),"what":"model result differs from the file written by copy_sparse_file"})); }
        let mb = drv.ask(&format!("sparse.localblocks {}", hex(&content)));
        if mb != hex(&content) { lim.disagree(&mut rep, json!({"stream":"sparse.localblocks","layout":l.kind,"size":l.size,"what":"model of copy_sparse_file_blocks does not reproduce the content (no implementation run: path needs EINVAL from lseek)"})); }
    }
    let _: PathBuf = sp;
    rep
}
