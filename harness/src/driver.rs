//! Line-protocol client for the Lean model driver (`sydriver`).
use std::io::{BufRead, BufReader, Write};
use std::process::{Child, ChildStdin, ChildStdout, Command, Stdio};

pub struct Driver {
    child: Child,
    stdin: ChildStdin,
    stdout: BufReader<ChildStdout>,
    pub requests: u64,
}

impl Driver {
    pub fn spawn(path: &str) -> std::io::Result<Self> {
        let mut child = Command::new(path).stdin(Stdio::piped()).stdout(Stdio::piped()).spawn()?;
        let stdin = child.stdin.take().unwrap();
        let stdout = BufReader::new(child.stdout.take().unwrap());
        Ok(Driver { child, stdin, stdout, requests: 0 })
    }
    pub fn ask(&mut self, req: &str) -> String {
        self.requests += 1;
        self.stdin.write_all(req.as_bytes()).unwrap();
        self.stdin.write_all(b"\n").unwrap();
        self.stdin.flush().unwrap();
        let mut line = String::new();
        self.stdout.read_line(&mut line).unwrap();
        line.trim_end().to_string()
    }
}
impl Drop for Driver {
    fn drop(&mut self) { let _ = self.child.kill(); let _ = self.child.wait(); }
}

pub fn hex(b: &[u8]) -> String {
    if b.is_empty() { return "-".into(); }
    let mut s = String::with_capacity(b.len() * 2);
    for x in b { s.push_str(&format!("{:02x}", x)); }
    s
}
