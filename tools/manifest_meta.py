BASELINE_OFF_CMD = "cd /repo && cargo nextest run --workspace --no-fail-fast --tool-config-file pb:/w/lib/nextest.toml --profile pb --test-threads 8 --offline || cargo test --workspace --no-fail-fast --offline"
HOOK_COMMITS = ["ea7a4b3", "bacd3c1"]
FIX_COMMITS = ["526d358","0c4aecb","06fd967","6df6c40","5fc32d2","0eacf0e","e8f2ae1","4719838","864ff30","5a03ef4","e8bb2d2","f492f4d"]
NOTES = "Every check = (T) Lean theorems re-checked against constants regenerated from /repo, axioms audited; (K) correspondence of the executable model with the real code; (O) oracle on the implementation for replays. See DESIGN.md."
_PENDING = "not claimed yet: model/theorems for this property are still being built in this session (see DESIGN.md §11); will be claimed when its check is sound"
NOT_APPLICABLE = {f"C{n:02d}": _PENDING for n in range(1, 21)}
META = {
 "C04": {
  "text": "Proved in Lean for all old/new byte strings and all block sizes > 0: both generators (in-memory and streaming, the latter for every window ≥ block size, hence for sy's 256 KiB window and block sizes ≤ 128 KiB) emit op lists whose application to old yields new; rolling Adler-32 equals the direct checksum after any number of rolls (n·255 < 2^32); checksums tile old; copies stay in range. The model is tied to src/delta/*.rs by comparing op lists, checksums, digests and apply results byte for byte on generated pairs each run. The delta survives serde_json + zstd + the remote helper's magic sniffing (wire_roundtrip, wire_roundtrip_uncompressed), composed with both generators (C04_wire_mem, C04_wire_stream(_sy)); the real sy-remote checksums / apply-delta binaries are driven end to end each run.",
  "design_ref": "DESIGN.md §6 C04",
  "note": "Trusted: Lean kernel; hand-written model + differential harness (generator quality bounds what K sees); xxh3 collision-freeness on compared blocks (NoCollision); File::read full-buffer behaviour; zstd round trip.",
  "technique": "Lean 4 theorem (induction over the generator loops) + differential correspondence model vs. implementation",
 },
 "C07": {
  "text": "Proved in Lean for all trees, thresholds and tie outcomes of the floating-point comparison: strictly above the threshold (without --force-delete) the run is refused before any task runs, the destination is returned unchanged, no event is produced and the exit status is non-zero; the guard never refuses below the threshold; an empty source cannot wipe a destination for any threshold < 100 (default regenerated from cli.rs). The model is tied to the real binary by generated trees placed exactly at, one below and one above the threshold for thresholds 0..100 (exit status + byte-identical snapshot) and by general engine cases.",
  "design_ref": "DESIGN.md §6 C07",
  "note": "Trusted: Lean kernel; model + engine stream; f64 monotonicity in range (validated on the boundary cases, tie made explicit); destination count from a successful scan.",
  "technique": "Lean 4 theorem over the engine model + differential correspondence with the real binary at threshold boundaries",
 },
 "C08": {
  "text": "Proved in Lean for every flag set and every pair of trees: with --dry-run the run returns the destination unchanged and no task fails; planning and the deletion guard do not depend on the flag; the reported actions (and counters) of the dry run equal those of the real run whenever no task of the real run fails. Tied to the code by twin runs of the real binary (dry, then real, on identical trees) incl. --delete, --checksum-db, --use-cache, --clear-*, --resume: full snapshots of source, destination (with sy's own files) and a private HOME/XDG tree must be unchanged by the dry run, event multisets must agree. Partial: bisync dry-run is covered by the C11/C12 machinery and a snapshot oracle, not by this model.",
  "design_ref": "DESIGN.md §6 C08",
  "note": "Trusted: Lean kernel; model + twin-run stream; main.rs glue (state files) covered by the oracle only.",
  "technique": "Lean 4 theorem (fold invariant over tasks) + twin-run differential correspondence",
 },
 "C19": {
  "text": "Proved in Lean for every run of the engine model: summary counters equal the number of events per kind; every planned task appears exactly once, as an action event or as an error (a failed file is never missing); a dry run reports exactly its plan; constants regenerated from source show logs go to stderr and errors are emitted as JSON events. Tied to the code by parsing every stdout line of real --json runs with a strict parser and comparing events/counters with the model and with the observable before/after diff of the destination. Partial: path-for-path truthfulness of create/delete/skip events against the diff is checked by the oracle and the K stream; its Lean theorem is part of the C01 development.",
  "design_ref": "DESIGN.md §6 C19",
  "note": "Trusted: Lean kernel; model + engine stream; regex anchors of the translator for the log sink / error events.",
  "technique": "Lean 4 theorem (bookkeeping invariant) + differential correspondence of the JSON stream",
 },
 "C14": {
  "text": "Proved in Lean for all byte strings, names, sizes, modes and samples: the compression decision never answers Lz4 (decision_range); the codec dispatch round-trips given lossless codecs (dispatch_roundtrip); for every decision the remote file written through the sender's branch + sy-remote receive-file (or SFTP for Compression::None) has exactly the original bytes and the source mtime in whole seconds, including empty, incompressible and magic-prefixed payloads (receive_file_transparent, receive_file_mtime) — with the helper-alone and Lz4-route counterexamples proved to show what the theorem depends on; the sparse protocol (gather, regions JSON, set_len + seek + write) rebuilds the content for every region list satisfying the SEEK_DATA/SEEK_HOLE contract (sparse_reconstruct, sparse_helper_transparent, regions_json_roundtrip), all-hole / failed detection falls back to the regular path (all_hole_falls_back) and SshTransport::copy_file as a whole is transparent (copy_file_remote_transparent); both local sparse copiers reproduce the content (sparse_local_seek, sparse_local_blocks). Partial in the sense of DESIGN §6 C14: zstd / lz4 themselves are hypotheses (Codec.Sound, Codec.Lossless) validated on every generated payload, kernel hole reporting is the hypothesis Covers, SSH/SFTP are assumed transparent.",
  "design_ref": "DESIGN.md §6 C14",
  "note": "Trusted: Lean kernel; hand-written model + differential harness against the library and the real sy-remote binary (ssh.rs sender side is replayed with the same library calls, not executed); third-party codecs (hypotheses, validated); kernel SEEK_DATA/SEEK_HOLE and pwrite/ftruncate semantics; exact-rational reading of the f64 ratio test.",
  "technique": "Lean 4 theorems (case analysis of the decision, pointwise invariant over the region-write fold, JSON printer/parser round trip) + differential correspondence model vs. library and real helper binary + snapshot oracle",
 },
 "C13": {
  "text": "Proved in Lean for a labelled transition system of the hard-link hand-off at mutex granularity, for every number of workers and link groups, every scripted await point, every fault plan and every micro-step schedule: at most one claim holder per inode (single_owner); destination paths created Ok share an inode iff their sources do, with the source's content (link_structure, link_structure_clean); every reachable non-final state of the repaired protocol has an enabled step (no_stuck) and a variant decreases on every step (terminates, no_infinite_execution, every_run_completes); a failing owner returns its error, leaves no InProgress entry and nobody waiting (owner_failure_surfaces). The shipped protocol is kept as Variant.pinned with machine-checked hang witnesses (no_stuck_counterexample_pinned = A11, lost_wakeup_counterexample_pinned). Tied to the code each run by polling the real create() futures over a mock Transport in every order (hook H3) and comparing every poll with the model; binary level: A11 scenario, inode classes after fresh creation, content updates and group changes. Partial: tokio Notify is modelled, not verified; thread-level schedules are proved over the model and only sampled on the code; 'after later updates' holds only below the 10 MiB delta threshold and for unchanged group membership (two recorded findings with witnesses).",
  "design_ref": "DESIGN.md §6 C13",
  "note": "Trusted: Lean kernel; hand-written LTS + poll-level differential harness; tokio Notify semantics (counter snapshot at creation); fair executor (tokio spawn/Semaphore/join_all not modelled).",
  "technique": "Lean 4 theorems (inductive invariant + ranking function over an interleaving LTS) + deterministic-executor correspondence with the real futures",
 },
 "C15": {
  "text": "Proved in Lean for all pairs of scanned trees: the mismatched / only-in-source / only-in-destination / error lists are exactly the true sets (a directory is never the counterpart of a file), exit 2 iff some compared file is unreadable, exit 0 iff all lists are empty, and exit 0 iff both sides hold the same files with identical contents. Constants regenerated from source show every mode compares with a real checksum and that the verify body calls no mutating operation. Tied to the code by running the real binary with every --mode on generated pairs (equal size+mtime with different content, file/directory conflicts, empty trees, nested paths) and comparing exit status and all lists with the model and with an oracle computed from snapshots; both trees are snapshotted before/after (read-only).",
  "design_ref": "DESIGN.md §6 C15",
  "note": "Trusted: Lean kernel; model + verify stream; checksum collision-freeness; the read-only part is a syntactic constant obligation plus the snapshot oracle.",
  "technique": "Lean 4 theorem (list characterisations) + differential correspondence with the real binary",
 },
}
