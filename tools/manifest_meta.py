BASELINE_OFF_CMD = "cd /repo && cargo nextest run --workspace --no-fail-fast --tool-config-file pb:/w/lib/nextest.toml --profile pb --test-threads 8 --offline || cargo test --workspace --no-fail-fast --offline"
HOOK_COMMITS = ["ea7a4b3"]
FIX_COMMITS = ["526d358","0c4aecb","06fd967","6df6c40","5fc32d2","0eacf0e","e8f2ae1","4719838","864ff30","5a03ef4"]
NOTES = "Every check = (T) Lean theorems re-checked against constants regenerated from /repo, axioms audited; (K) correspondence of the executable model with the real code; (O) oracle on the implementation for replays. See DESIGN.md."
_PENDING = "not claimed yet: model/theorems for this property are still being built in this session (see DESIGN.md §11); will be claimed when its check is sound"
NOT_APPLICABLE = {f"C{n:02d}": _PENDING for n in range(1, 21)}
META = {
 "C04": {
  "text": "Proved in Lean for all old/new byte strings and all block sizes > 0: both generators (in-memory and streaming, the latter for every window ≥ block size, hence for sy's 256 KiB window and block sizes ≤ 128 KiB) emit op lists whose application to old yields new; rolling Adler-32 equals the direct checksum after any number of rolls (n·255 < 2^32); checksums tile old; copies stay in range. The model is tied to src/delta/*.rs by comparing op lists, checksums, digests and apply results byte for byte on generated pairs each run. Partial: the JSON+zstd wire leg is covered by the oracle at binary level, its Lean round-trip theorem is still to come.",
  "design_ref": "DESIGN.md §6 C04",
  "note": "Trusted: Lean kernel; hand-written model + differential harness (generator quality bounds what K sees); xxh3 collision-freeness on compared blocks (NoCollision); File::read full-buffer behaviour; zstd round trip.",
  "technique": "Lean 4 theorem (induction over the generator loops) + differential correspondence model vs. implementation",
 },
}
