"""Step-level refinement against the real binary (DESIGN §4.3), serving C05 and C09.

The real `sy` runs under `strace -f -y`; every mutating system call on a destination path is translated into a step of the
Lean step model (SyModel/Engine/Steps.lean) and
  (a) the observed global order is replayed through the model's step semantics (`steps.replay`): the resulting nodes must be
      the observed snapshot — for complete runs with many workers (C05) and for every crash prefix (C09, process killed by
      `strace -e inject=<call>:signal=KILL:when=k`);
  (b) per task, the observed step kinds must be a word of the step list the model assigns to that task (`steps.of`);
  (c) C05: the replayed result equals the sequential entry-level prediction (`engine.run`); C09: the property's four clauses
      are evaluated on the crash snapshot and on an uninterrupted re-run.
"""
import os, re, shutil, subprocess
from sylib import *
import engine_stream as es
import trace_stream as ts

NOW = 9_000_000_000_000_000_000
KILL_CALLS = ["copy_file_range", "mkdir", "rename", "utimensat", "unlink", "unlinkat", "ftruncate", "fchmod", "openat", "write"]

def gen_case(rng, caps, allow_delete=True):
    opts = {"symlinks": False, "extras": True, "big": rng.chance(1, 2)}
    env = {"SY_VERIF_DELTA_THRESHOLD": "4096", "SY_VERIF_BLOCK_SIZE": "1024"} if opts["big"] else {}
    src = es.gen_src(rng, opts); dst = es.gen_dst(rng, src, opts)
    # names that differ only in their extension, updated together through the block-delta path
    if opts["big"] and rng.chance(1, 2):
        for nm in ("big.bin", "big.dat"):
            d = rng.bytes(rng.pick([5000, 8192])); src[nm] = F(d, BASE_T * 10**9 + 77 * 10**9)
            i = rng.range(1024, len(d) - 1); dst[nm] = F(d[:i] + bytes([d[i] ^ 0xFF]) + d[i + 1:], BASE_T * 10**9)       # one changed block: the delta route
    flags = ["-j", str(rng.pick([1, 4, 8]))]
    cfg = {}
    if rng.chance(1, 4): flags.append("--checksum"); cfg["cmp"] = "c"
    if allow_delete and rng.chance(1, 3): flags += ["--delete", "--force-delete"]; cfg["delete"] = 1; cfg["force"] = 1
    return src, dst, flags, cfg, env

def plan_tasks(drv, cfg, src_root, dst_root, contents, pre_dst):
    """tasks of the model's plan with payloads (from engine.run's events + the scan)"""
    order = es.scan_order(src_root)
    exb = {r: False for r in order}
    scan = enc_scan(src_root, order, exb, contents); dstenc = enc_dst(pre_dst, contents)
    res = parse_model_result(drv.ask(f"engine.run {enc_cfg(cfg)} {scan} {dstenc}"))
    plan = drv.ask(f"engine.plan {enc_cfg(cfg)} {scan} {dstenc}")
    tasks = {}
    for it in ([] if plan == "-" else plan.split(";")):
        tasks[dec_path(it[1:])] = it[0]
    return order, res, tasks

def payload_of(src_root, rel, contents):
    p = os.path.join(src_root, rel); st = os.lstat(p)
    if os.path.isdir(p): return "D", None
    data = open(p, "rb").read()
    return f"F{contents.id(data)}.{st.st_size}.{st.st_mtime_ns}.{st.st_ino}.{st.st_nlink}", (contents.id(data), st.st_size, st.st_mtime_ns, data)

def node_enc(n):
    if n is None: return "-"
    if n["k"] == "d": return "D"
    if n["k"] == "l": return "L" + hx(n["text"])
    return f"F{n['cid']}.{n['size']}.{n['mtime']}"

def translate(calls, dst_root, src_root, owners, meta, acts=None):
    """observed mutating calls -> (full-form model steps, per-owner kind lists, count). `owners`: path -> owning task path;
    `meta`: task path -> (cid, size, mtime)"""
    steps, per_owner = [], {}
    grown = {}
    maybe = set()          # paths of calls that were in progress when the process was killed (effect unknown)
    def rel(p):
        p = os.path.normpath(p)
        return os.path.relpath(p, dst_root) if p.startswith(dst_root + "/") else None
    acts = acts or {}
    def owner_of(r, writing=False):
        # a stale destination entry named like the working file of a planned transfer is itself a (delete) task: its removal belongs to
        # that task, but the file the transfer then creates, writes and renames under the same name belongs to the transfer
        if writing and r.endswith(".sy.tmp") and acts.get(r) == "d" and acts.get(r[:-7]) in ("u", "c"): return r[:-7]
        if r in owners: return owners[r]
        if r.endswith(".sy.tmp") and r[:-7] in owners: return r[:-7]
        return r
    def add(kind, r, text):
        steps.append(text); per_owner.setdefault(owner_of(r, kind in ("createTemp", "openTrunc", "grow", "utimens")), []).append(kind)
    for pid, call, args, res in calls:
        if res.startswith("-1"): continue
        q = ts.quoted(args)
        if res.startswith("?"):
            # killed while this call was in progress: it may or may not have taken effect
            for p_ in q + ts.fd_paths(args) + ts.fd_paths(res):
                p_ = p_ if os.path.isabs(p_) else os.path.join(os.path.dirname(dst_root), p_)
                r_ = rel(p_)
                if r_: maybe.add(r_); maybe.add(owner_of(r_))
            continue
        if call == "mkdir":
            r = rel(q[0]) if q else None
            if r: add("mkdir", r, f"mkdir:{enc_path(r)}")
        elif call == "openat":
            if not re.search(r"O_WRONLY|O_RDWR", args) or "O_TRUNC" not in args and "O_CREAT" not in args: continue
            fp = ts.fd_paths(res); r = rel(fp[0]) if fp else None
            if not r: continue
            o = owner_of(r, True); cid = meta.get(o, (0, 0, 0))[0]
            if r.endswith(".sy.tmp") and o != r:
                if "O_TRUNC" in args or "O_CREAT" in args: add("createTemp", r, f"createTemp:{enc_path(r)}:{cid}")
            else:
                grown[r] = 0; add("openTrunc", r, f"openTrunc:{enc_path(r)}:{cid}:{NOW}")
        elif call == "copy_file_range":
            fp = ts.fd_paths(args); r = rel(fp[1]) if len(fp) > 1 else None
            n = int(res.split()[0]) if res.split()[0].isdigit() else 0
            if r and n > 0 and not (r.endswith(".sy.tmp") and owner_of(r, True) != r):
                grown[r] = grown.get(r, 0) + n; cid = meta.get(owner_of(r), (0, 0, 0))[0]
                add("grow", r, f"grow:{enc_path(r)}:{cid}:{grown[r]}")
        elif call in ("write", "pwrite64"):
            fp = ts.fd_paths(args); r = rel(fp[0]) if fp else None
            n = int(res.split()[0]) if res.split()[0].isdigit() else 0
            if r and n > 0 and not (r.endswith(".sy.tmp") and owner_of(r, True) != r):
                grown[r] = grown.get(r, 0) + n; cid = meta.get(owner_of(r), (0, 0, 0))[0]
                add("grow", r, f"grow:{enc_path(r)}:{cid}:{grown[r]}")
        elif call == "utimensat":
            r = rel(q[0]) if q else None
            m = re.findall(r"tv_sec=(\d+), tv_nsec=(\d+)", args)
            if r and len(m) >= 2 and not (r.endswith(".sy.tmp") and owner_of(r, True) != r):
                add("utimens", r, f"utimens:{enc_path(r)}:{int(m[1][0]) * 10**9 + int(m[1][1])}")
        elif call == "rename":
            a, b = (rel(q[0]), rel(q[1])) if len(q) >= 2 else (None, None)
            if a and b:
                cid, size, mt = meta.get(owner_of(b), (0, 0, 0))[:3]
                add("rename", b, f"rename:{enc_path(a)}:{enc_path(b)}:{cid}:{size}:{mt}")
        elif call == "unlink":
            r = rel(q[0]) if q else None
            if r: add("unlinkTemp" if r.endswith(".sy.tmp") and owner_of(r) != r else "unlink", r, f"unlink:{enc_path(r)}")
        elif call == "unlinkat":
            fp = ts.fd_paths(args)
            base = fp[0] if fp else None
            if q and (base or os.path.isabs(q[0])):
                r = rel(os.path.join(base, q[0]) if base and not os.path.isabs(q[0]) else q[0])
                if r and "AT_REMOVEDIR" in args: add("removeTree", r, f"removeTree:{enc_path(r)}")
                elif r: add("unlink", r, f"unlink:{enc_path(r)}")
        elif call == "rmdir":
            r = rel(q[0]) if q else None
            if r: add("removeTree", r, f"removeTree:{enc_path(r)}")
    return steps, per_owner, maybe

def collapse(kinds):
    # `let _ = fs::remove_file(&temp_dest)` directly before the working file is created (repo fix d0ec669) is part of the model's
    # createTemp step: Steps.createTemp_absorbs_unlink proves  createTemp ∘ unlink = createTemp  on every node.  Any other unlink
    # of a working file (the guard's clean-up after a failure) stays an unlink.
    ks = []
    for i, k in enumerate(kinds):
        if k == "unlinkTemp":
            if i + 1 < len(kinds) and kinds[i + 1] == "createTemp": continue
            k = "unlink"
        ks.append(k)
    out = []
    for k in ks:
        if out and out[-1] == k and k in ("grow", "mkdir", "unlink"): continue
        out.append(k)
    return out

def is_subword(obs, model):
    """obs (collapsed) must embed in model (collapsed) in order"""
    i = 0
    for k in model:
        if i < len(obs) and obs[i] == k: i += 1
    return i == len(obs)

def model_steps_for(drv, cfg, task_act, rel, payload, old, thr, chunk):
    """the model's step words for the task: one per route the code may take (block-delta, or full copy when the sampled
    change ratio exceeds 75 %)"""
    words = []
    for hint in ("", " route=full,break=0,now=0"):
        r = drv.ask(f"steps.of {enc_cfg(cfg)} {thr} {chunk} {task_act}:{enc_path(rel)}:{payload} {old}{hint}")
        if r == "bad-op": continue
        words.append([] if r == "-" else [x.split(":")[0] for x in r.split(";")])
    return words or None

def replay(drv, pre_dst, steps, mentioned_extra=()):
    init = ";".join(f"{enc_path(r)}:{node_enc(n)}" for r, n in sorted(pre_dst.items())) or "-"
    r = drv.ask(f"steps.replay {init} {';'.join(steps) if steps else '-'}")
    if r == "bad-op": return None
    out = {}
    for it in ([] if r == "-" else r.split(";")):
        p, n = it.split(":", 1); out[dec_path(p)] = n
    return out

def compare_replay(model_nodes, post_dst, src_data):
    """model nodes (from steps.replay) vs the real snapshot, for the mentioned paths"""
    bad = []
    for rel, n in model_nodes.items():
        real = post_dst.get(rel)
        if n == "-":
            if real is not None: bad.append((rel, "model: absent", node_enc(real)))
        elif n == "D":
            if real is None or real["k"] != "d": bad.append((rel, "model: dir", node_enc(real)))
        elif n[0] == "T":
            if real is None or real["k"] != "f": bad.append((rel, "model: temp file", node_enc(real)))
        elif n[0] == "F":
            cid, ln, mt = n[1:].split(".")
            if real is None or real["k"] != "f" or real["size"] != int(ln): bad.append((rel, f"model: file len {ln}", node_enc(real)))
            elif int(mt) != NOW and real["mtime"] != int(mt): bad.append((rel, f"model: mtime {mt}", node_enc(real)))
    return bad

def run(tier="quick", seed=1, work=None, replay=None, focus="C05", ncases=None):
    return run_c05(tier, seed, work, ncases) if focus == "C05" else run_c09(tier, seed, work, ncases)

def setup_case(rng, caps, work, name, allow_delete=True):
    case_dir = os.path.join(work, name)
    src_root, dst_root = os.path.join(case_dir, "src"), os.path.join(case_dir, "dst")
    src, dst, flags, cfg, env = gen_case(rng, caps, allow_delete)
    materialize(src_root, src, {}); materialize(dst_root, dst, {})
    return case_dir, src_root, dst_root, flags, cfg, env

def task_table(drv, cfg, src_root, dst_root, contents, pre_dst, env):
    order, res, tasks = plan_tasks(drv, cfg, src_root, dst_root, contents, pre_dst)
    thr = 4096 if env else 10 * 1024 * 1024
    owners, meta, words = {}, {}, {}
    for rel, act in tasks.items():
        if act in "cu":
            pl, m = payload_of(src_root, rel, contents)
            if m: meta[rel] = m
        else: pl = "N"
        owners[rel] = rel
        old = pre_dst.get(rel)
        oldenc = "-" if old is None else ("D" if old["k"] == "d" else "L" + hx(old["text"]) if old["k"] == "l" else f"F{old['cid']}.{old['size']}.{old['mtime']}.{old['ino']}.-")
        words[rel] = model_steps_for(drv, cfg, act, rel, pl, oldenc, thr, 1 << 30)
    return order, res, tasks, owners, meta, words

def run_c05(tier, seed, work, ncases):
    rep = Report(rule="generated trees of files and directories (equal stems with different extensions, names ending in .sy.tmp, nested new directories shared by "
                      "several files, several simultaneous block-delta updates through hook H1) run with -j 1/4/8 under strace -f -y; per task the observed mutating calls "
                      "must be a word of the model's step list, the observed global order replayed through the step semantics must give the observed snapshot and the "
                      "sequential prediction; non-trivial = at least two tasks issued steps; distinct = distinct (tree, flags)")
    rng = Rng(seed * 48611 + 5); n = ncases or (30 if tier == "quick" else 400)
    os.makedirs(work, exist_ok=True); caps = probe_caps(work)
    drv = Driver(); contents = Contents(); traces = 0
    try:
        for ci in range(n):
            case_dir, src_root, dst_root, flags, cfg, env = setup_case(rng, caps, work, f"s{ci}")
            pre_dst = snapshot(dst_root, contents)
            order, res, tasks, owners, meta, words = task_table(drv, cfg, src_root, dst_root, contents, pre_dst, env)
            log = os.path.join(case_dir, "trace.log")
            rc, out, err = run_sy([src_root, dst_root, "--json"] + flags, case_dir, env_extra=env,
                                  prefix=["strace", "-f", "-y", "-qq", "-s", "0", "-o", log, "-e", "trace=" + ",".join(ts.MUT)])
            post_dst = snapshot(dst_root, contents)
            calls = ts.parse_trace(log) if os.path.exists(log) else []
            steps, per_owner, _ = translate(calls, dst_root, src_root, owners, meta, acts=tasks)
            desc = {"case": ci, "seed": seed, "flags": flags, "env": env, "rc": rc, "tasks": {r: a for r, a in sorted(tasks.items()) if a != "s"}}
            traces += 1
            rep.case((tuple(flags), tuple(sorted(tasks.items())), tuple(sorted(pre_dst))), len([o for o in per_owner if per_owner[o]]) >= 2)
            rep.tag("workers." + flags[flags.index("-j") + 1]); rep.tag("steps.observed", len(steps))
            if env: rep.tag("hook.delta-path")
            rep.sample({"flags": flags, "tasks": len(tasks), "observed_steps": len(steps), "first_steps": [s.split(":")[0] for s in steps[:8]]})
            dis = []
            # (b) per-task words
            for o, kinds in per_owner.items():
                w = words.get(o)
                if w is None:
                    anc = [t for t in tasks if t.startswith(o + "/")]       # a directory created on behalf of a task below it
                    if all(k == "mkdir" for k in kinds) and anc: continue
                    if tasks.get(o) is None and any(o.startswith(t + "/") for t, a in tasks.items() if a == "d"): continue   # child of a deleted directory
                    dis.append(f"steps on {o} belong to no planned task: {collapse(kinds)[:6]}"); continue
                if tasks.get(o) == "d":
                    # remove_dir_all = unlinks below the directory, then the directory: stutters of the model's removeTree / unlink
                    if not set(kinds) <= {"unlink", "removeTree"}: dis.append(f"delete task {o}: observed {collapse(kinds)[:8]}")
                    continue
                obs = collapse(kinds)
                if not any(is_subword(obs, collapse(x)) for x in w):
                    dis.append(f"task {o}: observed {obs[:8]} is not a word of the model's {[collapse(x)[:10] for x in w]}")
            # (a) replay of the observed order
            mn = replay(drv, pre_dst, steps)
            if mn is None: dis.append("steps.replay: bad-op")
            else:
                bad = compare_replay(mn, post_dst, None)
                if bad: dis.append(f"replay of the observed order differs from the snapshot: {bad[:3]}")
            # (c) equals the sequential prediction
            if res is not None and rc is not None:
                mc, _ = model_dst_canon(res["dst"]); rcn, _ = real_dst_canon(post_dst, contents)
                diff = {r: (rcn.get(r), mc.get(r)) for r in set(mc) | set(rcn) if mc.get(r) != rcn.get(r)}
                # the recorded finding (Refine.refines_counterexample_temp_in_use): a destination entry of the user that bears the working-file
                # name of a block-delta-updated neighbour is removed; reported under its own signature, not as a disagreement of the model
                in_use = [r for r in diff if r.endswith(".sy.tmp") and r in pre_dst and pre_dst[r]["k"] != "d" and tasks.get(r[:-7]) == "u"
                          and rcn.get(r) is None and any("createTemp" in k for k in [per_owner.get(r[:-7], [])])]
                for r in in_use:
                    del diff[r]
                    rep.oracle_fail("C05/user-file-named-like-temp", f"a destination file of the user named {os.path.basename(r)} next to a block-delta-updated {os.path.basename(r[:-7])} was removed (exit {rc})", desc)
                if diff and rc == 0: dis.append(f"result differs from the sequential prediction: {dict(list(sorted(diff.items()))[:3])}")
            if dis: rep.disagree({"what": dis, **desc})
            if rc == 0:
                left = [r for r in post_dst if r.endswith(".sy.tmp") and r not in pre_dst and not os.path.lexists(os.path.join(src_root, r))]
                if left: rep.oracle_fail("C05/working-file-left", f"working files remain after a successful run: {left[:3]}", desc)
                for r, n_ in snapshot(src_root, contents).items():
                    if n_["k"] == "f" and (post_dst.get(r) or {}).get("cid") != n_["cid"] and tasks.get(r) in ("c", "u"):
                        rep.oracle_fail("C05/update-lost", f"{r} was planned for transfer but does not hold the source content after a successful -j run", desc)
            shutil.rmtree(case_dir, ignore_errors=True)
        # ---- targeted: siblings that differ only in their extension, all updated through the block-delta path at once
        for ci in range(2 if tier == "quick" else 10):
            case_dir = os.path.join(work, f"stems{ci}"); src_root, dst_root = os.path.join(case_dir, "src"), os.path.join(case_dir, "dst")
            src, dst = {}, {}
            t = BASE_T * 10**9
            for i in range(6):
                for ext in ("bin", "dat", "tar.gz", "r\udce9s", "r\udce8s"):      # the last two: names that are not valid UTF-8 and differ in one byte
                    # ~1 MiB each with 256-byte blocks: thousands of seek+write calls per file, so that the updates really overlap
                    d = rng.bytes(4096) * rng.pick([200, 256, 300]); j = rng.range(1024, len(d) - 1)
                    src[f"p{i}.{ext}"] = F(d, t + 90 * 10**9); dst[f"p{i}.{ext}"] = F(d[:j] + bytes([d[j] ^ 0xFF]) + d[j + 1:], t)
            materialize(src_root, src, {}); materialize(dst_root, dst, {})
            flags = ["-j", "8"]
            rc, out, err = run_sy([src_root, dst_root, "--json"] + flags, case_dir, env_extra={"SY_VERIF_DELTA_THRESHOLD": "4096", "SY_VERIF_BLOCK_SIZE": "256"})
            post = snapshot(dst_root, contents); s_ = snapshot(src_root, contents)
            wrong = sorted(r for r, n_ in s_.items() if (post.get(r) or {}).get("cid") != n_["cid"])
            rep.case(("same-stem-siblings", ci), True); rep.tag("targeted.same-stem-siblings")
            desc = {"case": ci, "seed": seed, "flags": flags, "scenario": "30 files p<i>.{bin,dat,tar.gz,<non-UTF-8>,<non-UTF-8>}, each with one changed block, updated through the block-delta path with 8 workers", "rc": rc, "stderr": err[-200:]}
            if wrong or rc != 0:
                rep.oracle_fail("C05/temp-collision/same-stem-siblings", f"concurrent updates of siblings that differ only in their extension interfered: exit {rc}, stale or wrong: {wrong[:4]}", desc)
            left = [r for r in post if r.endswith(".sy.tmp")]
            if left: rep.oracle_fail("C05/working-file-left", f"working files remain: {left[:3]}", desc)
            shutil.rmtree(case_dir, ignore_errors=True)
        # ---- targeted: siblings whose names are at the file-name length limit and share a long prefix (a working-file name derived by cutting the
        #      name would be shared); the property itself is the oracle: the -j 8 outcome must be the -j 1 outcome, whatever that is (on a tree where the
        #      working file cannot be created both runs fail alike and leave the destination as it was)
        for ci in range(1 if tier == "quick" else 6):
            t = BASE_T * 10**9; src, dst = {}, {}
            stem = "L" + "".join(rng.pick("abcdefgh") for _ in range(247))
            names = [stem[:247] + c for c in "xy"] + [stem + tail for tail in ("a", "b", "cc", "cd", "eeeeeee", "eeeeeef")]     # 248 bytes; 249 .. 255 bytes
            for nm in names:
                d = rng.bytes(4096) * rng.pick([200, 256, 300]); j = rng.range(1024, len(d) - 1)
                src[nm] = F(d, t + 90 * 10**9); dst[nm] = F(d[:j] + bytes([d[j] ^ 0xFF]) + d[j + 1:], t)
            outcome = {}
            for jn in ("1", "8"):
                case_dir = os.path.join(work, f"longname{ci}-j{jn}"); src_root, dst_root = os.path.join(case_dir, "src"), os.path.join(case_dir, "dst")
                materialize(src_root, src, {}); materialize(dst_root, dst, {})
                rc, out, err = run_sy([src_root, dst_root, "--json", "-j", jn], case_dir, env_extra={"SY_VERIF_DELTA_THRESHOLD": "4096", "SY_VERIF_BLOCK_SIZE": "256"})
                post = snapshot(dst_root, contents); s_ = snapshot(src_root, contents)
                outcome[jn] = (rc, {r: (n_["k"], n_.get("cid")) for r, n_ in post.items()})
                if rc == 0:
                    wrong = sorted(r for r, n_ in s_.items() if (post.get(r) or {}).get("cid") != n_["cid"])
                    if wrong: rep.oracle_fail("C05/update-lost", f"exit 0 with -j {jn} but {len(wrong)} long-named files do not hold the source content", {"case": ci, "seed": seed, "names": [len(x) for x in names]})
                shutil.rmtree(case_dir, ignore_errors=True)
            rep.case(("long-name-siblings", ci), True); rep.tag("targeted.long-name-siblings"); rep.tag("targeted.long-name-siblings.rc-j1=%s" % outcome["1"][0])
            if outcome["1"] != outcome["8"]:
                diff = sorted(r for r in set(outcome["1"][1]) | set(outcome["8"][1]) if outcome["1"][1].get(r) != outcome["8"][1].get(r))
                rep.oracle_fail("C05/temp-collision/long-name-siblings",
                                f"8 files with names of 248..255 bytes sharing a 247-byte prefix, each with one changed block, block-delta path: exit {outcome['1'][0]} with -j 1 but exit {outcome['8'][0]} with -j 8; {len(diff)} entries differ (name lengths {[len(x) for x in diff][:6]})",
                                {"case": ci, "seed": seed, "stem": stem, "names": names, "env": {"SY_VERIF_DELTA_THRESHOLD": "4096", "SY_VERIF_BLOCK_SIZE": "256"}})
        # ---- the recorded residual finding: a user's own destination file literally named like the working file
        for ci in range(1 if tier == "quick" else 4):
            case_dir = os.path.join(work, f"tmpname{ci}"); src_root, dst_root = os.path.join(case_dir, "src"), os.path.join(case_dir, "dst")
            d = rng.bytes(6000); t = BASE_T * 10**9
            materialize(src_root, {"x": F(d, t + 50 * 10**9)}, {}); materialize(dst_root, {"x": F(d[:3000] + b"!" + d[3001:], t), "x.sy.tmp": F(b"the user's own file", t)}, {})
            rc, out, err = run_sy([src_root, dst_root, "--json", "-j", "1"], case_dir, env_extra={"SY_VERIF_DELTA_THRESHOLD": "4096", "SY_VERIF_BLOCK_SIZE": "1024"})
            post = snapshot(dst_root, contents)
            rep.case(("user-temp-name", ci), True); rep.tag("targeted.user-file-named-like-temp")
            if post.get("x.sy.tmp", {}).get("cid") != contents.id(b"the user's own file"):
                rep.oracle_fail("C05/user-file-named-like-temp", "a destination file of the user named x.sy.tmp next to a block-delta-updated x was truncated and renamed away (exit %s)" % rc,
                                {"case": ci, "seed": seed, "scenario": "dst/x (6000 B, one changed block) + dst/x.sy.tmp (user file); sy src dst with the block-delta path"})
            shutil.rmtree(case_dir, ignore_errors=True)
    finally:
        drv.close()
    d = rep.to_dict(); d["traces_validated_against_impl"] = traces
    return d

def run_c09(tier, seed, work, ncases):
    rep = Report(rule="generated trees (files and directories, block-delta updates through hook H1, --delete) x every k-th mutating system call "
                      "(quick: sampled; thorough: all k) at which the process is killed (strace inject signal=KILL) with -j1 and -j4; after each kill: the observed "
                      "prefix replayed through the model's step semantics must give the crash snapshot; the property's clauses are evaluated on it and on an "
                      "uninterrupted re-run; non-trivial = the kill hit a run that had already changed the destination and had work left; distinct = distinct (tree, flags, call, k)")
    rng = Rng(seed * 15485863 + 9); ntrees = ncases or (4 if tier == "quick" else 14)
    per_tree = 14 if tier == "quick" else 10**6
    os.makedirs(work, exist_ok=True); caps = probe_caps(work)
    if not __import__("fault_stream").strace_ok():
        rep.skipped.append("crash injection skipped: strace inject not usable"); return rep.to_dict()
    drv = Driver(); contents = Contents(); traces = 0
    try:
        for ti in range(2 if tier == "quick" else 6):
            sparse_crash(rep, contents, ti, seed, work, Rng(rng.next()), big=(tier != "quick" and ti == 0))
        for ti in range(ntrees):
            pristine = os.path.join(work, f"p{ti}")
            rngc = Rng(rng.next())
            case_dir, src_root, dst_root, flags, cfg, env = setup_case(rngc, caps, work, f"p{ti}")
            # count the mutating calls of an uninterrupted run on a copy
            twin = os.path.join(work, f"c{ti}")
            shutil.copytree(pristine, twin, symlinks=True)
            log = os.path.join(twin, "count.log")
            run_sy([os.path.join(twin, "src"), os.path.join(twin, "dst"), "--json"] + flags, twin, env_extra=env,
                   prefix=["strace", "-f", "-qq", "-o", log, "-e", "trace=" + ",".join(c for c in KILL_CALLS if c not in ("openat", "write"))])
            counts = {}
            for line in open(log, errors="replace"):
                m = re.match(r"^\d+\s+(\w+)\(", line)
                if m: counts[m.group(1)] = counts.get(m.group(1), 0) + 1
            reference = content_fp(snapshot(os.path.join(twin, "dst"), contents))       # what the uninterrupted run produces
            shutil.rmtree(twin, ignore_errors=True)
            points = [(c, k) for c, n_ in sorted(counts.items()) for k in range(1, n_ + 1)]
            points = rng.shuffle(points)[:per_tree]
            for (call, k) in points:
                shutil.copytree(pristine, twin, symlinks=True)
                for dp, dn, fn in os.walk(twin, topdown=False): os.utime(dp, ns=(BASE_T * 10**9, BASE_T * 10**9))
                one_crash(rep, drv, contents, ti, seed, twin, flags, cfg, env, call, k, reference)
                traces += 1
                shutil.rmtree(twin, ignore_errors=True)
            shutil.rmtree(pristine, ignore_errors=True)
    finally:
        drv.close()
    d = rep.to_dict(); d["traces_validated_against_impl"] = traces
    return d

def write_sparse(path, size, chunks):
    """a file of `size` bytes whose data extents `chunks` = [(offset, bytes)] (block aligned) are written; the rest is a hole"""
    with open(path, "wb") as f:
        f.truncate(size)
        for off, data in chunks:
            f.seek(off); f.write(data)

def sparse_crash(rep, contents, ti, seed, work, rng, big=False):
    """O-only targeted family (seeded change C09c): an UPDATE of an existing destination from a SPARSE source goes through
    the sparse copier of sync_file_with_delta (hook H1 lowers the 10 MiB gate; `big` uses a real > 10 MiB pair). The run is
    killed at each write / ftruncate to the destination file; then the same command runs uninterrupted. A torn file must
    never be accepted: with --size-only the size alone decides, in the default mode the source is given the current time
    as mtime so that only the size protects a file torn a moment later."""
    case_dir = os.path.join(work, f"sp{ti}")
    unit = 256 * 1024 if big else 4096
    nblk = 48 if big else 16
    size = unit * nblk
    layout = rng.pick([[(0, 1), (6, 1), (nblk - 1, 1)], [(1, 2), (9, 1)], [(0, 1), (4, 1), (8, 1), (nblk - 3, 2)]])     # (block, count): last extent at EOF or a trailing hole
    extents = [(b * unit, c * unit) for b, c in layout]
    mode = rng.pick(["size-only", "default-now"])
    flags = ["-j", "1"] + (["--size-only"] if mode == "size-only" else [])
    env = {} if big else {"SY_VERIF_DELTA_THRESHOLD": "4096", "SY_VERIF_BLOCK_SIZE": "1024"}
    pristine = os.path.join(case_dir, "pristine"); src_root, dst_root = os.path.join(pristine, "src"), os.path.join(pristine, "dst")
    os.makedirs(src_root); os.makedirs(dst_root)
    chunks = [(off, bytes((b % 255) + 1 for b in rng.bytes(ln))) for off, ln in extents]
    write_sparse(os.path.join(src_root, "img.bin"), size, chunks)
    with open(os.path.join(dst_root, "img.bin"), "wb") as f: f.write(rng.bytes(size + unit))          # the old version: longer, dense
    os.utime(os.path.join(dst_root, "img.bin"), ns=(BASE_T * 10**9, BASE_T * 10**9))
    with open(os.path.join(src_root, "other.txt"), "wb") as f: f.write(b"other")
    st = os.stat(os.path.join(src_root, "img.bin"))
    desc0 = {"tree": ti, "seed": seed, "flags": flags, "env": env, "scenario": f"sparse source {size} B extents {extents} over a dense destination, {mode}", "allocated": st.st_blocks * 512}
    if st.st_blocks * 512 >= size - 4096:
        rep.skipped.append("sparse crash family skipped: the work directory's file system does not create holes"); shutil.rmtree(case_dir, ignore_errors=True); return
    run_dir = os.path.join(case_dir, "run")
    def fresh():
        shutil.rmtree(run_dir, ignore_errors=True); shutil.copytree(pristine, run_dir, symlinks=True)
        write_sparse(os.path.join(run_dir, "src", "img.bin"), size, chunks)            # (copytree fills the holes)
        os.utime(os.path.join(run_dir, "src", "img.bin"), ns=((BASE_T + 500) * 10**9, (BASE_T + 500) * 10**9))
        if mode == "default-now":
            now = __import__("time").time_ns(); os.utime(os.path.join(run_dir, "src", "img.bin"), ns=(now, now))
        return os.path.join(run_dir, "src"), os.path.join(run_dir, "dst")
    # count the writes to the destination file of an uninterrupted run
    s_, d_ = fresh(); log = os.path.join(case_dir, "count.log")
    rc, out, err = run_sy([s_, d_, "--json"] + flags, run_dir, env_extra=env,
                          prefix=["strace", "-f", "-qq", "-o", log, "-e", "trace=write,pwrite64,ftruncate,copy_file_range", "-P", os.path.join(d_, "img.bin")])
    n = {}
    for line in open(log, errors="replace"):
        m = re.match(r"^\d+\s+(\w+)\(", line)
        if m: n[m.group(1)] = n.get(m.group(1), 0) + 1
    want = open(os.path.join(s_, "img.bin"), "rb").read()
    if rc != 0 or open(os.path.join(d_, "img.bin"), "rb").read() != want:
        rep.oracle_fail("C01/content-differs", f"uninterrupted sparse update exits {rc} / wrong content", desc0); shutil.rmtree(case_dir, ignore_errors=True); return
    rep.tag("c09.sparse-crash." + mode); rep.tag("c09.sparse-route-writes=%d" % sum(n.values()))
    for call, cnt in sorted(n.items()):
        for k in range(1, cnt + 1):
            s_, d_ = fresh()
            rc, out, err = run_sy([s_, d_, "--json"] + flags, run_dir, env_extra=env,
                                  prefix=["strace", "-f", "-qq", "-o", "/dev/null", "-e", "trace=" + call, "-e", f"inject={call}:signal=KILL:when={k}", "-P", os.path.join(d_, "img.bin")])
            desc = dict(desc0, kill=[call, k], rc=rc)
            killed = rc is not None and rc < 0
            torn = open(os.path.join(d_, "img.bin"), "rb").read() if os.path.exists(os.path.join(d_, "img.bin")) else None
            rep.case(("sparse-crash", mode, tuple(extents), call, k, big), killed)
            rep.tag("kill." + call)
            if open(os.path.join(s_, "img.bin"), "rb").read() != want: rep.oracle_fail("C09/source-changed-by-killed-run", "the source changed", desc)
            rc2, out2, err2 = run_sy([s_, d_, "--json"] + flags, run_dir, env_extra=env)
            if rc2 != 0: rep.oracle_fail("C09/rerun-after-kill-fails", f"re-run after the kill exits {rc2}: {err2[-200:]}", desc); continue
            fin = open(os.path.join(d_, "img.bin"), "rb").read() if os.path.exists(os.path.join(d_, "img.bin")) else None
            if fin != want:
                rep.oracle_fail("C09/interrupted-state-accepted", f"sparse update killed at {call}#{k}: the torn file ({None if torn is None else len(torn)} B) was accepted as up to date by the re-run (exit 0, content differs from the source)", desc)
            left = [x for x in os.listdir(d_) if x.endswith(".sy.tmp")]
            if left: rep.oracle_fail("C09/working-file-left-after-rerun", f"working files remain after kill + re-run: {left}", desc)
    shutil.rmtree(case_dir, ignore_errors=True)

def content_fp(snap):
    """kind, content, size (and link text): what "the destination equals the source" is about; mtimes are compared by the
    comparison rule of the command itself (under --checksum a completed copy whose mtime was not yet restored is, by
    design, accepted on content)"""
    return {r: (v[0], v[1], v[2]) if v[0] == "f" else v for r, v in es.tree_fingerprint(snap).items()}

def one_crash(rep, drv, contents, ti, seed, case_dir, flags, cfg, env, call, k, reference):
    src_root, dst_root = os.path.join(case_dir, "src"), os.path.join(case_dir, "dst")
    pre_src = snapshot(src_root, contents); pre_dst = snapshot(dst_root, contents)
    order, res, tasks, owners, meta, words = task_table(drv, cfg, src_root, dst_root, contents, pre_dst, env)
    log = os.path.join(case_dir, "trace.log")
    rc, out, err = run_sy([src_root, dst_root, "--json"] + flags, case_dir, env_extra=env,
                          prefix=["strace", "-f", "-y", "-qq", "-s", "0", "-o", log, "-e", "trace=" + ",".join(ts.MUT), "-e", f"inject={call}:signal=KILL:when={k}"])
    crash = snapshot(dst_root, contents); post_src = snapshot(src_root, contents)
    calls = ts.parse_trace(log) if os.path.exists(log) else []
    steps, per_owner, maybe = translate(calls, dst_root, src_root, owners, meta, acts=tasks)
    desc = {"tree": ti, "seed": seed, "flags": flags, "env": env, "kill": [call, k], "rc": rc, "tasks": {r: a for r, a in sorted(tasks.items()) if a != "s"},
            "observed_prefix": [s.split(":")[0] + ":" + dec_path(s.split(":")[1]) for s in steps[-6:]]}
    killed = rc is not None and rc < 0
    changed = es.tree_fingerprint(crash) != es.tree_fingerprint(pre_dst)
    rep.case((tuple(flags), call, k, tuple(sorted(tasks.items()))), killed and changed)
    rep.tag("kill." + call); rep.tag("killed" if killed else "not-killed(rc=%s)" % rc)
    rep.sample({"flags": flags, "kill": [call, k], "steps_before_kill": len(steps)})
    # ---- K: replay of the observed prefix = crash snapshot
    mn = replay(drv, pre_dst, steps)
    if mn is None: rep.disagree({"what": ["steps.replay: bad-op"], **desc})
    else:
        # the killed call itself may or may not have taken effect: tolerate a difference confined to the path of the last step
        last = dec_path(steps[-1].split(":")[1]) if steps else None
        bad = [b for b in compare_replay(mn, crash, None) if b[0] != last and not (last and b[0] == last + ".sy.tmp")
               and b[0] not in maybe and not (b[0].endswith(".sy.tmp") and b[0][:-7] in maybe)]
        if bad: rep.disagree({"what": [f"replay of the observed prefix differs from the crash snapshot: {bad[:3]}"], **desc})
    # ---- O: the clauses of C09 on the crash state
    if es.tree_fingerprint(pre_src) != es.tree_fingerprint(post_src): rep.oracle_fail("C09/source-changed-by-killed-run", "the source changed", desc)
    touched = {o for o, ks in per_owner.items() if ks} | maybe
    thr = 4096 if env else 10 * 1024 * 1024
    for rel, n in pre_dst.items():
        c = crash.get(rel)
        # (an entry bearing the working-file name of a task that was running is "being written" in C09's sense: the recorded collision
        #  C05/user-file-named-like-temp removes it — reported by the C05 / C06 checks, not as a crash-safety violation)
        owner_touched = rel in touched or any(rel.startswith(t + "/") for t in touched) or any(t.startswith(rel + "/") for t in touched) \
            or (rel.endswith(".sy.tmp") and rel[:-7] in touched)
        if not owner_touched and es.tree_fingerprint({rel: n}) != es.tree_fingerprint({rel: c} if c else {}):
            rep.oracle_fail("C09/untouched-file-damaged", f"{rel} was not being written at the kill but changed", desc)
        if n["k"] == "f" and n["size"] >= thr and tasks.get(rel) == "u" and c is not None and c["k"] == "f":
            s = pre_src.get(rel)
            if s and c["cid"] not in (n["cid"], s["cid"]) and not cfg.get("cmp") == "x":
                if "openTrunc" in per_owner.get(rel, []):
                    # the route of the recorded finding (witness Props/C09.crash_large_update_atomic_counterexample_inplace): the sampled change
                    # ratio exceeded 75 % (or sparse source / followed link) and the destination was opened with O_TRUNC and rewritten in place
                    rep.oracle_fail("C09/large-update-rewritten-in-place", f"{rel} (>= threshold) was rewritten in place (open O_TRUNC observed) and holds neither its old nor its new content after the kill", desc)
                else:
                    rep.oracle_fail("C09/large-update-not-atomic", f"{rel} (>= threshold, block-delta update) holds neither its old nor its new content after the kill", desc)
    # ---- O: an uninterrupted re-run converges, leaves no working file, accepts no torn file
    rc2, out2, err2 = run_sy([src_root, dst_root, "--json"] + flags, case_dir, env_extra=env)
    final = snapshot(dst_root, contents)
    if rc2 != 0: rep.oracle_fail("C09/rerun-after-kill-fails", f"re-run after the kill exits {rc2}: {err2[-200:]}", desc); return
    fin = content_fp(final)
    if fin != reference:
        ch = sorted(r for r in set(fin) | set(reference) if fin.get(r) != reference.get(r))
        torn = [r for r in ch if r in pre_src and pre_src[r]["k"] == "f" and final.get(r, {}).get("cid") != pre_src[r]["cid"]]
        if torn: rep.oracle_fail("C09/interrupted-state-accepted", f"after kill + re-run {torn[:3]} do not hold what an uninterrupted run produces (a torn or stale state was accepted as up to date)", desc)
        else: rep.oracle_fail("C09/rerun-does-not-converge", f"after kill + re-run the destination differs from the uninterrupted run's at {ch[:4]}", desc)
    left = [r for r in final if r.endswith(".sy.tmp") and r not in pre_dst and r not in pre_src]
    if left: rep.oracle_fail("C09/working-file-left-after-rerun", f"working files remain after kill + re-run: {left[:3]}", desc)
