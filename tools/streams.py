"""Dispatch of correspondence / oracle streams. A stream returns a report dict
(evaluations, distinct_nontrivial, rule, histogram, samples, disagreements, oracle_failures, skipped)."""
import os, json, subprocess, sys
VERIF = os.path.dirname(os.path.dirname(os.path.abspath(__file__)))
BUILD = os.path.join(VERIF, ".build")
HARNESS = os.path.join(BUILD, "target", "debug", "syverif")
DRIVER = os.path.join(VERIF, "lean", ".lake", "build", "bin", "sydriver")

def run_stream(st, prop, tier, seed, work, replay=None):
    if st["kind"] == "rust":
        out = os.path.join(work, st["name"] + ".json")
        cmd = [HARNESS, st["name"], "--tier", tier, "--seed", str(seed), "--driver", DRIVER, "--sy", os.path.join(BUILD, "target", "debug", "sy"), "--out", out,
               "--work", os.path.join(work, st["name"])] + st.get("args", []) + (["--replay", replay] if replay and st.get("replayable") else [])
        r = subprocess.run(cmd, text=True, stdout=subprocess.PIPE, stderr=subprocess.STDOUT)
        if r.returncode != 0 or not os.path.exists(out):
            return {"evaluations": 0, "distinct_nontrivial": 0, "rule": "", "samples": [],
                    "disagreements": [{"stream": st["name"], "harness_crashed": r.stdout[-1500:]}], "oracle_failures": []}
        return json.load(open(out))
    elif st["kind"] == "py":
        mod = __import__(st["module"])
        return getattr(mod, st.get("func", "run"))(tier=tier, seed=seed, work=os.path.join(work, st["name"]), replay=replay, **st.get("kwargs", {}))
    raise ValueError(st)
