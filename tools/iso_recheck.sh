#!/bin/sh
# usage: ISO=/tmp/iso3 tools/iso_recheck.sh <seed-id> [<prop>...]
# Regression of an ALREADY CONFIRMED seeded change (seeded/<id>/patch.diff) against the current checks: applies it in a scratch
# worktree at /repo's HEAD, runs the quick checks of the named properties (default: meta.json "breaks") in a scratch copy of
# /verif, reverts.  Prints one line: <id> <prop>:rc=<rc>:<what>…  (a patch that no longer applies is reported as such)
id="$1"; shift
ISO=${ISO:-/tmp/iso3}; S=/verif/seeded/$id
props="$*"; [ -n "$props" ] || props=$(python3 -c "import json;print(json.load(open('$S/meta.json')).get('breaks',''))")
mkdir -p "$ISO"
[ -d "$ISO/repo" ] || git -C /repo worktree add --detach "$ISO/repo" HEAD >/dev/null 2>&1 || exit 2
git -C "$ISO/repo" checkout -q --detach "$(git -C /repo rev-parse HEAD)" && git -C "$ISO/repo" checkout -- . || exit 2
rsync -a --delete --exclude .build --exclude replays --exclude lean/.lake --exclude .git /verif/ "$ISO/verif/"
[ -d "$ISO/verif/.build/target" ] || { mkdir -p "$ISO/verif/.build"; cp -r /verif/.build/target "$ISO/verif/.build/target"; }
[ -d "$ISO/verif/lean/.lake" ] || cp -r /verif/lean/.lake "$ISO/verif/lean/.lake"
export SY_REPO="$ISO/repo" CARGO_NET_OFFLINE=true
if ! git -C "$ISO/repo" apply --check "$S/patch.diff" 2>/dev/null; then
  if git -C "$ISO/repo" apply -3 "$S/patch.diff" >/dev/null 2>&1 && ! git -C "$ISO/repo" diff --name-only --diff-filter=U | grep -q .; then git -C "$ISO/repo" reset -q; else git -C "$ISO/repo" reset -q --hard; echo "$id PATCH-NO-LONGER-APPLIES"; exit 0; fi
else git -C "$ISO/repo" apply "$S/patch.diff"; fi
res=""
for p in $props; do
  out=$(cd "$ISO/verif" && python3 tools/check.py "$p" --tier quick 2>&1); rc=$?
  f=$(echo "$out" | sed -n 's/^VIOLATION property=[A-Z0-9]* replay=\([^ ]*\).*/\1/p' | head -1); sig=""
  if [ -n "$f" ]; then sig=$(python3 - "$f" <<'PY'
import json,sys
r=json.load(open(sys.argv[1]))
if r.get("kind")=="oracle-failure": print("oracle:"+",".join(r.get("all_signatures",[])[:3]))
else: print("obligation:"+"; ".join((x["kind"]+" "+x["name"])[:70] for x in r.get("no_longer_checks",[])[:2]))
PY
); fi
  res="$res $p:rc=$rc:$sig"
done
git -C "$ISO/repo" checkout -- . ; git -C "$ISO/repo" clean -fdq src 2>/dev/null
echo "$id$res"
