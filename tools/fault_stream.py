"""C10 — I/O faults injected at system-call granularity with `strace -e inject=<call>:error=<errno>:when=<k>`
into the real `sy` (no C code): exit status 0 must imply C01's postcondition, entries not hit by the fault must
end up correct, and failures must be visible. K: the engine model's fault-plan run (`engine.runf`) is fed the
set of tasks the implementation reported as failed and must predict everything else."""
import os, shutil, re, subprocess
from sylib import *
import engine_stream as es

CALLS = ["copy_file_range", "openat", "mkdir", "rename", "symlink", "utimensat", "unlink", "unlinkat", "linkat",
         "ftruncate", "fchmod", "read", "write", "lseek", "statx", "removexattr", "setxattr", "readlink"]
ERRNOS = ["EIO", "ENOSPC", "EACCES", "ENOENT", "EISDIR"]

def strace_ok():
    try:
        r = subprocess.run(["strace", "-f", "-qq", "-o", "/dev/null", "-e", "trace=mkdir", "-e", "inject=mkdir:error=EIO:when=1", "mkdir", "/nonexistent-dir-x/y"],
                           stdout=subprocess.PIPE, stderr=subprocess.PIPE, timeout=20)
        return True
    except Exception:
        return False

DATA_CALLS = {"read", "write", "lseek"}     # only meaningful on the trees' own files (never on eventfds, stdout, pipes)

def data_paths(src_root, dst_root, pre_src):
    """-P arguments: every file of the source, its destination counterpart and that counterpart's working file"""
    out = []
    for rel, n in pre_src.items():
        if n["k"] == "f":
            out += ["-P", os.path.join(src_root, rel), "-P", os.path.join(dst_root, rel), "-P", os.path.join(dst_root, rel) + ".sy.tmp"]
    return out

def count_calls(case_dir, src_root, dst_root, flags, env, pre_src):
    counts = {}
    for group, extra in ((set(CALLS) - DATA_CALLS, []), (DATA_CALLS, data_paths(src_root, dst_root, pre_src))):
        twin = case_dir + "-cnt"
        shutil.rmtree(twin, ignore_errors=True); shutil.copytree(case_dir, twin, symlinks=True)
        log = os.path.join(twin, "strace.count")
        a = [p.replace(case_dir, twin) if p.startswith(case_dir) else p for p in extra]
        rc, out, err = run_sy([src_root.replace(case_dir, twin), dst_root.replace(case_dir, twin), "--json"] + flags, twin, env_extra=env,
                              prefix=["strace", "-f", "-qq", "-o", log, "-e", "trace=" + ",".join(sorted(group))] + a)
        try:
            for line in open(log, errors="replace"):
                m = re.match(r"^\d+\s+(\w+)\(", line)
                if m: counts[m.group(1)] = counts.get(m.group(1), 0) + 1
        except OSError: pass
        shutil.rmtree(twin, ignore_errors=True)
    return counts

def run(tier="quick", seed=1, work=None, replay=None, focus="C10", ncases=None):
    rep = Report(rule="small generated trees (as in the engine stream, incl. --delete, -X, -H, link modes, hooked block-delta path) x single faults "
                      "(syscall in " + ",".join(CALLS) + ") x errno in EIO/ENOSPC/EACCES/ENOENT/EISDIR injected at the k-th invocation "
                      "(k over the calls the fault-free run makes; sampled), plus pairs of faults in the thorough tier; "
                      "non-trivial = the injected fault changed the outcome (an error was reported, the exit status or the snapshot differs from the fault-free twin); "
                      "distinct = distinct (tree, flags, syscall, k, errno)")
    if not strace_ok():
        rep.skipped.append("fault injection skipped: strace inject not usable in this sandbox"); return rep.to_dict()
    rng = Rng(seed * 104729 + 10)
    ncase = ncases or (10 if tier == "quick" else 60)
    per_case = 14 if tier == "quick" else 60
    os.makedirs(work, exist_ok=True)
    caps = probe_caps(work)
    drv = Driver(); contents = Contents()
    try:
        for ci in range(ncase):
            flags, cfg, opts, env, excl = es.gen_flags(rng, "C10", caps)
            if cfg.get("delete") and not cfg.get("force"): flags.append("--force-delete"); cfg["force"] = 1
            if rng.chance(1, 4): flags += ["--max-errors", str(rng.pick([0, 1, 2]))]
            src = es.gen_src(rng, opts); dst = es.gen_dst(rng, src, opts)
            # targeted family (seeded changes C10c / C19c): a --delete run over stale entries of EVERY kind — regular file,
            # directory with content, dangling link, link to a directory outside, link to a file — with the fault on the
            # removal of each of them in turn; no filters, so that exit 0 must mean an exact mirror
            targeted = (ci % 3 == 1)
            link_case = (ci == 0)
            if link_case:
                # explicit tree (C02; repo fix 0e87354): a destination symlink standing where the source has a directory and pointing back INTO
                # the source's own directory; every removal call fails in turn.  Whatever fails, no entry under the source root may change.
                flags = rng.pick([[], ["--delete", "--force-delete"]]) + ["-j", str(rng.pick([1, 4]))]
                cfg = {"links": "p", "cmp": "d"}; excl = []; env = {}
                if "--delete" in flags: cfg.update(delete=1, force=1)
                src = {"d": D(), "d/a": F(rng.bytes(rng.range(1, 3000))), "d/sub": D(), "d/sub/b": F(rng.bytes(rng.range(1, 300))), "d/l": L("a"), "top": F(b"new top")}
                dst = {"d": L("@SRC@/d"), "top": F(b"old")}
                if rng.chance(1, 2): dst["stale"] = F(b"stale")
                rep.tag("targeted.link-into-source-where-dir")
            if targeted:
                flags = ["--delete", "--force-delete", "-j", str(rng.pick([1, 1, 4]))]; cfg = {"links": "p", "cmp": "d", "delete": 1, "force": 1}; excl = []; env = {}
                opts = dict(opts, symlinks=True)
                src = {r: n for r, n in src.items() if n["k"] != "l" or True}
                top = [""] + [r for r, n in dst.items() if n["k"] == "d" and r in src and src[r]["k"] == "d"]
                par = rng.pick(top); pre = (par + "/") if par else ""
                for nm_, node in (("zz-stale.txt", F(b"stale")), ("zz-dangling", L("nowhere/at/all")), ("zz-to-outdir", L("@OUT@")),
                                  ("zz-to-file", L("@OUT@/sentinel.txt")), ("zz-loop", L("zz-loop")), ("zz-dir", D()), ("zz-dir/inner", F(b"inner")),
                                  ("zz-dir/deadlink", L("gone"))):
                    if (pre + nm_) not in src: dst[pre + nm_] = node
                # … and a destination SYMLINK standing where the source has a directory, pointing back into the source's own directory (what a
                # preserve-mode run of the parent may have placed there): its replacement (unlink, then mkdir) is one of the removals that
                # fail in turn; nothing below it may then be written — the path leads through the link into the SOURCE (C02; repo fix 0e87354)
                sdirs = [r for r, n in src.items() if n["k"] == "d" and "/" not in r and any(x.startswith(r + "/") and src[x]["k"] == "f" for x in src)]
                if sdirs:
                    d_ = rng.pick(sdirs)
                    for r in [r for r in dst if r == d_ or r.startswith(d_ + "/")]: del dst[r]
                    dst[d_] = L("@SRC@/" + d_); rep.tag("targeted.link-into-source-where-dir")
                rep.tag("targeted.delete-fault-matrix")
            pristine = os.path.join(work, f"p{ci}")
            subst = {"@SRC@": os.path.join(work, f"f{ci}", "src"), "@OUT@": os.path.join(work, f"f{ci}", "out")}
            os.makedirs(os.path.join(pristine, "out")); open(os.path.join(pristine, "out", "sentinel.txt"), "wb").write(b"sentinel")
            materialize(os.path.join(pristine, "src"), src, subst); materialize(os.path.join(pristine, "dst"), dst, subst)
            case_dir = os.path.join(work, f"f{ci}")
            src_root, dst_root, out_root = (os.path.join(case_dir, x) for x in ("src", "dst", "out"))
            # fault-free twin: syscall counts + reference outcome
            shutil.copytree(pristine, case_dir, symlinks=True); fix_mtimes(pristine, case_dir)
            counts = count_calls(case_dir, src_root, dst_root, flags, env, snapshot(src_root, contents))
            rc0, _, _ = run_sy([src_root, dst_root, "--json"] + flags, case_dir, env_extra=env)
            ref_dst = content_fp(snapshot(dst_root, contents))
            shutil.rmtree(case_dir, ignore_errors=True)
            plan = []
            avail = [(c, n) for c, n in counts.items() if n > 0]
            if not avail: continue
            for _ in range(per_case):
                c, n = rng.pick(avail)
                if c in ("read", "lseek", "statx", "openat", "write") and rng.chance(1, 2): c, n = rng.pick(avail)   # bias towards mutating calls
                e = rng.pick(ERRNOS)
                # ENOENT from unlink/rmdir means "the entry is gone": injecting it while the entry still exists is not a
                # possible fault of a real file system, and sy rightly treats it as "already deleted"
                if c in ("unlink", "unlinkat") and e == "ENOENT": e = "EIO"
                plan.append((c, rng.range(1, n), e))
            # always some faults on reads of the trees' own files: outside --checksum these are the post-transfer verification
            # re-reads and the block comparisons of the delta path (seeded change C19b: a verification that could not be done)
            for _ in range(3 if tier == "quick" else 8):
                if counts.get("read", 0) > 0: plan.append(("read", rng.range(1, counts["read"]), "EIO"))
            if link_case:
                plan = [(c, k, e_) for c in ("unlink", "unlinkat") for k in range(1, counts.get(c, 0) + 1) for e_ in ("EIO", "EACCES")][:24] + plan[:4]
            if targeted:
                # every removal call of the fault-free run, each failing once with EIO (then the sampled plan)
                plan = [(c, k, "EIO") for c in ("unlink", "unlinkat") for k in range(1, counts.get(c, 0) + 1)][:40] + plan[:4]
            for (call, k, errno_) in plan:
                shutil.copytree(pristine, case_dir, symlinks=True); fix_mtimes(pristine, case_dir)
                one_fault(rep, drv, contents, ci, seed, case_dir, src_root, dst_root, out_root, flags, cfg, env, excl, [(call, k, errno_)], ref_dst, rc0)
                shutil.rmtree(case_dir, ignore_errors=True)
            shutil.rmtree(pristine, ignore_errors=True)
    finally:
        drv.close()
    return rep.to_dict()

def content_fp(snap):
    return {r: (v[0], v[1], v[2], v[3]) if v[0] == "f" else v for r, v in es.tree_fingerprint(snap).items()}

MUTATING = {"copy_file_range", "mkdir", "rename", "symlink", "utimensat", "unlink", "unlinkat", "linkat", "ftruncate", "fchmod", "removexattr", "setxattr"}

def fix_mtimes(src_tree, dst_tree):
    """copytree keeps file mtimes (copy2) but not those of symlinks/dirs; directories get the fixed old time."""
    for dp, dn, fn in os.walk(dst_tree, topdown=False):
        os.utime(dp, ns=(BASE_T * 10**9, BASE_T * 10**9))

def one_fault(rep, drv, contents, ci, seed, case_dir, src_root, dst_root, out_root, flags, cfg, env, excl, faults, ref_dst, rc0):
    pre_src = snapshot(src_root, contents); pre_dst = snapshot(dst_root, contents); pre_out = snapshot(out_root, contents)
    order = es.scan_order(src_root)
    isdir = {r: (pre_src[r]["k"] == "d") for r in order}
    exb = es.excluded_bits(order, isdir, excl)
    inj = []
    for call, k, e in faults: inj += ["-e", f"inject={call}:error={e}:when={k}"]
    prefix = ["strace", "-f", "-qq", "-o", "/dev/null", "-e", "trace=" + ",".join(sorted({c for c, _, _ in faults}))] + inj
    if any(c in DATA_CALLS for c, _, _ in faults): prefix += data_paths(src_root, dst_root, pre_src)
    rc, out, err = run_sy([src_root, dst_root, "--json"] + flags, case_dir, env_extra=env, prefix=prefix, timeout=120)
    post_src = snapshot(src_root, contents); post_dst = snapshot(dst_root, contents); post_out = snapshot(out_root, contents)
    ev, bad = parse_json_lines(out)
    summ = next((e for e in ev if e.get("type") == "summary"), None)
    rel_of = lambda p: os.path.relpath(p, dst_root)
    unl = unlossy(set(pre_src) | set(pre_dst) | set(post_dst))
    real_events = sorted((e["type"][0], unl(rel_of(e["path"]))) for e in ev if e.get("type") in ("create", "update", "skip", "delete"))
    real_errors = sorted(unl(rel_of(e["path"])) for e in ev if e.get("type") == "error")
    desc = {"case": ci, "seed": seed, "flags": flags, "env": env, "faults": faults, "rc": rc, "errors": real_errors[:5], "stderr": err[-200:],
            "src": {r: (n["k"], n.get("size"), n.get("text")) for r, n in sorted(pre_src.items())},
            "dst": {r: (n["k"], n.get("size"), n.get("text")) for r, n in sorted(pre_dst.items())}}
    changed = (rc != rc0) or bool(real_errors) or content_fp(post_dst) != ref_dst
    rep.case((tuple(flags), tuple(faults), tuple(sorted(pre_src)), tuple(sorted(pre_dst))), changed)
    for c, k, e in faults: rep.tag("fault." + c); rep.tag("errno." + e)
    rep.tag("exit.%s" % rc); rep.tag("outcome." + ("changed" if changed else "unaffected"))
    rep.sample({"flags": flags, "faults": faults, "exit": rc, "error_events": real_errors[:3]})
    if rc is None:
        rep.oracle_fail("C10/hang-under-fault", f"run did not terminate within 120 s under {faults}", desc); return
    # ---- oracle: source / outside untouched
    if es.tree_fingerprint(pre_src) != es.tree_fingerprint(post_src): rep.oracle_fail("C02/source-modified", "source changed during a faulted run", desc)
    if es.tree_fingerprint(pre_out) != es.tree_fingerprint(post_out): rep.oracle_fail("C02/outside-modified", "outside area changed during a faulted run", desc)
    # ---- oracle: exit 0 implies C01's postcondition; entries not hit by the fault are correct; failures visible
    sel = es.selected_entries(order, pre_src, exb, cfg)
    links = cfg.get("links", "p"); cmpm = cfg.get("cmp", "d")
    wrong = []
    for rel in sel:
        s = pre_src[rel]; d = post_dst.get(rel); p = pre_dst.get(rel)
        if s["k"] == "d":
            if d is None or d["k"] != "d": wrong.append((rel, "dir-missing"))
        elif s["k"] == "f":
            differed = (p is None or p["k"] != "f" or (cmpm == "d" and (p["size"] != s["size"] or es.mtime_differs(p["mtime"], s["mtime"]))) or
                        (cmpm == "c" and p["cid"] != s["cid"]) or cmpm == "i" or (cmpm == "s" and p["size"] != s["size"]))
            if d is None or d["k"] != "f": wrong.append((rel, "file-missing"))
            elif differed and d["cid"] != s["cid"]: wrong.append((rel, "content"))
            elif differed and d["mtime"] != s["mtime"]: wrong.append((rel, "mtime"))
        elif links == "p":
            if d is None or d["k"] != "l" or d["text"] != s["text"]: wrong.append((rel, "link"))
    probe_case = False
    if rc == 0 and wrong:
        kinds = sorted({k for _, k in wrong})
        # a type conflict (non-directory at the path of a source directory, directory at the path of a source file) whose
        # *probe* failed: the planner asks `metadata()` for the kind and reads an error as "nothing to object to"
        conflict = lambda rel: (pre_dst.get(rel) is not None and pre_src[rel]["k"] in ("d", "f") and pre_dst[rel]["k"] != pre_src[rel]["k"]
                                and (pre_src[rel]["k"] == "d" or pre_dst[rel]["k"] == "d"))
        probe_case = all(c in ("statx", "newfstatat", "stat", "lstat") for c, _, _ in faults) and all(conflict(r) for r, _ in wrong)
        # the same class for the other probe: `read_link` asks whether a destination SYMLINK stands where the source has a directory (fix
        # 862af11); when exactly that readlink fails the link is taken for the directory it points to, everything at and below it is planned
        # as up to date (nothing is written), exit 0.  readlink is not a mutating call (outside C10's quantifier); recorded, not repaired.
        link_dirs = {r for r, n in pre_dst.items() if n["k"] == "l" and (pre_src.get(r) or {}).get("k") == "d"}
        probe_link = all(c in ("readlink", "readlinkat") for c, _, _ in faults) and link_dirs and \
            all(any(r == a or r.startswith(a + "/") for a in link_dirs) for r, _ in wrong) and all(post_dst.get(a) == pre_dst.get(a) for a in link_dirs)
        if probe_link:
            probe_case = True
            rep.oracle_fail("C10/link-conflict-unseen-when-readlink-probe-fails", f"exit 0 under {faults}: the link probe of {sorted(link_dirs)[:2]} failed, the link was taken for a directory and nothing at or below it was transferred (the link is still there)", desc)
        elif probe_case:
            rep.oracle_fail("C10/type-conflict-unseen-when-stat-probe-fails", f"exit 0 under {faults}: the kind probe of {wrong[:3]} failed and the conflicting entry was planned as up to date", desc)
        else:
            rep.oracle_fail("C10/exit-zero-but-" + "+".join(kinds) + "-wrong", f"exit 0 under {faults} but {wrong[:3]} do not satisfy C01's postcondition", desc)
    if rc == 0 and real_errors: rep.oracle_fail("C10/exit-zero-with-error-events", f"exit 0 but error events {real_errors[:3]}", desc)
    # --delete without filters: exit 0 means every planned deletion completed, i.e. nothing stale is left (a deletion that
    # did not happen is a planned operation that did not complete); and a delete event names an entry that is really gone
    if cfg.get("delete") and not excl and cfg.get("min", "-") == "-" and cfg.get("max", "-") == "-" and links == "p":
        stale = sorted(r for r in post_dst if r not in pre_src and r not in OWN_FILES)
        # (C10 quantifies over faults at MUTATING system calls; a failing read-only probe during the destination scan can
        #  hide a stale entry from the planner — recorded as an observation, like the other planning-phase probe faults)
        if rc == 0 and stale and not all(c in MUTATING for c, _, _ in faults): rep.tag("observation.stale-entry-unseen-under-probe-fault")
        if rc == 0 and stale and all(c in MUTATING for c, _, _ in faults):
            rep.oracle_fail("C10/exit-zero-but-stale-entry-remains", f"exit 0 under {faults} but {stale[:3]} (not in the source) are still in the destination", desc)
    for a, rel in real_events:
        if a == "d" and rel in post_dst:
            rep.oracle_fail("C19/delete-event-not-observable", f"delete event for {rel} under {faults} but the entry is still there", desc)
    if summ is not None and not probe_case:
        # the run reached its end: every wrong entry must be one the report names as failed (itself or an ancestor)
        for rel, kind in wrong:
            if not any(rel == e or rel.startswith(e + "/") or e.startswith(rel + "/") for e in real_errors):
                rep.oracle_fail("C10/unreported-wrong-entry", f"{rel} ({kind}) is wrong after the run but no error event names it (faults {faults})", desc); break
    if bad: rep.oracle_fail("C19/non-json-line-on-stdout", f"stdout lines that are not JSON objects under faults: {bad[:2]}", desc)
    # a verification that could not be carried out (I/O error on the re-read) is a verification failure, not nothing
    es.verified_counter_oracle(rep, desc, summ, real_events, pre_src, flags, cfg, rc)
    if rc == 0 and summ and summ.get("verification_failures", 0) > 0: rep.oracle_fail("C10/exit-zero-with-verification-failures", "exit 0 with verification_failures > 0", desc)
    # ---- K: the model under the fault plan "exactly the tasks reported as failed fail, leaving what was observed"
    # (faults in read-only calls can also hit the planning phase — checksum reads, stats — where the code falls back to
    #  "transfer anyway"; the fault-plan model only speaks about task execution, so K is evaluated for mutating calls)
    if summ is not None and all(c in MUTATING for c, _, _ in faults):
        fl = []
        for e in real_errors:
            n = post_dst.get(e)
            if n is None: g = "-"
            elif n["k"] == "d": g = "D"
            elif n["k"] == "l": g = "L" + hx(n["text"])
            else: g = f"F{n['cid']}.{n['size']}.{n['mtime']}.{n['ino']}.{enc_xattrs(n['xattrs'], contents)}"
            fl.append(f"{enc_path(e)}:{g}")
        req = f"engine.runf {enc_cfg(cfg)} {enc_scan(src_root, order, exb, contents)} {enc_dst(pre_dst, contents)} {';'.join(fl) if fl else '-'}"
        model = parse_model_result(drv.ask(req))
        if model is None: rep.disagree({"what": ["model bad-op"], **desc}); return
        dis = []
        if (rc != 0) != (model["exit"] != 0): dis.append(f"exit impl={rc} model={model['exit']}")
        mc, _ = model_dst_canon(model["dst"]); rcn, _ = real_dst_canon(post_dst, contents)
        skip = lambda rel: any(rel == e or rel.startswith(e + "/") for e in real_errors)
        diff = {r: (rcn.get(r), mc.get(r)) for r in set(mc) | set(rcn) if mc.get(r) != rcn.get(r) and not skip(r)}
        # a failed task may have created its parent directories before failing: tolerated only for directories above a failed path
        diff = {r: v for r, v in diff.items() if not (v[0] == ("d",) and v[1] is None and any(e.startswith(r + "/") for e in real_errors))}
        # the working file of a failed task stays behind when the injected fault hit its clean-up (`unlink` in the temp
        # file guard): part of "what the failed task left behind"; the run is unsuccessful and names the path
        if any(c in ("unlink", "unlinkat") for c, _, _ in faults):
            diff = {r: v for r, v in diff.items() if not (v[1] is None and r.endswith(".sy.tmp") and r[:-7] in real_errors)}
        if diff: dis.append(f"dst {dict(list(sorted(diff.items()))[:4])}")
        if sorted(p for _, p in model["errors"]) != real_errors: dis.append(f"errors impl={real_errors[:4]} model={model['errors'][:4]}")
        if dis: rep.disagree({"what": dis, **desc})
