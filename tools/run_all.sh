#!/bin/sh
# run every quick (or $1=thorough) check, N at a time; prints rc and wall per property
tier=${1:-quick}; par=${2:-4}
cd "$(dirname "$0")/.."
mkdir -p .build/runall
ls -1 evidence >/dev/null 2>&1
for i in 01 02 03 04 05 06 07 08 09 10 11 12 13 14 15 16 17 18 19 20; do echo C$i; done | \
  xargs -P "$par" -I{} sh -c 's=$(date +%s); python3 tools/check.py {} --tier '"$tier"' > .build/runall/{}.out 2> .build/runall/{}.err; rc=$?; e=$(date +%s); echo "{} rc=$rc wall=$((e-s))s $(grep -c "^VIOLATION" .build/runall/{}.out) violations"'
