#!/usr/bin/env python3
"""Writes MANIFEST.json from tools/props.py + tools/manifest_meta.py (kept valid at all times)."""
import json, os, sys
sys.path.insert(0, os.path.dirname(os.path.abspath(__file__)))
import props, manifest_meta as mm
VERIF = os.path.dirname(os.path.dirname(os.path.abspath(__file__)))
checks = []
for pid in sorted(props.PROPS):
    meta = mm.META[pid]
    checks.append({
        "property_id": pid,
        "quick_cmd": f"python3 tools/check.py {pid} --tier quick",
        "thorough_cmd": f"python3 tools/check.py {pid} --tier thorough",
        "evidence_file": f"/verif/evidence/{pid}.json",
        "replay_cmd_template": f"python3 tools/check.py {pid} --replay {{path}}",
        "engine": "lean4-proof+correspondence",
        "level_claimed": {"category": "proof", "text": meta["text"], "design_ref": meta["design_ref"]},
        "level_note": meta["note"],
        "technique": meta["technique"],
    })
na = [{"property_id": p, "reason": r} for p, r in sorted(mm.NOT_APPLICABLE.items()) if p not in props.PROPS]
m = {
    "version": 1,
    "setup_cmd": "tools/build.sh",
    "hooks": {
        "guard": "--cfg nijaru_sy_verif",
        "enable": "RUSTFLAGS=\"--cfg nijaru_sy_verif\" cargo build --offline (target dir /verif/.build/target); done by tools/check.py and tools/build.sh",
        "baseline_off_cmd": mm.BASELINE_OFF_CMD,
        "source_commits": mm.HOOK_COMMITS,
        "add_only": True,
    },
    "engines": [{"name": "lean4-proof+correspondence", "path": "/verif/lean, /verif/harness, /verif/tools",
                 "serves_properties": sorted(props.PROPS),
                 "kind_free_text": "Lean 4 theorems about a hand-written executable model (lean/SyModel), tied to /repo (a) by a translator (tools/rs2lean.py) that regenerates the Lean definitions of the pure decision kernels from the Rust source on every run, with bridge theorems to the model, (b) by constants regenerated from source, (c) by differential correspondence (harness + sydriver line protocol, strace trace refinement); independent oracle for replays"}],
    "checks": checks,
    "not_applicable": na,
    "notes": mm.NOTES,
}
json.dump(m, open(os.path.join(VERIF, "MANIFEST.json"), "w"), indent=1, ensure_ascii=False)
print("wrote MANIFEST.json with", len(checks), "checks,", len(na), "not_applicable")
