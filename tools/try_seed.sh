#!/bin/sh
# usage: tools/try_seed.sh <patch.diff> <prop> [<prop> ...]
# Applies a seeded change to /repo, runs the quick checks of the given properties, undoes the change.
patch="$1"; shift
git -C /repo diff --quiet || { echo "/repo working tree not clean"; exit 2; }
git -C /repo apply "$patch" || { echo "patch does not apply"; exit 2; }
for p in "$@"; do
  out=$(python3 /verif/tools/check.py "$p" --tier quick 2>&1)
  rc=$?
  echo "== $p rc=$rc"
  echo "$out" | grep -E "^VIOLATION|^KNOWN-FINDING|\[check\]" | cut -c1-260
  if [ $rc -ne 0 ]; then
    f=$(echo "$out" | sed -n 's/^VIOLATION property=[A-Z0-9]* replay=\([^ ]*\).*/\1/p' | head -1)
    [ -n "$f" ] && python3 - "$f" <<'PY'
import json,sys
r=json.load(open(sys.argv[1]))
if r.get("kind")=="oracle-failure":
    f=r["failure"]; print("   oracle:", f["signature"], "|", f["what"][:200]); print("   all:", r.get("all_signatures"))
else:
    for x in r.get("no_longer_checks",[])[:3]: print("   broken:", x["kind"], x["name"], "|", x["detail"][:300].replace("\n"," "))
PY
  fi
done
git -C /repo checkout -- .
git -C /repo status --short | head -3
