#!/usr/bin/env python3
"""rs2lean — translator from a subset of Rust ("muRust") to Lean 4 `do` notation.

Regenerates lean/SyModel/Generated/Code/*.lean from /repo's current source on every run (DESIGN §4.1,
§12.6).  What it translates is listed in tools/rs2lean_spec.py: whole `fn` items (free functions and
methods), `enum`, `struct` and `const` items, found by name in a given file.  The translation is syntactic
and compositional; it performs no type inference.  Anything outside the subset raises `Unsupported` — the
unit is then reported as a broken obligation (never silently skipped).

Shape of the translation (each rule is one case of `Emit`):
  fn returning Result<T>        -> `def f … : Except Err T := do …`      (`?` -> `(← e)`, `return Ok(x)` -> `return x`,
                                                                          `Err(e)` tail -> `throw e`)
  fn returning anything else    -> `def f … : T := Id.run do …`           (or a plain term when the body is one pure expression)
  let / let mut / x = e / x += e-> `let` / `let mut` / `x := e` / `x := x + e`
  self.f = e   (&mut self)      -> `self := { self with f := e }`; the function returns the new `self`
                                   (`(ret, self)` when it also returns a value)
  if / else if / else           -> `if c then … else …`  (else-if nested explicitly so that `(← …)` lifts stay in their branch)
  if let P = e {A} else {B}     -> `match e with | P => A | _ => B`
  match (a, b) { (P, Q) => … }  -> `match a, b with | P, Q => …`
  for p in e { … }              -> `for p in e do …`      (`a..b` -> `[a:b]`)
  a && b, a || b with `?` in b  -> `(← do if a then … else pure false)`   (short-circuit kept)
  <, <=, >, >=                  -> `decide (a < b)`  (Bool, as in Rust);  ==, != -> `==`, `!=`
  recv.method(args)             -> `Rs.method recv args` (tools: lean/SyModel/Generated/Prelude.lean, handwritten, trusted)
                                   except reference/ownership adaptors (`clone`, `as_ref`, `iter`, …) which are erased
  x as T                        -> `(Rs.cast x : T')`
  calls of functions outside the unit -> `ext.name args` where `ext : Ext` is a structure of the unit's externs
Integers: per unit, `ints = "nat"` maps every integer type to `Nat` (unbounded: the modelling convention of
DESIGN §3; subtraction is truncated, which the proofs about the handwritten model must justify), `ints = "fixed"`
maps u8/u32/u64/usize to UInt8/UInt32/UInt64/UInt64 (wrapping, as release builds do).
"""
import re, sys, os

class Unsupported(Exception):
    pass

# ----------------------------------------------------------------------------- tokenizer
KEYWORDS = {"fn","let","mut","if","else","match","for","in","while","loop","return","break","continue","as","impl",
            "struct","enum","const","pub","use","mod","ref","move","true","false","self","Self","where","async","await",
            "static","type","trait","unsafe","dyn","crate","super","extern"}
PUNCT3 = ["<<=", ">>=", "..=", "..."]
PUNCT2 = ["::","->","=>","==","!=","<=",">=","&&","||","+=","-=","*=","/=","%=","<<",">>","..","|=","&=","^="]

def tokenize(src):
    toks = []; i = 0; n = len(src); line = 1
    while i < n:
        c = src[i]
        if c == "\n": line += 1; i += 1; continue
        if c.isspace(): i += 1; continue
        if src.startswith("//", i):
            j = src.find("\n", i); i = n if j < 0 else j; continue
        if src.startswith("/*", i):
            j = src.find("*/", i); line += src.count("\n", i, j); i = j + 2; continue
        if c.isalpha() or c == "_":
            j = i
            while j < n and (src[j].isalnum() or src[j] == "_"): j += 1
            w = src[i:j]
            if w in ("b", "r", "br") and j < n and src[j] in "\"'#":   # byte / raw strings
                if src[j] == "'":
                    k = j + 1
                    if src[k] == "\\": k += 2
                    else: k += 1
                    toks.append(("byte", src[j+1:k], line)); i = k + 1; continue
                if "r" in w:
                    h = 0
                    while src[j] == "#": h += 1; j += 1
                    end = src.find('"' + "#" * h, j + 1)
                    toks.append(("str", src[j+1:end], line)); line += src.count("\n", j, end); i = end + 1 + h; continue
                c = '"'; i = j  # b"…": fall through to string
            else:
                toks.append(("id", w, line)); i = j; continue
        if c == '"':
            j = i + 1; out = []
            while src[j] != '"':
                if src[j] == "\\":
                    e = src[j+1]
                    if e == "\n":
                        j += 2
                        while src[j].isspace(): j += 1
                        continue
                    out.append({"n":"\n","t":"\t","r":"\r","0":"\0","\\":"\\",'"':'"',"'":"'"}.get(e, "\\"+e)); j += 2
                else:
                    if src[j] == "\n": line += 1
                    out.append(src[j]); j += 1
            toks.append(("str", "".join(out), line)); i = j + 1; continue
        if c == "'":
            # char literal or lifetime
            m = re.match(r"'(\\.|[^\\'])'", src[i:])
            if m:
                ch = m.group(1)
                if ch.startswith("\\"): ch = {"n":"\n","t":"\t","r":"\r","0":"\0","\\":"\\","'":"'",'"':'"'}.get(ch[1], ch[1])
                toks.append(("char", ch, line)); i += m.end(); continue
            j = i + 1
            while j < n and (src[j].isalnum() or src[j] == "_"): j += 1
            toks.append(("life", src[i:j], line)); i = j; continue
        if c.isdigit():
            m = re.match(r"0x[0-9a-fA-F_]+|0b[01_]+|0o[0-7_]+|[0-9][0-9_]*(\.[0-9][0-9_]*)?([eE][+-]?[0-9]+)?", src[i:])
            lit = m.group(0); j = i + m.end()
            # a trailing `.` followed by an identifier or `.` is a method call / range, not a fraction
            m2 = re.match(r"(u8|u16|u32|u64|u128|usize|i8|i16|i32|i64|i128|isize|f32|f64)\b", src[j:])
            suf = None
            if m2: suf = m2.group(1); j += m2.end()
            toks.append(("num", (lit.replace("_", ""), suf), line)); i = j; continue
        for p in PUNCT3:
            if src.startswith(p, i): toks.append(("p", p, line)); i += 3; break
        else:
            for p in PUNCT2:
                if src.startswith(p, i): toks.append(("p", p, line)); i += 2; break
            else:
                toks.append(("p", c, line)); i += 1
    toks.append(("eof", "", line))
    return toks

# ----------------------------------------------------------------------------- parser
class P:
    def __init__(self, toks, fname):
        self.t = toks; self.i = 0; self.fname = fname
    def peek(self, k=0): return self.t[self.i + k]
    def at(self, v, k=0):
        t = self.t[self.i + k]; return t[0] in ("p", "id") and t[1] == v
    def eat(self, v):
        if self.at(v): self.i += 1; return True
        return False
    def expect(self, v):
        if not self.eat(v): self.fail(f"expected `{v}`")
    def fail(self, msg):
        t = self.peek(); raise Unsupported(f"{self.fname}:{t[2]}: {msg}, found `{t[1]}`")
    def ident(self):
        t = self.peek()
        if t[0] != "id": self.fail("expected identifier")
        self.i += 1; return t[1]
    def skip_attrs(self):
        while self.at("#"):
            self.i += 1; self.eat("!"); self.skip_balanced("[", "]")
    def skip_balanced(self, o, c):
        self.expect(o); d = 1
        while d:
            t = self.peek()
            if t[0] == "eof": self.fail("unbalanced")
            if t[0] == "p" and t[1] == o: d += 1
            if t[0] == "p" and t[1] == c: d -= 1
            self.i += 1
    def split_shift(self):
        # inside generics `>>` closes two levels
        t = self.peek()
        if t[0] == "p" and t[1] == ">>":
            self.t[self.i:self.i+1] = [("p", ">", t[2]), ("p", ">", t[2])]
        if t[0] == "p" and t[1] == ">=":
            self.t[self.i:self.i+1] = [("p", ">", t[2]), ("p", "=", t[2])]
        if t[0] == "p" and t[1] == ">>=":
            self.t[self.i:self.i+1] = [("p", ">", t[2]), ("p", ">", t[2]), ("p", "=", t[2])]

    # ---- types
    def ty(self):
        if self.eat("&") or self.eat("&&"):
            if self.peek()[0] == "life": self.i += 1
            self.eat("mut"); return self.ty()
        if self.eat("("):
            xs = []
            while not self.at(")"):
                xs.append(self.ty())
                if not self.eat(","): break
            self.expect(")")
            return ("tuple", xs)
        if self.eat("["):
            t = self.ty()
            if self.eat(";"):
                self.expr()
            self.expect("]"); return ("app", "Vec", [t])
        if self.at("impl") or self.at("dyn"):
            self.i += 1; self.ty(); return ("app", "Opaque", [])
        segs = []
        while True:
            name = self.ident(); args = []
            self.eat("::") if self.at("::") and self.at("<", 1) else None
            if self.eat("<"):
                while True:
                    self.split_shift()
                    if self.at(">"): break
                    if self.peek()[0] == "life": self.i += 1
                    else: args.append(self.ty())
                    if not self.eat(","): break
                self.split_shift(); self.expect(">")
            segs.append((name, args))
            if self.at("::") and self.peek(1)[0] == "id": self.i += 1; continue
            break
        name, args = segs[-1]
        return ("app", name, args)

    # ---- patterns
    def pat(self):
        p = self.pat1()
        if self.at("|") :
            alts = [p]
            while self.eat("|"): alts.append(self.pat1())
            return ("or", alts)
        return p
    def pat1(self):
        t = self.peek()
        if self.eat("&") or self.eat("&&"): self.eat("mut"); return self.pat1()
        if self.eat("ref"): self.eat("mut"); return self.pat1()
        if self.eat("mut"): return self.pat1()
        if self.eat("_"): return ("wild",)
        if self.eat("("):
            xs = []
            while not self.at(")"):
                xs.append(self.pat())
                if not self.eat(","): break
            self.expect(")")
            return xs[0] if len(xs) == 1 else ("ptuple", xs)
        if t[0] == "num": self.i += 1; return ("plit", self.numlit(t[1]))
        if t[0] == "str": self.i += 1; return ("plit", lean_chars(t[1]))
        if t[0] == "char": self.i += 1; return ("plit", lean_char(t[1]))
        if t[0] == "id" and t[1] in ("true", "false"): self.i += 1; return ("plit", t[1])
        if self.at("-") and self.peek(1)[0] == "num": self.fail("negative literal pattern")
        path = self.path_segments()
        if self.at("("):
            self.i += 1; xs = []
            while not self.at(")"):
                if self.eat(".."): xs.append(("rest",))
                else: xs.append(self.pat())
                if not self.eat(","): break
            self.expect(")")
            return ("pctor", path, xs)
        if self.at("{"):
            self.i += 1; fs = []; rest = False
            while not self.at("}"):
                if self.eat(".."): rest = True; break
                self.eat("ref"); self.eat("mut")
                f = self.ident()
                if self.eat(":"): fs.append((f, self.pat()))
                else: fs.append((f, ("bind", f)))
                if not self.eat(","): break
            self.expect("}")
            return ("pstruct", path, fs, rest)
        if len(path) == 1 and (path[0][0].islower() or path[0][0] == "_"):
            if self.eat("@"): self.fail("`@` pattern")
            return ("bind", path[0])
        return ("pctor", path, None)
    def path_segments(self):
        segs = [self.ident()]
        while self.at("::"):
            if self.at("<", 1):
                self.i += 1; self.skip_generic_args(); continue
            if self.peek(1)[0] != "id": break
            self.i += 1; segs.append(self.ident())
        return segs
    def skip_generic_args(self):
        self.expect("<"); d = 1
        while d:
            self.split_shift()
            if self.at("<"): d += 1
            if self.at(">"): d -= 1
            self.i += 1
    def numlit(self, v):
        lit, suf = v
        return ("num", lit, suf)

    # ---- expressions
    BIN = [("||",), ("&&",), ("==","!=","<",">","<=",">="), ("|",), ("^",), ("&",), ("<<",">>"), ("+","-"), ("*","/","%")]
    def expr(self, nostruct=False):
        lhs = self.range_expr(nostruct)
        for op in ("=", "+=", "-=", "*=", "/=", "%=", "|=", "&=", "^=", "<<=", ">>="):
            if self.at(op):
                self.i += 1; rhs = self.expr(nostruct)
                return ("assign", op, lhs, rhs)
        return lhs
    def range_expr(self, nostruct):
        if self.at("..") or self.at("..="):
            incl = self.peek()[1] == "..="; self.i += 1
            t = self.peek()
            if t[0] == "eof" or (t[0] == "p" and t[1] in (")", "]", "}", ";", ",")): return ("rangefull",)
            return ("range", ("num", "0", None), self.bin(0, nostruct), incl)
        lhs = self.bin(0, nostruct)
        if self.at("..") or self.at("..="):
            incl = self.peek()[1] == "..="; self.i += 1
            t = self.peek()
            if t[0] in ("eof",) or (t[0] == "p" and t[1] in (")", "]", "{", ";", ",")):
                return ("range", lhs, None, incl)
            rhs = self.bin(0, nostruct)
            return ("range", lhs, rhs, incl)
        return lhs
    def bin(self, lvl, nostruct):
        if lvl == len(self.BIN): return self.cast(nostruct)
        lhs = self.bin(lvl + 1, nostruct)
        while True:
            t = self.peek()
            if t[0] == "p" and t[1] in self.BIN[lvl]:
                # `|` closing a closure parameter list is never reached here (closures parse their own bars)
                self.i += 1; rhs = self.bin(lvl + 1, nostruct)
                lhs = ("bin", t[1], lhs, rhs)
            else: return lhs
    def cast(self, nostruct):
        e = self.unary(nostruct)
        while self.eat("as"):
            e = ("cast", e, self.ty())
        return e
    def unary(self, nostruct):
        if self.eat("-"): return ("neg", self.unary(nostruct))
        if self.eat("!"): return ("not", self.unary(nostruct))
        if self.eat("*"): return self.unary(nostruct)
        if self.eat("&") or self.eat("&&"):
            self.eat("mut"); return self.unary(nostruct)
        return self.postfix(nostruct)
    def args(self):
        self.expect("("); xs = []
        while not self.at(")"):
            xs.append(self.expr())
            if not self.eat(","): break
        self.expect(")"); return xs
    def postfix(self, nostruct):
        e = self.primary(nostruct)
        while True:
            if self.eat("?"): e = ("try", e); continue
            if self.at("."):
                t = self.peek(1)
                if t[0] == "num":
                    self.i += 2; e = ("tfield", e, int(t[1][0])); continue
                if t[0] == "id":
                    self.i += 2; name = t[1]
                    if name == "await": continue
                    if self.at("::"):
                        self.i += 1; self.skip_generic_args()
                    if self.at("("):
                        e = ("mcall", e, name, self.args())
                    else:
                        e = ("field", e, name)
                    continue
                self.fail("postfix `.`")
            if self.at("("):
                e = ("call", e, self.args()); continue
            if self.at("["):
                self.i += 1; ix = self.expr(); self.expect("]"); e = ("index", e, ix); continue
            return e
    def block(self):
        self.expect("{"); stmts = []; tail = None
        while not self.at("}"):
            j0 = self.i; self.skip_attrs()
            raw = " ".join(x[1] if isinstance(x[1], str) else x[1][0] for x in self.t[j0:self.i])
            if re.search(r"cfg \( (not \( unix \)|windows|target_os = \"macos\"|target_os = \"windows\"|nijaru_sy_verif)", raw):
                # a statement compiled out on this platform (Linux): parse it and drop it
                if self.at("let"):
                    while not self.eat(";"): self.i += 1
                else:
                    self.expr(); self.eat(";")
                continue
            if self.eat(";"): continue
            if self.at("use"):
                while not self.eat(";"): self.i += 1
                continue
            if self.at("let"):
                self.i += 1; mut = False
                if self.at("mut"): mut = True
                if self.at("("):
                    # `let (mut a, b) = …`: a component declared `mut` makes the whole destructuring `let mut` (Lean has no finer grain)
                    j_ = self.i; d_ = 0
                    while True:
                        if self.t[j_][:2] == ("p", "("): d_ += 1
                        if self.t[j_][:2] == ("p", ")"):
                            d_ -= 1
                            if d_ == 0: break
                        if self.t[j_][:2] == ("id", "mut"): mut = True
                        j_ += 1
                p = self.pat(); ty = None
                if self.eat(":"): ty = self.ty()
                init = None
                if self.eat("="): init = self.expr()
                els = None
                if self.eat("else"): els = self.block()
                self.expect(";")
                stmts.append(("let", p, mut, ty, init, els)); continue
            if self.at("const"):
                self.i += 1; name = self.ident(); self.expect(":"); ty = self.ty(); self.expect("="); init = self.expr(); self.expect(";")
                stmts.append(("let", ("bind", name), False, ty, init, None)); continue
            if any(self.at(k) for k in ("if", "match", "for", "while", "loop", "{")) :
                # a block-like expression at statement start ends at its closing brace (Rust's rule)
                e = self.primary(False)
                if self.at(".") or self.at("?"): self.fail("postfix operator after a block-like statement")
                if self.at("}") and e[0] in ("if", "iflet", "match", "block"): tail = e; break
                self.eat(";")
                stmts.append(("expr", e)); continue
            e = self.expr()
            if self.eat(";"):
                stmts.append(("expr", e)); continue
            if self.at("}"):
                tail = e; break
            if e[0] in ("if", "iflet", "match", "for", "while", "loop", "block") or (e[0] == "macro" and len(e) > 3 and e[3] == "{"):
                stmts.append(("expr", e)); continue
            self.fail("expected `;` or `}`")
        self.expect("}")
        return ("block", stmts, tail)
    def primary(self, nostruct):
        t = self.peek()
        if t[0] == "num": self.i += 1; return self.numlit(t[1])
        if t[0] == "str": self.i += 1; return ("str", t[1])
        if t[0] == "char": self.i += 1; return ("char", t[1])
        if t[0] == "byte": self.i += 1; return ("byte", t[1])
        if self.at("("):
            self.i += 1; xs = []; trailing = False
            while not self.at(")"):
                xs.append(self.expr()); trailing = False
                if not self.eat(","): break
                trailing = True
            self.expect(")")
            if len(xs) == 1 and not trailing: return ("paren", xs[0])
            return ("tuple", xs)
        if self.at("{"): return self.block()
        if self.at("async") and (self.at("{", 1) or (self.at("move", 1) and self.at("{", 2))):
            self.i += 1; self.eat("move"); return ("asyncblock", self.block())
        if self.at("unsafe") and self.at("{", 1):
            self.i += 1; return self.block()
        if self.at("["):
            self.i += 1; xs = []
            while not self.at("]"):
                xs.append(self.expr())
                if self.eat(";"):
                    n = self.expr(); self.expect("]"); return ("repeat", xs[0], n)
                if not self.eat(","): break
            self.expect("]"); return ("array", xs)
        if self.eat("if"):
            return self.if_rest()
        if self.eat("match"):
            scrut = self.expr(nostruct=True); self.expect("{"); arms = []
            while not self.at("}"):
                self.skip_attrs()
                self.eat("|")
                p = self.pat(); guard = None
                if self.eat("if"): guard = self.expr()
                self.expect("=>")
                body = self.block() if self.at("{") else self.expr()
                if not self.eat(","):
                    if not self.at("}") and body[0] != "block": self.fail("expected `,` after match arm")
                arms.append((p, guard, body))
            self.expect("}")
            return ("match", scrut, arms)
        if self.eat("for"):
            p = self.pat(); self.expect("in"); it = self.expr(nostruct=True); body = self.block()
            return ("for", p, it, body)
        if self.eat("while"):
            if self.at("let"): self.fail("while let")
            c = self.expr(nostruct=True); body = self.block()
            return ("while", c, body)
        if self.eat("loop"):
            return ("loop", self.block())
        if self.eat("return"):
            if self.at(";") or self.at("}") or self.at(","): return ("return", None)
            return ("return", self.expr())
        if self.eat("break"):
            if not (self.at(";") or self.at("}") or self.at(",")): self.fail("break with value")
            return ("break",)
        if self.eat("continue"): return ("continue",)
        if self.at("move") or self.at("|") or self.at("||"):
            self.eat("move"); params = []
            if self.eat("||"): pass
            else:
                self.expect("|")
                while not self.at("|"):
                    p = self.pat1()
                    if self.eat(":"): self.ty()
                    params.append(p)
                    if not self.eat(","): break
                self.expect("|")
            body = self.expr()
            return ("closure", params, body)
        if t[0] == "id":
            path = self.path_segments()
            if self.at("!"):
                # macro call: keep raw tokens of the argument
                self.i += 1; o = self.peek()[1]; c = {"(": ")", "[": "]", "{": "}"}[o]
                start = self.i + 1; self.skip_balanced(o, c)
                return ("macro", path, self.t[start:self.i - 1], o)
            if self.at("{") and not nostruct and (path[-1][0].isupper()):
                self.i += 1; fs = []; base = None
                while not self.at("}"):
                    if self.eat(".."): base = self.expr(); break
                    f = self.ident()
                    if self.eat(":"): fs.append((f, self.expr()))
                    else: fs.append((f, ("path", [f])))
                    if not self.eat(","): break
                self.expect("}")
                return ("struct", path, fs, base)
            return ("path", path)
        self.fail("unsupported expression")
    def if_rest(self):
        if self.eat("let"):
            p = self.pat(); self.expect("="); e = self.expr(nostruct=True)
            if self.at("&&"): self.fail("let chains")
            then = self.block(); els = None
            if self.eat("else"):
                els = ("block", [], self.if_rest_kw()) if self.at("if") else self.block()
            return ("iflet", p, e, then, els)
        c = self.expr(nostruct=True); then = self.block(); els = None
        if self.eat("else"):
            els = ("block", [], self.if_rest_kw()) if self.at("if") else self.block()
        return ("if", c, then, els)
    def if_rest_kw(self):
        self.expect("if"); return self.if_rest()

    # ---- items
    def fn_item(self, owner):
        name = self.ident()
        if self.at("<"): self.skip_generic_args()
        self.expect("("); params = []; selfk = None
        while not self.at(")"):
            self.skip_attrs()
            if self.at("&") and (self.at("self", 1) or (self.at("mut", 1) and self.at("self", 2)) or self.peek(1)[0] == "life"):
                self.i += 1
                if self.peek()[0] == "life": self.i += 1
                if self.eat("mut"): selfk = "mut"
                else: selfk = "ref"
                self.expect("self")
            elif self.at("self") or (self.at("mut") and self.at("self", 1)):
                self.eat("mut"); self.i += 1; selfk = "own"
            else:
                p = self.pat1(); self.expect(":"); t = self.ty(); params.append((p, t))
            if not self.eat(","): break
        self.expect(")")
        ret = None
        if self.eat("->"): ret = self.ty()
        if self.at("where"):
            while not self.at("{"): self.i += 1
        if self.eat(";"): return None
        body = self.block()
        return {"kind": "fn", "name": name, "owner": owner, "params": params, "self": selfk, "ret": ret, "body": body}
    def enum_item(self):
        name = self.ident()
        if self.at("<"): self.fail("generic enum")
        self.expect("{"); vs = []
        while not self.at("}"):
            self.skip_attrs()
            v = self.ident()
            if self.at("("):
                self.i += 1; tys = []
                while not self.at(")"):
                    tys.append((None, self.ty()))
                    if not self.eat(","): break
                self.expect(")"); vs.append((v, tys))
            elif self.at("{"):
                self.i += 1; tys = []
                while not self.at("}"):
                    self.skip_attrs(); self.eat("pub")
                    f = self.ident(); self.expect(":"); tys.append((f, self.ty()))
                    if not self.eat(","): break
                self.expect("}"); vs.append((v, tys))
            else:
                if self.eat("="): self.expr()
                vs.append((v, []))
            if not self.eat(","): break
        self.expect("}")
        return {"kind": "enum", "name": name, "variants": vs}
    def struct_item(self):
        name = self.ident()
        if self.at("<"): self.fail("generic struct")
        if not self.at("{"): self.fail("tuple/unit struct")
        self.i += 1; fs = []
        while not self.at("}"):
            self.skip_attrs()
            if self.eat("pub"):
                if self.at("("): self.skip_balanced("(", ")")
            f = self.ident(); self.expect(":"); fs.append((f, self.ty()))
            if not self.eat(","): break
        self.expect("}")
        return {"kind": "struct", "name": name, "fields": fs}

    def items(self, owner=None, out=None, depth=0):
        """scan a module body for items; returns dict name -> item (methods as Owner::name)"""
        if out is None: out = {}
        while True:
            t = self.peek()
            if t[0] == "eof": return out
            if self.at("}"):
                return out
            if self.at("#"):
                # #[cfg(test)] mod … / #[cfg(not(unix))] fn … are skipped
                j = self.i; self.skip_attrs()
                raw = " ".join(x[1] if isinstance(x[1], str) else x[1][0] for x in self.t[j:self.i])
                if re.search(r"cfg \( (test|not \( unix \)|windows|target_os = \"macos\"|nijaru_sy_verif)", raw):
                    self.skip_item()
                continue
            if self.eat("pub"):
                if self.at("("): self.skip_balanced("(", ")")
                continue
            if self.at("async") or self.at("unsafe") or (self.at("const") and self.at("fn", 1)): self.i += 1; continue
            if self.eat("fn"):
                j = self.i
                try:
                    it = self.fn_item(owner)
                    if it:
                        key = (owner + "::" if owner else "") + it["name"]
                        out.setdefault(key, it)
                except Unsupported as e:
                    # remember the failure under the function's name; raised only if the function is requested
                    self.i = j; name = self.ident()
                    key = (owner + "::" if owner else "") + name
                    while not (self.at("{") or self.at(";")): self.i += 1
                    b0 = self.i
                    if self.at("{"): self.skip_balanced("{", "}")
                    else: self.i += 1
                    # the body's tokens are kept: a fragment (`frag` / `closure` item) can still be cut out of a function
                    # that uses syntax outside the subset somewhere else
                    out.setdefault(key, {"kind": "error", "msg": str(e), "owner": owner, "toks": self.t[b0:self.i], "fname": self.fname})
                continue
            if self.eat("enum"):
                j = self.i
                try:
                    it = self.enum_item(); out.setdefault(it["name"], it)
                except Unsupported as e:
                    self.i = j; name = self.ident(); out.setdefault(name, {"kind": "error", "msg": str(e)})
                    while not self.at("{"): self.i += 1
                    self.skip_balanced("{", "}")
                continue
            if self.eat("struct"):
                j = self.i
                try:
                    it = self.struct_item(); out.setdefault(it["name"], it)
                except Unsupported as e:
                    self.i = j; name = self.ident(); out.setdefault(name, {"kind": "error", "msg": str(e)})
                    while not (self.at("{") or self.at(";")): self.i += 1
                    if self.at("{"): self.skip_balanced("{", "}")
                    else: self.i += 1
                continue
            if self.at("const") or self.at("static"):
                self.i += 1; self.eat("mut")
                name = self.ident(); self.expect(":"); ty = self.ty(); self.expect("=")
                j = self.i
                try:
                    v = self.expr(); self.expect(";")
                    out.setdefault((owner + "::" if owner else "") + name, {"kind": "const", "name": name, "ty": ty, "value": v})
                except Unsupported as e:
                    self.i = j
                    while not self.eat(";"):
                        if self.at("{"): self.skip_balanced("{", "}")
                        elif self.at("["): self.skip_balanced("[", "]")
                        elif self.at("("): self.skip_balanced("(", ")")
                        else: self.i += 1
                    out.setdefault(name, {"kind": "error", "msg": str(e)})
                continue
            if self.eat("impl"):
                if self.at("<"): self.skip_generic_args()
                t1 = self.ty(); own = t1[1]
                if self.eat("for"):
                    t2 = self.ty(); own = t2[1]
                while not self.at("{"): self.i += 1
                self.i += 1
                self.items(own, out, depth + 1)
                self.expect("}")
                continue
            if self.eat("mod"):
                name = self.ident()
                if self.eat(";"): continue
                self.expect("{"); self.items(owner, out, depth + 1); self.expect("}")
                continue
            if self.at("{"):
                self.skip_balanced("{", "}"); continue
            self.i += 1
    def skip_item(self):
        # skip one item following an attribute: up to `;` or a balanced `{…}` at depth 0
        while True:
            if self.at("#"): self.skip_attrs(); continue
            if self.at("{"): self.skip_balanced("{", "}"); return
            if self.at("("): self.skip_balanced("(", ")"); continue
            if self.at("["): self.skip_balanced("[", "]"); continue
            if self.eat(";"): return
            if self.peek()[0] == "eof": return
            self.i += 1

def parse_file(path):
    src = open(path, encoding="utf-8").read()
    return P(tokenize(src), os.path.basename(path)).items()

# ----------------------------------------------------------------------------- emitter
LEAN_RESERVED = {"meta","public","module","nomatch","nofun","omit","include","attribute","initialize","end","from","at","show","open","then","do","have","fun","by","in","instance","local","macro","syntax",
                 "theorem","def","where","with","obtain","exists","namespace","section","variable","prefix","infix",
                 "notation","abbrev","structure","class","inductive","deriving","import","export","private","protected",
                 "partial","noncomputable","mutual","calc","suffices","using","universe","example","axiom","opaque","type","Type","Prop","Sort"}
def lname(n):
    return n + "_" if n in LEAN_RESERVED else n
def lean_str(s):
    return '"' + s.replace("\\", "\\\\").replace('"', '\\"').replace("\n", "\\n").replace("\t", "\\t").replace("\r", "\\r").replace("\0", "\\x00") + '"'
def lean_chars(s):
    """a Rust string literal as an explicit `List Char` (reduces in the kernel, unlike `String` literals)"""
    return "[" + ", ".join(lean_char(c) for c in s) + "]"
def lean_char(c):
    return "'" + {"'": "\\'", "\\": "\\\\", "\n": "\\n", "\t": "\\t", "\r": "\\r", "\0": "\\x00"}.get(c, c) + "'"

ERASED_METHODS = {"clone","as_ref","as_mut","iter","into_iter","iter_mut","cloned","copied","to_path_buf","as_path","to_owned",
                  "into","borrow","as_slice","to_vec","as_bytes_ref","by_ref","as_deref","unwrap_infallible"}
INT_TYPES = {"u8","u16","u32","u64","u128","usize","i8","i16","i32","i64","i128","isize"}
FIXED = {"u8":"UInt8","u16":"UInt16","u32":"UInt32","u64":"UInt64","usize":"UInt64"}

class Emit:
    def __init__(self, unit, items):
        self.unit = unit; self.items = items
        self.ints = unit.get("ints", "nat")
        self.typemap = dict(unit.get("types", {}))
        self.externs = unit.get("externs", {})        # name -> lean type | {"type":…, "eff":bool, "result":bool}
        self.local_fns = {}                             # rust key -> (lean name, item)
        self.enums = {}; self.structs = {}
        self.consts = set()
        self.uses_ext = set()
        self.effects = bool(unit.get("effects"))
        self.ext_methods = unit.get("ext_methods", {})
        self.pre = []; self.qn = 0; self.cur_opt = False
        self.skip_macros = set(unit.get("skip_macros", ["tracing::debug","tracing::info","tracing::warn","tracing::trace","tracing::error","debug_assert","debug_assert_eq","assert","assert_eq","println","eprintln"]))
    # ---- types
    def ty(self, t):
        if t is None: return "Unit"
        if t[0] == "tuple":
            if not t[1]: return "Unit"
            return "(" + " × ".join(self.ty(x) for x in t[1]) + ")"
        _, name, args = t
        if name == "_": return "_"
        if name in self.typemap: return self.typemap[name]
        if name in INT_TYPES:
            if self.ints == "nat": return "Nat" if name[0] == "u" else "Int"
            if name in FIXED: return FIXED[name]
            raise Unsupported(f"integer type {name} in fixed mode")
        if name == "bool": return "Bool"
        if name in ("str", "String"): return "Rs.Str"
        if name == "char": return "Char"
        if name in ("Path", "PathBuf", "OsStr", "OsString"): return "Rs.Path"
        if name == "SystemTime": return "Rs.SystemTime"
        if name == "Duration": return "Rs.Duration"
        if name == "Option": return f"(Option {self.ty(args[0])})"
        if name in ("Vec", "VecDeque"): return f"(List {self.ty(args[0])})"
        if name == "Box" or name == "Arc" or name == "Rc": return self.ty(args[0])
        if name in ("HashMap", "BTreeMap") and len(args) == 2: return f"(Rs.HashMap {self.ty(args[0])} {self.ty(args[1])})"
        if name in ("HashSet", "BTreeSet") and len(args) == 1: return f"(Rs.HashSet {self.ty(args[0])})"
        if name == "Result":
            err = "Rs.Err" if len(args) < 2 else self.ty(args[1])
            return f"(Except {err} {self.ty(args[0])})"
        if name == "Self": return self.cur_owner
        if name in self.enums or name in self.structs: return name
        if name in ("f32", "f64"):
            if self.unit.get("floats") == "rat": return "Rat"
            raise Unsupported("floating point type (unit has no floats=\"rat\")")
        return "Rs.Opaque"
    def is_result(self, t): return t is not None and t[0] == "app" and t[1] == "Result"

    # ---- purity
    def pure_expr(self, e):
        """True when e can be emitted as a plain Lean term (no statements, returns, `?`, loops, assignments)."""
        k = e[0]
        if k in ("num","str","char","byte","path"): return True
        if k in ("return","break","continue","try","assign","for","while","loop"): return False
        if k == "macro":
            return "::".join(e[1]) in ("matches", "format", "vec")
        if k == "block":
            return not e[1] and e[2] is not None and self.pure_expr(e[2])
        if k == "if":
            return self.pure_expr(e[1]) and self.pure_expr(e[2]) and e[3] is not None and self.pure_expr(e[3])
        if k == "iflet":
            return self.pure_expr(e[2]) and self.pure_expr(e[3]) and e[4] is not None and self.pure_expr(e[4])
        if k == "match":
            return self.pure_expr(e[1]) and all(g is None and self.pure_expr(b) for _, g, b in e[2])
        if k in ("paren","neg","not"): return self.pure_expr(e[1])
        if k == "cast": return self.pure_expr(e[1])
        if k == "bin": return self.pure_expr(e[2]) and self.pure_expr(e[3])
        if k in ("tuple","array"): return all(self.pure_expr(x) for x in e[1])
        if k == "field" or k == "tfield": return self.pure_expr(e[1])
        if k == "index": return self.pure_expr(e[1]) and self.pure_expr(e[2])
        if k == "call":
            if self.effects and self.call_is_effectful(e): return False
            return self.pure_expr(e[1]) and all(self.pure_expr(x) for x in e[2])
        if k == "mcall":
            if self.effects and self.call_is_effectful(e): return False
            if e[2] in ("push","push_str","insert","remove","clear","extend","sort","truncate"): return False
            if self.is_mut_method(e[2]): return False
            return self.pure_expr(e[1]) and all(self.pure_expr(x) for x in e[3])
        if k == "struct": return all(self.pure_expr(v) for _, v in e[2]) and (e[3] is None or self.pure_expr(e[3]))
        if k == "closure": return self.pure_expr(e[2])
        if k == "range": return self.pure_expr(e[1]) and (e[2] is None or self.pure_expr(e[2]))
        if k == "repeat": return self.pure_expr(e[1]) and self.pure_expr(e[2])
        return False
    def has_try(self, e):
        if not isinstance(e, tuple):
            if isinstance(e, list): return any(self.has_try(x) for x in e)
            return False
        if e and e[0] == "try": return True
        if e and e[0] == "closure": return False
        return any(self.has_try(x) for x in e[1:])
    def is_mut_method(self, name):
        for key, (ln, it) in self.local_fns.items():
            if it["name"] == name and it["self"] == "mut": return True
        return False

    # ---- patterns
    def pat(self, p, top=False):
        k = p[0]
        if k == "wild": return "_"
        if k == "bind": return lname(p[1])
        if k == "plit":
            v = p[1]
            if isinstance(v, tuple): return self.num(v)
            return v
        if k == "ptuple": return "(" + ", ".join(self.pat(x) for x in p[1]) + ")"
        if k == "or": raise Unsupported("nested or-pattern")
        if k == "pctor":
            path, args = p[1], p[2]
            head = self.ctor_path(path)
            if args is None: return head
            if any(a[0] == "rest" for a in args):
                n = self.ctor_arity(path)
                if n is None: raise Unsupported("`..` in a pattern of an unknown constructor")
                i = [a[0] for a in args].index("rest")
                args = args[:i] + [("wild",)] * (n - (len(args) - 1)) + args[i+1:]
            if not args: return head
            return "(" + head + " " + " ".join(self.pat(a) for a in args) + ")"
        if k == "pstruct":
            path, fs, rest = p[1], p[2], p[3]
            fields = self.ctor_fields(path)
            if fields is None: raise Unsupported(f"struct pattern of unknown type {'::'.join(path)}")
            d = dict(fs)
            for f, _ in fs:
                if f not in fields: raise Unsupported(f"unknown field {f} in pattern")
            if not rest and set(d) != set(fields): raise Unsupported("struct pattern misses fields")
            head = self.ctor_path(path)
            if path[-1] in self.structs or (len(path) == 1 and path[0] == "Self"):
                return "{ " + ", ".join(f"{lname(f)} := {self.pat(d[f])}" for f in fields if f in d) + " }"
            return "(" + head + " " + " ".join(self.pat(d[f]) if f in d else "_" for f in fields) + ")"
        raise Unsupported(f"pattern {k}")
    def ctor_path(self, path):
        if path == ["Some"]: return "some"
        if path == ["None"]: return "none"
        if path == ["Ok"]: return "Except.ok"
        if path == ["Err"]: return "Except.error"
        path = [self.cur_owner if s == "Self" else s for s in path]
        # drop module prefixes: keep the last two segments when the one before last is a known enum
        if len(path) >= 2 and path[-2] in self.enums: return f"{path[-2]}.{lname(path[-1])}"
        if len(path) >= 2: return f"{path[-2]}.{lname(path[-1])}"
        return lname(path[0])
    def ctor_arity(self, path):
        if path in (["Some"], ["Ok"], ["Err"]): return 1
        en = self.enums.get(path[-2] if len(path) >= 2 else None)
        if en:
            for v, tys in en["variants"]:
                if v == path[-1]: return len(tys)
        return None
    def ctor_fields(self, path):
        path = [self.cur_owner if s == "Self" else s for s in path]
        if path[-1] in self.structs: return [f for f, _ in self.structs[path[-1]]["fields"]]
        en = self.enums.get(path[-2] if len(path) >= 2 else None)
        if en:
            for v, tys in en["variants"]:
                if v == path[-1] and tys and tys[0][0] is not None: return [f for f, _ in tys]
        return None

    # ---- expressions (as plain terms; may contain `(← …)` when inside a do block)
    def num(self, v):
        _, lit, suf = v
        if "." in lit and self.unit.get("floats") == "rat" and suf in (None, "f64", "f32"):
            a, b = lit.split(".")
            return f"(({a}{b} : Rat) / {10 ** len(b)})" if int(b or 0) else f"({a} : Rat)"
        if "." in lit or "e" in lit.lower() and not lit.startswith("0x"): raise Unsupported("floating point literal")
        if suf:
            if suf in ("f32", "f64"): raise Unsupported("floating point literal")
            return f"({lit} : {self.ty(('app', suf, []))})"
        return lit
    BINOP = {"+":"+","-":"-","*":"*","/":"/","%":"%","<<":"<<<",">>":">>>","|":"|||","&":"&&&","^":"^^^","&&":"&&","||":"||","==":"==","!=":"!="}
    def ex(self, e):
        k = e[0]
        if k == "num": return self.num(e)
        if k == "str": return lean_chars(e[1])
        if k == "char": return lean_char(e[1])
        if k == "byte": return f"({ord(e[1][-1]) if not e[1].startswith(chr(92)) else ord(eval(repr(e[1]).replace(chr(92)*2, chr(92))))} : UInt8)"
        if k == "paren": return "(" + self.ex(e[1]) + ")"
        if k == "path": return self.path_expr(e[1])
        if k == "neg": return f"(- {self.ex(e[1])})"
        if k == "not": return f"(!{self.ex(e[1])})"
        if k == "cast": return f"(Rs.cast {self.ex(e[1])} : {self.ty(e[2])})"
        if k == "bin":
            op = e[1]
            if op in ("&&", "||") and (self.has_try(e[3]) or not self.pure_expr(e[3]) or (self.effects and "(← " in self.ex(e[3]))):
                # (the right operand performs an effect — possibly inside a macro such as `matches!(probe().await, …)`: it must
                #  run only when the left operand does not decide, as in Rust)
                a = self.ex(e[2]); b = self.ex(e[3])
                if op == "&&": return f"(← (do if {a} then (do pure ({b})) else pure false))"
                return f"(← (do if {a} then pure true else (do pure ({b}))))"
            if op in ("<", "<=", ">", ">="):
                return f"(decide ({self.ex(e[2])} {op} {self.ex(e[3])}))"
            return f"({self.ex(e[2])} {self.BINOP[op]} {self.ex(e[3])})"
        if k == "try":
            inner = e[1]
            while inner[0] == "mcall" and ((inner[2] in ERASED_METHODS and not inner[3]) or inner[2] in ("map_err", "with_context", "context")):
                inner = inner[1]
            if inner[0] in ("call", "mcall"):
                raw, eff, res = self._call(inner) if inner[0] == "call" else self._mcall(inner)
                if eff and res: return f"(← {raw})"
                val = f"(← {raw})" if eff else raw
            else:
                val = self.ex(inner)
            if self.cur_opt: return self.hoist_opt(val)
            if self.effects: return f"(← Rs.liftE {val})"
            return f"(← {val})"
        if k == "tuple":
            if not e[1]: return "()"
            return "(" + ", ".join(self.ex(x) for x in e[1]) + ")"
        if k == "array": return "[" + ", ".join(self.ex(x) for x in e[1]) + "]"
        if k == "repeat": return f"(List.replicate {self.ex(e[2])} {self.ex(e[1])})"
        if k == "field": return f"{self.atom(e[1])}.{lname(e[2])}"
        if k == "tfield": return f"{self.atom(e[1])}.{e[2] + 1}"
        if k == "index":
            if e[2][0] == "range":
                lo = self.ex(e[2][1]) if e[2][1] else "0"
                if e[2][2] is None: return f"(Rs.slice_from {self.ex(e[1])} {lo})"
                hi = self.ex(e[2][2]) + (" + 1" if e[2][3] else "")
                return f"(Rs.slice {self.ex(e[1])} {lo} ({hi}))"
            return f"(Rs.index {self.ex(e[1])} {self.ex(e[2])})"
        if k == "range":
            if e[2] is None: raise Unsupported("open range expression")
            hi = self.ex(e[2]) + (" + 1" if e[3] else "")
            return f"[{self.ex(e[1])}:{hi}]"
        if k == "struct":
            path, fs, base = e[1], e[2], e[3]
            path = [self.cur_owner if s == "Self" else s for s in path]
            if "::".join(path[-2:]) in self.unit.get("err_structs", {}):
                return self.unit["err_structs"]["::".join(path[-2:])]        # an error value: its fields (messages, paths) are not modelled
            if path[-1] in self.structs and not (len(path) >= 2 and path[-2] in self.enums):
                body = ", ".join(f"{lname(f)} := {self.ex(v)}" for f, v in fs)
                if base is not None: return "{ " + self.ex(base) + " with " + body + " }"
                return "{ " + body + " : " + path[-1] + " }"
            return "(" + self.ctor_path(path) + " " + " ".join(f"({lname(f)} := {self.ex(v)})" for f, v in fs) + ")"
        if k in ("call", "mcall"):
            raw, eff, res = self._call(e) if k == "call" else self._mcall(e)
            if not eff: return raw
            return f"(← Rs.capture {raw})" if res else f"(← {raw})"
        if k == "closure":
            ps = " ".join(self.pat(p) if p[0] in ("bind", "wild") else "(" + self.pat(p) + ")" for p in e[1]) or "_"
            if not self.pure_expr(e[2]): raise Unsupported("closure with a statement body")
            return f"(fun {ps} => {self.ex(e[2])})"
        if k == "macro": return self.macro(e)
        if k == "block":
            if not e[1] and e[2] is not None: return self.ex(e[2])
            raise Unsupported("block expression with statements in term position")
        if k == "if":
            if e[3] is None: raise Unsupported("if without else in term position")
            return f"(if {self.ex(e[1])} then {self.ex(e[2])} else {self.ex(e[3])})"
        if k == "iflet":
            if e[4] is None: raise Unsupported("if let without else in term position")
            return f"(match {self.ex(e[2])} with | {self.pat(e[1])} => {self.ex(e[3])} | _ => {self.ex(e[4])})"
        if k == "match":
            scr, arms = self.match_head(e)
            out = f"(match {scr} with"
            for pats, g, b in arms:
                if g is not None: raise Unsupported("match guard")
                out += " | " + " | ".join(pats) + " => " + self.ex(b)
            return out + ")"
        raise Unsupported(f"expression `{k}` in term position")
    def atom(self, e):
        s = self.ex(e)
        return s if re.fullmatch(r"[A-Za-z_][A-Za-z0-9_.]*", s) or s.startswith("(") else "(" + s + ")"
    def path_expr(self, path):
        nm = self.unit.get("names", {})
        if "::".join(path) in nm: return nm["::".join(path)]
        if path == ["None"]: return "none"
        if path == ["true"] or path == ["false"]: return path[0]
        if path == ["self"]: return "self"
        if len(path) == 1:
            n = path[0]
            if n in self.consts: return n
            return lname(n)
        return self.ctor_path(path)
    def fn_ref(self, path):
        """lean name of a called function, or None"""
        p = [self.cur_owner if s == "Self" else s for s in path]
        key = "::".join(p[-2:]) if len(p) >= 2 else p[0]
        for k in (key, p[-1]):
            if k in self.local_fns: return self.local_fns[k]
        return None
    def call_is_effectful(self, e):
        """syntactic test (no emission): does this call / method call run in the effect monad?"""
        if e[0] == "call" and e[1][0] == "path":
            path = e[1][1]
            lf = self.fn_ref(path)
            if lf: return lf[0] in self.fns_using_ext
            x = next((self.externs["_".join(path[-k:])] for k in range(len(path), 0, -1) if "_".join(path[-k:]) in self.externs), None)
            return isinstance(x, dict) and x.get("eff", False)
        if e[0] == "mcall" and self.recv_name(e[1]) is not None and f"{self.recv_name(e[1])}.{e[2]}" in self.unit.get("recv_fx_methods", {}): return True
        if e[0] == "mcall":
            for key, (ln, it) in self.local_fns.items():
                if it["name"] == e[2] and it["owner"] and len(it["params"]) == len(e[3]) and e[1] == ("path", ["self"]) and it["owner"] == self.cur_owner:
                    return ln in self.fns_using_ext
            if e[2] in self.ext_methods or f"{e[2]}/{len(e[3])}" in self.ext_methods: return True
            for key, (ln, it) in self.local_fns.items():
                if it["name"] == e[2] and it["owner"] and ln in self.fns_using_ext and len(it["params"]) == len(e[3]): return True
        return False
    def hoist_opt(self, val):
        self.qn += 1
        self.pre.append(f"let __q{self.qn} ← match {val} with | some v => pure v | none => return none")
        return f"__q{self.qn}"
    def _call(self, e):
        f, args = e[1], e[2]
        a = [self.atom(x) for x in args]
        if f[0] == "path":
            path = f[1]
            P_ = lambda x: (x, False, False)
            if path == ["Some"]: return P_(f"(some {a[0]})")
            if path == ["Ok"]: return P_(f"(Except.ok {a[0]})")
            if path == ["Err"]: return P_(f"(Except.error {a[0]})")
            if path in (["Vec", "new"], ["Vec", "with_capacity"], ["HashMap", "new"], ["HashSet", "new"]) or path[-2:] in (["HashMap", "new"], ["HashSet", "new"]): return P_("[]")
            if len(path) == 2 and path[1] == "default" and not args and (path[0] in self.structs or path[0] == "Self"):
                return P_(f"(default : {self.cur_owner if path[0] == 'Self' else path[0]})")
            if path == ["String", "new"]: return P_("[]")
            if path in (["PathBuf", "from"], ["String", "from"]): return P_(a[0])
            lf = self.fn_ref(path)
            if lf:
                ln, it = lf
                pre = ["ext"] if ln in self.fns_using_ext else []
                if it.get("_used"):
                    pre = [it["_ext"]] if it.get("_ext") else []
                    if pre: self.cur_uses_ext = True
                    return ("(" + " ".join([ln] + pre + a) + ")" if (pre or a) else ln, False, False)
                if pre: self.cur_uses_ext = True
                if it["self"]: raise Unsupported(f"UFCS call of method {ln}")
                return ("(" + " ".join([ln] + pre + a) + ")" if (pre or a) else ln, bool(pre) and self.effects, self.is_result(it["ret"]))
            nm = next(("_".join(path[-k:]) for k in range(len(path), 0, -1) if "_".join(path[-k:]) in self.externs), None)
            if nm is not None:
                self.cur_uses_ext = True
                x = self.externs[nm]
                eff = isinstance(x, dict) and x.get("eff", False); res = isinstance(x, dict) and x.get("result", False)
                return ("(" + " ".join([f"ext.{lname(nm)}"] + (a or ["()"])) + ")", eff, res)
            if len(path) == 1 and (path[0][0].islower() or path[0][0] == "_") and path[0] in getattr(self, "local_closures", set()):
                return ("(" + " ".join([lname(path[0])] + a) + ")", False, False)      # a closure bound by an earlier `let`
            cm = self.unit.get("ctors", {})
            if "::".join(path[-2:]) in cm:
                return ("(" + " ".join([cm["::".join(path[-2:])]] + a) + ")", False, False)
            # enum tuple-variant constructor
            if len(path) >= 2 and (path[-2] in self.enums or path[-2] == "Self"):
                return ("(" + " ".join([self.ctor_path(path)] + a) + ")", False, False)
            raise Unsupported(f"call of unknown function {'::'.join(path)}")
        raise Unsupported("call of a non-path expression")
    def recv_name(self, recv):
        """the name a receiver is known by in `recv_fx_methods`: a local variable, or a field of `self` (`self.walker.next()`)"""
        if recv[0] == "path" and len(recv[1]) == 1: return recv[1][0]
        if recv[0] == "field" and recv[1] == ("path", ["self"]): return recv[2]
        return None
    def _mcall(self, e):
        recv, m, args = e[1], e[2], e[3]
        if m == "find" and len(args) == 1 and args[0][0] == "closure" and len(args[0][1]) == 1 and args[0][1][0][0] == "bind" and self.effects:
            body = args[0][2]
            if body[0] == "block" and not body[1] and body[2] is not None: body = body[2]
            if not self.pure_expr(body):
                # `iter.find(|x| <predicate that performs operations>)`: the first element for which the predicate holds, the predicate
                # evaluated element by element in order and not at all after the first hit (what `Iterator::find` does)
                self.qn += 1; v = f"__find{self.qn}"; x = lname(args[0][1][0][1])
                self.pre.append(f"let mut {v} := none")
                self.pre.append(f"for {x} in {self.ex(self.strip_adapt(recv))} do")
                self.pre.append(f"  if {v}.isNone then")
                saved = self.pre; self.pre = []
                c = self.ex(body)
                inner = self.pre; self.pre = saved
                for ln_ in inner: self.pre.append("    " + ln_)
                self.pre.append(f"    if {c} then {v} := some {x}")
                return (v, False, False)
        if (m in ERASED_METHODS and not args) or m in ("map_err", "with_context", "context"): return (self.ex(recv), False, False)
        if self.recv_name(recv) is not None and f"{self.recv_name(recv)}.{m}" in self.unit.get("recv_fx_methods", {}):
            # an operation of the world behind a guard variable (`map.get(&k)` under the mutex): effectful, the guard is dropped
            self.cur_uses_ext = True
            return ("(" + " ".join([f"ext.{self.unit['recv_fx_methods'][self.recv_name(recv) + '.' + m]}"] + ([self.atom(x) for x in args] or ["()"])) + ")", True, False)
        # a method of an extern type, selected by the NAME of the receiver variable (two extern types with a method of the same
        # name and arity, e.g. `rolling.digest()` / `hasher.digest()`): a pure operation of `Ext`
        if recv[0] == "path" and len(recv[1]) == 1 and f"{recv[1][0]}.{m}" in self.unit.get("recv_methods", {}):
            self.cur_uses_ext = True
            return ("(" + " ".join([f"ext.{self.unit['recv_methods'][recv[1][0] + '.' + m]}", self.atom(recv)] + [self.atom(x) for x in args]) + ")", False, False)
        # method of a type translated in this unit (non-mutating)
        for exact in (True, "ext", False):
            if exact == "ext":
                # operations of the world, by method name and arity (after the methods of `self`'s own type, before the
                # methods of other translated types)
                if f"{m}/{len(args)}" in self.ext_methods or m in self.ext_methods:
                    em = self.ext_methods.get(f"{m}/{len(args)}", self.ext_methods.get(m)); self.cur_uses_ext = True
                    return ("(" + " ".join([f"ext.{em['name']}", self.atom(recv)] + [self.atom(x) for x in args]) + ")", True, em.get("result", False))
                continue
            for key, (ln, it) in self.local_fns.items():
                if it["name"] == m and it["self"] in ("ref", "own") and it["owner"] and len(it["params"]) == len(args) \
                   and ((recv == ("path", ["self"]) and it["owner"] == self.cur_owner) if exact
                        else (recv != ("path", ["self"]) and self.unit.get("methods", {}).get(m) == it["owner"])):
                    pre = ["ext"] if ln in self.fns_using_ext else []
                    if pre: self.cur_uses_ext = True
                    return ("(" + " ".join([ln] + pre + [self.atom(recv)] + [self.atom(x) for x in args]) + ")", bool(pre) and self.effects, self.is_result(it["ret"]))
        if m == "map_or" and len(args) == 2 and args[1][0] == "closure" and len(args[1][1]) == 1:
            p = self.pat(args[1][1][0])
            return (f"(match {self.ex(recv)} with | some {p} => {self.ex(args[1][2])} | none => {self.ex(args[0])})", False, False)
        if m == "unwrap" and not args and recv[0] == "mcall" and recv[2] == "lock" and not recv[3]:
            return (self.ex(recv[1]), False, False)          # `m.lock().unwrap()`: the guard IS the value (mutexes are not modelled)
        if m == "unwrap" and not args: return (f"(Rs.unwrap {self.atom(recv)})", False, False)
        fn_name = self.unit.get("method_map", {}).get(m, f"Rs.{lname(m)}")      # per-unit meaning of a std method name
        if m == "map" and recv[0] == "mcall" and recv[2] in ("iter", "into_iter", "iter_mut", "values", "keys", "chars", "lines") and not recv[3]:
            fn_name = "Rs.map"          # an iterator adaptor, whatever the unit's `method_map` says about `Option::map`
        if m == "starts_with":
            # the vocabulary is selected by NAME (no type inference): `Path::starts_with` is component-wise, `str::starts_with`
            # is a plain prefix test — a receiver that went through a text conversion is a `str`
            r = recv
            while r[0] in ("mcall", "paren", "try"):
                if r[0] == "mcall" and r[2] in ("to_str", "to_string_lossy", "as_str", "to_string", "display", "as_os_str", "as_bytes"):
                    fn_name = "Rs.str_starts_with"; break
                r = r[1]
        return ("(" + " ".join([fn_name, self.atom(recv)] + [self.atom(x) for x in args]) + ")", False, False)
    def macro(self, e):
        name = "::".join(e[1])
        if name == "matches":
            sub = P(list(e[2]) + [("eof", "", 0)], "macro")
            x = sub.expr(); sub.expect(","); p = sub.pat(); g = None
            if sub.eat("if"): g = sub.expr()
            sub.eat(",")
            pats = [self.pat(q) for q in (p[1] if p[0] == "or" else [p])]
            if g is not None:
                return f"(match {self.ex(x)} with | " + " | ".join(pats) + f" => {self.ex(g)} | _ => false)"
            return f"(match {self.ex(x)} with | " + " | ".join(pats) + " => true | _ => false)"
        if name == "vec":
            sub = P(list(e[2]) + [("eof", "", 0)], "macro"); xs = []
            while sub.peek()[0] != "eof":
                xs.append(sub.expr())
                if sub.eat(";"): return f"(List.replicate {self.ex(sub.expr())} {self.ex(xs[0])})"
                if not sub.eat(","): break
            return "[" + ", ".join(self.ex(x) for x in xs) + "]"
        if name == "format" and self.unit.get("opaque_format"):
            return "Rs.opaqueMsg"
        if name == "format":
            sub = P(list(e[2]) + [("eof", "", 0)], "macro")
            t = sub.peek()
            if t[0] != "str": raise Unsupported("format! without a literal format string")
            sub.i += 1; fmt = t[1]; args = []
            while sub.eat(","):
                if sub.peek()[0] == "eof": break
                args.append(sub.expr())
            pieces = re.split(r"\{\}", fmt)
            if "{" in "".join(pieces) or "}" in "".join(pieces): raise Unsupported(f"format! with a non-trivial placeholder: {fmt!r}")
            if len(pieces) != len(args) + 1: raise Unsupported("format! argument count")
            parts = []
            for i, pc in enumerate(pieces):
                if pc: parts.append(lean_chars(pc))
                if i < len(args): parts.append(f"(Rs.display {self.atom(args[i])})")
            return "(Rs.concat [" + ", ".join(parts) + "])"
        if name in self.unit.get("macro_externs", {}):
            self.cur_uses_ext = True
            return f"(ext.{self.unit['macro_externs'][name]} ())"
        raise Unsupported(f"macro {name}!")
    def pat_covers(self, q, p):
        """q takes every value p takes, and p binds no variable: same constructor, p's arguments all `_`, q's all `_`/bindings"""
        return (p[0] == "pctor" and q[0] == "pctor" and p[1] == q[1] and p[2] is not None and q[2] is not None and len(p[2]) == len(q[2])
                and all(a[0] == "wild" for a in p[2]) and all(a[0] in ("wild", "bind") for a in q[2]))
    def desugar_guards(self, e):
        """`P if g => A` followed later by an arm `Q => B` that takes everything P takes (the same pattern, or a catch-all):
        `P => if g { A } else { B }` — the fall-through Rust performs.  Other shapes are not supported."""
        scr, arms = e[1], list(e[2])
        i = 0
        while i < len(arms):
            p, g, b = arms[i]
            if g is not None:
                nxt = None
                for k in range(i + 1, len(arms)):
                    q, g2, b2 = arms[k]
                    if g2 is None and (q == p or q[0] in ("wild", "bind") or self.pat_covers(q, p)):
                        nxt = k; break
                    if g2 is None and q[0] == "or": continue
                if nxt is None: raise Unsupported("match guard without a later arm that covers the same values")
                q, _, b2 = arms[nxt]
                # a constructor the unit VIEWS through a predicate (spec `pat_views`, e.g. `SyncError::Io(ref e)` = any error `e`
                # with `is_io e`): the pattern binds the whole value and the predicate joins the guard
                def unview(pt, extra):
                    if pt[0] == "pctor" and pt[2] is not None:
                        key = "::".join(pt[1][-2:])
                        if key in self.unit.get("pat_views", {}) and len(pt[2]) == 1 and pt[2][0][0] == "bind":
                            extra.append(("call", ("path", [self.unit["pat_views"][key]]), [("path", [pt[2][0][1]])])); return pt[2][0]
                        return ("pctor", pt[1], [unview(a, extra) for a in pt[2]])
                    return pt
                extra = []; p = unview(p, extra)
                for x in extra: g = ("bin", "&&", x, g)
                if q[0] == "bind":
                    # fall-through to a binding catch-all `x => B`: name the scrutinee first
                    self.qn += 1; sv = f"__scr{self.qn}"
                    self.pre.append(f"let {sv} := {self.ex(scr)}")
                    scr = ("path", [sv])
                    b2 = ("block", [("let", q, False, None, ("path", [sv]), None)] + (b2[1] if b2[0] == "block" else []), (b2[2] if b2[0] == "block" else b2))
                bb = b if b[0] == "block" else ("block", [], b)
                eb = b2 if b2[0] == "block" else ("block", [], b2)
                if q != p and self.pat_covers(q, p):
                    arms[i] = (q, None, ("if", g, bb, eb)); del arms[nxt]      # p binds nothing: q's bindings are unused by g and A
                else:
                    arms[i] = (p, None, ("if", g, bb, eb))
                    if q == p: del arms[nxt]
                # any arm strictly between i and nxt would be skipped by the fall-through: refuse
                if nxt != i + 1: raise Unsupported("match guard with arms between it and its fall-through arm")
            i += 1
        return ("match", scr, arms)
    def match_head(self, e):
        e = self.desugar_guards(e)
        scr, arms = e[1], e[2]
        stubs = self.unit.get("stub_arms", {}).get(self.cur_fn, [])
        if stubs:
            arms = [((p[0], p[1], [(f, ("wild",)) for f, _ in p[2]], p[3]) if p[0] == "pstruct" else p, g,
                     ("call", ("path", ["unmodelled"]), [("str", "::".join(p[1]))])) if p[0] in ("pctor", "pstruct") and "::".join(p[1]) in stubs else (p, g, b)
                    for p, g, b in arms]
        tup = scr[0] == "tuple" and len(scr[1]) >= 2
        n = len(scr[1]) if tup else 1
        out = []
        for p, g, b in arms:
            alts = p[1] if p[0] == "or" else [p]
            pats = []
            for q in alts:
                if tup:
                    if q[0] == "ptuple" and len(q[1]) == n: pats.append(", ".join(self.pat(x) for x in q[1]))
                    elif q[0] in ("wild", ): pats.append(", ".join(["_"] * n))
                    else: raise Unsupported("tuple match with a non-tuple pattern")
                else: pats.append(self.pat(q))
            out.append((pats, g, b))
        s = ", ".join(self.ex(x) for x in scr[1]) if tup else self.ex(scr)
        return s, out

    # ---- statements (do-sequences).  `mode`: "ret" = tail value is the function's result,
    #      "val" = tail value is the value of the enclosing `let x ←`, "unit" = value discarded
    def seq(self, blk, ind, mode):
        _, stmts, tail = blk
        L = []
        for s in stmts: L += self.stmt(s, ind)
        if tail is not None:
            L += self.tail(tail, ind, mode)
        elif mode == "val" and not (stmts and self.diverges(stmts[-1])):
            L.append(ind + "pure ()")
        elif mode == "ret" and stmts and stmts[-1][0] == "expr" and stmts[-1][1][0] == "loop" and (self.cur_result or self.cur_opt) and self.effects:
            L.append(ind + "throw Rs.Err.other          -- the fuel ran out: the Rust `loop` has no exit at this point")
        elif mode == "ret" and not (stmts and self.diverges(stmts[-1])):
            L.append(ind + ("return self" if self.cur_self == "mut" else "pure ()"))
        if not L: L.append(ind + "pure ()")
        return L
    def diverges(self, s):
        return s[0] == "expr" and s[1][0] == "return"
    def tail(self, e, ind, mode):
        saved = self.pre; self.pre = []
        try:
            L = self._tail(e, ind, mode)
            return [ind + x for x in self.pre] + L
        finally:
            self.pre = saved
    def peel_spawn(self, e):
        """`tokio::task::spawn_blocking(move || { … }).await[.map_err(…)][?][.and_then(|r| r)][.map(F)]` -> (closure, F | None)"""
        mapf = None
        while True:
            if e[0] == "try": e = e[1]; continue
            if e[0] == "mcall" and e[2] in ("map_err", "with_context", "context"): e = e[1]; continue
            if e[0] == "mcall" and e[2] == "and_then" and len(e[3]) == 1 and e[3][0][0] == "closure" and len(e[3][0][1]) == 1 \
               and e[3][0][1][0][0] == "bind" and e[3][0][2] == ("path", [e[3][0][1][0][1]]): e = e[1]; continue
            if e[0] == "mcall" and e[2] == "map" and len(e[3]) == 1 and e[3][0][0] == "path" and mapf is None: mapf = e[3][0]; e = e[1]; continue
            break
        if e[0] == "call" and e[1][0] == "path" and e[1][1][-1] == "spawn_blocking" and len(e[2]) == 1 and e[2][0][0] == "closure" and not e[2][0][1]:
            return e[2][0], mapf
        return None
    def _tail(self, e, ind, mode):
        k = e[0]
        sp = self.peel_spawn(e) if (mode == "ret" and self.effects and self.cur_result) else None
        if sp is not None:
            # the closure runs in place; its own `return` / `?` leave the CLOSURE (a nested `do`), then the RAII guards of
            # its scope are dropped (operation `scope_exit` of the spec), then the function returns the closure's result
            clo, mapf = sp
            body = clo[2] if clo[2][0] == "block" else ("block", [], clo[2])
            L = [ind + "let __sb ← Rs.capture (do"] + self.seq(body, ind + "    ", "ret")
            L[-1] = L[-1] + ")"
            se = self.unit.get("scope_exit", {}).get(self.cur_fn)
            if se:
                self.cur_uses_ext = True
                L.append(ind + f"let _ ← ext.{se} ()")
            L.append(ind + "let __v ← Rs.liftE __sb")
            if mapf is not None:
                raw, eff, res = self._call(("call", mapf, [("path", ["__v"])]))
                L.append(ind + f"return {raw}")
            else:
                L.append(ind + "return __v")
            return L
        if k in ("if", "iflet", "match") and not self.pure_expr(e):
            return self.branching(e, ind, mode)
        if k == "block": return self.seq(e, ind, mode)
        if k == "return": return self.stmt(("expr", e), ind)
        if mode == "unit":
            return self.stmt(("expr", e), ind)
        if mode == "val": return [ind + "pure (" + self.ex(e) + ")"]
        return [ind + self.ret(e)]
    def ret(self, e, early=False):
        """the function's result `e` as a do-element"""
        v = None
        while e[0] == "mcall" and ((e[2] in ERASED_METHODS and not e[3]) or e[2] in ("map_err", "with_context", "context")):
            e = e[1]
        if self.cur_result:
            if e[0] == "call" and e[1] == ("path", ["Ok"]):
                inner = e[2][0]
                v = "()" if inner == ("tuple", []) else self.ex(inner)
            elif e[0] == "call" and e[1] == ("path", ["Err"]):
                return "throw " + self.atom(e[2][0])
            elif e[0] in ("call", "mcall") and self.effects and self.call_is_effectful(e) and self.cur_self != "mut":
                raw, eff, res = self._call(e) if e[0] == "call" else self._mcall(e)
                if res: return raw if not early else f"return (← {raw})"
                return f"return (← Rs.liftE (← {raw}))"
            elif self.effects and self.cur_self != "mut":
                return f"Rs.liftE {self.atom(e)}" if not early else f"return (← Rs.liftE {self.atom(e)})"
            elif not early and self.cur_self != "mut":
                return self.ex(e)
            else:
                v = f"(← {self.ex(e)})"
        else:
            v = self.ex(e)
        if self.cur_self == "mut":
            v = "self" if self.cur_ret_unit else f"({v}, self)"
        if getattr(self, "mut_params", None):
            v = "(" + ", ".join([v] + self.mut_params) + ")"
        return "return " + v
    def branching(self, e, ind, mode):
        k = e[0]; L = []
        if k == "if":
            L.append(ind + f"if {self.ex(e[1])} then")
            L += self.seq(e[2], ind + "  ", mode)
            if e[3] is not None:
                L.append(ind + "else"); L += self.seq(e[3], ind + "  ", mode)
            elif mode == "val": raise Unsupported("if without else as a value")
            return L
        if k == "iflet":
            L.append(ind + f"match {self.ex(e[2])} with")
            L.append(ind + f"| {self.pat(e[1])} =>"); L += self.seq(e[3], ind + "    ", mode)
            L.append(ind + "| _ =>")
            if e[4] is not None: L += self.seq(e[4], ind + "    ", mode)
            else: L.append(ind + "    pure ()")
            return L
        if k == "match":
            scr, arms = self.match_head(e)
            L.append(ind + f"match {scr} with")
            for pats, g, b in arms:
                if g is not None: raise Unsupported("match guard")
                L.append(ind + "| " + " | ".join(pats) + " =>")
                L += self.seq(b if b[0] == "block" else ("block", [], b), ind + "    ", mode)
            return L
    def stmt(self, s, ind):
        saved = self.pre; self.pre = []
        try:
            taken = []
            def untake(e):
                # `std::mem::take(&mut x)` -> `x`, and `x := default` after the statement
                if isinstance(e, tuple):
                    if len(e) == 3 and e[0] == "call" and e[1][0] == "path" and e[1][1][-2:] == ["mem", "take"] and len(e[2]) == 1 \
                       and e[2][0][0] == "path" and len(e[2][0][1]) == 1:
                        taken.append(lname(e[2][0][1][0])); return e[2][0]
                    return tuple(untake(x) for x in e)
                if isinstance(e, list): return [untake(x) for x in e]
                return e
            if s[0] == "expr" and s[1][0] in ("mcall", "call", "assign"): s = untake(s)
            L = self._stmt(s, ind)
            return [ind + x for x in self.pre] + L + [ind + f"{x} := default" for x in taken]
        finally:
            self.pre = saved
    def _stmt(self, s, ind):
        pr = self.pair_read(s)
        if pr is not None:
            raw, buf, target, decl = pr
            self.qn += 1; q = f"__r{self.qn}"
            return [ind + f"let {q} ← {raw}", ind + f"{buf} := {q}.2", ind + (f"{decl} {target} := {q}.1" if decl else f"{target} := {q}.1")]
        if s[0] == "let" and s[1][0] == "bind" and s[4] is not None and s[4][0] == "mcall" and s[4][2] == "unwrap" and not s[4][3] \
           and s[4][1][0] == "mcall" and s[4][1][2] == "lock" and s[4][1][1] == ("path", [s[1][1]]):
            return []          # `let mut v = v.lock().unwrap();` — the guard shadows the mutex: updates go to `v` itself
        if s[0] == "let" and s[1][0] == "bind" and s[1][1] in self.unit.get("skip_lock_lets", []) and s[4] is not None and s[4][0] == "mcall" \
           and s[4][2] == "unwrap" and s[4][1][0] == "mcall" and s[4][1][2] == "lock":
            return []          # a mutex guard whose every use is an operation of the world (spec `recv_fx_methods`)
        if s[0] == "let" and s[1][0] == "bind" and s[4] is not None and self.effects:
            # `let v: io::Result<Vec<T>> = (a..b).into_par_iter().map(|i| { … }).collect();` — the closure runs for every index IN
            # ORDER (the parallel iterator's `collect` preserves the index order; an `Err` of any element is the result)
            e0 = s[4]
            if e0[0] == "mcall" and e0[2] == "collect" and e0[1][0] == "mcall" and e0[1][2] == "map" and len(e0[1][3]) == 1 and e0[1][3][0][0] == "closure" \
               and e0[1][1][0] == "mcall" and e0[1][1][2] in ("into_par_iter", "into_iter", "par_iter") and e0[1][1][1][0] in ("range", "paren") \
               and len(e0[1][3][0][1]) == 1 and e0[1][3][0][1][0][0] == "bind" and not self.pure_expr(e0[1][3][0][2]):
                rng_ = e0[1][1][1]
                while rng_[0] == "paren": rng_ = rng_[1]
                if rng_[0] == "range":
                    clo = e0[1][3][0]; ix = lname(clo[1][0][1]); v = lname(s[1][1])
                    body = clo[2] if clo[2][0] == "block" else ("block", [], clo[2])
                    saved = self.cur_result; self.cur_result = True
                    try:
                        L = [ind + f"let {v} ← Rs.capture (do", ind + "    let mut __acc := []",
                             ind + f"    for {ix} in {self.ex(rng_)} do", ind + "      let __x ← (do"] + self.seq(body, ind + "          ", "ret")
                    finally:
                        self.cur_result = saved
                    L[-1] = L[-1] + ")"
                    L += [ind + "      __acc := __acc ++ [__x]", ind + "    return __acc)"]
                    return L
        if s[0] == "let" and s[1][0] == "bind" and s[4] is not None and s[4][0] == "asyncblock":
            # `let r: Result<T> = async { … }.await;` — the block runs in place; its own `?` / `return` leave the BLOCK
            body = s[4][1]
            saved = self.cur_result; self.cur_result = True
            try:
                L = [ind + f"let {lname(s[1][1])} ← Rs.capture (do"] + self.seq(body, ind + "    ", "ret")
            finally:
                self.cur_result = saved
            L[-1] = L[-1] + ")"
            return L
        if s[0] == "let":
            _, p, mut, ty, init, els = s
            te = self.unit.get("typed_externs", [])
            if ty is not None and init is not None and init[0] == "try" and init[1][0] == "call" and init[1][1][0] == "path" \
               and "_".join(init[1][1][1]) in te:
                init = ("try", ("call", ("path", ["_".join(init[1][1][1]) + "_" + ty[1]]), init[1][2]))
            if els is not None: raise Unsupported("let-else")
            if init is None: raise Unsupported("let without initialiser")
            tys = f" : {self.ty(ty)}" if ty is not None else ""
            pp = self.pat(p)
            if init[0] == "closure" and p[0] == "bind":
                if not hasattr(self, "local_closures"): self.local_closures = set()
                self.local_closures.add(p[1])
            kw = "let mut" if mut else "let"
            if init[0] in ("if", "iflet", "match", "block") and not self.pure_expr(init):
                L = [ind + f"{kw} {pp}{tys} ←"]
                return L + self.branching_or_block(init, ind + "  ", "val")
            if p[0] in ("bind", "wild"):
                return [ind + f"{kw} {pp}{tys} := {self.ex(init)}"]
            return [ind + f"{kw} {pp}{tys} := {self.ex(init)}"]
        e = s[1]; k = e[0]
        if k == "macro":
            name = "::".join(e[1])
            if name in self.skip_macros: return []
            if name in ("anyhow::bail", "bail") and self.cur_result: return [ind + "throw (Rs.Err.config Rs.opaqueMsg)"]
            if name == "tokio::select" and self.effects and "tokio_select" in self.externs:
                # `tokio::select! { p0 = fut0 => body0, p1 = fut1 => body1, … }`: WHICH future completes first is an operation
                # of the world (`tokio_select n` answers an arm index below n; the last arm also stands for any other answer)
                sub = P(list(e[2]) + [("eof", "", 0)], "macro"); arms = []
                while sub.peek()[0] != "eof":
                    sub.pat(); sub.expect("="); sub.expr(nostruct=True); sub.expect("=>")
                    body = sub.block() if sub.at("{") else ("block", [], sub.expr())
                    sub.eat(","); arms.append(body)
                self.cur_uses_ext = True
                L = [ind + f"match (← ext.tokio_select {len(arms)}) with"]
                for i, b in enumerate(arms):
                    L.append(ind + (f"| {i} =>" if i + 1 < len(arms) else "| _ =>"))
                    L += self.seq(b, ind + "    ", "unit")
                return L
            raise Unsupported(f"macro statement {name}!")
        if k == "assign":
            op, lhs, rhs = e[1], e[2], e[3]
            if rhs[0] in ("if", "iflet", "match", "block") and not self.pure_expr(rhs):
                raise Unsupported("assignment from a statement-bearing expression")
            r = self.ex(rhs)
            if lhs[0] == "path" and len(lhs[1]) == 1 and lhs[1][0] in self.unit.get("skip_assign_to", []): return []
            if lhs[0] == "path" and len(lhs[1]) == 1:
                x = lname(lhs[1][0])
                if op == "=": return [ind + f"{x} := {r}"]
                return [ind + f"{x} := {x} {self.BINOP[op[:-1]]} {r}"]
            if lhs[0] == "field" and lhs[1][0] == "path" and len(lhs[1][1]) == 1:
                x = lname(lhs[1][1][0]); f = lname(lhs[2])
                if op == "=": return [ind + f"{x} := {{ {x} with {f} := {r} }}"]
                return [ind + f"{x} := {{ {x} with {f} := {x}.{f} {self.BINOP[op[:-1]]} {r} }}"]
            raise Unsupported("assignment target")
        if k == "return" and e[1] is not None and e[1][0] in ("if", "iflet", "match") and not self.pure_expr(e[1]):
            return self.branching(e[1], ind, "ret")
        if k == "return":
            if e[1] is None:
                return [ind + ("return self" if self.cur_self == "mut" else "return ()")]
            return [ind + self.ret(e[1], early=True)]
        if k == "break": return [ind + "break"]
        if k == "continue": return [ind + "continue"]
        if k in ("if", "iflet", "match"):
            return self.branching(e, ind, "unit")
        if k == "block": return self.seq(e, ind, "unit")
        if k == "for":
            _, p, it, body = e
            pp = self.pat(p)
            itx = self.ex(it)
            L = [ind + f"for {pp} in {itx} do"]
            return L + self.seq(body, ind + "  ", "unit")
        if k == "while":
            fuel = self.unit.get("fuel", {}).get(self.cur_fn)
            if fuel is None: raise Unsupported("while loop without a fuel bound in the spec")
            L = [ind + f"for _ in [0:{fuel}] do", ind + f"  if !({self.ex(e[1])}) then break"]
            return L + self.seq(e[2], ind + "  ", "unit")
        if k == "loop":
            fuel = self.unit.get("fuel", {}).get(self.cur_fn)
            if fuel is None: raise Unsupported("loop without a fuel bound in the spec")
            return [ind + f"for _ in [0:{fuel}] do"] + self.seq(e[1], ind + "  ", "unit")
        if k == "path" and len(e[1]) == 1 and e[1][0] in self.unit.get("await_vars", {}):
            self.cur_uses_ext = True
            return [ind + f"let _ ← ext.{self.unit['await_vars'][e[1][0]]} {lname(e[1][0])}"]          # `fut.await;`
        if k == "mcall":
            recv, m, args = e[1], e[2], e[3]
            if m in self.unit.get("skip_method_stmts", []): return []
            if recv[0] == "path" and len(recv[1]) == 1 and f"{recv[1][0]}.{m}" in self.unit.get("recv_fx_methods", {}):
                self.cur_uses_ext = True
                return [ind + "let _ ← " + " ".join([f"ext.{self.unit['recv_fx_methods'][recv[1][0] + '.' + m]}"] + ([self.atom(x) for x in args] or ["()"]))]
            if m == "push" and len(args) == 1 and recv[0] == "mcall" and recv[2] == "or_default" and not recv[3] \
               and recv[1][0] == "mcall" and recv[1][2] == "entry" and len(recv[1][3]) == 1 \
               and recv[1][1][0] == "path" and len(recv[1][1][1]) == 1:
                # map.entry(k).or_default().push(v)
                x = lname(recv[1][1][1][0])
                return [ind + f"{x} := Rs.entry_push {x} {self.atom(recv[1][3][0])} {self.atom(args[0])}"]
            if recv[0] == "path" and len(recv[1]) == 1:
                x = lname(recv[1][0])
                if m in self.unit.get("mut_ext_methods", {}):
                    # a `&mut self` method of an extern type: the operation of `Ext` returns the new value
                    self.cur_uses_ext = True
                    return [ind + f"{x} := " + " ".join([f"ext.{self.unit['mut_ext_methods'][m]}", x] + [self.atom(a) for a in args])]
                if m == "extend_from_slice" and len(args) == 1: return [ind + f"{x} := {x} ++ {self.atom(args[0])}"]
                if m == "drain" and len(args) == 1 and args[0][0] == "range" and args[0][2] is not None and not args[0][3]:
                    return [ind + f"{x} := Rs.drain_range {x} {self.atom(args[0][1])} {self.atom(args[0][2])}"]
                if m == "push" and len(args) == 1 and recv[1][0] in self.unit.get("string_vars", []):
                    # `OsString::push(&str)` / `String::push_str`: text appended (the spec names the variables that are texts)
                    return [ind + f"{x} := {x} ++ {self.atom(args[0])}"]
                if m == "push" and len(args) == 1: return [ind + f"{x} := {x} ++ [{self.ex(args[0])}]"]
                if m == "push_str" and len(args) == 1: return [ind + f"{x} := {x} ++ {self.ex(args[0])}"]
                if m == "clear" and not args: return [ind + f"{x} := Rs.clear {x}"]
                if m == "insert" and len(args) == 2: return [ind + f"{x} := Rs.insert_mut {x} {self.atom(args[0])} {self.atom(args[1])}"]
                if m == "insert" and len(args) == 1: return [ind + f"{x} := Rs.set_insert {x} {self.atom(args[0])}"]
                if m == "extend" and len(args) == 1 and recv[1][0] in self.unit.get("vec_vars", []):
                    # `Vec::extend` appends (no type inference: the spec names the variables that are `Vec`s; the default reading of
                    # `extend` is `HashSet::extend`)
                    return [ind + f"{x} := {x} ++ {self.atom(args[0])}"]
                if m == "extend" and len(args) == 1: return [ind + f"{x} := Rs.extend {x} {self.atom(args[0])}"]
                if m == "sort_by_key" and len(args) == 1:
                    # `Vec::sort_by_key` is a STABLE sort; the vocabulary has it for a Boolean key only (false before true) — a key of
                    # another type does not type-check in the generated file
                    return [ind + f"{x} := Rs.sort_by_key_bool {x} {self.atom(args[0])}"]
                if m == "append" and len(args) == 1 and args[0][0] == "path" and len(args[0][1]) == 1:
                    # `a.append(&mut b)`: b's elements move to the end of a, b is left empty
                    y = lname(args[0][1][0])
                    return [ind + f"{x} := {x} ++ {y}", ind + f"{y} := []"]
                if m == "remove" and len(args) == 1: return [ind + f"{x} := Rs.remove_mut {x} {self.atom(args[0])}"]
                for key, (ln, it) in self.local_fns.items():
                    if it["name"] == m and it["self"] == "mut" and len(it["params"]) == len(args):
                        pre = ["ext"] if ln in self.fns_using_ext else []
                        if pre: self.cur_uses_ext = True
                        c = " ".join([ln] + pre + [x] + [self.atom(a) for a in args])
                        if it["ret"] is None: return [ind + f"{x} := {c}"]
                        raise Unsupported("discarded result of a &mut self method")
            if recv[0] == "field" and recv[1][0] == "path" and len(recv[1][1]) == 1 and m in ("insert", "push", "remove", "clear", "extend"):
                x = lname(recv[1][1][0]); f = lname(recv[2])
                call = " ".join([f"Rs.{m}_mut", f"{x}.{f}"] + [self.atom(a) for a in args])
                return [ind + f"{x} := {{ {x} with {f} := {call} }}"]
            if self.effects and self.call_is_effectful(e):
                return [ind + f"let _ ← {self.ex(e)[3:-1] if self.ex(e).startswith('(← ') else self.ex(e)}"]
            raise Unsupported(f"method call statement .{m}()")
        if k == "try" and self.strip_adapt(e[1])[0] == "mcall" and self.ext_methods.get(self.strip_adapt(e[1])[2], {}).get("assign_arg") is not None \
           and not self.ext_methods[self.strip_adapt(e[1])[2]].get("returns_pair"):
            mc = self.strip_adapt(e[1]); em = self.ext_methods[mc[2]]; a = mc[3][em["assign_arg"]]
            if a[0] != "path" or len(a[1]) != 1: raise Unsupported("out-parameter that is not a local variable")
            v = self.ex(e)
            return [ind + f"{lname(a[1][0])} := {v}"]
        if k == "try":
            v = self.ex(e)
            return [ind + f"let _ ← {v[3:-1]}"] if v.startswith("(← ") and v.endswith(")") else [ind + f"let _ := {v}"]
        if k == "call" and e[1][0] == "path" and "::".join(e[1][1]) in self.unit.get("skip_calls", []): return []
        if k == "call" and self.effects and self.call_is_effectful(e):
            v = self.ex(e)
            return [ind + f"let _ ← {v[3:-1]}"]
        raise Unsupported(f"statement {k}")
    def strip_adapt(self, e):
        while e[0] == "mcall" and ((e[2] in ERASED_METHODS and not e[3]) or e[2] in ("map_err", "with_context", "context")):
            e = e[1]
        return e
    def pair_read(self, s):
        """`[let [mut]] n = h.m(&mut buf)?` where the world operation `m` (spec: returns_pair) answers (result, new buffer)"""
        if s[0] == "let" and s[1][0] == "bind" and s[4] is not None: target, decl, init = lname(s[1][1]), ("let mut" if s[2] else "let"), s[4]
        elif s[0] == "expr" and s[1][0] == "assign" and s[1][1] == "=" and s[1][2][0] == "path" and len(s[1][2][1]) == 1:
            target, decl, init = lname(s[1][2][1][0]), None, s[1][3]
        else: return None
        if init[0] != "try": return None
        mc = self.strip_adapt(init[1])
        if mc[0] != "mcall": return None
        em = self.ext_methods.get(f"{mc[2]}/{len(mc[3])}", self.ext_methods.get(mc[2]))
        if not em or not em.get("returns_pair"): return None
        a = mc[3][em["assign_arg"]]
        self.cur_uses_ext = True
        if a[0] == "index" and a[1][0] == "path" and len(a[1][1]) == 1 and a[2][0] == "range" and a[2][1] == ("num", "0", None) \
           and a[2][2] is not None and not a[2][3] and em.get("upto"):
            # `h.read(&mut buf[..n])`: the operation may fill at most the first n bytes of `buf`
            raw = " ".join([f"ext.{em['upto']}", self.atom(mc[1]), lname(a[1][1][0]), self.atom(a[2][2])])
            return raw, lname(a[1][1][0]), target, decl
        if a[0] != "path" or len(a[1]) != 1: raise Unsupported("out-parameter that is not a local variable")
        raw = " ".join([f"ext.{em['name']}", self.atom(mc[1])] + [self.atom(x) for x in mc[3]])
        return raw, lname(a[1][0]), target, decl
    def branching_or_block(self, e, ind, mode):
        if e[0] == "block": return self.seq(e, ind, mode)
        return self.branching(e, ind, mode)

    # ---- items
    def const(self, it):
        return f"def {it['name']} : {self.ty(it['ty'])} := {self.ex(it['value'])}"
    def enum(self, it):
        L = [f"inductive {it['name']} where"]
        for v, tys in it["variants"]:
            if not tys: L.append(f"  | {lname(v)}")
            elif tys[0][0] is None: L.append(f"  | {lname(v)} : " + " → ".join(self.ty(t) for _, t in tys) + f" → {it['name']}")
            else: L.append(f"  | {lname(v)} " + " ".join(f"({lname(f)} : {self.ty(t)})" for f, t in tys))
        L.append("  deriving DecidableEq, Repr, Inhabited")
        return "\n".join(L)
    def struct(self, it):
        L = [f"structure {it['name']} where"]
        for f, t in it["fields"]: L.append(f"  {lname(f)} : {self.ty(t)}")
        L.append("  deriving DecidableEq, Repr, Inhabited")
        return "\n".join(L)
    def closure_fn(self, key, ln, it):
        """a closure with early returns and captured mutable variables, as a state-passing function"""
        self.cur_fn = key; self.cur_owner = it["owner"] or ""; self.cur_result = False; self.cur_self = None
        self.cur_ret_unit = False; self.ret_self_only = False; self.cur_uses_ext = False
        self.mut_params = [n for n, t, *m in it["params"] if m]
        try:
            body = it["closure"][2]
            if body[0] != "block": body = ("block", [], body)
            L = [f"  let mut {n} := {n}" for n in self.mut_params]
            L += self.seq(body, "  ", "ret")
            rty = it["rty"] if not self.mut_params else "(" + " × ".join([it["rty"]] + [t for n, t, *m in it["params"] if m]) + ")"
            return f"def {ln} " + " ".join(f"({n} : {t})" for n, t, *m in it["params"]) + f" : {rty} := Id.run do\n" + "\n".join(L)
        finally:
            self.mut_params = []
    def fragfx_fn(self, key, ln, it):
        self.cur_fn = key.split(" @ ")[0]; self.cur_owner = it["owner"] or ""; self.cur_result = False; self.cur_self = None
        self.cur_ret_unit = False; self.ret_self_only = False; self.cur_uses_ext = True; self.cur_opt = False; self.mut_params = []
        muts = [n for n, t, *m in it["params"] if m]
        e = it["expr"]
        L = [f"  let mut {n} := {n}" for n in muts]
        if it.get("unit_body"):
            # `frag_result` (spec): a fragment of statements may answer the final value of one of the variables it declares
            L += self.seq(e if e[0] == "block" else ("block", [], e), "  ", "unit"); L.append("  let __res := " + lname(self.unit.get("frag_result", {}).get(ln, "()")))
        elif e[0] in ("if", "iflet", "match", "block") and not self.pure_expr(e):
            L.append("  let __res ←"); L += self.branching_or_block(e, "    ", "val")
        else:
            saved = self.pre; self.pre = []
            v = self.ex(e); L += ["  " + x for x in self.pre] + [f"  let __res := {v}"]; self.pre = saved
        L.append("  return " + ("(" + ", ".join(["__res"] + muts) + ")" if muts else "__res"))
        rty = it["rty"] if not muts else "(" + " × ".join([it["rty"]] + [t for n, t, *m in it["params"] if m]) + ")"
        self.fns_using_ext.add(ln)
        return f"def {ln} {{W : Type}} (ext : Ext W) " + " ".join(f"({n} : {t})" for n, t, *m in it["params"]) + f" : Rs.M W {rty} := do\n" + "\n".join(L)
    def fn(self, key, ln, it):
        if key in self.unit.get("self_by_ref", []):
            # a `&mut self` method whose only mutation goes through a field that is an operation of the world (an iterator, a handle):
            # `self` itself is read-only in the translation
            it = dict(it, self="ref")
        self.mut_params = []
        self.cur_fn = key; self.cur_owner = it["owner"] or ""
        self.cur_result = self.is_result(it["ret"]); self.cur_self = it["self"]
        self.cur_ret_unit = it["ret"] is None or it["ret"] == ("tuple", [])
        self.ret_self_only = it["self"] == "mut" and self.cur_ret_unit
        self.cur_uses_ext = False
        self.cur_opt = it["ret"] is not None and it["ret"][0] == "app" and it["ret"][1] == "Option"
        self.qn = 0
        params = []
        if it["self"]: params.append(f"(self : {it['owner']})")
        for p, t in it["params"]:
            pn = self.pat(p) if p[0] == "bind" else "_"
            params.append(f"({pn} : {self.ty(t)})")
        if it["ret"] is not None and self.cur_result:
            inner = it["ret"][2][0]
            rty_inner = self.ty(inner)
        rty = self.ty(it["ret"])
        if it["self"] == "mut":
            if self.cur_result: raise Unsupported("&mut self method returning Result")
            rty = it["owner"] if self.cur_ret_unit else f"({rty} × {it['owner']})"
        body = it["body"]
        effectful = self.effects and ln in self.fns_using_ext
        if effectful and self.cur_result: rty = f"(Rs.M W {rty_inner})"
        elif effectful: rty = f"(Rs.M W {rty})"
        simple = (not body[1]) and body[2] is not None and self.pure_expr(body[2]) and it["self"] != "mut" and not self.cur_result and not effectful
        if simple:
            text = "\n  " + self.ex(body[2])
        else:
            L = []
            if it["self"] == "mut": L.append("  let mut self := self")
            L += self.seq(body, "  ", "ret")
            head = "do" if (self.cur_result or effectful) else "Id.run do"
            text = " " + head + "\n" + "\n".join(L)
        pre = (" {W : Type} (ext : Ext W)" if self.effects else " (ext : Ext)") if (self.cur_uses_ext or ln in self.fns_using_ext) else ""
        if self.cur_uses_ext and ln not in self.fns_using_ext: raise _NeedsExt(ln)
        return f"def {ln}{pre} " + " ".join(params) + f" : {rty} :={text}"

class _NeedsExt(Exception):
    def __init__(self, ln): self.ln = ln

def mentions(e, name):
    if isinstance(e, tuple):
        if e[:1] == ("path",) and e[1] == [name]: return True
        return any(mentions(x, name) for x in e)
    if isinstance(e, list): return any(mentions(x, name) for x in e)
    return False

def find_closure(e):
    if isinstance(e, tuple):
        if e[:1] == ("closure",): return e
        for x in e:
            c = find_closure(x)
            if c is not None: return c
    elif isinstance(e, list):
        for x in e:
            c = find_closure(x)
            if c is not None: return c
    return None

def find_fragment_in_tokens(it, sel):
    """fallback for a function the parser cannot read as a whole: find the selected `let` / `if` by scanning its tokens and
    parse only that expression"""
    kind, name = sel.split(":")
    nth = None
    if "#" in name: name, nth = name.split("#")[0], int(name.split("#")[1])
    toks = list(it["toks"]) + [("eof", "", 0)]
    found = []
    for i, t in enumerate(toks):
        if kind == "let" and t[:2] == ("id", "let"):
            k = i + 1
            if toks[k][:2] == ("id", "mut"): k += 1
            if toks[k][:2] != ("id", name): continue
            sub = P(toks, it["fname"]); sub.i = k + 1
            try:
                if sub.eat(":"): sub.ty()
                if not sub.eat("="): continue
                found.append(sub.expr())
            except Unsupported: continue
        if kind == "forbody" and t[:2] == ("id", "for") and toks[i + 1][:2] == ("id", name.split("@")[0]) and toks[i + 2][:2] == ("id", "in"):
            sub = P(toks, it["fname"]); sub.i = i + 3
            try:
                itx = sub.expr(nostruct=True)
                if "@" in name and not mentions(itx, name.split("@")[1]): continue
                found.append(sub.block())
            except Unsupported: continue
        if kind == "iflet" and t[:2] == ("id", "if") and toks[i + 1][:2] == ("id", "let"):
            sub = P(toks, it["fname"]); sub.i = i + 1
            try: c = sub.if_rest()
            except Unsupported: continue
            if c[0] == "iflet" and mentions(c[2], name): found.append(c)
        if kind == "ifletbody" and t[:2] == ("id", "if") and toks[i + 1][:2] == ("id", "let"):
            sub = P(toks, it["fname"]); sub.i = i + 1
            try: c = sub.if_rest()
            except Unsupported: continue
            if c[0] == "iflet" and mentions(c[2], name): found.append(c[3])
        if kind in ("if", "iflast") and t[:2] == ("id", "if") and toks[i + 1][:2] != ("id", "let"):
            sub = P(toks, it["fname"]); sub.i = i + 1
            try: c = sub.expr(nostruct=True)
            except Unsupported: continue
            if mentions(c, name): found.append(c)
        if kind == "rest" and t[:2] == ("id", "let"):
            # `rest:NAME` = the statements of the enclosing block from `let [mut] NAME` to the end of that block, as a block
            k = i + 1
            if toks[k][:2] == ("id", "mut"): k += 1
            if toks[k][:2] != ("id", name): continue
            sub = P([("p", "{", t[2])] + toks[i:], it["fname"]); sub.i = 0
            try: found.append(sub.block())
            except Unsupported: continue
        if kind == "span" and ".." in name and t[0] == "id":
            # `span:RECV.METHOD..NAME` = the statements from the expression statement `RECV.METHOD(…);` up to and including the next
            # `let [mut] NAME … ;`, as a block
            first, last = name.split("..")
            rv, mt = first.split(".")
            if not (t[1] == rv and toks[i + 1][:2] == ("p", ".") and toks[i + 2][:2] == ("id", mt)): continue
            j = i
            while j < len(toks) - 2 and not (toks[j][:2] == ("id", "let") and (toks[j + 1][:2] == ("id", last) or (toks[j + 1][:2] == ("id", "mut") and toks[j + 2][:2] == ("id", last)))): j += 1
            depth = 0
            while j < len(toks) - 1:
                if toks[j][0] == "p" and toks[j][1] in "([{": depth += 1
                if toks[j][0] == "p" and toks[j][1] in ")]}": depth -= 1
                if toks[j][:2] == ("p", ";") and depth == 0: break
                j += 1
            sub = P([("p", "{", t[2])] + toks[i:j + 1] + [("p", "}", toks[j][2]), ("eof", "", 0)], it["fname"]); sub.i = 0
            try: found.append(sub.block())
            except Unsupported: continue
    if nth is not None: return found[nth - 1] if len(found) >= nth else None
    if kind == "let" or (kind == "forbody" and "@" not in name): return found[0] if len(found) == 1 else None
    if kind == "iflast": return found[-1] if found else None
    return found[0] if found else None

def find_fragment(body, sel):
    """`let:NAME` = the initialiser of the unique `let NAME = …;` in the function;
       `if:NAME`  = the condition of the first `if` (source order) whose condition mentions NAME."""
    kind, name = sel.split(":")
    nth = None
    if "#" in name: name, nth = name.split("#")[0], int(name.split("#")[1])
    found = []
    def walk(e):
        if isinstance(e, tuple):
            if kind == "let" and e[:1] == ("let",) and len(e) == 6 and e[1] == ("bind", name) and e[4] is not None: found.append(e[4])
            if kind in ("if", "iflast") and e[:1] == ("if",) and len(e) == 4 and mentions(e[1], name): found.append(e[1])
            if kind == "iflet" and e[:1] == ("iflet",) and len(e) == 5 and mentions(e[2], name): found.append(e)
            if kind == "ifletbody" and e[:1] == ("iflet",) and len(e) == 5 and mentions(e[2], name): found.append(e[3])
            if kind == "forbody" and e[:1] == ("for",) and len(e) == 4 and e[1] == ("bind", name.split("@")[0]) \
               and ("@" not in name or mentions(e[2], name.split("@")[1])): found.append(e[3])
            if kind in ("rest", "span") and e[:1] == ("block",) and len(e) == 3 and isinstance(e[1], list):
                is_let = lambda st, nm: st[:1] == ("let",) and len(st) == 6 and st[1] == ("bind", nm)
                if kind == "rest":
                    # `rest:NAME` = the statements of the enclosing block from `let [mut] NAME` to the end of that block, as a block
                    for k_, st in enumerate(e[1]):
                        if is_let(st, name): found.append(("block", e[1][k_:], e[2])); break
                else:
                    # `span:RECV.METHOD..NAME` = the statements from the expression statement `RECV.METHOD(…);` up to and including the
                    # next `let [mut] NAME … ;`, as a block
                    first, last = name.split(".."); rv, mt = first.split(".")
                    for a_, st in enumerate(e[1]):
                        if st[:1] == ("expr",) and st[1][:1] == ("mcall",) and st[1][1] == ("path", [rv]) and st[1][2] == mt:
                            for b_ in range(a_, len(e[1])):
                                if is_let(e[1][b_], last): found.append(("block", e[1][a_:b_ + 1], None)); break
                            break
            for x in e: walk(x)
        elif isinstance(e, list):
            for x in e: walk(x)
    walk(body)
    if nth is not None: return found[nth - 1] if len(found) >= nth else None
    if kind == "let" or (kind == "forbody" and "@" not in name): return found[0] if len(found) == 1 else None
    if kind == "iflast": return found[-1] if found else None
    return found[0] if found else None

def translate_unit(unit, repo):
    """returns (lean text, [errors])"""
    files = {}
    em = None
    items_by_file = {}
    def items_of(f):
        if f not in items_by_file: items_by_file[f] = parse_file(os.path.join(repo, f))
        return items_by_file[f]
    em = Emit(unit, None)
    for en in unit.get("extra_enums", []): em.enums[en] = {"name": en, "variants": []}      # enums declared by hand in the spec
    decls = []   # (kind, rust key, lean name, item)
    for ent in unit["items"]:
        if ent[0] == "lean":
            decls.append(("lean", "handwritten", "", {"text": ent[1], "name": ent[2] if len(ent) > 2 else None}, "(spec)"))
            if len(ent) > 2 and ent[2]: em.structs[ent[2]] = {"name": ent[2], "fields": [(f, None) for f in ent[3]]}
            continue
        if ent[0] == "closure":
            # ("closure", file, fn, selector, lean name, [(param, lean type[, "mut"])], lean result type): the first closure
            # inside the selected expression, as a function of its parameters and of the captured variables listed
            _, f, key, sel, ln, params, rty = ent
            its = items_of(f)
            if key not in its: raise Unsupported(f"{f}: item `{key}` not found")
            e = find_fragment_in_tokens(its[key], sel) if its[key]["kind"] == "error" else find_fragment(its[key]["body"], sel)
            c = find_closure(e) if e is not None else None
            if c is None: raise Unsupported(f"{f}: `{key}`: no closure in fragment `{sel}`")
            decls.append(("closure", key + " @ " + sel, ln, {"closure": c, "params": params, "rty": rty, "owner": its[key]["owner"]}, f))
            continue
        if ent[0] == "fragfx":
            # ("fragfx", file, fn, selector, lean name, [(param, lean type[, "mut"])], lean result type): an EFFECTFUL fragment — the
            # selected initialiser run in the unit's monad; parameters marked "mut" are captured mutable variables, threaded
            # (the function answers (result, var'…))
            _, f, key, sel, ln, params, rty = ent
            its = items_of(f)
            if key not in its: raise Unsupported(f"{f}: item `{key}` not found")
            e = find_fragment_in_tokens(its[key], sel) if its[key]["kind"] == "error" else find_fragment(its[key]["body"], sel)
            if e is None: raise Unsupported(f"{f}: `{key}`: fragment `{sel}` not found (or not unique)")
            decls.append(("fragfx", key + " @ " + sel, ln, {"expr": e, "params": params, "rty": rty, "owner": its[key]["owner"], "unit_body": sel.split(":")[0] in ("forbody", "iflet", "ifletbody", "rest", "span")}, f))
            continue
        if ent[0] == "frag":
            # ("frag", file, fn, selector, lean name, [(param, lean type)], lean result type)
            _, f, key, sel, ln, params, rty = ent
            its = items_of(f)
            if key not in its: raise Unsupported(f"{f}: item `{key}` not found")
            e = find_fragment_in_tokens(its[key], sel) if its[key]["kind"] == "error" else find_fragment(its[key]["body"], sel)
            if e is None: raise Unsupported(f"{f}: `{key}`: fragment `{sel}` not found (or not unique)")
            decls.append(("frag", key + " @ " + sel, ln, {"expr": e, "params": params, "rty": rty, "owner": its[key]["owner"]}, f))
            continue
        f, key = ent[0], ent[1]
        ln = ent[2] if len(ent) > 2 else key.replace("::", ".")
        its = items_of(f)
        if key not in its: raise Unsupported(f"{f}: item `{key}` not found")
        it = its[key]
        if it["kind"] == "error": raise Unsupported(f"{f}: `{key}`: {it['msg']}")
        decls.append((it["kind"], key, ln, it, f))
        if it["kind"] == "enum": em.enums[it["name"]] = it
        if it["kind"] == "struct": em.structs[it["name"]] = it
        if it["kind"] == "const": em.consts.add(it["name"])
        if it["kind"] == "fn": em.local_fns[key] = (ln, it)
    for ent in unit.get("uses", []):
        f, key, ln = ent[0], ent[1], ent[2]
        its = items_of(f)
        if key not in its or its[key]["kind"] == "error": raise Unsupported(f"{f}: used item `{key}` not available")
        it = dict(its[key])
        if it["kind"] == "enum": em.enums[it["name"]] = it
        elif it["kind"] == "struct": em.structs[it["name"]] = it
        elif it["kind"] == "const": em.consts.add(it["name"])
        elif it["kind"] == "fn":
            it["_used"] = True; it["_ext"] = ent[3] if len(ent) > 3 else None
            em.local_fns[key] = (ln, it)
    em.fns_using_ext = set()
    while True:
        try:
            out = []
            em.cur_owner = ""
            for kind, key, ln, it, f in decls:
                src = f"-- {f} :: {key}"
                if kind == "const": em.cur_owner = ""; out.append(("type", src + "\n" + em.const(it)))
                elif kind == "enum": out.append(("type", src + "\n" + em.enum(it)))
                elif kind == "struct": out.append(("type", src + "\n" + em.struct(it)))
                elif kind == "lean": out.append(("type", "-- handwritten in tools/rs2lean_spec.py (trusted)\n" + it["text"]))
                elif kind == "closure": out.append(("fn", src + "\n" + em.closure_fn(key, ln, it)))
                elif kind == "fragfx": out.append(("fn", src + "\n" + em.fragfx_fn(key, ln, it)))
                elif kind == "frag":
                    em.cur_owner = it["owner"] or ""; em.cur_fn = key; em.cur_result = False; em.cur_self = None
                    out.append(("fn", src + "\n" + f"def {ln} " + " ".join(f"({n} : {t})" for n, t in it["params"]) + f" : {it['rty']} :=\n  " + em.ex(it["expr"])))
                else: out.append(("fn", src + "\n" + em.fn(key, ln, it)))
            break
        except _NeedsExt as e:
            em.fns_using_ext.add(e.ln)
    return out, em

def render(unit, out, em):
    ns = unit["module"]
    L = ["-- GENERATED by tools/rs2lean.py from the Rust source of /repo on every run. Do not edit.",
         "import SyModel.Generated.Prelude"] + [f"import {m}" for m in unit.get("imports", [])] + [
         "set_option linter.unusedVariables false\nset_option autoImplicit false", f"namespace SyModel.Generated.{ns}", "open SyModel.Generated"]
    for o in unit.get("opens", []): L.append(f"open {o}")
    if unit.get("preamble"): L.append(unit["preamble"])
    # constants and types in source order (a constant may precede the types: both kinds are declarations without `ext`),
    # then the structure of externs (its field types may mention them), then the functions
    decls = [t for k, t in out if k == "type"]
    fns = [t for k, t in out if k == "fn"]
    # a `frag`/`fn` of a unit WITHOUT externs keeps its place relative to the types (e.g. a constant used by a type)
    L += decls
    if unit.get("externs") or unit.get("ext_methods"):
        ty_of = lambda t: t["type"] if isinstance(t, dict) else t
        fields = [(lname(n), ty_of(t)) for n, t in unit.get("externs", {}).items()] + [(m["name"], m["type"]) for m in unit.get("ext_methods", {}).values()]
        L.append("/-- functions called by the translated code that are outside the translated subset (parameters of the model) -/\n"
                 + ("structure Ext (W : Type) where\n" if unit.get("effects") else "structure Ext where\n") + "\n".join(f"  {n} : {t}" for n, t in fields))
    L += fns
    L.append(f"end SyModel.Generated.{ns}")
    return "\n\n".join(L) + "\n"

def regenerate(repo, outdir, spec=None):
    """regenerates every unit; returns (ok, messages). A unit that cannot be translated leaves a file that does not
    compile (`#exit`-free), so that dependants fail loudly."""
    if spec is None:
        sys.path.insert(0, os.path.dirname(os.path.abspath(__file__)))
        import rs2lean_spec; spec = rs2lean_spec.UNITS
    os.makedirs(outdir, exist_ok=True)
    ok = True; msgs = []
    for unit in spec:
        path = os.path.join(outdir, unit["module"] + ".lean")
        try:
            out, em = translate_unit(unit, repo)
            text = render(unit, out, em)
        except Unsupported as e:
            ok = False; msgs.append(f"{unit['module']}: {e}")
            text = (f"-- GENERATED by tools/rs2lean.py: TRANSLATION FAILED\n-- {e}\n"
                    f"import SyModel.Generated.Prelude\n#eval (show IO Unit from throw (IO.userError {lean_str('rs2lean: ' + str(e))}))\n")
        old = open(path).read() if os.path.exists(path) else None
        if old != text:
            open(path, "w").write(text)
    return ok, msgs

if __name__ == "__main__":
    repo = sys.argv[1] if len(sys.argv) > 1 else "/repo"
    outdir = sys.argv[2] if len(sys.argv) > 2 else os.path.join(os.path.dirname(os.path.abspath(__file__)), "..", "lean", "SyModel", "Generated", "Code")
    ok, msgs = regenerate(repo, outdir)
    for m in msgs: print("UNSUPPORTED", m)
    print("rs2lean", "ok" if ok else "FAILED")
    sys.exit(0 if ok else 1)
