#!/usr/bin/env python3
"""check.py <ID> --tier quick|thorough [--replay F]

Decides one property: (T) re-check the Lean theorems of SyModel/Props/<ID>.lean against constants
regenerated from /repo's current source, audit their axioms; (K) run the correspondence streams of
the property (model driver vs. real code); (O) evaluate the property's oracle on the implementation.
Writes evidence/<ID>.json, prints VIOLATION / KNOWN-FINDING lines.  See DESIGN.md §1.
"""
import sys, os, json, time, subprocess, re, hashlib, fcntl, shutil

VERIF = os.path.dirname(os.path.dirname(os.path.abspath(__file__)))
sys.path.insert(0, os.path.join(VERIF, "tools"))
REPO = os.environ.get("SY_REPO", "/repo")
BUILD = os.path.join(VERIF, ".build")
LEAN = os.path.join(VERIF, "lean")
TARGET = os.path.join(BUILD, "target")
ALLOWED_AXIOMS = {"propext", "Classical.choice", "Quot.sound"}
FORBIDDEN = ["sorry", "admit", "native_decide", "bv_decide", "implemented_by", "unsafe ", "maxHeartbeats 0"]

def log(*a):
    print("[check]", *a, file=sys.stderr, flush=True)

def sh(cmd, **kw):
    return subprocess.run(cmd, text=True, stdout=subprocess.PIPE, stderr=subprocess.STDOUT, **kw)

class Lock:
    def __init__(self, name):
        os.makedirs(BUILD, exist_ok=True)
        self.f = open(os.path.join(BUILD, name + ".lock"), "w")
    def __enter__(self):
        fcntl.flock(self.f, fcntl.LOCK_EX); return self
    def __exit__(self, *a):
        fcntl.flock(self.f, fcntl.LOCK_UN); self.f.close()

def cargo_env():
    e = dict(os.environ)
    e["RUSTFLAGS"] = "--cfg nijaru_sy_verif"
    e["CARGO_TARGET_DIR"] = TARGET
    e["CARGO_NET_OFFLINE"] = "true"
    return e

def build_rust():
    """Rebuild sy's binaries and the harness from /repo's current working tree (hooks on)."""
    with Lock("cargo"):
        shutil.copyfile(os.path.join(REPO, "Cargo.lock"), os.path.join(VERIF, "harness", "Cargo.lock"))
        if REPO != "/repo":      # a relocated copy of /verif checking a scratch worktree (tools/iso_seed.sh): point the harness at it
            ct = os.path.join(VERIF, "harness", "Cargo.toml"); t = open(ct).read()
            t2 = re.sub(r'sy = \{ path = "[^"]*" \}', 'sy = { path = "%s" }' % REPO, t)
            if t2 != t: open(ct, "w").write(t2)
        r1 = sh(["cargo", "build", "--offline", "--bins", "--manifest-path", os.path.join(REPO, "Cargo.toml")], env=cargo_env())
        if r1.returncode != 0:
            return False, r1.stdout[-4000:]
        r2 = sh(["cargo", "build", "--offline", "--manifest-path", os.path.join(VERIF, "harness", "Cargo.toml")], env=cargo_env())
        if r2.returncode != 0:
            return False, r2.stdout[-4000:]
    return True, ""

def modules_of(prop):
    import props
    return [f"SyModel.Props.{prop}"] + props.PROPS[prop].get("extra_modules", [])

def build_lean(prop):
    """Regenerate constants from the Rust source, rebuild the property module and the driver."""
    import extract_consts, rs2lean
    with Lock("lake"):
        ok, msg = extract_consts.regenerate(REPO, os.path.join(LEAN, "SyModel", "Generated", "Consts.lean"))
        if not ok:
            return False, "extract_consts: " + msg, None, os.path.exists(os.path.join(LEAN, ".lake", "build", "bin", "sydriver"))
        # the translated functions (Generated/Code/*.lean): a unit that can no longer be translated is written as a file
        # that does not compile, so exactly the bridge modules that import it stop checking
        tr_ok, tr_msgs = rs2lean.regenerate(REPO, os.path.join(LEAN, "SyModel", "Generated", "Code"))
        # the driver first: the correspondence / oracle streams (the search for a failing input) only need the
        # executable model, so they still run when a proof obligation of the property module is broken
        rd = sh(["lake", "build", "sydriver"], cwd=LEAN)
        r = sh(["lake", "build"] + modules_of(prop), cwd=LEAN)
        if r.returncode != 0 or rd.returncode != 0:
            out = (rd.stdout if rd.returncode != 0 else "") + r.stdout
            m = re.findall(r"error: ([^\n]*)", out)
            if not tr_ok: out = "rs2lean: " + "; ".join(tr_msgs) + "\n" + out
            return False, out[-6000:], (m[0] if m else None), rd.returncode == 0
    return True, "", None, True

def theorem_names(prop):
    """fully qualified names of every theorem in the property's Props module(s) (nested namespaces and sections followed)"""
    names = []
    for mod in modules_of(prop):
        src = open(os.path.join(LEAN, *mod.split(".")) + ".lean").read()
        src_nc = re.sub(r"/-.*?-/", "", src, flags=re.S)
        src_nc = re.sub(r"--[^\n]*", "", src_nc)
        stack = []          # ("ns", name) | ("sec", name)
        for line in src_nc.splitlines():
            m = re.match(r"^\s*namespace\s+([^\s]+)", line)
            if m: stack.append(("ns", m.group(1))); continue
            m = re.match(r"^\s*(?:noncomputable\s+)?section(?:\s+([^\s]+))?\s*$", line)
            if m: stack.append(("sec", m.group(1) or "")); continue
            m = re.match(r"^\s*end(?:\s+([^\s]+))?\s*$", line)
            if m and stack: stack.pop(); continue
            m = re.match(r"^(?:@\[[^\]]*\]\s*)?(?:protected\s+)?theorem\s+([^\s:({\[]+)", line)
            if m:
                prefix = ".".join(n for k, n in stack if k == "ns")
                names.append((prefix + "." if prefix else "") + m.group(1))
    return names, None

def audit(prop):
    """#print axioms on every theorem of the property file(s); scan sources for forbidden constructs."""
    names, _ = theorem_names(prop)
    os.makedirs(os.path.join(BUILD, "audit"), exist_ok=True)
    f = os.path.join(BUILD, "audit", prop + ".lean")
    with open(f, "w") as h:
        for mod in modules_of(prop): h.write(f"import {mod}\n")
        for n in names:
            h.write(f"#print axioms {n}\n")
    r = sh(["lake", "env", "lean", f], cwd=LEAN)
    out = r.stdout
    res = {}
    # "'name' depends on axioms: [a, b]" or "'name' does not depend on any axioms"
    # (a theorem name may itself end in primes: the name is everything between the first quote of the line and the last "' ")
    for m in re.finditer(r"^'([^\n]+?)' (does not depend on any axioms|depends on axioms: \[([^\]]*)\])", out, flags=re.S | re.M):
        full = m.group(1); axs = [] if m.group(3) is None else [a.strip() for a in m.group(3).replace("\n", " ").split(",") if a.strip()]
        res[full] = axs
    bad = {n: a for n, a in res.items() if not set(a) <= ALLOWED_AXIOMS}
    missing = [n for n in names if n not in res]
    # forbidden constructs anywhere in the Lean tree (cheap)
    hits = []
    for root, _, files in os.walk(os.path.join(LEAN)):
        if ".lake" in root: continue
        for fn in files:
            if not fn.endswith(".lean"): continue
            txt = open(os.path.join(root, fn)).read()
            txt = re.sub(r"/-.*?-/", "", txt, flags=re.S)
            txt = re.sub(r"--[^\n]*", "", txt)
            rel = os.path.relpath(os.path.join(root, fn), LEAN)
            for tok in FORBIDDEN:
                if tok in txt: hits.append(f"{rel}: {tok.strip()}")
            if re.search(r"^\s*axiom\s", txt, flags=re.M): hits.append(f"{rel}: axiom")
            if not rel.startswith("Driver") and re.search(r"\bpartial def\b", txt): hits.append(f"{rel}: partial def")
    return names, res, bad, missing, hits, out if r.returncode != 0 else ""

def load_known():
    p = os.path.join(VERIF, "KNOWN_FINDINGS.jsonl")
    out = []
    if os.path.exists(p):
        for l in open(p):
            l = l.strip()
            if l: out.append(json.loads(l))
    return out

def main():
    args = sys.argv[1:]
    if not args:
        print(__doc__); return 2
    prop = args[0]
    tier = os.environ.get("VERIF_TIER", "quick")
    replay = None
    i = 1
    while i < len(args):
        if args[i] == "--tier": tier = args[i + 1]; i += 2
        elif args[i] == "--replay": replay = args[i + 1]; i += 2
        else: i += 1
    import props
    cfg = props.PROPS[prop]
    seed = int(os.environ.get("VERIF_SEED", cfg.get("seed", 1)))
    t0 = time.time()
    os.makedirs(os.path.join(VERIF, "replays"), exist_ok=True)
    os.makedirs(os.path.join(VERIF, "evidence"), exist_ok=True)
    broken = []          # (kind, name, detail)  kind in {"T","K"}
    # 1. build
    ok, msg = build_rust()
    if not ok:
        log("cargo build failed:\n" + msg)
        broken.append(("K", "build", "cargo build of /repo or the harness failed: " + msg[-800:]))
    # 2/3. lean
    okl, msgl, first, driver_ok = build_lean(prop)
    names, axres, bad, missing, hits, auditerr = ([], {}, {}, [], [], "")
    if not okl:
        log("lake build failed:\n" + msgl)
        broken.append(("T", first or "lake build", msgl[-1500:]))
        names, _ = theorem_names(prop)
    else:
        names, axres, bad, missing, hits, auditerr = audit(prop)
        for n, a in bad.items(): broken.append(("T", n, f"depends on non-allowed axioms {a}"))
        for n in missing: broken.append(("T", n, "no #print axioms output: " + auditerr[-500:]))
        for h in hits: broken.append(("T", "forbidden-construct", h))
    discharged = len([n for n in names if n in axres and n not in bad]) if okl else 0
    leanchecker = None
    if okl and tier == "thorough":
        r = sh(["lake", "env", "leanchecker"] + modules_of(prop), cwd=LEAN)
        leanchecker = (r.returncode == 0)
        if r.returncode != 0: broken.append(("T", "leanchecker", r.stdout[-800:]))
    # 4/5. streams (K and O)
    import streams
    reports = []
    if ok and driver_ok:
        work = os.path.join(BUILD, "work", f"{prop}-{os.getpid()}")
        os.makedirs(work, exist_ok=True)
        try:
            for st in cfg["streams"]:
                try:
                    rep = streams.run_stream(st, prop, tier, seed, work, replay)
                except Exception as ex:                      # a crashing stream is a broken correspondence, never a silent pass
                    import traceback
                    rep = {"evaluations": 0, "distinct_nontrivial": 0, "rule": "", "samples": [], "oracle_failures": [],
                           "disagreements": [{"stream_crashed": repr(ex), "traceback": traceback.format_exc()[-1200:]}]}
                rep["stream"] = st["name"]
                reports.append(rep)
        finally:
            shutil.rmtree(work, ignore_errors=True)
    evaluations = sum(r.get("evaluations", 0) for r in reports)
    distinct = sum(r.get("distinct_nontrivial", 0) for r in reports)
    disagreements = [dict(d, stream=r["stream"]) for r in reports for d in r.get("disagreements", [])]
    all_oracle_failures = [dict(d, stream=r["stream"]) for r in reports for d in r.get("oracle_failures", [])]
    # a check raises violations only for its own property; failures of other properties' oracles seen on the
    # way are recorded in the evidence (their own checks decide them)
    oracle_failures = [f for f in all_oracle_failures if f["signature"].startswith(prop + "/")]
    other_failures = sorted({f["signature"] for f in all_oracle_failures if not f["signature"].startswith(prop + "/")})
    for d in disagreements[:5]:
        broken.append(("K", d.get("stream", "?"), json.dumps(d)[:600]))
    # 6. decide
    known = [k for k in load_known() if k.get("status") == "finding" and k.get("property") == prop]
    known_sigs = {k["signature"]: k for k in known}
    unlisted = [f for f in oracle_failures if f["signature"] not in known_sigs]
    listed = {}
    for f in oracle_failures:
        if f["signature"] in known_sigs: listed.setdefault(f["signature"], f)
    rc = 0
    lines = []
    # one line per listed finding of this property (whether or not this run happened to reproduce it)
    for sig in sorted(known_sigs):
        seen = "observed this run" if sig in listed else "not reproduced by this run's cases"
        lines.append(f"KNOWN-FINDING: property={prop} {sig}: {known_sigs[sig].get('what', '')} [{seen}]")
    violations = 0
    if unlisted:
        violations = len(unlisted)
        rp = os.path.join(VERIF, "replays", f"{prop}-{seed}.json")
        json.dump({"property": prop, "seed": seed, "tier": tier, "kind": "oracle-failure", "failure": unlisted[0],
                   "all_signatures": sorted({f["signature"] for f in unlisted}),
                   "broken_obligations": [{"kind": k, "name": n, "detail": d} for k, n, d in broken]}, open(rp, "w"), indent=1)
        lines.append(f"VIOLATION property={prop} replay={rp}")
        rc = 1
    elif broken:
        violations = 1
        rp = os.path.join(VERIF, "replays", f"{prop}-{seed}-unproved.json")
        json.dump({"property": prop, "seed": seed, "tier": tier, "kind": "obligation-broken",
                   "no_longer_checks": [{"kind": k, "name": n, "detail": d} for k, n, d in broken],
                   "disagreements": disagreements[:10],
                   "searched": {"evaluations": evaluations, "streams": [r["stream"] for r in reports]}}, open(rp, "w"), indent=1)
        lines.append(f"VIOLATION property={prop} replay={rp} no-failing-input-found")
        rc = 1
    # 7. evidence
    samples = [s for r in reports for s in r.get("samples", [])][:8]
    if not samples: samples = [{"obligation": n} for n in names[:5]]
    hist = {}
    for r in reports:
        for k, v in r.get("histogram", {}).items(): hist[f"{r['stream']}:{k}"] = v
    ev = {
        "property_id": prop, "tier": tier, "seed": seed, "level": "proof",
        "coverage": {
            "obligations": max(1, len(names)), "discharged": discharged,
            "checker_cmd": f"cd {LEAN} && lake build SyModel.Props.{prop} && lake env lean <#print axioms on {len(names)} theorems>" + (" && lake env leanchecker" if tier == "thorough" else ""),
            "trusted_base": cfg.get("trusted_base", []) + ["Lean 4.33.0 kernel", "axioms ⊆ {propext, Classical.choice, Quot.sound} (audited this run)"],
            "theorems": {n: axres.get(n) for n in names},
            "evaluations": evaluations, "distinct_nontrivial": distinct,
            "rule": " | ".join(f"{r['stream']}: {r.get('rule', '')}" for r in reports),
            "samples": samples, "histogram": hist,
            "disagreements_checked": len(disagreements),
            "oracle_failures_listed": sorted(listed), "oracle_failures_unlisted": sorted({f["signature"] for f in unlisted}),
            "skipped": [s for r in reports for s in r.get("skipped", [])],
            "other_property_oracle_failures_seen": other_failures,
            "leanchecker": leanchecker,
            "broken_obligations": [{"kind": k, "name": n} for k, n, _ in broken],
        },
        "assumptions": cfg.get("assumptions", []),
        "wall_s": round(time.time() - t0, 2), "violations": violations,
    }
    evdir = os.environ.get("VERIF_EVIDENCE_DIR") or os.path.join(VERIF, "evidence")       # (sweeps write elsewhere)
    os.makedirs(evdir, exist_ok=True)
    json.dump(ev, open(os.path.join(evdir, prop + ".json"), "w"), indent=1)
    for l in lines: print(l)
    log(f"{prop} tier={tier} seed={seed} theorems={len(names)} discharged={discharged} evaluations={evaluations} distinct={distinct} disagreements={len(disagreements)} oracle_failures={len(oracle_failures)} rc={rc} wall={ev['wall_s']}s")
    return rc

if __name__ == "__main__":
    sys.exit(main())
