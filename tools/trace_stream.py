"""System-call level refinement streams (DESIGN §4.3) on the real binary under `strace -f -y`:

* C02: no mutating system call has a kernel-resolved target under the source root or the outside
  (sentinel) area — for link-heavy trees and multi-run histories (the write footprint theorem
  `steps_write_inside` says every write lands in the destination).
* C05 (`run_steps`): per destination path, the mutating calls observed are a word of the step list the
  model assigns to the task that owns the path (`steps.of`), and replaying the observed global order
  through the model's step semantics (`steps.replay`) gives the observed snapshot.
"""
import os, re, shutil
from sylib import *
import engine_stream as es

MUT = ["openat", "rename", "renameat", "renameat2", "unlink", "unlinkat", "mkdir", "mkdirat", "rmdir", "symlink", "symlinkat", "link", "linkat",
       "utimensat", "ftruncate", "truncate", "fchmod", "chmod", "fchmodat", "copy_file_range", "write", "pwrite64", "sendfile",
       "setxattr", "lsetxattr", "fsetxattr", "removexattr", "lremovexattr", "fremovexattr", "ioctl"]

LINE = re.compile(r"^(\d+)\s+(\w+)\((.*)$")

def parse_trace(path):
    """-> list of (pid, call, args text, result text)"""
    out = []
    pending = {}
    for line in open(path, errors="replace"):
        line = line.rstrip("\n")
        m = re.match(r"^(\d+)\s+<\.\.\. (\w+) resumed>(.*)$", line)
        if m:
            pid, call, rest = m.groups()
            if (pid, call) in pending:
                line = f"{pid} {call}({pending.pop((pid, call))}{rest}"
            else: continue
        m = LINE.match(line)
        if not m: continue
        pid, call, rest = m.groups()
        if rest.endswith("<unfinished ...>"):
            pending[(pid, call)] = rest[:-len("<unfinished ...>")].rstrip(); continue
        if " = " not in rest: continue
        args, res = rest.rsplit(" = ", 1)
        out.append((pid, call, args, res))
    # calls still in progress when the process was killed: strace prints them as `<unfinished ...>` and never resumes them; like the
    # `= ?` lines they may or may not have taken effect
    for (pid, call), args in pending.items():
        out.append((pid, call, args.rstrip(", "), "? (unfinished at the kill)"))
    return out

def quoted(args):
    return [bytes(s, "utf-8").decode("unicode_escape").encode("latin-1").decode("utf-8", "surrogateescape") for s in re.findall(r'"((?:[^"\\]|\\.)*)"', args)]

def unesc(s):
    try: return bytes(s, "utf-8").decode("unicode_escape").encode("latin-1").decode("utf-8", "surrogateescape")
    except Exception: return s

def fd_paths(text):
    return [unesc(p) for p in re.findall(r"\d+<(/[^>]*)>", text)]

def targets_of(call, args, res, cwd):
    """kernel-level targets (absolute paths) this mutating call writes to; [] if it does not mutate"""
    if res.startswith("-1") and "EEXIST" not in res: return []
    q = [p if os.path.isabs(p) else os.path.normpath(os.path.join(cwd, p)) for p in quoted(args)]
    if call == "openat":
        if not re.search(r"O_WRONLY|O_RDWR|O_CREAT|O_TRUNC|O_APPEND", args): return []
        return fd_paths(res) or q[:1]
    if call in ("write", "pwrite64", "ftruncate", "fchmod", "fsetxattr", "fremovexattr"): return fd_paths(args)[:1]
    if call in ("copy_file_range", "sendfile"): return fd_paths(args)[1:2] if call == "copy_file_range" else fd_paths(args)[:1]
    if call == "ioctl": return fd_paths(args)[:1] if "FICLONE" in args else []
    if call in ("rename", "renameat", "renameat2", "link", "linkat", "symlink", "symlinkat"): return q[-1:] + (q[:1] if call.startswith("rename") else [])
    return q[:1]

def run(tier="quick", seed=1, work=None, replay=None, focus="C02", ncases=None):
    rep = Report(rule="link-heavy generated trees (relative/absolute/dangling/chained links, links back into the source and to an outside sentinel, "
                      "hard links) x histories of up to 3 runs x flag sets (incl. --delete, --dry-run, --verify-only), real binary under strace -f -y; "
                      "every mutating system call's kernel-resolved target (decoded fd path / literal path) is classified; "
                      "non-trivial = the run issued at least one mutating call inside the destination; distinct = distinct (tree, flags, history step)")
    rng = Rng(seed * 65537 + 2)
    n = ncases or (25 if tier == "quick" else 300)
    os.makedirs(work, exist_ok=True)
    caps = probe_caps(work)
    contents = Contents()
    for ci in range(n):
        case_dir = os.path.join(work, f"t{ci}")
        src_root, dst_root, out_root = (os.path.join(case_dir, x) for x in ("src", "dst", "out"))
        flags, cfg, opts, env, excl = es.gen_flags(rng, "C02", caps)
        src = es.gen_src(rng, opts); dst = es.gen_dst(rng, src, opts)
        os.makedirs(out_root); open(os.path.join(out_root, "sentinel.txt"), "wb").write(b"sentinel")
        subst = {"@SRC@": src_root, "@OUT@": out_root}
        materialize(src_root, src, subst); materialize(dst_root, dst, subst)
        for step in range(rng.range(1, 3)):
            mode = rng.pick(["sync", "sync", "sync", "dry", "verify"])
            f = list(flags) + (["--dry-run"] if mode == "dry" else []) + (["--verify-only"] if mode == "verify" else [])
            pre_s, pre_o = es.tree_fingerprint(snapshot(src_root, contents)), es.tree_fingerprint(snapshot(out_root, contents))
            pre_d = es.tree_fingerprint(snapshot(dst_root, contents, with_own=True))
            log = os.path.join(case_dir, "trace.log")
            rc, out, err = run_sy([src_root, dst_root, "--json"] + f, case_dir, env_extra=env,
                                  prefix=["strace", "-f", "-y", "-qq", "-s", "0", "-o", log, "-e", "trace=" + ",".join(MUT)])
            calls = parse_trace(log) if os.path.exists(log) else []
            inside = outside = 0
            desc = {"case": ci, "seed": seed, "flags": f, "step": step, "rc": rc}
            home = os.path.join(case_dir, "home")
            for pid, call, args, res in calls:
                for t in targets_of(call, args, res, case_dir):
                    t = os.path.normpath(t)
                    if t == src_root or t.startswith(src_root + "/") or t == out_root or t.startswith(out_root + "/"):
                        outside += 1
                        rep.oracle_fail("C02/write-syscall-outside-destination", f"{call}({args[:120]}) = {res[:40]} targets {t}", desc)
                    elif t.startswith(dst_root + "/") or t == dst_root: inside += 1
                    elif mode in ("dry", "verify") and t.startswith(home):
                        rep.oracle_fail("C08/dry-run-changed-state-dir" if mode == "dry" else "C15/verify-only-modified-a-tree", f"{call} on {t} in {mode} mode", desc)
            post_s, post_o = es.tree_fingerprint(snapshot(src_root, contents)), es.tree_fingerprint(snapshot(out_root, contents))
            if pre_s != post_s: rep.oracle_fail("C02/source-modified", f"source changed in step {step} ({mode})", desc)
            if pre_o != post_o: rep.oracle_fail("C02/outside-modified", f"outside area changed in step {step} ({mode})", desc)
            if mode in ("dry", "verify"):
                if inside: rep.oracle_fail("C02/read-only-mode-wrote" , f"{inside} mutating calls inside the destination in {mode} mode", desc)
                if pre_d != es.tree_fingerprint(snapshot(dst_root, contents, with_own=True)):
                    rep.oracle_fail("C02/read-only-mode-changed-destination", f"destination changed in {mode} mode", desc)
            rep.case((tuple(f), step, tuple(sorted(pre_d))), inside > 0)
            rep.tag("mode." + mode); rep.tag("calls.inside", inside); rep.tag("calls.total", len(calls))
            rep.sample({"flags": f, "mode": mode, "mutating_calls": len(calls), "inside_destination": inside, "outside": outside})
            if mode == "sync": es.edit_source(rng, src_root, out_root)
        shutil.rmtree(case_dir, ignore_errors=True)
    d = rep.to_dict(); d["traces_validated_against_impl"] = rep.evaluations
    return d
