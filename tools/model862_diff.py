#!/usr/bin/env python3
"""Differential check of the engine model (Engine/Model.lean after model-follows-862af11) against the real sy binary
on the configuration of fix 862af11: a destination SYMLINK standing where the source has a DIRECTORY.

For every case: materialise source / destination / outside, ask the model (sydriver, `engine.run`), run the binary
with --json, compare exit status, summary counters, event multiset, error list, final destination tree (kinds, content,
size, mtime, link texts) — the comparison of tools/engine_stream.py `one_case`, all fields — and check that the tree
the link points to (`outside`) and the source are untouched.

usage: model862_diff.py [SY_BINARY]   (default: /verif/.build/target/debug/sy)
"""
import os, sys, shutil, json
sys.path.insert(0, "/verif/tools")          # read-only import
import sylib
from sylib import F, D, L, materialize, snapshot, Contents, enc_cfg, enc_scan, enc_dst, parse_model_result, \
    model_dst_canon, real_dst_canon, run_sy, parse_json_lines
from engine_stream import scan_order, tree_fingerprint, lossy

WORK = "/tmp/wb-model862/diffwork"
DRIVER = "/tmp/wb-model862/verif/lean/.lake/build/bin/sydriver"
sylib.SY = sys.argv[1] if len(sys.argv) > 1 else "/verif/.build/target/debug/sy"

T = sylib.BASE_T * 10**9
SRC_BASE = {"a.txt": F(b"a\n", T + 5 * 10**9), "d": D(), "d/f.txt": F(b"f\n", T + 6 * 10**9),
            "d/keep.txt": F(b"keep\n", T + 7 * 10**9)}
DST_BASE = {"a.txt": F(b"a\n", T + 5 * 10**9), "d": L("@OUT@")}
OUT_BASE = {"keep.txt": F(b"outside keep\n", T + 1 * 10**9), "only-outside.txt": F(b"o\n", T + 2 * 10**9)}

def case(name, src=None, dst=None, out=None, flags=(), cfg=None, rel_link=False):
    return dict(name=name, src=src or SRC_BASE, dst=dst or DST_BASE, out=out or OUT_BASE, flags=list(flags), cfg=cfg or {},
                rel_link=rel_link)

CASES = [
    case("base: d -> outside dir (absolute link)"),
    case("base, relative link text", rel_link=True),
    case("link to outside dir, --delete --force-delete", flags=["--delete", "--force-delete"], cfg={"delete": 1, "force": 1}),
    case("dangling link at d", dst={"a.txt": F(b"a\n", T + 5 * 10**9), "d": L("/nonexistent-862")}),
    case("link at d points to a FILE", dst={"a.txt": F(b"a\n", T + 5 * 10**9), "d": L("@OUT@/keep.txt")}),
    case("outside holds identical d/keep.txt (probe through the link would say Skip)",
         out={"keep.txt": F(b"keep\n", T + 7 * 10**9), "f.txt": F(b"f\n", T + 6 * 10**9)}),
    case("--checksum", flags=["--checksum"], cfg={"cmp": "c"},
         out={"keep.txt": F(b"keep\n", T + 7 * 10**9)}),
    case("nested: sub dir, preserved links and a dangling link below the replaced link",
         src={**SRC_BASE, "d/sub": D(), "d/sub/x": F(b"x\n", T + 8 * 10**9), "d/lnk": L("../a.txt"), "d/dang": L("/nonexistent-862")}),
    case("same, --links skip", flags=["--links", "skip"], cfg={"links": "s"},
         src={**SRC_BASE, "d/sub": D(), "d/sub/x": F(b"x\n", T + 8 * 10**9), "d/lnk": L("../a.txt"), "d/dang": L("/nonexistent-862")}),
    case("same, --links follow", flags=["--links", "follow"], cfg={"links": "f"},
         src={**SRC_BASE, "d/sub": D(), "d/sub/x": F(b"x\n", T + 8 * 10**9), "d/lnk": L("../a.txt"), "d/dang": L("/nonexistent-862")}),
    case("two replaced links, one nested source dir empty",
         src={**SRC_BASE, "e": D(), "z.txt": F(b"z\n", T + 9 * 10**9)},
         dst={"a.txt": F(b"a\n", T + 5 * 10**9), "d": L("@OUT@"), "e": L("@OUT@")}),
    case("dry run", flags=["--dry-run"], cfg={"dry": 1}),
    case("-j 1", flags=["-j", "1"]),
    case("-j 10", flags=["-j", "10"]),
    # control: the old non-link configurations around it
    case("control: regular FILE at d (create_dir_all fails)", dst={"a.txt": F(b"a\n", T + 5 * 10**9), "d": F(b"file\n", T)}),
    case("control: directory at d", dst={"a.txt": F(b"a\n", T + 5 * 10**9), "d": D(), "d/keep.txt": F(b"old\n", T)}),
]

def run_case(drv, i, c):
    cd = os.path.join(WORK, f"case{i}")
    shutil.rmtree(cd, ignore_errors=True)
    src_root, dst_root, out_root = (os.path.join(cd, x) for x in ("src", "dst", "outside"))
    materialize(out_root, c["out"])
    materialize(src_root, c["src"])
    materialize(dst_root, c["dst"], subst={"@OUT@": "../outside" if c["rel_link"] else out_root})
    contents = Contents()
    pre_src, pre_dst, pre_out = snapshot(src_root, contents), snapshot(dst_root, contents), snapshot(out_root, contents)
    order = scan_order(src_root)
    exb = {r: False for r in order}
    req = f"engine.run {enc_cfg(c['cfg'])} {enc_scan(src_root, order, exb, contents)} {enc_dst(pre_dst, contents)}"
    model = parse_model_result(drv.ask(req))
    assert model is not None, "driver answered bad-op"
    rc, out, err = run_sy([src_root, dst_root, "--json"] + c["flags"], cd)
    post_src, post_dst, post_out = snapshot(src_root, contents), snapshot(dst_root, contents), snapshot(out_root, contents)
    ev, bad = parse_json_lines(out)
    summ = next((e for e in ev if e.get("type") == "summary"), None)
    rel_of = lambda p: os.path.relpath(p, dst_root)
    real_events = sorted((e["type"][0], rel_of(e["path"])) for e in ev if e.get("type") in ("create", "update", "skip", "delete"))
    real_errors = sorted(rel_of(e["path"]) for e in ev if e.get("type") == "error")
    dis = []
    if (rc != 0) != (model["exit"] != 0): dis.append(("exit", rc, model["exit"]))
    if summ is None: dis.append(("no-summary", err[-200:], None))
    else:
        for k, mk in (("files_created", "created"), ("files_updated", "updated"), ("files_skipped", "skipped"),
                      ("files_deleted", "deleted"), ("bytes_transferred", "bytes")):
            if summ.get(k) != model[mk]: dis.append((k, summ.get(k), model[mk]))
    if real_events != model["events"]:
        dis.append(("events", [e for e in real_events if e not in model["events"]], [e for e in model["events"] if e not in real_events]))
    if real_errors != sorted(p for _, p in model["errors"]): dis.append(("errors", real_errors, model["errors"]))
    mc, mi = model_dst_canon(model["dst"]); rc_, ri = real_dst_canon(post_dst, contents)
    if mc != rc_:
        dis.append(("dst", {r: (rc_.get(r), mc.get(r)) for r in set(mc) | set(rc_) if mc.get(r) != rc_.get(r)}, None))
    elif mi != ri: dis.append(("inode-classes", ri, mi))
    # oracles of the fix itself: the link's target and the source are untouched; d is a real directory after exit 0
    orc = []
    if tree_fingerprint(pre_out) != tree_fingerprint(post_out): orc.append("OUTSIDE CHANGED")
    if tree_fingerprint(pre_src) != tree_fingerprint(post_src): orc.append("SOURCE CHANGED")
    if rc == 0 and "dry" not in c["cfg"]:
        for r, n in pre_src.items():
            if n["k"] == "d" and post_dst.get(r, {}).get("k") != "d": orc.append(f"{r} is not a directory after exit 0")
    print(f"[{i:2}] {c['name']}\n     flags={c['flags']} rc={rc} model.exit={model['exit']} events={real_events}")
    print(f"     model/binary: {'AGREE (exit, 5 counters, events, errors, final tree)' if not dis else 'DISAGREE ' + repr(dis)[:600]}"
          f"{'' if not orc else '   ORACLE: ' + '; '.join(orc)}")
    return dis, orc

def main():
    os.makedirs(WORK, exist_ok=True)
    print("binary:", sylib.SY, "\ndriver:", DRIVER)
    drv = sylib.Driver(DRIVER)
    nd = no = 0
    for i, c in enumerate(CASES):
        d, o = run_case(drv, i, c)
        nd += bool(d); no += bool(o)
    drv.close()
    print(f"\n{len(CASES)} cases, {nd} with a model/binary disagreement, {no} with a failed oracle")
    return 1 if (nd or no) else 0

if __name__ == "__main__":
    sys.exit(main())
