#!/usr/bin/env python3
"""dev helper: run a python stream over several seeds and print a compact digest."""
import sys, json, shutil, importlib
sys.path.insert(0, '/verif/tools')
mod, func, focus = sys.argv[1], sys.argv[2], sys.argv[3]
seeds = range(int(sys.argv[4]), int(sys.argv[5]) + 1)
n = int(sys.argv[6]) if len(sys.argv) > 6 else 40
m = importlib.import_module(mod)
w = f'/verif/.build/work/try-{mod}-{focus}'
for seed in seeds:
    shutil.rmtree(w, ignore_errors=True)
    r = getattr(m, func)(tier='quick', seed=seed, work=w, focus=focus, ncases=n)
    print(seed, r['evaluations'], r['distinct_nontrivial'], 'dis', len(r['disagreements']), 'ora', len(r['oracle_failures']), r.get('skipped'))
    for d in r['disagreements'][:3]:
        print('  DIS', d.get('what'), [x[:160] for x in d.get('details', [])], d.get('flags'), d.get('env'), (d.get('stderr') or '')[:100])
        if '-v' in sys.argv: print('     src', json.dumps(d.get('src'), ensure_ascii=False)[:600]); print('     dst', json.dumps(d.get('dst'), ensure_ascii=False)[:600])
    seen = set()
    for d in r['oracle_failures']:
        if d['signature'] in seen: continue
        seen.add(d['signature'])
        print('  ORA', d['signature'], d['what'][:200], d['input'].get('flags'), d['input'].get('env'))
        if '-v' in sys.argv: print('     src', json.dumps(d['input'].get('src'), ensure_ascii=False)[:500]); print('     dst', json.dumps(d['input'].get('dst'), ensure_ascii=False)[:500])
shutil.rmtree(w, ignore_errors=True)
