"""Shared library of the binary-level correspondence / oracle streams:
tree specs, materialisation, snapshots, running the real `sy`, talking to `sydriver`,
encoding worlds for the engine model (Driver/Engine.lean)."""
import os, sys, json, subprocess, hashlib, shutil, stat, errno

VERIF = os.path.dirname(os.path.dirname(os.path.abspath(__file__)))
BUILD = os.path.join(VERIF, ".build")
SY = os.path.join(BUILD, "target", "debug", "sy")
SY_REMOTE = os.path.join(BUILD, "target", "debug", "sy-remote")
DRIVER = os.path.join(VERIF, "lean", ".lake", "build", "bin", "sydriver")
BASE_T = 1_600_000_000  # all generated mtimes are around this epoch second (far in the past)
OWN_FILES = {".sy-checksums.db", ".sy-dir-cache.json", ".sy-state.json", ".sy-checksums.db-journal", ".sy-checksums.db-wal", ".sy-checksums.db-shm"}

# ------------------------------------------------------------------ PRNG
class Rng:
    """SplitMix64; every random choice of a stream derives from one state."""
    M = (1 << 64) - 1
    def __init__(self, seed): self.s = (seed ^ 0x9E3779B97F4A7C15) & self.M
    def next(self):
        self.s = (self.s + 0x9E3779B97F4A7C15) & self.M
        z = self.s
        z = ((z ^ (z >> 30)) * 0xBF58476D1CE4E5B9) & self.M
        z = ((z ^ (z >> 27)) * 0x94D049BB133111EB) & self.M
        return z ^ (z >> 31)
    def below(self, n): return self.next() % n if n > 0 else 0
    def range(self, lo, hi): return lo + self.below(hi - lo + 1)
    def chance(self, num, den): return self.below(den) < num
    def pick(self, seq): return seq[self.below(len(seq))]
    def bytes(self, n, alphabet=256): return bytes(self.below(alphabet) for _ in range(n))
    def shuffle(self, l):
        l = list(l)
        for i in range(len(l) - 1, 0, -1):
            j = self.below(i + 1); l[i], l[j] = l[j], l[i]
        return l

# ------------------------------------------------------------------ driver
class Driver:
    def __init__(self, path=DRIVER):
        self.p = subprocess.Popen([path], stdin=subprocess.PIPE, stdout=subprocess.PIPE, text=True, bufsize=1)
        self.requests = 0
    def ask(self, line):
        self.requests += 1
        self.p.stdin.write(line + "\n"); self.p.stdin.flush()
        return self.p.stdout.readline().rstrip("\n")
    def close(self):
        try: self.p.stdin.close(); self.p.wait(timeout=5)
        except Exception: self.p.kill()

def hx(b):
    if isinstance(b, str): b = b.encode("utf-8", "surrogateescape")
    return b.hex() if b else "-"

def enc_path(rel):
    return "/".join(c.encode("utf-8", "surrogateescape").hex() for c in rel.split("/")) if rel else "."

def dec_path(s):
    if s == ".": return ""
    return "/".join(bytes.fromhex(c).decode("utf-8", "surrogateescape") for c in s.split("/"))

# ------------------------------------------------------------------ content ids
class Contents:
    """content id <-> bytes; equal ids iff equal bytes."""
    def __init__(self): self.by = {}; self.data = []
    def id(self, b):
        k = hashlib.blake2b(b, digest_size=16).digest() + len(b).to_bytes(8, "little")
        if k not in self.by: self.by[k] = len(self.data) + 1; self.data.append(b if len(b) <= 1 << 16 else None)
        return self.by[k]

# ------------------------------------------------------------------ tree specs
# node: {"k":"f","data":bytes,"mtime":ns,"xattrs":{name:bytes},"link":group or None}
#       {"k":"d"}  {"k":"l","text":str}
def F(data, mtime=None, xattrs=None, link=None):
    return {"k": "f", "data": data, "mtime": (BASE_T * 10**9 if mtime is None else mtime), "xattrs": xattrs or {}, "link": link}
def D(): return {"k": "d"}
def L(text): return {"k": "l", "text": text}

def materialize(root, tree, subst=None):
    """Create `tree` (rel -> node) under `root` (created). `subst` maps placeholders in link texts."""
    os.makedirs(root, exist_ok=True)
    first = {}
    for rel in sorted(tree, key=lambda r: (r.count("/"), r)):
        n = tree[rel]; p = os.path.join(root, rel)
        os.makedirs(os.path.dirname(p), exist_ok=True)
        if n["k"] == "d": os.makedirs(p, exist_ok=True)
        elif n["k"] == "l":
            t = n["text"]
            for a, b in (subst or {}).items(): t = t.replace(a, b)
            os.symlink(t, p)
        else:
            g = n.get("link")
            if g is not None and g in first:
                os.link(first[g], p)
            else:
                with open(p, "wb") as f: f.write(n["data"])
                for k, v in n.get("xattrs", {}).items(): os.setxattr(p, k, v)
                os.utime(p, ns=(n["mtime"], n["mtime"]))
                if g is not None: first[g] = p
    # directory mtimes last (deepest first) so they are deterministic and old
    for dp, dn, fn in os.walk(root, topdown=False):
        os.utime(dp, ns=(BASE_T * 10**9, BASE_T * 10**9))

def snapshot(root, contents=None, with_own=False):
    """rel -> canonical node dict for everything under root (not following links)."""
    out = {}
    if not os.path.lexists(root): return out
    for dp, dn, fn in os.walk(root):
        for name in dn + fn:
            p = os.path.join(dp, name); rel = os.path.relpath(p, root)
            if not with_own and rel in OWN_FILES: continue
            st = os.lstat(p)
            if stat.S_ISLNK(st.st_mode):
                out[rel] = {"k": "l", "text": os.readlink(p)}
                if name in dn: dn.remove(name)
            elif stat.S_ISDIR(st.st_mode):
                out[rel] = {"k": "d"}
            else:
                with open(p, "rb") as f: data = f.read()
                xa = {}
                try:
                    for k in os.listxattr(p):
                        if k.startswith("user."): xa[k] = os.getxattr(p, k)
                except OSError: pass
                out[rel] = {"k": "f", "cid": contents.id(data) if contents else hashlib.sha1(data).hexdigest(), "size": st.st_size,
                            "mtime": st.st_mtime_ns, "ino": st.st_ino, "xattrs": xa, "mode": st.st_mode & 0o7777}
    return out

def ino_classes(snap):
    g = {}
    for rel, n in snap.items():
        if n["k"] == "f": g.setdefault(n["ino"], []).append(rel)
    return sorted(sorted(v) for v in g.values() if len(v) > 1)

# ------------------------------------------------------------------ running sy
def sy_env(work):
    home = os.path.join(work, "home")
    os.makedirs(home, exist_ok=True)
    e = {"PATH": os.environ.get("PATH", "/usr/bin:/bin"), "HOME": home, "XDG_CACHE_HOME": os.path.join(home, "cache"),
         "XDG_CONFIG_HOME": os.path.join(home, "config"), "RUST_BACKTRACE": "0", "NO_COLOR": "1", "RUST_LOG": "error"}
    return e

def run_sy(args, work, env_extra=None, timeout=120, stdin=None, cwd=None, prefix=None):
    env = sy_env(work)
    if env_extra: env.update(env_extra)
    cmd = (prefix or []) + [SY] + args
    try:
        r = subprocess.run(cmd, env=env, stdout=subprocess.PIPE, stderr=subprocess.PIPE, timeout=timeout, stdin=subprocess.DEVNULL if stdin is None else stdin, cwd=cwd or work)
        return r.returncode, r.stdout.decode("utf-8", "replace"), r.stderr.decode("utf-8", "replace")
    except subprocess.TimeoutExpired as ex:
        return None, (ex.stdout or b"").decode("utf-8", "replace"), (ex.stderr or b"").decode("utf-8", "replace")

def parse_json_lines(out):
    """-> (events list, bad lines list)"""
    ev, bad = [], []
    for line in out.splitlines():
        if not line.strip(): bad.append(line); continue
        try:
            o = json.loads(line)
            if isinstance(o, dict): ev.append(o)
            else: bad.append(line)
        except Exception: bad.append(line)
    return ev, bad

# ------------------------------------------------------------------ engine-model encoding
def enc_xattrs(xa, contents):
    if not xa: return "-"
    return "+".join(f"{k.encode().hex()}={contents.id(v)}" for k, v in sorted(xa.items()))

def resolve_link(abs_link):
    """what the kernel resolves a source symlink to: ('x',) | ('d',) | ('f', data, size, mtime_ns)"""
    try: st = os.stat(abs_link)
    except OSError: return ("x",)
    if stat.S_ISDIR(st.st_mode): return ("d",)
    with open(abs_link, "rb") as f: data = f.read()
    return ("f", data, st.st_size, st.st_mtime_ns)

def enc_scan(src_root, order, excluded, contents):
    """encode the scanned source (after materialisation, from the real fs) in scan order `order` (list of rel)."""
    inos = {}
    items = []
    for rel in order:
        p = os.path.join(src_root, rel); st = os.lstat(p)
        ex = "1" if excluded.get(rel) else "0"
        if stat.S_ISLNK(st.st_mode):
            t = os.readlink(p); r = resolve_link(p)
            tgt = "x" if r[0] == "x" else "d" if r[0] == "d" else f"f{contents.id(r[1])}.{r[2]}.{r[3]}"
            items.append(f"{enc_path(rel)}:L{hx(t)}.{tgt}:{st.st_size}:{ex}")
        elif stat.S_ISDIR(st.st_mode):
            items.append(f"{enc_path(rel)}:D:{st.st_size}:{ex}")
        else:
            with open(p, "rb") as f: data = f.read()
            xa = {}
            try:
                for k in os.listxattr(p):
                    if k.startswith("user."): xa[k] = os.getxattr(p, k)
            except OSError: pass
            items.append(f"{enc_path(rel)}:F{contents.id(data)}.{st.st_size}.{st.st_mtime_ns}.{st.st_ino}.{st.st_nlink}.{enc_xattrs(xa, contents)}:{st.st_size}:{ex}")
    return ";".join(items) if items else "-"

def enc_dst(snap, contents):
    items = []
    for rel, n in sorted(snap.items()):
        if n["k"] == "d": items.append(f"{enc_path(rel)}:D")
        elif n["k"] == "l": items.append(f"{enc_path(rel)}:L{hx(n['text'])}")
        else: items.append(f"{enc_path(rel)}:F{n['cid']}.{n['size']}.{n['mtime']}.{n['ino']}.{enc_xattrs(n['xattrs'], contents)}")
    return ";".join(items) if items else "-"

def enc_cfg(c):
    d = dict(delete=0, force=0, dry=0, x=0, h=0, thr=50, links="p", cmp="d", min="-", max="-", maxerr=100, tie=0, nextino=10**12)
    d.update(c)
    return ",".join(f"{k}={int(v) if isinstance(v, bool) else v}" for k, v in d.items())

def parse_model_result(line):
    t = line.split(" ")
    if len(t) != 11: return None
    lst = lambda s: [] if s == "-" else s.split(";")
    dst = {}
    for it in lst(t[10]):
        p, n = it.split(":")
        dst[dec_path(p)] = n
    return {"exit": int(t[0]), "refused": t[1] == "1", "aborted": t[2] == "1", "created": int(t[3]), "updated": int(t[4]),
            "skipped": int(t[5]), "deleted": int(t[6]), "bytes": int(t[7]),
            "events": sorted((e[0], dec_path(e[1:])) for e in lst(t[8])), "errors": sorted((e[0], dec_path(e[1:])) for e in lst(t[9])), "dst": dst}

def model_dst_canon(dst):
    """model dst (rel -> node string) -> comparable dict (ino as classes handled separately)"""
    out = {}; inos = {}
    for rel, n in dst.items():
        if n == "D": out[rel] = ("d",)
        elif n[0] == "L": out[rel] = ("l", bytes.fromhex(n[1:]).decode("utf-8", "surrogateescape") if n[1:] != "-" else "")
        else:
            c, sz, mt, ino, xa = n[1:].split(".")
            out[rel] = ("f", int(c), int(sz), int(mt), xa)
            inos.setdefault(ino, []).append(rel)
    return out, sorted(sorted(v) for v in inos.values() if len(v) > 1)

def real_dst_canon(snap, contents):
    out = {}
    for rel, n in snap.items():
        if n["k"] == "d": out[rel] = ("d",)
        elif n["k"] == "l": out[rel] = ("l", n["text"])
        else: out[rel] = ("f", n["cid"], n["size"], n["mtime"], enc_xattrs(n["xattrs"], contents))
    return out, ino_classes(snap)

def probe_caps(work):
    """capabilities of the work file system (DESIGN §5.1): never assumed."""
    os.makedirs(work, exist_ok=True)
    caps = {}
    p = os.path.join(work, ".probe")
    with open(p, "wb") as f: f.write(b"x")
    try: os.setxattr(p, "user.t", b"1"); caps["xattr"] = os.getxattr(p, "user.t") == b"1"
    except OSError: caps["xattr"] = False
    try: os.link(p, p + ".l"); caps["hardlink"] = True; os.unlink(p + ".l")
    except OSError: caps["hardlink"] = False
    try: os.symlink("x", p + ".s"); caps["symlink"] = True; os.unlink(p + ".s")
    except OSError: caps["symlink"] = False
    os.unlink(p)
    return caps

class Report:
    def __init__(self, rule=""):
        self.evaluations = 0; self.nontrivial = set(); self.histogram = {}; self.samples = []
        self.disagreements = []; self.oracle_failures = []; self.skipped = []; self.rule = rule
    def tag(self, t, n=1): self.histogram[t] = self.histogram.get(t, 0) + n
    def case(self, key, nontrivial):
        self.evaluations += 1
        if nontrivial: self.nontrivial.add(hashlib.sha1(repr(key).encode()).hexdigest())
    def sample(self, v):
        if len(self.samples) < 6: self.samples.append(v)
    def disagree(self, v):
        if len(self.disagreements) < 50: self.disagreements.append(v)
    def oracle_fail(self, signature, what, inp):
        if len(self.oracle_failures) < 50: self.oracle_failures.append({"signature": signature, "what": what, "input": inp})
    def to_dict(self):
        return {"evaluations": self.evaluations, "distinct_nontrivial": len(self.nontrivial), "rule": self.rule, "histogram": self.histogram,
                "samples": self.samples, "disagreements": self.disagreements, "oracle_failures": self.oracle_failures, "skipped": self.skipped}


def lossy(rel):
    """how a path appears in sy's JSON output (to_string_lossy): bytes that are not UTF-8 become U+FFFD"""
    return rel.encode("utf-8", "surrogateescape").decode("utf-8", "replace")

def unlossy(names):
    """JSON carries paths lossily: a function mapping a reported path back to the real name where that is unambiguous
    among `names` (the names the run could have meant), identity otherwise"""
    back = {}
    for r_ in names:
        back.setdefault(lossy(r_), set()).add(r_)
    return lambda r_: next(iter(back[r_])) if r_ in back and len(back[r_]) == 1 else r_
