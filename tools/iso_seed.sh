#!/bin/sh
# usage: tools/iso_seed.sh <seed-src-dir> <ID> <prop> [<prop>...]
# Isolated confirmation of a seeded change (patch.diff, demo.sh, NOTES.md in <seed-src-dir>): everything happens in a scratch
# worktree of /repo and a scratch copy of /verif under $ISO (default /tmp/iso), so neither /repo nor /verif is touched and
# other work (builders reading /repo, checks in /verif) is not disturbed.  Applies the change, builds, runs the seed's own
# demo (must fail), the existing test suite (must still pass), the quick checks of the named properties; reverts, rebuilds,
# runs the demo again (must pass).  Results: /verif/seeded/<ID>/{patch.diff,demo.sh,NOTES.md,meta.json}.
S="$1"; id="$2"; shift; shift
ISO=${ISO:-/tmp/iso}; OUT=/verif/seeded/$id
mkdir -p "$ISO" "$OUT"
cp "$S/patch.diff" "$S/demo.sh" "$OUT/" || exit 2; [ -f "$S/NOTES.md" ] && cp "$S/NOTES.md" "$OUT/NOTES.md"
[ -d "$ISO/repo" ] || git -C /repo worktree add --detach "$ISO/repo" HEAD >/dev/null 2>&1 || exit 2
git -C "$ISO/repo" checkout -q --detach "$(git -C /repo rev-parse HEAD)" && git -C "$ISO/repo" checkout -- . || exit 2
rsync -a --delete --exclude .build --exclude replays --exclude lean/.lake --exclude .git /verif/ "$ISO/verif/"
[ -d "$ISO/verif/.build/target" ] || { mkdir -p "$ISO/verif/.build"; cp -r /verif/.build/target "$ISO/verif/.build/target"; }
[ -d "$ISO/verif/lean/.lake" ] || cp -r /verif/lean/.lake "$ISO/verif/lean/.lake"
export SY_REPO="$ISO/repo" CARGO_NET_OFFLINE=true
git -C "$ISO/repo" apply --check "$OUT/patch.diff" 2>/dev/null || { echo "PATCH-DOES-NOT-APPLY"; exit 2; }
git -C "$ISO/repo" apply "$OUT/patch.diff"
build() { (cd "$ISO/repo" && RUSTFLAGS="--cfg nijaru_sy_verif" CARGO_TARGET_DIR="$ISO/verif/.build/target" cargo build --offline --bins 2>&1 | grep -E "^error" -A6 | head -20); }
# round 3 demos take the repository root as $1, round 4 demos the binary itself (DEMO_BIN=1)
DEMO_ARG="$ISO/fakeroot"; [ -n "$DEMO_BIN" ] && DEMO_ARG="$ISO/fakeroot/target/debug/sy"
mkdir -p "$ISO/fakeroot"; ln -sfn "$ISO/verif/.build/target" "$ISO/fakeroot/target"
build
echo "== demo with change"; (cd "$ISO/fakeroot" && timeout 1500 bash "$OUT/demo.sh" "$DEMO_ARG" >"$ISO/demo_with.log" 2>&1); d1=$?; echo "demo rc=$d1"; tail -3 "$ISO/demo_with.log" | cut -c1-200
echo "== test suite with change"; "$ISO/verif/tools/baseline.sh" | tail -4; 
res=""
for p in "$@"; do
  out=$(cd "$ISO/verif" && python3 tools/check.py "$p" --tier quick 2>&1); rc=$?
  echo "== $p rc=$rc"; echo "$out" | grep -E "^VIOLATION|\[check\]" | cut -c1-220
  f=$(echo "$out" | sed -n 's/^VIOLATION property=[A-Z0-9]* replay=\([^ ]*\).*/\1/p' | head -1)
  sig=""
  if [ -n "$f" ]; then sig=$(python3 - "$f" <<'PY'
import json,sys
r=json.load(open(sys.argv[1]))
if r.get("kind")=="oracle-failure": print("oracle:"+",".join(r.get("all_signatures",[])[:4]))
else: print("obligation:"+"; ".join((x["kind"]+" "+x["name"]+" "+x["detail"][:160].replace("\n"," ")) for x in r.get("no_longer_checks",[])[:2]))
PY
); echo "   $sig"; cp "$f" "$OUT/replay-$p.json" 2>/dev/null; fi
  res="$res $p:rc=$rc:$sig |"
done
git -C "$ISO/repo" checkout -- .
build
echo "== demo without change"; (cd "$ISO/fakeroot" && timeout 1500 bash "$OUT/demo.sh" "$DEMO_ARG" >"$ISO/demo_without.log" 2>&1); d0=$?; echo "demo rc=$d0"
python3 - "$id" "$d1" "$d0" "$res" <<'PY'
import json,sys,os
id,d1,d0,res=sys.argv[1:5]
p=f"/verif/seeded/{id}/meta.json"
m=json.load(open(p)) if os.path.exists(p) else {}
m.update({"seed_id":id,"demo_rc_with_change":int(d1),"demo_rc_without_change":int(d0),"checks_run":res.strip(),
          "confirmed":(int(d1)!=0 and int(d0)==0)})
json.dump(m,open(p,"w"),indent=1)
print(json.dumps(m)[:700])
PY
