"""Binary-level correspondence (K) and oracle (O) stream for the one-way engine model.

Each case: generated source tree x prior destination state x flag set  ->
  * the real `sy` (built from /repo's working tree, hooks on) run with --json,
  * the Lean model's prediction through `sydriver engine.run`,
  * snapshot oracles written from the property texts (independent of the model's planner).
`focus` selects the flag distribution and which oracles may raise failures for that property.
"""
import os, shutil, json, stat, time, re
from sylib import *

NAMES = ["a", "b", "c.txt", "d.bin", "d.dat", "e f", "ü.txt", "x.sy.tmp", ".hidden", "k.log", "data", "n1", "n2", "caf\udce9.txt", "README.md",
         # long names (legal: <= 255 bytes), multi-byte with the three possible byte alignments (seeded change C10b: a message
         # cut at a fixed byte offset), and long ASCII
         "文" * 58, "x" + "文" * 58, "xy" + "文" * 58, "L" * 200,
         # siblings of the directory names below whose next byte sorts BEFORE '/' (seeded changes C16 round 1 and C15b: byte-wise
         # vs component-wise order / prefix tests)
         "sub.txt", "dir-old", "logs.1", "deep+x"]
# ("caf\udce9.txt" is the byte string caf\xe9.txt: a file name that is not valid UTF-8)

OWN_FILES = (".sy-checksums.db", ".sy-dir-cache.json", ".sy-state.json")

def lossy(rel):
    """how a path appears in sy's JSON output (to_string_lossy)"""
    return rel.encode("utf-8", "surrogateescape").decode("utf-8", "replace")
DIRS = ["sub", "dir", "deep", "d.bin.d", "s p", "logs"]
OFFS = [0, 0, 0, 900_000_000, -900_000_000, 1_000_000_000, -1_000_000_000, 1_900_000_000, -1_900_000_000,
        2_000_000_000, -2_000_000_000, 2_100_000_000, -2_100_000_000, 100 * 10**9, -100 * 10**9]

def gen_data(rng, big=False):
    k = rng.below(10)
    if big: n = rng.pick([4096, 5000, 8192, 20000, 4097])
    elif k == 0: n = 0
    elif k == 1: n = 1
    elif k < 6: n = rng.range(2, 40)
    elif k < 9: n = rng.range(40, 3000)
    else: n = rng.pick([4096, 5000, 12000])
    return rng.bytes(n, rng.pick([2, 256]))

def mutate_data(rng, data):
    k = rng.below(5)
    if k == 0 and data:  # same size, different content
        i = rng.below(len(data)); return data[:i] + bytes([(data[i] + 1) % 256]) + data[i + 1:]
    if k == 1: return data + rng.bytes(rng.range(1, 2000))
    if k == 2 and len(data) > 1: return data[:rng.below(len(data))]
    if k == 3 and len(data) >= 2048:  # a single changed block in the middle
        i = rng.range(1024, len(data) - 1); return data[:i] + bytes([(data[i] ^ 0xFF)]) + data[i + 1:]
    return rng.bytes(rng.range(0, max(1, len(data) + 3)))

def gen_src(rng, opts):
    """-> tree (rel -> node). Parents are explicit 'd' nodes."""
    tree = {}
    dirs = [""]
    ndirs = rng.range(0, 4)
    for _ in range(ndirs):
        parent = rng.pick(dirs)
        if parent.count("/") >= 2: continue
        name = rng.pick(DIRS)
        rel = (parent + "/" if parent else "") + name
        if rel not in tree: tree[rel] = D(); dirs.append(rel)
    nfiles = rng.range(1, 9)
    groups = 0
    names = [n for n in NAMES if not opts.get("utf8_only") or "\udce9" not in n]
    for _ in range(nfiles):
        parent = rng.pick(dirs); name = rng.pick(names)
        rel = (parent + "/" if parent else "") + name
        if rel in tree: continue
        n = F(gen_data(rng, big=opts.get("big") and rng.chance(1, 2)), BASE_T * 10**9 + (10 + rng.below(1000)) * 10**9 + rng.pick([0, 0, 123_456_789, 999_999_999]))
        if opts.get("xattrs") and rng.chance(1, 2):
            n["xattrs"] = {"user." + rng.pick(["a", "b", "k"]): rng.bytes(rng.range(0, 6)) for _ in range(rng.range(1, 2))}
        tree[rel] = n
    if opts.get("hardlinks"):
        files = [r for r, n in tree.items() if n["k"] == "f"]
        for _ in range(rng.range(1, 2)):
            if not files: break
            base = rng.pick(files); groups += 1
            tree[base]["link"] = groups
            for j in range(rng.range(1, 2)):
                parent = rng.pick(dirs); rel = (parent + "/" if parent else "") + f"hl{groups}_{j}"
                if rel not in tree:
                    tree[rel] = dict(tree[base]); tree[rel]["link"] = groups
    if opts.get("symlinks"):
        files = [r for r, n in tree.items() if n["k"] == "f"]
        for _ in range(rng.range(1, 3)):
            parent = rng.pick(dirs); rel = (parent + "/" if parent else "") + rng.pick(["ln", "ln2", "ln.txt"])
            if rel in tree: continue
            k = rng.below(6)
            depth = rel.count("/")
            if k == 0 or not files: text = "nowhere"
            elif k == 1: text = "@SRC@/" + rng.pick(files)                     # absolute, back into the source
            elif k == 2: text = "../" * depth + rng.pick(files)                # relative
            elif k == 3 and len(dirs) > 1: text = "../" * depth + rng.pick(dirs[1:])   # to a directory
            elif k == 4: text = "@OUT@/sentinel.txt"                           # absolute, outside both roots
            else: text = os.path.basename(rng.pick(files))                     # sibling-relative (may dangle)
            tree[rel] = L(text)
    return tree

def gen_dst(rng, src, opts):
    dst = {}
    for rel, n in src.items():
        k = rng.below(100)
        parent = os.path.dirname(rel)
        if parent and dst.get(parent, {}).get("k") != "d": continue          # keeps the tree well-formed: no orphan entries
        if n["k"] == "d":
            if k >= 92 and opts.get("symlinks"):
                # a SYMLINK where the source has a directory (what an earlier run leaves when the source entry was a link to
                # a directory then): it is replaced, never followed — nothing below it exists in the destination (fix 862af11)
                dst[rel] = L(rng.pick(["@OUT@", "@OUT@/sub", "nowhere", "@SRC@/" + rel, "@OUT@/sentinel.txt"]))
                continue
            if k < 60: dst[rel] = D()
            elif opts.get("conflicts") and (k < 66 or (k < 80 and not any(r.startswith(rel + "/") for r in src))):
                dst[rel] = F(b"a file where the source has a directory")     # type conflict (more often for empty source directories)
            continue
        if n["k"] == "l":
            if k < 35: dst[rel] = L(n["text"])
            elif k < 50: dst[rel] = L(rng.pick(["other", "nowhere", n["text"] + "x"]))
            elif k < 58: dst[rel] = F(b"was a file")
            continue
        if k < 30: continue                                    # absent
        off = rng.pick(OFFS)
        # user xattrs an earlier run (or the user) left on the destination file: equal, stale, or extra keys (seeded change C17b)
        dx = None
        if opts.get("xattrs") and rng.chance(1, 2):
            dx = dict(n.get("xattrs") or {}) if rng.chance(1, 3) else {}
            for _ in range(rng.range(0, 2)): dx["user." + rng.pick(["a", "b", "k", "old"])] = rng.bytes(rng.range(0, 6))
        if k < 55: dst[rel] = F(n["data"], n["mtime"] + (off if rng.chance(1, 3) else 0))       # equal content, mtime near
        elif k < 70: dst[rel] = F(mutate_data(rng, n["data"]), n["mtime"] + off)                 # stale
        elif k < 80: dst[rel] = F(mutate_data(rng, n["data"]), n["mtime"])                       # stale, same mtime
        elif k < 90: dst[rel] = F(n["data"] + b"tail", n["mtime"] + off)
        elif k < 95 and opts.get("symlinks"): dst[rel] = L(rng.pick(["nowhere", "@OUT@/sentinel.txt", "@OUT@/big_sentinel.bin", "@OUT@/big_sentinel.bin", "@SRC@/" + rel]))   # type conflict: link where a file belongs
        elif k < 98 and opts.get("conflicts"):                                                                             # type conflict: directory where a file belongs
            dst[rel] = D()
            if rng.chance(1, 2): dst[rel + "/inner"] = F(b"inner")
        else: dst[rel] = F(n["data"], n["mtime"] + off)
        if dx and dst.get(rel, {}).get("k") == "f": dst[rel]["xattrs"] = dx
    # extras
    dirs = [""] + [r for r, n in dst.items() if n["k"] == "d"]
    src_files = [r for r in src if src[r]["k"] != "d"]
    for _ in range(rng.below(4) if opts.get("extras", True) else 0):
        parent = rng.pick(dirs); name = rng.pick(["extra", "old.txt", "zz", "stale", "q.sy.tmp", "keep.log"])
        rel = (parent + "/" if parent else "") + name
        if src_files and rng.chance(1, 4):
            # a stale entry whose name differs from a source name only in letter case (or by one character)
            base = rng.pick(src_files); d_, b_ = os.path.split(base)
            v = rng.pick([b_.swapcase(), b_.upper(), b_.lower(), b_ + "~", b_ + ".sy.tmp", b_ + ".sy.tmp"])      # (… or is the working-file name of a source file: seeded change C06c)
            if v != b_ and (not d_ or dst.get(d_, {}).get("k") == "d"): rel = (d_ + "/" if d_ else "") + v
        if rel in dst or rel in src: continue
        k = rng.below(4)
        if k == 0:
            dst[rel] = D(); dst[rel + "/inner"] = F(b"inner"); dst[rel + "/in2"] = D(); dst[rel + "/in2/leaf"] = F(b"leaf")
        elif k == 1 and opts.get("symlinks"):
            # a stale link: dangling, or pointing at a DIRECTORY outside both roots / at the source root / inside the source
            # (seeded change C02b: a delete that walks into what the link points to)
            sdirs = [r for r, n in src.items() if n["k"] == "d"]
            if rel.endswith(".sy.tmp") and rng.chance(2, 3):
                # a DANGLING link bearing a working-file name and pointing out of the destination — into the outside area or into the
                # source (seeded change C02d: a leftover that `exists()` does not see is not removed and the working file is created
                # through it)
                dst[rel] = L(rng.pick(["@OUT@/ghost", "@SRC@/ghost", "../out/ghost2"]))
            else:
                dst[rel] = L(rng.pick(["nowhere", "@OUT@", "@SRC@"] + (["@SRC@/" + rng.pick(sdirs)] if sdirs else [])))
        else: dst[rel] = F(rng.bytes(rng.range(0, 50)))
    return dst

def gen_flags(rng, focus, caps):
    """-> (argv flags, cfg dict for the model, opts for generators, env)"""
    f, c, o, env = [], {}, {"extras": True}, {}
    o["symlinks"] = rng.chance(1, 2) if focus not in ("C17", "C02") else True
    o["conflicts"] = rng.chance(1, 3) and focus in ("C01", "C10", "C19", "C06")
    links = rng.pick(["p", "p", "p", "f", "s"]) if o["symlinks"] else "p"
    if links == "f": f += ["--links", "follow"]
    if links == "s": f += ["--links", "skip"]
    c["links"] = links
    cmp_ = rng.pick(["d", "d", "d", "c", "i", "s"])
    f += {"d": [], "c": ["--checksum"], "i": ["--ignore-times"], "s": ["--size-only"]}[cmp_]
    c["cmp"] = cmp_
    if rng.chance(2, 5) or focus in ("C06", "C07"):
        f.append("--delete"); c["delete"] = 1
        if focus == "C07":
            thr = rng.pick([0, 1, 10, 25, 33, 50, 50, 66, 75, 90, 99, 100]); f += ["--delete-threshold", str(thr)]; c["thr"] = thr
        elif rng.chance(2, 3): f.append("--force-delete"); c["force"] = 1
        else:
            thr = rng.pick([0, 10, 50, 50, 90, 100]); f += ["--delete-threshold", str(thr)]; c["thr"] = thr
    if caps.get("xattr") and (rng.chance(1, 3) or focus == "C17"):
        o["xattrs"] = True
        if rng.chance(1, 2): f.append("-X"); c["x"] = 1
    if caps.get("hardlink") and rng.chance(1, 5) and focus not in ("C02", "C17"):
        o["hardlinks"] = True
        if rng.chance(2, 3): f.append("-H"); c["h"] = 1
    elif caps.get("hardlink") and focus == "C02" and rng.chance(1, 2):
        o["hardlinks"] = True          # source link groups WITHOUT -H: the histories hard-link the destination into a snapshot outside
    if rng.chance(1, 6):
        mn = rng.pick([1, 10, 100, 4096]); f += ["--min-size", str(mn)]; c["min"] = mn
    if rng.chance(1, 6):
        mx = rng.pick([m for m in [10, 100, 3000, 5000] if m >= c.get("min", 0)])
        f += ["--max-size", str(mx)]; c["max"] = mx
    excl = []
    if rng.chance(1, 4) or (focus in ("C01", "C06", "C16") and rng.chance(1, 3)):
        for _ in range(rng.range(1, 2)):
            # (directory rules twice: a sibling whose name merely starts with an excluded directory's name — sub.txt, logs.1,
            #  deep+x, dir-old in the shared name pool — must stay selected: seeded changes C16, C01c)
            excl.append(rng.pick(["k.log", "a", "sub/", "logs/", "data", "deep/", "c.txt", "sub/", "logs/", "deep/", "dir/", "sub", "dir"]))
        for e in excl: f += ["--exclude", e]
    j = rng.pick([1, 2, 4, 10]); f += ["-j", str(j)]
    if rng.chance(1, 3) or focus == "C05":
        o["big"] = True
        env.update({"SY_VERIF_DELTA_THRESHOLD": "4096", "SY_VERIF_BLOCK_SIZE": "1024"})
        if rng.chance(1, 2): env["SY_VERIF_FORCE_COW"] = "1"
    return f, c, o, env, excl

def gen_c07_case(rng):
    """trees placed exactly at, just below and just above the threshold (flat, no filters)"""
    cnt = rng.range(1, 40); thr = rng.pick([0, 1, 7, 10, 25, 28, 33, 50, 50, 66, 75, 90, 99, 100])
    base = thr * cnt // 100
    dels = max(0, min(cnt, base + rng.pick([-1, 0, 0, 1, 1, 2])))
    src, dst = {}, {}
    for i in range(cnt - dels):
        src[f"k{i}"] = F(b"keep%d" % i); dst[f"k{i}"] = F(b"keep%d" % i)
    for i in range(dels): dst[f"x{i}"] = F(b"stale")
    if rng.chance(1, 3): src["new"] = F(b"new file")
    flags = ["--delete", "--delete-threshold", str(thr), "-j", str(rng.pick([1, 4]))]
    links = "p"
    if rng.chance(1, 3):
        # source symlinks for which NOTHING is transferred (skip mode; dangling ones in follow mode): planned entries that
        # are no destination entries — they must not dilute the share either (seeded change C07c)
        links = rng.pick(["s", "f"]); flags += ["--links", "skip" if links == "s" else "follow"]
        for i in range(rng.range(3, 14)): src[f"ln{i}"] = L(rng.pick(["nowhere", "gone/away"]) if links == "f" else rng.pick(["nowhere", "k0", "."]))
    # sy's own metadata must not dilute the share: left behind by earlier runs, or created by this very run
    k = rng.below(6)
    if k == 0: dst[".sy-dir-cache.json"] = F(b"{}")
    elif k == 1: dst[".sy-state.json"] = F(b"not json"); dst[".sy-dir-cache.json"] = F(b"\x00garbage")
    with_db = (k == 2)
    if with_db: flags += ["--checksum", "--checksum-db", "true"]
    tie = 1 if (cnt > 0 and (dels / cnt) * 100.0 > float(thr)) else 0       # the f64 expression of sync/mod.rs
    exact_tie = dels * 100 == thr * cnt
    cfg = {"delete": 1, "thr": thr, "tie": tie if exact_tie else 0, "links": links}
    if with_db: cfg["cmp"] = "c"
    return src, dst, flags, cfg, {}, [], ("tie" if exact_tie else "above" if dels * 100 > thr * cnt else "below")

C08_EXTRA = [["--checksum", "--checksum-db", "true"], ["--use-cache", "true"], ["--clear-cache"], ["--clean-state"], ["--resume", "true"],
             ["--checksum", "--checksum-db", "true", "--clear-checksum-db"], ["--diff"], []]

_CNT = ("files_created", "files_updated", "files_skipped", "files_deleted", "bytes_transferred")
K_FIELDS = {
    "C01": {"exit", "dst", "inode-classes"}, "C02": {"dst"}, "C03": {"dst", "events", *_CNT}, "C05": {"exit", "dst", "inode-classes"},
    "C06": {"exit", "dst", "events"}, "C07": {"exit", "dst"}, "C08": {"exit", "dst", "events", *_CNT}, "C10": {"exit", "errors", "dst"},
    "C17": {"dst"}, "C19": {"events", "errors", "dst", *_CNT}, "C13": {"dst", "inode-classes"},
}

def excluded_bits(tree_paths, isdir, excl):
    """literal-name rules only (python mirror of FilterRule::matches for patterns without wildcards):
    NAME -> basename equality; NAME/ -> a directory named NAME and everything below any ancestor named NAME."""
    out = {}
    for rel in tree_paths:
        comps = rel.split("/")
        ex = False
        for pat in excl:
            if pat.endswith("/"):
                nm = pat[:-1]
                if (isdir[rel] and comps[-1] == nm) or nm in comps[:-1]: ex = True
            elif comps[-1] == pat: ex = True
            if ex: break
        out[rel] = ex
    return out

def scan_order(root):
    order = []
    for dp, dn, fn in os.walk(root):
        dn.sort(); fn.sort()
        for name in sorted(dn + fn):
            p = os.path.join(dp, name); order.append(os.path.relpath(p, root))
        dn[:] = [d for d in dn if not os.path.islink(os.path.join(dp, d))]
    # parents first: os.walk lists a directory's entries before descending
    return order

def tree_fingerprint(snap):
    """content-level snapshot for 'unchanged' oracles (ino and dir mtimes excluded)"""
    out = {}
    for rel, n in snap.items():
        if n["k"] == "f": out[rel] = ("f", n["cid"], n["size"], n["mtime"], tuple(sorted(n["xattrs"].items())), n["ino"], n["mode"])
        elif n["k"] == "l": out[rel] = ("l", n["text"])
        else: out[rel] = ("d",)
    return out

def events_of(stdout):
    ev, bad = parse_json_lines(stdout)
    return ev, bad

def run(tier="quick", seed=1, work=None, replay=None, focus="C01", ncases=None):
    rep = Report(rule=f"engine cases (focus {focus}): generated source tree (names incl. spaces/unicode/.sy.tmp/equal stems, nesting <= 3, sizes 0..20 KB, "
                      "symlinks relative/absolute/dangling/to-dir/outside, hard-link groups, user xattrs) x prior destination state per entry "
                      "(absent/equal/stale same size/mtime offsets 0,±0.9,±1.0,±1.9,±2.0,±2.1,±100 s/longer/shorter/link-where-file/extras incl. nested stale dirs) "
                      "x flags (links mode, compare mode, --delete/threshold/force, -X, -H, size bounds, literal excludes, -j, hooked delta path); "
                      "non-trivial = at least one create/update/delete performed or predicted; distinct = distinct (trees, flags)")
    rng = Rng(seed * 1_000_003 + sum(map(ord, focus)))
    n = ncases or (150 if tier == "quick" else 2000)
    os.makedirs(work, exist_ok=True)
    caps = probe_caps(work)
    if not caps.get("xattr"): rep.skipped.append("xattr streams skipped: user.* xattrs unsupported in work dir")
    drv = Driver()
    contents = Contents()
    try:
        for ci in range(n):
            case_dir = os.path.join(work, f"c{ci}")
            src_root, dst_root, out_root = (os.path.join(case_dir, x) for x in ("src", "dst", "out"))
            if caps.get("hardlink") and focus in ("C03", "C01", "C19", "C13") and ci % 12 == 5:
                broken_link_history(rep, contents, ci, seed, work, rng)
            if focus in ("C03", "C01", "C02") and ci % 12 == 7:
                moved_dir_history(rep, contents, ci, seed, work, rng)
            if caps.get("hardlink") and focus == "C05" and ci % 20 == 3:
                link_group_failure_twin(rep, contents, ci, seed, work, rng)
            if focus == "C06" and ci % 30 == 9:
                stale_dir_named_like_working_file(rep, contents, ci, seed, work, rng)
            if focus == "C07" and ci % 2 == 0:
                src, dst, flags, cfg, env, excl, cls = gen_c07_case(rng); rep.tag("c07." + cls)
            elif focus in ("C02", "C05", "C09") and ci % 15 == 4:
                # targeted (seeded change C02d; repo fix d0ec669): a DANGLING symlink bearing the working-file name of a file that is updated
                # through the block-delta route, pointing out of the destination — into the outside area, into the source.  It is a leftover
                # to be removed, never a path to create the working file through.
                flags, cfg, opts, env, excl = gen_flags(rng, "plain", caps)
                flags = [x for x in flags]; excl = []
                while "--exclude" in flags: i_ = flags.index("--exclude"); del flags[i_:i_ + 2]
                for k_ in ("min", "max"):
                    fl_ = "--%s-size" % k_
                    if fl_ in flags: i_ = flags.index(fl_); del flags[i_:i_ + 2]; cfg.pop(k_, None)
                env = {"SY_VERIF_DELTA_THRESHOLD": "4096", "SY_VERIF_BLOCK_SIZE": "1024"}
                d1 = rng.bytes(4096) * 3; d2 = rng.bytes(4096) * 2
                src = {"big.bin": F(d1, BASE_T * 10**9 + 90 * 10**9), "sub": D(), "sub/other.dat": F(d2, BASE_T * 10**9 + 90 * 10**9)}
                dst = {"big.bin": F(d1[:5000] + bytes([d1[5000] ^ 0xFF]) + d1[5001:]), "big.bin.sy.tmp": L(rng.pick(["@OUT@/ghost", "@SRC@/ghost"])),
                       "sub": D(), "sub/other.dat": F(d2[:100] + bytes([d2[100] ^ 0xFF]) + d2[101:]), "sub/other.dat.sy.tmp": L(rng.pick(["../../out/ghost2", "@SRC@/sub/ghost3"]))}
                rep.tag("targeted.dangling-link-at-working-file-name")
            elif focus in ("C01", "C10", "C19") and ci % 25 == 17:
                # targeted (seeded change C10d): a regular FILE in the destination where the source has an EMPTY directory, and nothing else
                # that could fail — the creation of the directory must fail visibly (exit non-zero, an error record), never "succeed" because
                # something already exists at the path
                flags, cfg, opts, env, excl = gen_flags(rng, "plain", caps)
                flags = [x for x in flags]; excl = []
                while "--exclude" in flags: i_ = flags.index("--exclude"); del flags[i_:i_ + 2]
                for k_ in ("min", "max"):
                    fl_ = "--%s-size" % k_
                    if fl_ in flags: i_ = flags.index(fl_); del flags[i_:i_ + 2]; cfg.pop(k_, None)
                src = {"keep.txt": F(b"keep"), "spool": D(), "full": D(), "full/a": F(rng.bytes(rng.range(1, 60)))}
                dst = {"keep.txt": F(b"old", BASE_T * 10**9 - 50 * 10**9), "spool": F(b"a file where the source has an empty directory"), "full": D()}
                rep.tag("targeted.file-where-empty-dir")
            elif focus in ("C01", "C06", "C16") and ci % 25 == 11:
                # targeted: excluded directories next to siblings whose names merely START with the directory's name (byte-wise
                # prefix, no separator): the siblings and everything below them stay selected whatever the walk order is
                # (seeded changes C16, C01c, C16c)
                flags, cfg, opts, env, excl = gen_flags(rng, "plain", caps)
                flags = [x for x in flags]; excl = []
                while "--exclude" in flags: i_ = flags.index("--exclude"); del flags[i_:i_ + 2]
                for k_ in ("min", "max"): 
                    fl_ = "--%s-size" % k_
                    if fl_ in flags: i_ = flags.index(fl_); del flags[i_:i_ + 2]; cfg.pop(k_, None)
                src = {"keep.txt": F(b"keep")}
                for d_ in ("aa", "bb", "cc"):
                    excl.append(d_); flags += ["--exclude", d_]
                    src[d_] = D(); src[d_ + "/inside.txt"] = F(b"excluded with its directory")
                    src[d_ + ".txt"] = F(rng.bytes(rng.range(1, 40))); src[d_ + "-old"] = F(rng.bytes(rng.range(1, 40)))
                    src[d_ + "2"] = D(); src[d_ + "2/f.bin"] = F(rng.bytes(rng.range(1, 40))); src[d_ + "X"] = F(b"x")
                dst = gen_dst(rng, src, opts); rep.tag("targeted.prefix-siblings-of-excluded-dirs")
            else:
                flags, cfg, opts, env, excl = gen_flags(rng, focus, caps)
                src = gen_src(rng, opts); dst = gen_dst(rng, src, opts)
            leftovers = []
            if focus == "C08" and rng.chance(1, 2):
                # whatever earlier runs (or older versions) left behind: the dry run may not even tidy these up
                for nm_ in rng.pick([[".sy-dir-cache.json"], [".sy-state.json"], [".sy-dir-cache.json", ".sy-state.json"], [".sy-checksums.db"]]):
                    body = rng.pick([b'{"directories":{},"files":{}}', b'{"dir_entr', b"garbage\x00\x01", b"", b'{"version":1,"source":"/x","destination":"/y","completed_files":[]}'])
                    leftovers.append((nm_, body)); rep.tag("c08.leftover." + nm_)
            if focus == "C08":
                extra = rng.pick(C08_EXTRA)
                if "--checksum" in extra:
                    if cfg.get("cmp", "d") == "d": cfg["cmp"] = "c"
                    elif cfg.get("cmp") == "c": extra = [x for x in extra if x != "--checksum"]
                    else: extra = []
                flags = flags + extra
                for x in extra:
                    if x.startswith("--"): rep.tag("c08.flag." + x)
            subst = {"@SRC@": src_root, "@OUT@": out_root}
            os.makedirs(out_root); open(os.path.join(out_root, "sentinel.txt"), "wb").write(b"sentinel")
            open(os.path.join(out_root, "big_sentinel.bin"), "wb").write(bytes(range(256)) * 40)      # 10 KiB: above the hooked delta gate
            for nm_ in ("sentinel.txt", "big_sentinel.bin"): os.utime(os.path.join(out_root, nm_), ns=(BASE_T * 10**9, BASE_T * 10**9))
            materialize(src_root, src, subst); materialize(dst_root, dst, subst)
            for nm_, body in leftovers: open(os.path.join(dst_root, nm_), "wb").write(body)
            if focus == "C08" and rng.chance(1, 3) and not any(x.startswith("--min-size") or x.startswith("--max-size") for x in flags):
                # a VALID resume state compatible with this run's flags (an older version's): a dry run must leave it alone too
                import cache_stream
                done = [r for r, n in src.items() if n["k"] == "f" and r.isascii()][:3]
                cache_stream.valid_resume_state(dst_root, src_root, done, delete=bool(cfg.get("delete")))
                rep.tag("c08.leftover.valid-resume-state")
            if focus == "C05":
                parallel_twin(rep, contents, ci, seed, case_dir, src_root, dst_root, flags, cfg, env)
            res = one_case(rep, drv, contents, focus, ci, seed, case_dir, src_root, dst_root, out_root, flags, cfg, env, excl)
            if res and res["rc"] == 0 and not cfg.get("dry") and (focus in ("C03", "C17", "C02") or ci % 5 == 0):
                for k in range(1, 3 if focus == "C03" else 2):
                    rerun_fixed_point(rep, drv, contents, res, k, case_dir, src_root, dst_root, flags, cfg, env, excl)
            if res and focus in ("C02", "C17"):
                if focus == "C02" and caps.get("hardlink") and rng.chance(1, 2):
                    # a snapshot of the destination made with hard links (cp -al) OUTSIDE both roots: whatever later runs
                    # do to the destination, they must not write through the shared inodes (seeded change C02c)
                    snap = os.path.join(out_root, "snap")
                    for dp, dn, fn in os.walk(dst_root):
                        for name in fn:
                            pth = os.path.join(dp, name)
                            if os.path.islink(pth) or not os.path.isfile(pth): continue
                            q = os.path.join(snap, os.path.relpath(pth, dst_root)); os.makedirs(os.path.dirname(q), exist_ok=True)
                            try: os.link(pth, q)
                            except OSError: pass
                    rep.tag("history.hardlink-snapshot-outside")
                for h in range(2):
                    edit_source(rng, src_root, out_root)
                    flags2 = list(flags)
                    res = one_case(rep, drv, contents, focus, ci, seed, case_dir, src_root, dst_root, out_root, flags2, cfg, env, excl)
                    if not res: break
                    rep.tag("history.step")
            shutil.rmtree(case_dir, ignore_errors=True)
    finally:
        drv.close()
    return rep.to_dict()

def one_case(rep, drv, contents, focus, ci, seed, case_dir, src_root, dst_root, out_root, flags, cfg, env, excl):
    pre_src = snapshot(src_root, contents); pre_dst = snapshot(dst_root, contents); pre_out = snapshot(out_root, contents)
    order = scan_order(src_root)
    isdir = {r: (pre_src[r]["k"] == "d") for r in order}
    exb = excluded_bits(order, isdir, excl)
    req = f"engine.run {enc_cfg(cfg)} {enc_scan(src_root, order, exb, contents)} {enc_dst(pre_dst, contents)}"
    model = parse_model_result(drv.ask(req))
    desc = {"case": ci, "seed": seed, "flags": flags, "env": env, "src": {r: (n["k"], n.get("size"), n.get("text")) for r, n in sorted(pre_src.items())},
            "dst": {r: (n["k"], n.get("size"), n.get("text")) for r, n in sorted(pre_dst.items())}}
    if model is None:
        rep.disagree({"what": "model returned bad-op", "request": req[:400], **desc}); return None
    if focus == "C08":
        if not dry_twin(rep, drv, contents, desc, case_dir, src_root, dst_root, out_root, flags, cfg, env, order, exb, pre_src, pre_dst, pre_out): return None
    # every seventh case writes the roots with a trailing separator, as users do (`sy src/ dst/`): the scanner strips the root
    # component-wise, so the outcome must be the same (the translated scanner compares path TEXTS: DESIGN §8, unit Scanner)
    slash = "/" if ci % 7 == 3 and focus != "C08" else ""
    if slash: rep.tag("roots.trailing-separator"); desc["roots"] = "trailing separator"
    rc, out, err = run_sy([src_root + slash, dst_root + slash, "--json"] + flags, case_dir, env_extra=env)
    post_src = snapshot(src_root, contents); post_dst = snapshot(dst_root, contents); post_out = snapshot(out_root, contents)
    ev, bad = events_of(out)
    summ = next((e for e in ev if e.get("type") == "summary"), None)
    rel_of = lambda p: os.path.relpath(p, dst_root)
    # JSON carries paths lossily: map them back to the real names where that is unambiguous
    back = {}
    for r_ in set(pre_src) | set(pre_dst) | set(post_dst):
        back.setdefault(lossy(r_), set()).add(r_)
    unl = lambda r_: next(iter(back[r_])) if r_ in back and len(back[r_]) == 1 else r_
    real_events = sorted((e["type"][0], unl(rel_of(e["path"]))) for e in ev if e.get("type") in ("create", "update", "skip", "delete"))
    real_errors = sorted(unl(rel_of(e["path"])) for e in ev if e.get("type") == "error")
    nontrivial = any(a != "s" for a, _ in model["events"]) or any(a != "s" for a, _ in real_events)
    rep.case((tuple(flags), tuple(sorted((r, repr(n)) for r, n in tree_fingerprint(pre_src).items())), tuple(sorted((r, repr(n)) for r, n in tree_fingerprint(pre_dst).items()))), nontrivial)
    for fl in flags:
        if fl.startswith("-") and not fl.lstrip("-").isdigit(): rep.tag("flag." + fl)
    for a, _ in real_events: rep.tag("event." + a)
    rep.tag("exit.%s" % rc)
    if env: rep.tag("hook.delta-path")
    rep.sample({"flags": flags, "src_entries": len(pre_src), "dst_entries": len(pre_dst), "events": real_events[:8], "exit": rc})

    # ---------------- K: model vs implementation ----------------
    dis = []
    if rc is None: dis.append(("timeout", None, None))
    else:
        if (rc != 0) != (model["exit"] != 0): dis.append(("exit", rc, model["exit"]))
        if not model["refused"] and not model["aborted"] and summ is not None:
            for k, mk in (("files_created", "created"), ("files_updated", "updated"), ("files_skipped", "skipped"), ("files_deleted", "deleted"), ("bytes_transferred", "bytes")):
                if summ.get(k) != model[mk]: dis.append((k, summ.get(k), model[mk]))
            if real_events != model["events"]: dis.append(("events", [e for e in real_events if e not in model["events"]][:6], [e for e in model["events"] if e not in real_events][:6]))
            if real_errors != sorted(p for _, p in model["errors"]): dis.append(("errors", real_errors[:6], model["errors"][:6]))
        elif summ is None and not (model["refused"] or model["aborted"]): dis.append(("no-summary", err[-300:], None))
        mc, mi = model_dst_canon(model["dst"]); rc_, ri = real_dst_canon(post_dst, contents)
        if mc != rc_:
            diff = {r: (rc_.get(r), mc.get(r)) for r in set(mc) | set(rc_) if mc.get(r) != rc_.get(r)}
            # the recorded finding C05/user-file-named-like-temp = C06/extra-named-like-working-file-clobbered (Lean: Refine.refines_counterexample_temp_in_use):
            # a destination entry bearing the working-file name of a file that this run updated is removed, while the entry-level model keeps it.
            # It is reported by the C05 / C06 oracles under those signatures; here it is not a NEW disagreement of the model.
            for r in [r for r in diff if r.endswith(".sy.tmp")]:
                base = r[:-7]
                if (rc_.get(r) is None and r in pre_dst and pre_dst[r]["k"] != "d" and (pre_src.get(base) or {}).get("k") == "f" and (pre_dst.get(base) or {}).get("k") == "f"
                        and base in post_dst and tree_fingerprint({base: pre_dst[base]}) != tree_fingerprint({base: post_dst[base]})):
                    del diff[r]; rep.tag("known.working-file-name-in-use")
                    if focus == "C05": rep.oracle_fail("C05/user-file-named-like-temp", f"destination entry {r} bears the working-file name of {base}, which was updated: removed", desc)
            if diff: dis.append(("dst", dict(list(sorted(diff.items()))[:6]), None))
        elif mi != ri: dis.append(("inode-classes", ri, mi))
    # the recorded residual collision of the deterministic working-file name (C05/user-file-named-like-temp, C06/extra-named-like-working-file-
    # clobbered; Lean: Refine.refines_counterexample_temp_in_use): an entry named <x>.sy.tmp beside a regular file x that exists on both sides
    # (an update candidate of the block-delta route).  The entry-level model does not know working files; what the run does to <x>.sy.tmp
    # and to x in such a case (removed, clobbered, a failed operation when both are transferred at once) is that finding, reported by the
    # C05 / C06 checks under its signatures — here it is not a NEW disagreement of the model.  Everything else in the case is still compared.
    # (under --links follow a source symlink is transferred as the regular file it points to)
    src_file_kinds = ("f", "l") if cfg.get("links", "p") not in ("p", "s") else ("f",)
    collide = {r for r in set(pre_src) | set(pre_dst) if r.endswith(".sy.tmp") and (pre_src.get(r[:-7]) or {}).get("k") in src_file_kinds and (pre_dst.get(r[:-7]) or {}).get("k") == "f"}
    collide |= {r[:-7] for r in collide}
    if collide and dis:
        kept = []
        for d in dis:
            if d[0] == "dst" and isinstance(d[1], dict) and set(d[1]) <= collide: continue
            if d[0] in ("exit", "errors", "events", "files_created", "files_updated", "files_skipped", "bytes_transferred") and rc not in (None, 0) \
               and real_errors and set(real_errors) <= collide: continue
            kept.append(d)
        if len(kept) != len(dis): rep.tag("known.working-file-name-in-use")
        dis = kept
    # a check compares the fields its property speaks about (a disagreement elsewhere is another property's business
    # and is decided by that property's check on the same generators)
    rel = K_FIELDS.get(focus)
    if rel is not None:
        dis = [d for d in dis if d[0] in rel or d[0] in ("timeout", "no-summary")]
    if dis:
        rep.disagree({"what": [d[0] for d in dis], "details": [repr(d)[:500] for d in dis], "stderr": err[-300:], **desc})

    # ---------------- O: oracles from the property texts ----------------
    oracles(rep, focus, desc, rc, ev, bad, summ, real_events, real_errors, pre_src, post_src, pre_dst, post_dst, pre_out, post_out,
            flags, cfg, excl, exb, order, src_root, dst_root, case_dir, env, contents, err)
    return {"rc": rc, "post_dst": post_dst, "summ": summ, "events": real_events, "desc": desc}

def rerun_fixed_point(rep, drv, contents, res, k, case_dir, src_root, dst_root, flags, cfg, env, excl):
    """C03: immediately re-running the same command after a success changes nothing (k-th re-run)."""
    desc = dict(res["desc"]); desc["rerun"] = k
    pre = snapshot(dst_root, contents)
    rc, out, err = run_sy([src_root, dst_root, "--json"] + flags, case_dir, env_extra=env)
    post = snapshot(dst_root, contents)
    ev, bad = parse_json_lines(out)
    summ = next((e for e in ev if e.get("type") == "summary"), None)
    rep.tag("c03.rerun")
    if rc != 0 and summ is not None:
        # the recorded residual collision, directory variant: a destination entry <x>.sy.tmp that is NOT a regular leftover (the user's own
        # directory) makes the block-delta update of x fail, honestly (error record, exit 1) — which a first run that CREATED x does not meet
        # and an --ignore-times re-run does.  Errors confined to such x are that finding, not a broken fixed point.
        errs_ = {os.path.relpath(e["path"], dst_root) for e in ev if e.get("type") == "error" and e.get("path")}
        coll_ = {r[:-7] for r in pre if r.endswith(".sy.tmp") and (pre.get(r[:-7]) or {}).get("k") == "f" and os.path.isfile(os.path.join(src_root, r[:-7]))}
        if errs_ and errs_ <= coll_: rep.tag("known.working-file-name-in-use"); return
    if rc != 0 or summ is None:
        rep.oracle_fail("C03/rerun-failed", f"re-run after a successful sync exits {rc}: {err[-200:]}", desc); return
    fp0, fp1 = tree_fingerprint(pre), tree_fingerprint(post)
    if cfg.get("cmp") == "i":
        # --ignore-times re-transfers every file by definition: only the unchanged-destination half applies (content, link text)
        strip = lambda fp: {r: (v[0], v[1], v[2]) if v[0] == "f" else v for r, v in fp.items()}
        a_, b_ = strip(fp0), strip(fp1)
        ch = sorted(r for r in set(a_) | set(b_) if a_.get(r) != b_.get(r))
        # the recorded finding C05/user-file-named-like-temp (= C06/extra-named-like-working-file-clobbered): an entry of the user that bears
        # the working-file name of a regular file this run re-transferred is removed; it is reported by the C05 / C06 checks, not here
        known = [r for r in ch if r.endswith(".sy.tmp") and r not in post and pre[r]["k"] != "d" and (pre.get(r[:-7]) or {}).get("k") == "f"
                 and os.path.isfile(os.path.join(src_root, r[:-7])) and not os.path.lexists(os.path.join(src_root, r))]
        if known: rep.tag("known.working-file-name-in-use")
        ch = [r for r in ch if r not in known]
        if ch: rep.oracle_fail("C03/rerun-changed-destination-content", f"re-run with --ignore-times changed destination content: {ch[:4]}", desc)
        return
    if summ["files_created"] or summ["files_updated"] or summ["files_deleted"] or summ["bytes_transferred"]:
        acts = sorted((e["type"], os.path.relpath(e["path"], dst_root)) for e in ev if e.get("type") in ("create", "update", "delete"))
        rep.oracle_fail("C03/rerun-not-a-noop", f"re-run reports created={summ['files_created']} updated={summ['files_updated']} deleted={summ['files_deleted']} bytes={summ['bytes_transferred']}: {acts[:4]}", desc)
    if fp0 != fp1:
        ch = sorted(r for r in set(fp0) | set(fp1) if fp0.get(r) != fp1.get(r))
        rep.oracle_fail("C03/rerun-changed-destination", f"re-run changed destination entries (content/mtime/link/inode): {ch[:4]}", desc)

def edit_source(rng, src_root, out_root):
    """history step: retarget a link, replace a link by a file and back, modify / add a file"""
    entries = []
    for dp, dn, fn in os.walk(src_root):
        for name in dn + fn: entries.append(os.path.join(dp, name))
    links = [p for p in entries if os.path.islink(p)]
    files = [p for p in entries if os.path.isfile(p) and not os.path.islink(p)]
    k = rng.below(6)
    t = BASE_T * 10**9 + rng.range(2000, 3000) * 10**9
    if k == 5 and links:
        # a link becomes a real DIRECTORY with content; one child has the name, size and mtime of a file in the outside
        # area (through a stale destination link it would be judged up to date), the others would be created through it
        p = rng.pick(links); os.unlink(p); os.makedirs(os.path.join(p, "inner"))
        for nm, body, tt in (("sentinel.txt", b"SENTINEL", BASE_T * 10**9), ("big_sentinel.bin", bytes(reversed(range(256))) * 40, BASE_T * 10**9),
                             ("fresh.txt", b"fresh", t), ("inner/deep.bin", b"deep" * 50, t)):
            with open(os.path.join(p, nm), "wb") as f: f.write(body)
            os.utime(os.path.join(p, nm), ns=(tt, tt))
    elif k == 0 and links:
        p = rng.pick(links); os.unlink(p); os.symlink(rng.pick(["nowhere2", os.path.join(out_root, "sentinel.txt"), os.path.basename(rng.pick(files)) if files else "x"]), p)
    elif k == 1 and links:
        p = rng.pick(links); os.unlink(p)
        with open(p, "wb") as f: f.write(b"now a regular file")
        os.utime(p, ns=(t, t))
    elif k == 2 and files:
        p = rng.pick(files); os.unlink(p); os.symlink(rng.pick(["nowhere", os.path.join(src_root, os.path.relpath(rng.pick(files), src_root))]), p)
    elif k == 3 and files:
        p = rng.pick(files)
        with open(p, "ab") as f: f.write(b"+edit")
        os.utime(p, ns=(t, t))
    else:
        p = os.path.join(src_root, f"added{rng.below(100)}")
        if not os.path.lexists(p):
            with open(p, "wb") as f: f.write(b"added")
            os.utime(p, ns=(t, t))
    for dp, dn, fn in os.walk(src_root, topdown=False): os.utime(dp, ns=(BASE_T * 10**9, BASE_T * 10**9))

def parallel_twin(rep, contents, ci, seed, case_dir, src_root, dst_root, flags, cfg, env):
    """C05: the same inputs handled with one worker and with N workers give the same destination."""
    twin = case_dir + "-twin"
    shutil.copytree(case_dir, twin, symlinks=True)
    # copytree does not keep hard links or directory mtimes; restore file mtimes are kept by copy2
    f1 = [x for x in flags]; i = f1.index("-j"); f1[i + 1] = "1"
    fn = [x for x in flags]; fn[i + 1] = "8"
    tsrc, tdst = os.path.join(twin, "src"), os.path.join(twin, "dst")
    rc1, out1, err1 = run_sy([tsrc, tdst, "--json"] + f1, twin, env_extra=env)
    snap1 = snapshot(tdst, contents)
    shutil.rmtree(twin, ignore_errors=True)
    shutil.copytree(case_dir, twin, symlinks=True)
    rcn, outn, errn = run_sy([tsrc, tdst, "--json"] + fn, twin, env_extra=env)
    snapn = snapshot(tdst, contents)
    shutil.rmtree(twin, ignore_errors=True)
    desc = {"case": ci, "seed": seed, "flags": flags, "env": env}
    rep.tag("c05.twin")
    strip = lambda snap: {r: (v[0], v[1], v[2], v[3], v[4]) if v[0] == "f" else v for r, v in tree_fingerprint(snap).items()}
    if rc1 != rcn: rep.oracle_fail("C05/exit-depends-on-j", f"-j1 exits {rc1}, -j8 exits {rcn}", desc)
    elif strip(snap1) != strip(snapn):
        ch = sorted(r for r in set(snap1) | set(snapn) if strip(snap1).get(r) != strip(snapn).get(r))
        rep.oracle_fail("C05/result-depends-on-j", f"destination after -j1 and after -j8 differ at {ch[:4]}", desc)
    elif ino_classes(snap1) != ino_classes(snapn) and rc1 == 0:
        rep.oracle_fail("C05/link-structure-depends-on-j", f"hard-link classes differ: -j1 {ino_classes(snap1)} -j8 {ino_classes(snapn)}", desc)

# RLIMIT_FSIZE (16 MiB) with SIGXFSZ ignored: a copy of a larger file fails with EFBIG after 16 MiB were written,
# i.e. late enough for the other members of its link group to be parked behind it
FSIZE_16M = ["sh", "-c", 'trap "" XFSZ; ulimit -f 32768; exec "$@"', "sh"]

def link_group_failure_twin(rep, contents, ci, seed, work, rng):
    """C05 (seeded change C05b): a hard-link group whose data copy FAILS is handled with -j 1 and with -j N: both runs
    terminate, with the same exit status and the same destination."""
    case = os.path.join(work, f"lgf{ci}")
    n = rng.range(3, 5); size = (18 + rng.below(6)) * 1024 * 1024 + rng.below(4096)
    names = [f"d{k}/m{k}" for k in range(n)]
    res = {}
    for j in (1, rng.pick([4, 8])):
        W = os.path.join(case, f"j{j}"); src = os.path.join(W, "src"); dst = os.path.join(W, "dst")
        os.makedirs(src); os.makedirs(dst)
        first = os.path.join(src, names[0]); os.makedirs(os.path.dirname(first))
        with open(first, "wb") as h:
            blk = Rng(seed * 7919 + ci).bytes(65536)
            for _ in range(size // 65536): h.write(blk)
            h.write(blk[:size % 65536])
        os.utime(first, ns=(BASE_T * 10**9, BASE_T * 10**9))
        for nm in names[1:]:
            os.makedirs(os.path.dirname(os.path.join(src, nm))); os.link(first, os.path.join(src, nm))
        open(os.path.join(src, "plain.txt"), "wb").write(b"plain"); os.utime(os.path.join(src, "plain.txt"), ns=(BASE_T * 10**9, BASE_T * 10**9))
        rc, out, err = run_sy([src, dst, "--json", "-H", "-j", str(j)], W, prefix=FSIZE_16M, timeout=25)
        # what a FAILED copy leaves behind carries the time of the failure (kernel-stamped): content and size are compared, not mtime
        res[j] = (rc, {r: (v[0], v[1], v[2]) if v[0] == "f" else v for r, v in tree_fingerprint(snapshot(dst, contents)).items()})
        shutil.rmtree(W, ignore_errors=True)
    shutil.rmtree(case, ignore_errors=True)
    (j1, (rc1, s1)), (jn, (rcn, sn)) = sorted(res.items())
    desc = {"case": ci, "seed": seed, "flags": ["-H"], "link_group": names, "size": size, "file_size_limit": 16 * 1024 * 1024, "exits": {f"-j{j1}": rc1, f"-j{jn}": rcn}}
    rep.tag("c05.link-group-failure-twin"); rep.case(("lgf", n, size), True)
    if rc1 is None or rcn is None:
        rep.oracle_fail("C05/termination-depends-on-j" if (rc1 is None) != (rcn is None) else "C05/run-does-not-terminate",
                        f"sy -H over a link group of {n} names whose copy fails: -j{j1} {'hangs' if rc1 is None else 'exits ' + str(rc1)}, -j{jn} {'hangs' if rcn is None else 'exits ' + str(rcn)}", desc)
    elif (rc1 == 0) != (rcn == 0):
        rep.oracle_fail("C05/exit-depends-on-j", f"-j{j1} exits {rc1}, -j{jn} exits {rcn}", desc)
    elif s1 != sn:
        ch = sorted(r for r in set(s1) | set(sn) if s1.get(r) != sn.get(r))
        rep.oracle_fail("C05/result-depends-on-j", f"destination after -j{j1} and after -j{jn} differ at {ch[:4]}", desc)

def stale_dir_named_like_working_file(rep, contents, ci, seed, work, rng):
    """C06 ("removing a stale directory together with its contents completes without spurious errors … extras whose names look like sy
    working files; all worker counts"): stale destination DIRECTORIES <f>.sy.tmp/ with contents, next to files f that the same run
    updates through the block-delta route.  Once the directory task has removed the tree, the update may create its working file under
    that very name; the delete tasks of the children then meet ENOTDIR instead of ENOENT (found by seed sweep 11, case 103; repo fix
    recorded as fixed: C06/spurious-delete-errors/parent-name-reused)."""
    case_dir = os.path.join(work, f"sdw{ci}"); src_root, dst_root = os.path.join(case_dir, "src"), os.path.join(case_dir, "dst")
    t = BASE_T * 10**9; src, dst = {}, {}
    nf = rng.range(4, 8)
    for i in range(nf):
        d = rng.bytes(2048) * 32; j = rng.range(100, len(d) - 1)
        src[f"f{i}"] = F(d, t + 90 * 10**9); dst[f"f{i}"] = F(d[:j] + bytes([d[j] ^ 0xFF]) + d[j + 1:], t)
        base = f"f{i}.sy.tmp"; dst[base] = D()
        for a in range(rng.range(2, 5)):
            dst[f"{base}/d{a}"] = D()
            for b in range(rng.range(3, 9)): dst[f"{base}/d{a}/x{b}"] = F(rng.bytes(rng.range(0, 20)), t)
        dst[f"{base}/leaf"] = F(b"leaf", t)
    materialize(src_root, src, {}); materialize(dst_root, dst, {})
    flags = ["--delete", "--force-delete", "-j", str(rng.pick([4, 8, 16]))]
    env = {"SY_VERIF_DELTA_THRESHOLD": "4096", "SY_VERIF_BLOCK_SIZE": "256"}
    rc, out, err = run_sy([src_root, dst_root, "--json"] + flags, case_dir, env_extra=env)
    ev, bad = events_of(out)
    errs = sorted(os.path.relpath(e["path"], dst_root) for e in ev if e.get("type") == "error" and e.get("path"))
    post = snapshot(dst_root, contents)
    desc = {"case": ci, "seed": seed, "flags": flags, "env": env, "rc": rc, "stderr": (err or "")[-300:],
            "scenario": f"{nf} files f<i> (64 KiB, one changed byte) + stale directories f<i>.sy.tmp/ with nested contents in the destination"}
    rep.tag("c06.stale-dir-named-like-working-file"); rep.case(("sdw", nf, tuple(flags)), True)
    below = [r for r in errs if ".sy.tmp/" in r or r.endswith(".sy.tmp")]
    if below:
        rep.oracle_fail("C06/spurious-delete-errors/parent-name-reused", f"exit {rc}: {len(below)} error records for stale entries that are gone with their directory: {below[:3]} ({(err or '').strip().splitlines()[:1]})", desc)
    if [r for r in errs if r not in below]: rep.tag("c06.sdw.update-failed-while-stale-dir-held-the-working-name")
    if rc == 0:
        extra = sorted(set(post) - set(src)); wrong = sorted(r for r in src if (post.get(r) or {}).get("cid") != contents.id(src[r]["data"]))
        if extra or wrong: rep.oracle_fail("C06/not-a-mirror", f"after --delete: extra {extra[:3]} wrong {wrong[:3]}", desc)
    shutil.rmtree(case_dir, ignore_errors=True)

def broken_link_history(rep, contents, ci, seed, work, rng):
    """O-only history (found by the C02/C17 histories): two source names of one inode are synced with -H, then the
    link is broken in the source. Each destination name must end with its own source's content, the untouched name must
    not change, and a further re-run must be a no-op."""
    case_dir = os.path.join(work, f"bl{ci}")
    src_root, dst_root = os.path.join(case_dir, "src"), os.path.join(case_dir, "dst")
    da, db = rng.bytes(rng.range(1, 3000)), rng.bytes(rng.range(1, 3000))
    src = {"a": F(da, link=1), "sub": D(), "sub/b": F(da, link=1), "c": F(b"other")}
    materialize(src_root, src); os.makedirs(dst_root)
    flags = ["-H", "-j", str(rng.pick([1, 4]))] + (["--checksum"] if rng.chance(1, 3) else [])
    desc = {"case": ci, "seed": seed, "flags": flags, "scenario": "link a = sub/b synced with -H, then sub/b replaced by an independent file"}
    rc, out, err = run_sy([src_root, dst_root, "--json"] + flags, case_dir)
    victim = rng.pick(["a", "sub/b"])
    p = os.path.join(src_root, victim); os.unlink(p)
    with open(p, "wb") as f: f.write(db)
    t = BASE_T * 10**9 + 5000 * 10**9; os.utime(p, ns=(t, t))
    pre = snapshot(dst_root, contents)
    rc, out, err = run_sy([src_root, dst_root, "--json"] + flags, case_dir)
    post = snapshot(dst_root, contents); s = snapshot(src_root, contents)
    ev, bad = parse_json_lines(out)
    rep.tag("c03.broken-link-history"); rep.case(("broken-link", da, db, tuple(flags), victim), True)
    if rc == 0:
        for rel in ("a", "sub/b"):
            if post.get(rel, {}).get("cid") != s[rel]["cid"]:
                rep.oracle_fail("C01/unshared-hardlink-written-through", f"after breaking the source link, destination {rel} does not hold its source's content although the run exited 0", desc)
        for e in ev:
            if e.get("type") == "skip":
                rel = os.path.relpath(e["path"], dst_root)
                if tree_fingerprint(pre).get(rel) != tree_fingerprint(post).get(rel):
                    rep.oracle_fail("C19/skip-event-but-changed", f"skip event for {rel} but the entry changed (written through a destination hard link)", desc)
        rc2, out2, err2 = run_sy([src_root, dst_root, "--json"] + flags, case_dir)
        ev2, _ = parse_json_lines(out2)
        summ = next((e for e in ev2 if e.get("type") == "summary"), None)
        if summ and (summ["files_updated"] or summ["files_created"]):
            rep.oracle_fail("C03/write-through-unshared-dst-hardlink", f"re-run after the broken-link update still updates {summ['files_updated']} file(s): the two names flip on every run", desc)
    shutil.rmtree(case_dir, ignore_errors=True)

def moved_dir_history(rep, contents, ci, seed, work, rng):
    """O-only history (seeded change C03c; repo fix 862af11): a destination directory was moved elsewhere and replaced by a symlink
    to its new place (so everything below it is reachable THROUGH the link with equal size and mtime), the source still has the
    directory.  Run 1 must replace the link by a real directory holding every source entry (never touching the moved copy);
    run 2 must be a no-op."""
    case_dir = os.path.join(work, f"mv{ci}")
    src_root, dst_root, out_root = (os.path.join(case_dir, x) for x in ("src", "dst", "out"))
    big = rng.bytes(rng.pick([5000, 9000, 20000])); small = rng.bytes(rng.range(1, 300))
    tree = {"a.txt": F(b"top"), "d": D(), "d/big.bin": F(big), "d/small.txt": F(small), "d/sub": D(), "d/sub/deep.dat": F(rng.bytes(6000))}
    materialize(src_root, tree)
    materialize(dst_root, {"a.txt": F(b"top")})
    materialize(os.path.join(out_root, "d_moved"), {k[2:]: v for k, v in tree.items() if k.startswith("d/")})
    os.symlink(os.path.join(out_root, "d_moved"), os.path.join(dst_root, "d"))
    flags = ["-j", str(rng.pick([1, 4]))] + rng.pick([[], [], ["--checksum"], ["--delete", "--force-delete"]])
    desc = {"case": ci, "seed": seed, "flags": flags, "scenario": "destination directory d moved to out/d_moved and replaced by a symlink; source still has d/"}
    pre_out = snapshot(out_root, contents); s = snapshot(src_root, contents)
    rc, out, err = run_sy([src_root, dst_root, "--json"] + flags, case_dir)
    post1 = snapshot(dst_root, contents)
    rep.tag("history.moved-dir-behind-link"); rep.case(("moved-dir", len(big), tuple(flags)), True)
    if tree_fingerprint(snapshot(out_root, contents)) != tree_fingerprint(pre_out):
        rep.oracle_fail("C02/outside-modified", "the moved copy behind the destination symlink was modified", desc)
    if rc == 0:
        for rel, n in s.items():
            d = post1.get(rel)
            if d is None or d["k"] != n["k"]: rep.oracle_fail("C01/selected-file-missing" if n["k"] == "f" else "C01/selected-dir-missing", f"exit 0 but {rel} is missing / of the wrong kind after the link was replaced", desc); break
            if n["k"] == "f" and d["cid"] != n["cid"]: rep.oracle_fail("C01/content-differs", f"exit 0 but {rel} differs from its source", desc); break
        rc2, out2, err2 = run_sy([src_root, dst_root, "--json"] + flags, case_dir)
        ev2, _ = parse_json_lines(out2)
        summ = next((e for e in ev2 if e.get("type") == "summary"), None)
        if summ and (summ["files_updated"] or summ["files_created"] or summ["files_deleted"] or summ["bytes_transferred"]):
            rep.oracle_fail("C03/rerun-not-a-noop", f"second run after replacing the link: created {summ['files_created']} updated {summ['files_updated']} deleted {summ['files_deleted']}", desc)
        if tree_fingerprint(snapshot(dst_root, contents)) != tree_fingerprint(post1):
            rep.oracle_fail("C03/rerun-changed-destination", "the second run changed the destination", desc)
    shutil.rmtree(case_dir, ignore_errors=True)

def home_listing(case_dir):
    out = {}
    home = os.path.join(case_dir, "home")
    for dp, dn, fn in os.walk(home):
        for name in dn + fn:
            p = os.path.join(dp, name); st = os.lstat(p)
            out[os.path.relpath(p, home)] = (stat.S_IFMT(st.st_mode), st.st_size if not stat.S_ISDIR(st.st_mode) else 0, st.st_mtime_ns if not stat.S_ISDIR(st.st_mode) else 0)
    return out

DRY_EVENTS = {}

def dry_twin(rep, drv, contents, desc, case_dir, src_root, dst_root, out_root, flags, cfg, env, order, exb, pre_src, pre_dst, pre_out):
    """C08: run the same command with --dry-run first; nothing anywhere may change (trees, sy's own
    files in the destination, private HOME/XDG dirs); its reported actions are compared with the real run later."""
    os.makedirs(os.path.join(case_dir, "home"), exist_ok=True)
    h0 = home_listing(case_dir)
    full0 = snapshot(dst_root, contents, with_own=True)
    rc, out, err = run_sy([src_root, dst_root, "--json", "--dry-run"] + flags, case_dir, env_extra=env)
    h1 = home_listing(case_dir)
    full1 = snapshot(dst_root, contents, with_own=True)
    if tree_fingerprint(full0) != tree_fingerprint(full1):
        ch = sorted(r for r in set(full0) | set(full1) if tree_fingerprint(full0).get(r) != tree_fingerprint(full1).get(r))
        rep.oracle_fail("C08/dry-run-changed-destination", f"--dry-run changed destination entries {ch[:4]}", desc)
    if tree_fingerprint(pre_src) != tree_fingerprint(snapshot(src_root, contents)): rep.oracle_fail("C08/dry-run-changed-source", "--dry-run changed the source", desc)
    if h0 != h1:
        ch = sorted(set(h0) ^ set(h1)) or sorted(k for k in h0 if h0[k] != h1.get(k))
        rep.oracle_fail("C08/dry-run-changed-state-dir", f"--dry-run created/changed files under HOME/XDG dirs: {ch[:4]}", desc)
    ev, bad = parse_json_lines(out)
    rel_of = lambda p: os.path.relpath(p, dst_root)
    back = {}
    for r_ in set(pre_src) | set(pre_dst):
        back.setdefault(lossy(r_), set()).add(r_)
    unl = lambda r_: next(iter(back[r_])) if r_ in back and len(back[r_]) == 1 else r_
    dry_events = sorted((e["type"][0], unl(rel_of(e["path"]))) for e in ev if e.get("type") in ("create", "update", "skip", "delete"))
    summ = next((e for e in ev if e.get("type") == "summary"), None)
    # K: the model's dry run
    mcfg = dict(cfg); mcfg["dry"] = 1
    m = parse_model_result(drv.ask(f"engine.run {enc_cfg(mcfg)} {enc_scan(src_root, order, exb, contents)} {enc_dst(pre_dst, contents)}"))
    if m is None: rep.disagree({"what": ["dry: model bad-op"], **desc}); return False
    dis = []
    if rc is None: dis.append("timeout")
    elif (rc != 0) != (m["exit"] != 0): dis.append(f"dry exit impl={rc} model={m['exit']}")
    elif summ is not None and not m["refused"]:
        if dry_events != m["events"]: dis.append(f"dry events impl-only={[e for e in dry_events if e not in m['events']][:4]} model-only={[e for e in m['events'] if e not in dry_events][:4]}")
        for k, mk in (("files_created", "created"), ("files_updated", "updated"), ("files_skipped", "skipped"), ("files_deleted", "deleted")):
            if summ.get(k) != m[mk]: dis.append(f"dry {k} impl={summ.get(k)} model={m[mk]}")
    if dis: rep.disagree({"what": dis, "stderr": err[-300:], **desc})
    desc["_dry"] = {"rc": rc, "events": dry_events, "refused": summ is None}
    rep.tag("c08.dry-twin")
    return True

def selected_entries(order, pre_src, exb, cfg):
    """entries selected by the active filter and size rules, from the property text of C16/C01:
    not excluded, no excluded ancestor directory, size within bounds (files/links)."""
    sel = []
    for rel in order:
        comps = rel.split("/")
        anc = ["/".join(comps[:i]) for i in range(1, len(comps))]
        if exb.get(rel) or any(exb.get(a) for a in anc): continue
        n = pre_src[rel]
        if n["k"] != "d":
            size = n["size"] if n["k"] == "f" else len(os.fsencode(n["text"]))
            if cfg.get("min", "-") != "-" and size < cfg["min"]: continue
            if cfg.get("max", "-") != "-" and size > cfg["max"]: continue
        sel.append(rel)
    return sel

def mtime_differs(a, b): return abs(a - b) // 10**9 > 1

def oracles(rep, focus, desc, rc, ev, bad, summ, real_events, real_errors, pre_src, post_src, pre_dst, post_dst, pre_out, post_out,
            flags, cfg, excl, exb, order, src_root, dst_root, case_dir, env, contents, err):
    dry = cfg.get("dry")
    links = cfg.get("links", "p")
    # --- C02: source and everything outside the destination untouched (all focuses evaluate it; it is cheap)
    if tree_fingerprint(pre_src) != tree_fingerprint(post_src):
        ch = [r for r in set(pre_src) | set(post_src) if tree_fingerprint(pre_src).get(r) != tree_fingerprint(post_src).get(r)]
        rep.oracle_fail("C02/source-modified", f"entries under the source root changed: {ch[:4]}", desc)
    if tree_fingerprint(pre_out) != tree_fingerprint(post_out):
        rep.oracle_fail("C02/outside-modified", "an entry outside the destination (sentinel area) changed", desc)
    # --- C19: every stdout line is a JSON object
    if bad: rep.oracle_fail("C19/non-json-line-on-stdout", f"stdout lines that are not JSON objects: {bad[:2]}", desc)
    if rc is None: return
    sel = selected_entries(order, pre_src, exb, cfg)
    # --- C10: exit 0 implies no error event and (below) C01's postcondition
    if rc == 0 and real_errors: rep.oracle_fail("C10/exit-zero-with-error-events", f"exit 0 but error events for {real_errors[:3]}", desc)
    if rc == 0 and summ and summ.get("verification_failures", 0) > 0: rep.oracle_fail("C10/exit-zero-with-verification-failures", "exit 0 with verification_failures > 0", desc)
    verified_counter_oracle(rep, desc, summ, real_events, pre_src, flags, cfg, rc)
    # --- C01 / C10 / C17: postcondition on success
    if rc == 0 and not dry:
        for rel in sel:
            s = pre_src[rel]; d = post_dst.get(rel); p = pre_dst.get(rel)
            if s["k"] == "d":
                if d is None or d["k"] != "d":
                    rep.oracle_fail("C01/selected-dir-missing", f"selected directory {rel} not a directory in the destination", desc)
                    # C10's last sentence: exit status 0 implies the postcondition of C01 (decided by C10's own check too)
                    rep.oracle_fail("C10/exit-zero-but-dir-missing", f"exit 0 but the selected directory {rel} is not a directory in the destination", desc)
            elif s["k"] == "f":
                if d is None or d["k"] != "f":
                    rep.oracle_fail("C01/selected-file-missing", f"selected file {rel} missing or not a regular file", desc)
                    rep.oracle_fail("C10/exit-zero-but-file-missing", f"exit 0 but the selected file {rel} is missing or not a regular file", desc); continue
                cmpm = cfg.get("cmp", "d")
                differed = (p is None or p["k"] != "f" or
                            (cmpm == "d" and (p["size"] != s["size"] or mtime_differs(p["mtime"], s["mtime"]))) or
                            (cmpm == "c" and p["cid"] != s["cid"]) or cmpm == "i" or (cmpm == "s" and p["size"] != s["size"]))
                if differed:
                    if d["cid"] != s["cid"]:
                        rep.oracle_fail("C01/content-differs", f"{rel} absent-or-differing before, not byte-identical after a successful run", desc)
                        rep.oracle_fail("C10/exit-zero-but-content-wrong", f"exit 0 but {rel} is not byte-identical to its source", desc)
                    elif d["mtime"] != s["mtime"]: rep.oracle_fail("C01/mtime-not-carried", f"{rel} transferred but mtime {d['mtime']} != source {s['mtime']}", desc)
                    want = s["xattrs"] if cfg.get("x") else {}
                    if d["xattrs"] != want: rep.oracle_fail("C17/xattrs-" + ("missing" if cfg.get("x") else "copied-without-X"), f"{rel}: user xattrs {sorted(d['xattrs'])} expected {sorted(want)}", desc)
            else:  # symlink
                if links == "p":
                    if d is None or d["k"] != "l" or d["text"] != s["text"]: rep.oracle_fail("C17/preserve-link-text", f"{rel}: destination is not a symlink with the source's target text", desc)
                elif links == "s":
                    if p is None and d is not None: rep.oracle_fail("C17/skip-mode-created", f"{rel}: skip mode created an entry", desc)
                else:
                    r = resolve_link(os.path.join(src_root, rel))
                    if r[0] == "f":
                        # the linked file is judged like a regular file of the target's size and mtime: outside the size bounds it is not selected,
                        # and a destination file the active comparison (--size-only, default size+mtime) finds up to date is legitimately left alone
                        tsize = len(r[1]); cmpm = cfg.get("cmp", "d")
                        if cfg.get("min", "-") != "-" and tsize < cfg["min"]: continue
                        if cfg.get("max", "-") != "-" and tsize > cfg["max"]: continue
                        try: tmt = os.stat(os.path.join(src_root, rel)).st_mtime_ns
                        except OSError: tmt = None
                        differed = (p is None or p["k"] != "f" or cmpm == "i" or (cmpm == "c" and p["cid"] != contents.id(r[1])) or
                                    (cmpm == "s" and p["size"] != tsize) or
                                    (cmpm == "d" and (p["size"] != tsize or tmt is None or mtime_differs(p["mtime"], tmt))))
                        if d is None or d["k"] != "f" or (differed and d["cid"] != contents.id(r[1])): rep.oracle_fail("C17/follow-content", f"{rel}: follow mode did not copy the linked file's content as a regular file", desc)
    # --- C06: extras untouched without --delete; counterpart never deleted; mirror
    if not dry:
        src_all = set(pre_src)
        if not cfg.get("delete"):
            for rel, p in pre_dst.items():
                if rel in src_all or any(rel.startswith(s + "/") for s in src_all if pre_src[s]["k"] != "d"): continue
                if tree_fingerprint({rel: p}) != tree_fingerprint({rel: post_dst[rel]} if rel in post_dst else {}):
                    base = rel[:-7] if rel.endswith(".sy.tmp") else None
                    if base is not None and base in pre_src and (pre_src[base]["k"] == "f" or (pre_src[base]["k"] == "l" and links not in ("p", "s"))) and base in pre_dst:
                        # the recorded residual collision of a deterministic working-file name (C05/user-file-named-like-temp),
                        # seen through C06's first clause: its own signature, so that any OTHER touched extra is still a violation
                        rep.oracle_fail("C06/extra-named-like-working-file-clobbered", f"destination extra {rel} is the working-file name of {base}, which was updated: removed / replaced without --delete", desc)
                    else:
                        rep.oracle_fail("C06/extra-touched-without-delete", f"destination extra {rel} removed or altered without --delete", desc)
        else:
            for rel in pre_dst:
                if rel in src_all and rel not in post_dst and pre_src[rel]["k"] == pre_dst[rel]["k"]:
                    rep.oracle_fail("C06/counterpart-deleted", f"{rel} exists in the source but was deleted from the destination", desc)
            refused = (rc != 0 and summ is None)
            if rc == 0 and not excl and cfg.get("min", "-") == "-" and cfg.get("max", "-") == "-" and links == "p":
                extra = sorted(set(post_dst) - src_all); missing = sorted(src_all - set(post_dst))
                if extra or missing: rep.oracle_fail("C06/not-a-mirror", f"after --delete: extra {extra[:3]} missing {missing[:3]}", desc)
            if rc != 0 and real_errors and all(r not in src_all for r in real_errors):
                rep.oracle_fail("C06/spurious-delete-errors", f"errors while deleting stale entries: {real_errors[:3]}", desc)
    # --- C07: guard
    if cfg.get("delete") and not cfg.get("force") and not dry:
        # deletions = destination entries with no counterpart among the scanned source entries (own files ignored)
        dels = [r for r in pre_dst if r not in pre_src and r not in OWN_FILES]
        cnt = len([r for r in pre_dst if r not in OWN_FILES])         # "the destination's entries": sy's own metadata files are not entries
        if cnt > 0 and len(dels) * 100 > cfg.get("thr", 50) * cnt and not excl and cfg.get("min", "-") == "-" and cfg.get("max", "-") == "-" and links != "s":
            if rc == 0: rep.oracle_fail("C07/threshold-exceeded-exit-zero", f"{len(dels)}/{cnt} deletions exceed {cfg.get('thr', 50)}% but exit status 0", desc)
            if tree_fingerprint(pre_dst) != tree_fingerprint(post_dst): rep.oracle_fail("C07/threshold-exceeded-changed", "guard should refuse before changing anything, destination changed", desc)
    # --- C19: events/counters vs observable diff
    if summ is not None and not dry:
        c = {k: sum(1 for a, _ in real_events if a == k) for k in "cusd"}
        for k, name in (("c", "files_created"), ("u", "files_updated"), ("s", "files_skipped"), ("d", "files_deleted")):
            if summ.get(name) != c[k]: rep.oracle_fail("C19/counter-ne-events", f"summary {name}={summ.get(name)} but {c[k]} events", desc)
        fp0, fp1 = tree_fingerprint(pre_dst), tree_fingerprint(post_dst)
        for a, rel in real_events:
            if a == "c" and (rel in pre_dst or rel not in post_dst): rep.oracle_fail("C19/create-event-not-observable", f"create event for {rel}: before={rel in pre_dst} after={rel in post_dst}", desc)
            if a == "d" and (rel not in pre_dst or rel in post_dst): rep.oracle_fail("C19/delete-event-not-observable", f"delete event for {rel}", desc)
            if a == "s" and fp0.get(rel) != fp1.get(rel): rep.oracle_fail("C19/skip-event-but-changed", f"skip event for {rel} but the entry changed", desc)
        evp = {rel for _, rel in real_events} | set(real_errors)
        for rel in set(fp0) | set(fp1):
            if fp0.get(rel) != fp1.get(rel) and rel not in evp and not any(rel.startswith(e + "/") for e in evp):
                base = rel[:-7] if rel.endswith(".sy.tmp") else None
                if base is not None and rel not in post_dst and ((pre_src.get(base) or {}).get("k") == "f" or ((pre_src.get(base) or {}).get("k") == "l" and links not in ("p", "s"))) \
                   and (pre_dst.get(base) or {}).get("k") == "f" and fp0.get(base) != fp1.get(base):
                    # the recorded residual collision (C05/user-file-named-like-temp) seen through C19: the entry bearing the working-file name of
                    # the updated `base` disappears and no event names it — its own signature, so that any OTHER silent change stays a violation
                    rep.oracle_fail("C19/change-without-event/working-file-name-in-use", f"{rel} (the working-file name of the updated {base}) was removed and no event mentions it", desc)
                else:
                    rep.oracle_fail("C19/change-without-event", f"{rel} changed but no event mentions it", desc)
    # --- C08: the dry run's actions are exactly the real run's (when no task failed)
    if "_dry" in desc:
        d = desc.pop("_dry")
        if d["rc"] is not None and (d["rc"] != 0) != (rc != 0) and not real_errors:
            rep.oracle_fail("C08/dry-run-exit-differs", f"dry run exit {d['rc']} but real run exit {rc}", desc)
        elif rc == 0 and not real_errors and d["events"] != real_events:
            a = [e for e in d["events"] if e not in real_events][:4]; b = [e for e in real_events if e not in d["events"]][:4]
            rep.oracle_fail("C08/plan-differs-from-real-run", f"dry-run actions differ from the real run: dry-only {a} real-only {b}", desc)
    # --- C05: no working files left after success
    if rc == 0 and not dry:
        left = [r for r in post_dst if r.endswith(".sy.tmp") and r not in pre_src and r not in pre_dst]
        if left: rep.oracle_fail("C05/working-file-left", f"working files remain after a successful run: {left[:3]}", desc)

def verified_counter_oracle(rep, desc, summ, real_events, pre_src, flags, cfg, rc=None):
    """C19 / C10 (seeded change C19b): in a verifying mode every regular file reported as created or updated was either verified
    or counted as a verification failure — a verification that could not be carried out must not vanish from the report."""
    if not summ or cfg.get("dry") or cfg.get("links", "p") == "f": return
    mode = flags[flags.index("--mode") + 1] if "--mode" in flags else "standard"
    if mode == "fast" and "--verify" not in flags: return
    moved = [rel for t, rel in real_events if t in ("c", "u") and pre_src.get(rel, {}).get("k") == "f"]
    got = summ.get("files_verified", 0) + summ.get("verification_failures", 0)
    if got != len(moved):
        what = (f"{len(moved)} regular files reported created/updated, but files_verified + verification_failures = "
                f"{summ.get('files_verified')} + {summ.get('verification_failures')}")
        rep.oracle_fail("C19/verification-not-accounted", what, desc)
        if rc == 0: rep.oracle_fail("C10/exit-zero-with-unaccounted-verification", "exit 0 although a post-transfer verification was not carried out: " + what, desc)

def run_bloom(tier="quick", seed=1, work=None, replay=None, **kw):
    """C06: the Bloom-filter branch of plan_deletions (more than BLOOM_THRESHOLD source entries) on a real tree:
    the deletions performed must be exactly the destination entries without a source counterpart (what the set
    branch plans: theorem bloom_eq_set), whatever false positives the filter produces."""
    rep = Report(rule="one real tree with BLOOM_THRESHOLD+1.. source entries (empty files in directories) and a destination holding the same entries "
                      "minus some, plus stale files, stale directories with contents and names differing in one character from source names; "
                      "non-trivial = the run deleted at least one stale entry; distinct = distinct (seed, tree)")
    rng = Rng(seed * 31337 + 6)
    import re as _re
    thr = 10000
    try:
        m = _re.search(r"def BLOOM_THRESHOLD : Nat := (\d+)", open(os.path.join(VERIF, "lean", "SyModel", "Generated", "Consts.lean")).read())
        if m: thr = int(m.group(1))
    except OSError: pass
    os.makedirs(work, exist_ok=True)
    contents = Contents()
    for ci in range(1 if tier == "quick" else 3):
        case_dir = os.path.join(work, f"bloom{ci}")
        src_root, dst_root = os.path.join(case_dir, "src"), os.path.join(case_dir, "dst")
        ndirs = 20; per = (thr + 1 + rng.range(0, 300)) // ndirs + 1
        names = []
        t = BASE_T * 10**9
        for d in range(ndirs):
            os.makedirs(os.path.join(src_root, f"d{d:02d}")); os.makedirs(os.path.join(dst_root, f"d{d:02d}"))
            for i in range(per):
                rel = f"d{d:02d}/f{i:05d}"; names.append(rel)
                open(os.path.join(src_root, rel), "wb").close(); os.utime(os.path.join(src_root, rel), ns=(t, t))
        missing = set(rng.pick(names) for _ in range(40))
        for rel in names:
            if rel in missing: continue
            open(os.path.join(dst_root, rel), "wb").close(); os.utime(os.path.join(dst_root, rel), ns=(t, t))
        stale = set()
        for _ in range(150):
            base = rng.pick(names)
            d_, b_ = os.path.split(base)
            rel = rng.pick([base + "x", base + "0", base + ".old", base + "~", os.path.join(d_, b_.upper()), os.path.join(d_, b_.swapcase())])   # near-misses of real names, incl. case-only variants
            open(os.path.join(dst_root, rel), "wb").write(b"stale"); stale.add(rel)
        for k in range(5):
            os.makedirs(os.path.join(dst_root, f"stale{k}/sub")); stale |= {f"stale{k}", f"stale{k}/sub"}
            for j in range(3):
                open(os.path.join(dst_root, f"stale{k}/sub/g{j}"), "wb").write(b"g"); stale.add(f"stale{k}/sub/g{j}")
        src_n = len(names) + ndirs
        flags = ["--delete", "--force-delete", "-j", str(rng.pick([1, 8]))]
        rc, out, err = run_sy([src_root, dst_root, "--json"] + flags, case_dir, timeout=600)
        ev, bad = parse_json_lines(out)
        deleted = sorted(os.path.relpath(e["path"], dst_root) for e in ev if e.get("type") == "delete")
        errors = [e for e in ev if e.get("type") == "error"]
        left = set()
        for dp, dn, fn in os.walk(dst_root):
            for name in dn + fn: left.add(os.path.relpath(os.path.join(dp, name), dst_root))
        want = set(names) | {f"d{d:02d}" for d in range(ndirs)}
        desc = {"case": ci, "seed": seed, "flags": flags, "source_entries": src_n, "threshold": thr, "stale": len(stale), "missing": len(missing)}
        rep.case((seed, ci, src_n), bool(deleted)); rep.tag("bloom.branch" if src_n > thr else "bloom.NOT-REACHED")
        rep.sample({**desc, "exit": rc, "deleted": len(deleted), "errors": len(errors)})
        if src_n <= thr: rep.skipped.append("Bloom branch not reached: source entries <= threshold")
        if rc != 0: rep.oracle_fail("C06/bloom-run-failed", f"--delete run over {src_n} entries exits {rc}: {err[-200:]}", desc)
        if sorted(stale) != deleted:
            extra = [d for d in deleted if d not in stale][:3]; miss = [s for s in sorted(stale) if s not in deleted][:3]
            if extra: rep.oracle_fail("C06/counterpart-deleted", f"Bloom branch deleted entries that have a source counterpart: {extra}", desc)
            if miss: rep.oracle_fail("C06/not-a-mirror", f"Bloom branch left stale entries: {miss}", desc)
        if rc == 0 and left != want:
            rep.oracle_fail("C06/not-a-mirror", f"after --delete: extra {sorted(left - want)[:3]} missing {sorted(want - left)[:3]}", desc)
        if errors: rep.oracle_fail("C06/spurious-delete-errors", f"{len(errors)} errors while deleting stale entries: {errors[0].get('path')}", desc)
        shutil.rmtree(case_dir, ignore_errors=True)
    return rep.to_dict()

def run_single_file(tier="quick", seed=1, work=None, replay=None, **kw):
    """Single-file mode (`sy <file> <file>`): C01's postcondition, filters (C16), and the re-run (C03)."""
    rep = Report(rule="single-file sources: destination absent / equal / stale same size / longer / shorter / older / newer, with compare modes and size bounds; "
                      "non-trivial = the destination existed before; distinct = distinct (content sizes, state, flags)")
    rng = Rng(seed * 7477 + 101); n = 25 if tier == "quick" else 300
    os.makedirs(work, exist_ok=True); contents = Contents()
    for ci in range(n):
        case = os.path.join(work, f"sf{ci}"); os.makedirs(case)
        data = gen_data(rng, big=rng.chance(1, 4)); t = BASE_T * 10**9 + rng.range(10, 900) * 10**9
        sp, dp = os.path.join(case, "src file.bin"), os.path.join(case, "dst file.bin")
        open(sp, "wb").write(data); os.utime(sp, ns=(t, t))
        state = rng.pick(["absent", "equal", "stale-same-size", "longer", "shorter", "older", "newer"])
        if state != "absent":
            d = {"equal": data, "stale-same-size": mutate_same(data), "longer": data + b"tail", "shorter": data[:len(data) // 2], "older": data, "newer": data}[state]
            open(dp, "wb").write(d); dt = t + {"older": -50 * 10**9, "newer": 50 * 10**9}.get(state, 0) + (7 * 10**9 if state in ("stale-same-size", "longer", "shorter") else 0)
            os.utime(dp, ns=(dt, dt))
        flags = rng.pick([[], [], ["--checksum"], ["--size-only"], ["--ignore-times"]])
        env = {"SY_VERIF_DELTA_THRESHOLD": "4096", "SY_VERIF_BLOCK_SIZE": "1024"} if rng.chance(1, 2) else {}
        rc, out, err = run_sy([sp, dp, "--json"] + flags, case, env_extra=env)
        desc = {"case": ci, "seed": seed, "state": state, "size": len(data), "flags": flags, "env": env, "rc": rc}
        rep.case((state, len(data), tuple(flags)), state != "absent"); rep.tag("single." + state)
        rep.sample(desc)
        if rc == 0:
            got = open(dp, "rb").read() if os.path.exists(dp) else None
            cmpm = "c" if "--checksum" in flags else "s" if "--size-only" in flags else "i" if "--ignore-times" in flags else "d"
            if got != data and not (state == "stale-same-size" and cmpm == "s"):
                rep.oracle_fail("C01/single-file-content-differs", f"single-file sync exited 0 but the destination does not hold the source bytes (prior state {state})", desc)
            elif got == data and os.stat(dp).st_mtime_ns != t and state not in ("equal",) and not (cmpm == "c" and state in ("older", "newer")) and not (cmpm == "s" and state in ("older", "newer")):
                rep.oracle_fail("C01/single-file-mtime-not-carried", f"single-file sync transferred the file but the destination mtime is not the source's (prior state {state})", desc)
            # C03: re-running the same command changes nothing
            before = os.stat(dp)
            rc2, out2, err2 = run_sy([sp, dp] + flags, case, env_extra=env)
            m = re.search(r"Files updated:\s+(\d+)", out2); m2 = re.search(r"Files created:\s+(\d+)", out2)
            if cmpm != "i" and ((m and int(m.group(1)) > 0) or (m2 and int(m2.group(1)) > 0)):
                rep.oracle_fail("C03/single-file-mode-always-rewrites", "re-running a single-file sync reports the file as updated again (no comparison rule in single-file mode)", desc)
        shutil.rmtree(case, ignore_errors=True)
    return rep.to_dict()

def mutate_same(data):
    if not data: return b""
    d = bytearray(data); d[0] ^= 0xFF; return bytes(d)

# ------------------------------------------------------------------ C08: bidirectional dry run (seeded change C08b)
def _bisync_edit(rng, root, other, clock, force=None):
    """one edit on one side of a bisync pair (regular files only)"""
    files = sorted(os.path.relpath(os.path.join(dp, n), root) for dp, _, fn in os.walk(root) for n in fn)
    k = rng.below(6) if force is None else force; t = (BASE_T + 20000 + clock) * 10**9
    if k == 0 or not files:
        rel = rng.pick(["n%d" % clock, "sub/n%d" % clock]); p = os.path.join(root, rel); os.makedirs(os.path.dirname(p), exist_ok=True)
        open(p, "wb").write(rng.bytes(rng.range(0, 300))); os.utime(p, ns=(t, t)); return "create:" + rel
    rel = rng.pick(files); p = os.path.join(root, rel)
    if k == 1: os.unlink(p); return "delete:" + rel
    d = bytearray(open(p, "rb").read() or b"x")
    if k == 2: d[0] ^= 0xFF; open(p, "wb").write(bytes(d)); os.utime(p, ns=(t, t)); return "edit-same-size:" + rel
    if k == 3: open(p, "ab").write(b"+more"); os.utime(p, ns=(t, t)); return "edit-grow:" + rel
    if k == 4: os.utime(p, ns=(t, t)); return "touch:" + rel
    q = os.path.join(other, rel)          # the same path changed on the other side too (a conflict)
    os.makedirs(os.path.dirname(q), exist_ok=True); open(q, "wb").write(rng.bytes(rng.range(1, 200))); os.utime(q, ns=(t + 10**9, t + 10**9))
    open(p, "wb").write(rng.bytes(rng.range(1, 200))); os.utime(p, ns=(t, t)); return "edit-both:" + rel

def run_bisync_dry(tier="quick", seed=1, work=None, replay=None, **kw):
    """C08 for --bidirectional: after a history of real bisyncs and edits, `sy A B -b --dry-run <flags>` changes neither root nor
    the state database, and the counts it reports are those of the same command without --dry-run run right afterwards."""
    rep = Report(rule="bisync dry/real twins: two roots with generated regular files, 0-2 real `sy -b` runs interleaved with one-sided / two-sided edits "
                      "(create, delete, same-size edit, grow, touch, edit on both sides), then `-b --dry-run F` followed by `-b F` in the same world, "
                      "F among --conflict-resolve S, --max-delete N, --clear-bisync-state; non-trivial = at least one edit after the last real run")
    rng = Rng(seed * 1_000_033 + 808)
    n = 30 if tier == "quick" else 300
    contents = Contents()
    os.makedirs(work, exist_ok=True)
    for ci in range(n):
        case = os.path.join(work, f"bd{ci}"); A, B = os.path.join(case, "A"), os.path.join(case, "B")
        os.makedirs(A); os.makedirs(B)
        for rel in rng_sample(rng, ["a", "b.txt", "sub/c", "sub/d.bin", "e f", "ü"], rng.range(1, 5)):
            data = rng.bytes(rng.range(0, 400)); t = (BASE_T + 100 + rng.below(1000)) * 10**9
            for root in ((A, B) if rng.chance(2, 3) else (rng.pick([A, B]),)):
                p = os.path.join(root, rel); os.makedirs(os.path.dirname(p), exist_ok=True); open(p, "wb").write(data); os.utime(p, ns=(t, t))
        hist = []; clock = 0
        for r in range(rng.pick([0, 1, 1, 2])):
            rc, _, _ = run_sy([A, B, "-b", "--json"], case); hist.append(f"sync(rc={rc})")
            for _ in range(rng.range(0, 2)):
                clock += 5; side = rng.pick([(A, B), (B, A)]); hist.append(("A:" if side[0] == A else "B:") + _bisync_edit(rng, side[0], side[1], clock))
        last_edits = 0
        synced = any(h.startswith("sync") for h in hist)
        for e_ in range(rng.range(0, 3)):
            # after a recorded sync, a one-sided delete / same-size edit is what the recorded state decides (half of the cases)
            force = rng.pick([1, 2]) if (synced and e_ == 0 and rng.chance(1, 2)) else None
            clock += 5; side = rng.pick([(A, B), (B, A)]); hist.append(("A:" if side[0] == A else "B:") + _bisync_edit(rng, side[0], side[1], clock, force)); last_edits += 1
        flags = []
        if rng.chance(1, 2): flags += ["--conflict-resolve", rng.pick(["newer", "larger", "smaller", "source", "dest", "rename"])]
        if rng.chance(1, 3): flags += ["--max-delete", str(rng.pick([0, 10, 50, 100]))]
        if rng.chance(1, 2): flags += ["--clear-bisync-state"]
        for f in flags:
            if f.startswith("--"): rep.tag("bisync-dry.flag." + f)
        pre = (tree_fingerprint(snapshot(A, contents)), tree_fingerprint(snapshot(B, contents)), home_listing(case))
        rcd, outd, errd = run_sy([A, B, "-b", "--dry-run", "--json"] + flags, case)
        post = (tree_fingerprint(snapshot(A, contents)), tree_fingerprint(snapshot(B, contents)), home_listing(case))
        desc = {"case": ci, "seed": seed, "history": hist, "flags": flags, "exit_dry": rcd}
        if pre[0] != post[0] or pre[1] != post[1]:
            rep.oracle_fail("C08/dry-run-changed-a-root", "a bidirectional dry run changed one of the roots", desc)
        if pre[2] != post[2]:
            ch = sorted(k for k in set(pre[2]) | set(post[2]) if pre[2].get(k) != post[2].get(k))
            rep.oracle_fail("C08/dry-run-touched-state", f"a bidirectional dry run created, changed or removed state files: {ch[:4]}", desc)
        rcr, outr, errr = run_sy([A, B, "-b", "--json"] + flags, case)
        desc["exit_real"] = rcr
        def summ(out):
            ev, bad = parse_json_lines(out)
            s = [e for e in ev if e.get("type") == "summary"]
            # the ACTIONS are compared; the byte counter is not one (for a rename conflict the dry run announces source.size +
            # dest.size while the real run, which only renames, reports 0: GenBisyncEngine finding 2 — statistics only)
            return ({k: s[-1].get(k) for k in ("files_created", "files_updated", "files_deleted")} if s else None,
                    len([e for e in ev if e.get("type") == "error"]))
        (sd, ed), (sr, er) = summ(outd), summ(outr)
        rep.tag("bisync-dry.twin"); rep.tag("bisync-dry.exit.%s/%s" % (rcd, rcr))
        rep.case((tuple(flags), json.dumps(hist)), last_edits > 0)
        if er == 0 and rcr == 0:
            if rcd != 0: rep.oracle_fail("C08/dry-run-exit-differs", f"the dry run exits {rcd}, the real run exits 0", desc)
            elif sd != sr: rep.oracle_fail("C08/dry-run-plan-differs", f"bidirectional dry run reports {sd}, the same command without --dry-run performs {sr}", desc)
        elif (rcd == 0) != (rcr == 0) and er == 0:
            rep.oracle_fail("C08/dry-run-exit-differs", f"the dry run exits {rcd}, the real run exits {rcr} without per-file errors", desc)
        rep.sample({"flags": flags, "history": hist, "dry": sd, "real": sr})
        shutil.rmtree(case, ignore_errors=True)
    return rep.to_dict()

def rng_sample(rng, xs, k):
    xs = list(xs); out = []
    for _ in range(min(k, len(xs))):
        out.append(xs.pop(rng.below(len(xs))))
    return out
