#!/usr/bin/env python3
"""C20 — correspondence (K) and oracle (O) stream for `sy --watch`.

Drives the real `sy --watch` binary (built from /repo's working tree with `--cfg nijaru_sy_verif`, so
that hook H4 writes one line per watch-loop decision to $SY_VERIF_WATCH_TRACE) with scripted bursts of
source changes — before / during / after a sync, inside and outside the debounce window, during the
initial sync — and then

 K  rebuilds, from the recorded trace, the very event / timeout sequence the real loop saw, feeds it
    to the Lean model (`sydriver`, request `watch.run`, one request per session) and compares the
    decisions line by line (kept / dropped with kind, timeout idle / sync with `pending.len()`,
    sync end, exit) plus the exit kind; the model's built-in time lower bounds (an iteration that
    times out takes >= select sleep + receive timeout) are checked against the measured elapsed
    times; the model's verdict "destination == source" is compared with the real trees;
 O  polls the destination until it equals the source or a generous deadline.  Only deterministic
    evidence is an oracle failure: the loop provably idle (trailing `timeout pending=0` lines for
    >= IDLE_FAIL seconds, no event in between, process alive) and the destination still different
    -> `C20/change-not-propagated/<timing class>`; for the recorded finding the evidence is: the
    burst's events were received, a sync started after them and ended, the loop is idle again and
    the trees still differ -> `C20/same-size-edit-within-tolerance`.  A run that is merely slow is
    reported under `skipped` (inconclusive), never as a violation.
    SIGINT: idle / with work pending / during a sync -> exit status 0, trace ends with
    `exit sigint` after at most one more iteration (`C20/sigint-…`); during the initial sync the
    process dies of the signal (the model's `killed`).

run(tier, seed, work, replay=None, **kw) -> report dict (same keys as the Rust `Report`).
"""
import os, sys, json, time, signal, subprocess, shutil, hashlib, ctypes, select, threading
from concurrent.futures import ThreadPoolExecutor

VERIF = os.path.dirname(os.path.dirname(os.path.abspath(__file__)))
SY = os.environ.get("SY_BIN", os.path.join(VERIF, ".build", "target", "debug", "sy"))
DRIVER = os.environ.get("SY_DRIVER", os.path.join(VERIF, "lean", ".lake", "build", "bin", "sydriver"))

START_DEADLINE = 90.0     # s, until `loop-start` shows up in the trace
CONVERGE_DEADLINE = 45.0  # s, generous: the trees sync in milliseconds
IDLE_FAIL = 6.0           # s of provable idleness (pending=0, no events) before "not propagated"
IDLE_FINDING = 1.5        # s of idleness after the sync that followed the invisible edit
EXIT_DEADLINE = 45.0      # s, after SIGINT
SELECT_SLEEP_US = 10_000
RECV_TIMEOUT_US = 100_000
BASE_MTIME_NS = 1_600_000_000 * 10**9   # fixed epoch, years in the past
NS = 10**9
# sy is started with the default SIGINT disposition whatever this process inherited (a check launched in the
# background of a non-interactive shell inherits SIGINT = ignored, and an ignored signal survives exec: sy would
# then shrug off a SIGINT that arrives before tokio installs its handler)
EXEC_DEFAULT_SIGINT = "import os, signal, sys; signal.signal(signal.SIGINT, signal.SIG_DFL); os.execv(sys.argv[1], sys.argv[1:])"


# ---------------------------------------------------------------------------------------------
class Rng:
    """SplitMix64; every random choice of the stream comes from here."""
    def __init__(self, seed): self.s = seed & (2**64 - 1)
    def next(self):
        self.s = (self.s + 0x9E3779B97F4A7C15) & (2**64 - 1)
        z = self.s
        z = ((z ^ (z >> 30)) * 0xBF58476D1CE4E5B9) & (2**64 - 1)
        z = ((z ^ (z >> 27)) * 0x94D049BB133111EB) & (2**64 - 1)
        return z ^ (z >> 31)
    def below(self, n): return self.next() % n
    def pick(self, xs): return xs[self.below(len(xs))]
    def chance(self, num, den): return self.below(den) < num


class Report:
    def __init__(self):
        self.evaluations = 0; self.nontrivial = set(); self.histogram = {}; self.samples = []
        self.disagreements = []; self.oracle_failures = []; self.skipped = []; self.rule = ""
        self.lock = threading.Lock()
    def tag(self, t, n=1):
        with self.lock: self.histogram[t] = self.histogram.get(t, 0) + n
    def case(self, key, nontrivial):
        with self.lock:
            self.evaluations += 1
            if nontrivial: self.nontrivial.add(hashlib.sha1(key.encode()).hexdigest())
    def sample(self, v):
        with self.lock:
            if len(self.samples) < 6: self.samples.append(v)
    def disagree(self, v):
        with self.lock:
            if len(self.disagreements) < 50: self.disagreements.append(v)
    def oracle_fail(self, signature, what, inp):
        with self.lock:
            if len(self.oracle_failures) < 50:
                self.oracle_failures.append({"signature": signature, "what": what, "input": inp})
    def skip(self, why):
        with self.lock:
            if len(self.skipped) < 40: self.skipped.append(why)
    def to_json(self):
        return {"evaluations": self.evaluations, "distinct_nontrivial": len(self.nontrivial), "rule": self.rule,
                "histogram": dict(sorted(self.histogram.items())), "samples": self.samples,
                "disagreements": self.disagreements, "oracle_failures": self.oracle_failures,
                "skipped": self.skipped}


# ---------------------------------------------------------------------------------------------
def probe_inotify(d):
    """inotify must deliver an event for a write in `d` within 2 s, else the real-binary leg is skipped."""
    try:
        libc = ctypes.CDLL("libc.so.6", use_errno=True)
        fd = libc.inotify_init1(0)
        if fd < 0: return False, "inotify_init1 failed errno=%d" % ctypes.get_errno()
        try:
            wd = libc.inotify_add_watch(fd, d.encode(), 0x00000FFF)
            if wd < 0: return False, "inotify_add_watch failed errno=%d" % ctypes.get_errno()
            with open(os.path.join(d, ".probe"), "w") as f: f.write("x")
            r, _, _ = select.select([fd], [], [], 2.0)
            os.unlink(os.path.join(d, ".probe"))
            return (True, "") if r else (False, "no inotify event within 2 s")
        finally:
            os.close(fd)
    except Exception as e:
        return False, "inotify probe raised %r" % (e,)


def probe_hook(root):
    """does this `sy` write the H4 trace?  (needs a build with RUSTFLAGS=--cfg nijaru_sy_verif)"""
    shutil.rmtree(root, ignore_errors=True)
    for d in ("src", "dst", "home/.cache", "home/.config"): os.makedirs(os.path.join(root, d))
    with open(os.path.join(root, "src", "x"), "w") as f: f.write("x")
    home = os.path.join(root, "home"); trace = os.path.join(root, "trace.log")
    env = dict(os.environ, HOME=home, XDG_CACHE_HOME=os.path.join(home, ".cache"), XDG_CONFIG_HOME=os.path.join(home, ".config"),
               SY_VERIF_WATCH_TRACE=trace, RUST_LOG="error")
    p = subprocess.Popen([sys.executable, "-c", EXEC_DEFAULT_SIGINT, SY, "--watch", os.path.join(root, "src") + "/", os.path.join(root, "dst") + "/"], env=env,
                         stdout=subprocess.DEVNULL, stderr=subprocess.DEVNULL, stdin=subprocess.DEVNULL, cwd=root)
    try:
        t0 = time.monotonic()
        while time.monotonic() - t0 < 45.0:
            if any(l["what"] == "loop-start" for l in parse_trace(trace)): return True, ""
            if p.poll() is not None: return False, "sy --watch exited with status %r before entering its loop" % p.returncode
            time.sleep(0.02)
        if parse_trace(trace): return False, "loop not entered within 45 s (slow)"
        return False, "no trace line within 45 s: sy was built without --cfg nijaru_sy_verif or the hook is missing"
    finally:
        if p.poll() is None:
            p.kill(); p.wait()
        shutil.rmtree(root, ignore_errors=True)


def content(tag, size):
    """deterministic bytes of the given length; different tags give different bytes"""
    out = b""; i = 0
    while len(out) < size:
        out += hashlib.sha256(("%s:%d" % (tag, i)).encode()).digest(); i += 1
    return out[:size]


def snapshot(root):
    """relpath -> ('d',) | ('f', sha1 of content); unreadable entries (mid-rename) are reported as such"""
    snap = {}
    for dp, dns, fns in os.walk(root):
        rel = os.path.relpath(dp, root)
        if rel != ".": snap[rel] = ("d",)
        for fn in fns:
            p = os.path.join(dp, fn)
            try:
                with open(p, "rb") as f: snap[os.path.normpath(os.path.join(rel, fn))] = ("f", hashlib.sha1(f.read()).hexdigest())
            except OSError:
                snap[os.path.normpath(os.path.join(rel, fn))] = ("?",)
    return snap


def trees_equal(src, dst, exact):
    """exact (--delete): same names and contents; otherwise every source entry is in the destination
    with the same content (deletions / old names of renames may remain: the property does not ask for
    their removal without --delete)."""
    a, b = snapshot(src), snapshot(dst)
    if exact: return a == b, a, b
    return all(b.get(k) == v for k, v in a.items()), a, b


# ---------------------------------------------------------------------------------------------
def parse_trace(path):
    """-> list of dicts {t, what, sub?, kind?, pending?, elapsed?, debounce?}; incomplete last line ignored"""
    try:
        with open(path, "r") as f: txt = f.read()
    except OSError:
        return []
    out = []
    lines = txt.split("\n")
    if not txt.endswith("\n"): lines = lines[:-1]
    for ln in lines:
        tk = ln.split()
        if len(tk) < 2: continue
        try: t = int(tk[0])
        except ValueError: continue
        d = {"t": t, "what": tk[1]}
        rest = tk[2:]
        if tk[1] in ("event", "sync-end", "exit") and rest:
            d["sub"] = rest[0]; rest = rest[1:]
        for kv in rest:
            if "=" in kv:
                k, v = kv.split("=", 1)
                d[k] = int(v) if v.isdigit() else v
        out.append(d)
    return out


def idle_seconds(lines):
    """length (s, by the hook's own clock) of the trailing run of `timeout pending=0` lines"""
    n = len(lines); i = n
    while i > 0 and lines[i - 1]["what"] == "timeout" and lines[i - 1].get("pending") == 0: i -= 1
    if i >= n: return 0.0
    return (lines[n - 1]["t"] - lines[i]["t"]) / 1e6


def phase_of(lines):
    """timing class of "now" as the trace shows it"""
    if not lines: return "before-start"
    whats = [l["what"] for l in lines]
    if "loop-start" not in whats:
        if "initial-sync-end" in whats: return "after-initial-sync"
        if "initial-sync-start" in whats: return "during-initial-sync"
        return "before-initial-sync"
    last = lines[-1]
    if last["what"] == "sync-start": return "during-sync"
    deb = next((l.get("debounce_us", 500000) for l in lines if l["what"] == "loop-start"), 500000)
    if last["what"] in ("sync-end", "loop-start"): return "in-debounce"
    if last["what"] == "timeout":
        if last.get("elapsed_us", 0) < deb - RECV_TIMEOUT_US: return "in-debounce"
        return "pending-nonempty" if last.get("pending", 0) > 0 else "idle"
    if last["what"] == "event": return "receiving"
    return "other"


# ---------------------------------------------------------------------------------------------
class Session:
    """one `sy --watch` process, its scripted bursts, its trace, its verdicts"""

    def __init__(self, spec, root, rep, driver):
        self.spec = spec; self.root = root; self.rep = rep; self.drv = driver
        self.src = os.path.join(root, "src"); self.dst = os.path.join(root, "dst")
        self.trace = os.path.join(root, "trace.log")
        self.proc = None
        self.parts = []        # [{begin, end, ver, kinds, ops, cls}] in order of execution
        self.ver = 0           # abstract source version id
        self.vers = {}         # id -> (id, size, mtime) as fed to the model
        self.sig_at = None     # trace line count when SIGINT was sent
        self.inconclusive = None
        self.exact = bool(spec.get("delete"))
        self.same_size = spec.get("class") == "same-size"

    # --- materialise -------------------------------------------------------------------------
    def setup(self):
        shutil.rmtree(self.root, ignore_errors=True)
        os.makedirs(self.src); os.makedirs(self.dst)
        for d in ("home", "home/.cache", "home/.config"): os.makedirs(os.path.join(self.root, d))
        for i, (rel, size) in enumerate(self.spec["initial"]):
            p = os.path.join(self.src, rel)
            os.makedirs(os.path.dirname(p), exist_ok=True)
            with open(p, "wb") as f: f.write(content("init:" + rel, size))
            os.utime(p, ns=(BASE_MTIME_NS + i * NS, BASE_MTIME_NS + i * NS))
        for rel, size in self.spec.get("initial_dst", []):
            p = os.path.join(self.dst, rel)
            os.makedirs(os.path.dirname(p), exist_ok=True)
            with open(p, "wb") as f: f.write(content("dst:" + rel, size))
            os.utime(p, ns=(BASE_MTIME_NS - 100 * NS, BASE_MTIME_NS - 100 * NS))
        self.vers[0] = self.model_ver(0)

    def model_ver(self, vid):
        if self.same_size:
            st = os.stat(os.path.join(self.src, self.spec["initial"][0][0]))
            return (vid, st.st_size, st.st_mtime_ns)
        return (vid, 1000 + vid, vid * 10 * NS)

    def start(self):
        env = dict(os.environ)
        home = os.path.join(self.root, "home")
        env.update({"HOME": home, "XDG_CACHE_HOME": os.path.join(home, ".cache"),
                    "XDG_CONFIG_HOME": os.path.join(home, ".config"), "SY_VERIF_WATCH_TRACE": self.trace,
                    "NO_COLOR": "1", "RUST_LOG": "error"})
        env.pop("SY_VERIF_WATCH_SYNC_DELAY_MS", None)
        if self.spec.get("delay_ms"): env["SY_VERIF_WATCH_SYNC_DELAY_MS"] = str(self.spec["delay_ms"])
        args = [sys.executable, "-c", EXEC_DEFAULT_SIGINT, SY, "--watch"] + (["--delete"] if self.exact else []) + [self.src + "/", self.dst + "/"]
        self.out = open(os.path.join(self.root, "stdout.txt"), "wb")
        self.proc = subprocess.Popen(args, env=env, stdout=self.out, stderr=subprocess.STDOUT, cwd=self.root,
                                     stdin=subprocess.DEVNULL)

    def lines(self): return parse_trace(self.trace)

    def stdout_tail(self, n=6000):
        try:
            self.out.flush()
            with open(os.path.join(self.root, "stdout.txt"), "rb") as f: return f.read()[-n:].decode("utf-8", "replace")
        except Exception:
            return ""

    def wait_for(self, pred, deadline):
        t0 = time.monotonic()
        while time.monotonic() - t0 < deadline:
            ls = self.lines()
            if pred(ls): return ls
            if self.proc.poll() is not None: return None
            time.sleep(0.004)
        return None

    # --- source edits ------------------------------------------------------------------------
    def do_op(self, op):
        k = op[0]; P = lambda r: os.path.join(self.src, r)
        if k in ("create", "edit"):
            os.makedirs(os.path.dirname(P(op[1])), exist_ok=True)
            with open(P(op[1]), "wb") as f: f.write(content(op[3], op[2]))
        elif k == "append":
            with open(P(op[1]), "ab") as f: f.write(content(op[3], op[2]))
        elif k == "rename": os.rename(P(op[1]), P(op[2]))
        elif k == "delete": os.unlink(P(op[1]))
        elif k == "rmdir": shutil.rmtree(P(op[1]))
        elif k == "mkdir": os.makedirs(P(op[1]), exist_ok=True)
        elif k == "same-size":
            # rewrite with different bytes of the same length, then place the mtime `op[2]` ns after the
            # previous one (1 s: inside the tolerance; 5 s: outside)
            st = os.stat(P(op[1]))
            with open(P(op[1]), "wb") as f: f.write(content(op[3], st.st_size))
            os.utime(P(op[1]), ns=(st.st_mtime_ns + op[2], st.st_mtime_ns + op[2]))
        else: raise ValueError(op)

    def do_part(self, part):
        """wait for the part's timing condition, then perform its ops as fast as possible"""
        w = part["wait"]; ls = None
        if w == "on-initial-sync-start":
            ls = self.wait_for(lambda l: any(x["what"] == "initial-sync-start" for x in l), START_DEADLINE)
        elif w == "on-initial-sync-copied":
            # the engine has copied everything (dst == src) but, thanks to SY_VERIF_WATCH_SYNC_DELAY_MS, the initial
            # sync is still "in progress": a change made now is certainly not seen by that sync
            ls = self.wait_for(lambda l: any(x["what"] == "initial-sync-start" for x in l) and
                               trees_equal(self.src, self.dst, False)[0], START_DEADLINE)
        elif w == "idle":
            ls = self.wait_for(lambda l: phase_of(l) == "idle", CONVERGE_DEADLINE)
        elif w == "after-sync-end":
            n0 = part.get("_n0", 0)
            ls = self.wait_for(lambda l: any(x["what"] in ("sync-end", "loop-start") for x in l[n0:]) and
                               l[-1]["what"] in ("sync-end", "loop-start"), 3.0)
            if ls is None: ls = self.lines()      # window missed: still a valid burst, classified below
        elif w == "on-sync-start":
            n0 = part.get("_n0", 0)
            ls = self.wait_for(lambda l: any(x["what"] == "sync-start" for x in l[n0:]), CONVERGE_DEADLINE)
        elif w.startswith("sleep:"):
            time.sleep(int(w[6:]) / 1000.0); ls = self.lines()
        else:
            ls = self.lines()
        if ls is None:
            self.inconclusive = "timing condition %s not reached (slow or exited)" % w
            return False
        begin = len(ls)
        cls = phase_of(ls)
        for op in part["ops"]: self.do_op(op)
        self.ver += 1
        self.vers[self.ver] = self.model_ver(self.ver)
        end = len(self.lines())
        self.parts.append({"begin": begin, "end": end, "ver": self.ver, "cls": cls, "ops": part["ops"],
                           "armed": any(x["what"] == "armed" for x in ls)})
        self.rep.tag("timing:" + cls)
        for op in part["ops"]: self.rep.tag("op:" + op[0])
        return True

    # --- settle ------------------------------------------------------------------------------
    def settle(self, burst, first_part_idx):
        """poll until dst == src, or deterministic evidence of non-propagation, or the deadline"""
        t0 = time.monotonic()
        begin = self.parts[first_part_idx]["begin"]
        finding = burst.get("expect") == "not-propagated"
        while True:
            eq, a, b = trees_equal(self.src, self.dst, self.exact)
            if eq: return "converged", None
            ls = self.lines()
            idle = idle_seconds(ls)
            alive = self.proc.poll() is None
            if not alive: return "exited", {"returncode": self.proc.returncode}
            diff = sorted(k for k in set(a) | set(b) if a.get(k) != b.get(k) and (self.exact or k in a))[:6]
            if finding:
                after = ls[begin:]
                ev = [i for i, x in enumerate(after) if x["what"] == "event" and x.get("sub") == "kept"]
                synced = ev and any(x["what"] == "sync-end" and x.get("sub") == "ok" for x in after[ev[-1]:])
                if synced and idle >= IDLE_FINDING and phase_of(ls) == "idle":
                    return "not-propagated", {"differs": diff, "evidence": "events kept, sync ran after them, loop idle again"}
            if time.monotonic() - t0 > CONVERGE_DEADLINE:
                if idle >= IDLE_FAIL and not any(x["what"] == "event" for x in ls[-int(IDLE_FAIL * 8):]):
                    return "not-propagated", {"differs": diff, "evidence": "loop idle for %.1f s with pending=0" % idle,
                                              "events_seen_after_burst": sum(1 for x in ls[begin:] if x["what"] == "event")}
                return "inconclusive", {"differs": diff, "idle_s": idle}
            time.sleep(0.03)

    # --- the whole session ---------------------------------------------------------------------
    def run(self):
        spec = self.spec
        self.setup()
        self.start()
        try:
            return self._run()
        finally:
            if self.proc and self.proc.poll() is None:
                self.proc.kill(); self.proc.wait()
            self.out.close()

    def _run(self):
        spec = self.spec; rep = self.rep
        bursts = spec["bursts"]
        results = []
        started = False
        for bi, burst in enumerate(bursts):
            first = burst["parts"][0]["wait"]
            if not started and not first.startswith("on-initial-sync"):
                if self.wait_for(lambda l: any(x["what"] == "loop-start" for x in l), START_DEADLINE) is None:
                    return self.finish_startup_failure()
                started = True
            first_idx = len(self.parts)
            n0 = len(self.lines())
            for part in burst["parts"]:
                part = dict(part, _n0=n0)
                if not self.do_part(part):
                    rep.skip("session %s burst %d: %s" % (spec["name"], bi, self.inconclusive)); break
            if self.inconclusive: break
            if first.startswith("on-initial-sync"): started = True
            verdict, info = self.settle(burst, first_idx)
            cls = "+".join(dict.fromkeys(p["cls"] for p in self.parts[first_idx:]))
            results.append((bi, verdict, cls))
            rep.case("%s/%d" % (spec["name"], bi), True)
            rep.tag("settle:" + verdict)
            expect = burst.get("expect", "converged")
            if verdict == "converged":
                if expect == "not-propagated":
                    # the model (and the recorded finding) say this edit is invisible
                    rep.disagree({"session": spec["name"], "burst": bi, "what": "an edit the model calls invisible was propagated",
                                  "spec": spec})
            elif verdict == "not-propagated":
                if expect == "not-propagated":
                    sig = "C20/same-size-edit-within-tolerance"
                else:
                    sig = "C20/change-not-propagated/" + cls
                rep.oracle_fail(sig, "source changed, watch loop idle again, destination still differs: %s" % json.dumps(info),
                                dict(spec, failed_burst=bi, trace_tail=self.lines()[-12:]))
                if expect != "not-propagated": break
            elif verdict == "exited":
                rep.oracle_fail("C20/watch-exited-early/" + cls, "sy --watch exited while changes were outstanding: %s; output: %s" % (json.dumps(info), self.stdout_tail(2500)),
                                dict(spec, failed_burst=bi))
                break
            else:
                self.inconclusive = "burst %d not converged within %.0f s but the loop is not provably idle: %s" % (bi, CONVERGE_DEADLINE, json.dumps(info))
                rep.skip("session %s: %s" % (spec["name"], self.inconclusive)); break
        if not started and self.proc.poll() is None and spec.get("sigint") != "during-initial":
            if self.wait_for(lambda l: any(x["what"] == "loop-start" for x in l), START_DEADLINE) is None:
                return self.finish_startup_failure()
        self.do_sigint()
        self.validate_trace(results)
        return results

    def finish_startup_failure(self):
        ls = self.lines()
        rc = self.proc.poll()
        if not ls:
            self.rep.skip("session %s: no H4 trace written (binary built without --cfg nijaru_sy_verif?) rc=%r" % (self.spec["name"], rc))
        elif rc is not None:
            self.rep.oracle_fail("C20/watch-exited-early/before-loop", "sy --watch exited before entering its loop (rc=%r); output: %s" % (rc, self.stdout_tail(2500)), self.spec)
        else:
            self.rep.skip("session %s: loop not entered within %.0f s (slow)" % (self.spec["name"], START_DEADLINE))
        self.inconclusive = "startup"
        return []

    # --- SIGINT --------------------------------------------------------------------------------
    def do_sigint(self):
        spec = self.spec; rep = self.rep
        kind = spec.get("sigint", "idle")
        if self.proc.poll() is not None: return
        if kind == "idle" and not self.inconclusive:
            self.wait_for(lambda l: phase_of(l) == "idle", CONVERGE_DEADLINE)
        elif kind == "pending" and not self.inconclusive:
            self.do_part({"wait": "idle", "ops": spec["sigint_ops"]})
        elif kind == "during-sync" and not self.inconclusive:
            n0 = len(self.lines())
            self.do_part({"wait": "idle", "ops": spec["sigint_ops"]})
            self.wait_for(lambda l: any(x["what"] == "sync-start" for x in l[n0:]), CONVERGE_DEADLINE)
        elif kind == "during-initial":
            self.wait_for(lambda l: any(x["what"] == "initial-sync-start" for x in l), START_DEADLINE)
        before = self.lines()
        self.sig_cls = phase_of(before)
        self.sig_at = len(before)
        self.proc.send_signal(signal.SIGINT)
        after_sent = len(self.lines())
        try:
            rc = self.proc.wait(timeout=EXIT_DEADLINE)
        except subprocess.TimeoutExpired:
            ls = self.lines()
            # deterministic only if the loop keeps iterating (it is alive and ignores the signal)
            if len(ls) > after_sent + 20:
                rep.oracle_fail("C20/sigint-no-exit/" + self.sig_cls, "sy --watch still iterating %.0f s after SIGINT" % EXIT_DEADLINE,
                                dict(spec, trace_tail=ls[-8:]))
            else:
                rep.skip("session %s: no exit %.0f s after SIGINT and the loop is not iterating (stuck in a sync / slow)" % (spec["name"], EXIT_DEADLINE))
            self.inconclusive = self.inconclusive or "sigint"
            return
        self.rc = rc
        ls = self.lines()
        rep.case("%s/sigint" % spec["name"], True)
        rep.tag("sigint:" + self.sig_cls)
        whats = [l["what"] for l in ls]
        if "loop-start" in whats[:self.sig_at]:
            # the handler was installed: clean exit path
            if rc != 0:
                rep.oracle_fail("C20/sigint-nonzero-exit/" + self.sig_cls, "exit status %r after SIGINT in the watch loop" % rc, dict(spec, trace_tail=ls[-8:]))
            elif not (ls and ls[-1]["what"] == "exit" and ls[-1].get("sub") == "sigint"):
                rep.oracle_fail("C20/sigint-unclean/" + self.sig_cls, "trace does not end with `exit sigint`", dict(spec, trace_tail=ls[-8:]))
            else:
                # the iteration in progress may complete after the signal was delivered; one more is possible when
                # the 10 ms sleep and the signal become ready in the same instant (tokio's select! polls in random
                # order) — `sigint_exits` proves "at most two further moves", the oracle checks the same bound
                tail = ls[after_sent:-1]
                iters = sum(1 for x in tail if x["what"] in ("event", "timeout", "watch-error"))
                rep.tag("sigint-iterations-after:%d" % iters)
                if iters > 2:
                    rep.oracle_fail("C20/sigint-late-exit/" + self.sig_cls, "%d loop iterations after SIGINT" % iters, dict(spec, trace_tail=ls[-8:]))
            rep.tag("exit:clean")
        else:
            rep.tag("exit:rc=%d" % rc)

    # --- trace validation against the model ----------------------------------------------------
    def validate_trace(self, results):
        rep = self.rep; spec = self.spec
        ls = self.lines()
        if not ls: return
        for l in ls:
            if l["what"] == "sync-end" and l.get("sub") == "err": rep.tag("sync-failed-in-loop")
        whats = [l["what"] for l in ls]
        arm_first = "armed" in whats and "initial-sync-start" in whats and whats.index("armed") < whats.index("initial-sync-start")
        deb = next((l.get("debounce_us") for l in ls if l["what"] == "loop-start"), 500000)
        # which part owns which event lines
        parts = self.parts
        inject_at = {}       # trace index -> [input tokens]   (edits nobody will ever receive an event for)
        edit_on_event = {}   # trace index of an event line -> version
        ev_idx = [i for i, l in enumerate(ls) if l["what"] == "event"]
        deliver_pos = {}     # event line -> earlier trace position at which its `e` input is given (queued during a sync)
        for pi, p in enumerate(parts):
            nxt = parts[pi + 1]["begin"] if pi + 1 < len(parts) else len(ls) + 1
            own = [i for i in ev_idx if p["begin"] <= i < nxt]
            if not own:
                # bursts that started at the same trace position (e.g. two bursts inside one long sync): the
                # edit is attached to the next received event — versions are cumulative, so "later" is conservative
                own = [i for i in ev_idx if i >= p["begin"]][:1]
            armed_idx = whats.index("armed") if "armed" in whats else len(ls)
            if p["end"] <= armed_idx and not own:
                # performed entirely before the watcher was armed: the model must lose it too
                inject_at.setdefault(p["end"], []).append("ecreate:%d,%d,%d" % self.vers[p["ver"]])
            elif own:
                carrier = next((i for i in own if ls[i].get("sub") == "kept"), own[0])   # the edit rides on a kept event
                edit_on_event[carrier] = max(p["ver"], edit_on_event.get(carrier, 0))
                began_in_sync = 1 <= p["begin"] <= len(ls) and ls[p["begin"] - 1]["what"] == "sync-start"
                ended_in_sync = began_in_sync and p["end"] == p["begin"] and p["end"] < len(ls) and ls[p["end"]]["what"] == "sync-end"
                mine = [i for i in own if p["begin"] <= i < nxt]
                sel = (mine if ended_in_sync else mine[:1]) if began_in_sync else []
                # The burst started while the loop sat in `engine.sync(..)`: its first event (all of them, if the burst
                # also ended inside that sync) was delivered into the channel during the sync and stayed queued —
                # reconstruct exactly that, but only when the trace confirms it: nothing but the end of that sync and
                # receives lie between the start of the burst and these events (a harness thread stalled for > 100 ms
                # would show a timeout).  FIFO order is kept by moving every event line of [begin, last] together.
                if sel and all(ls[j]["what"] in ("sync-end", "event") for j in range(p["begin"], sel[-1])):
                    n_ = 0
                    for i in ev_idx:
                        if p["begin"] <= i <= sel[-1]:
                            deliver_pos[i] = min(deliver_pos.get(i, i), p["begin"]); n_ += 1
                    rep.tag("queued-during-sync", n_)
            elif not any(l["what"] in ("event", "timeout") for l in ls[p["end"]:]):
                # the loop never got to its `recv_timeout` again after this burst (SIGINT right behind it):
                # the change happens, nobody receives anything
                inject_at.setdefault(len(ls), []).append("ecreate:%d,%d,%d" % self.vers[p["ver"]])
            else:
                rep.skip("session %s: no watcher event observed for a burst made while armed (inotify delivery is outside the model) — trace not validated" % spec["name"])
                return
        def ev_token(i):
            return "e" + ls[i].get("kind", "other") + (":%d,%d,%d" % self.vers[edit_on_event[i]] if i in edit_on_event else "")
        early = {}
        for i, pos in deliver_pos.items():
            if pos < i: early.setdefault(pos, []).append(i)
        inputs = []; expected = []; rel = 0; anomalies = []
        i = 0
        sig_done = False
        while i < len(ls):
            for tok in inject_at.get(i, []): inputs.append(tok)
            for j in sorted(early.get(i, [])): inputs.append(ev_token(j))
            l = ls[i]; w = l["what"]
            if self.sig_at is not None and not sig_done and i >= self.sig_at and w in ("sync-end", "exit"):
                # the signal was sent after line sig_at-1; the model only distinguishes "before the select"
                inputs.append("i"); sig_done = True
            if w in ("armed", "initial-sync-start", "initial-sync-end"):
                inputs.append("s"); expected.append(w)
            elif w == "loop-start":
                inputs.append("s"); expected.append("loop-start"); rel = 0
            elif w == "event":
                k = l.get("kind", "other")
                inputs += (["s"] if deliver_pos.get(i, i) < i else [ev_token(i), "s"])
                expected.append("event-%s:%s" % (l.get("sub"), k)); rel += SELECT_SLEEP_US
            elif w == "watch-error":
                inputs += ["eerror", "s"]; expected.append("event-dropped:error"); rel += SELECT_SLEEP_US
            elif w == "timeout":
                e0 = l.get("elapsed_us", 0); pend = l.get("pending", 0)
                syncs = i + 1 < len(ls) and ls[i + 1]["what"] == "sync-start"
                use = e0
                if syncs and e0 < deb: use = ls[i + 1].get("elapsed_us", e0)   # the code's own reading lies in [e0, e1]
                delta = use - (rel + SELECT_SLEEP_US + RECV_TIMEOUT_US)
                if delta < 0:
                    anomalies.append({"line": i, "elapsed_us": use, "model_lower_bound_us": rel + SELECT_SLEEP_US + RECV_TIMEOUT_US})
                    delta = 0
                inputs += ["t%d" % delta, "s"]
                expected.append(("timeout-sync:p=%d" if syncs else "timeout-idle:p=%d") % pend)
                rel = use
                if syncs: i += 1
            elif w == "sync-end":
                if l.get("sub") == "err":
                    # the model's `fail` move; admissible only if the source changed under the sync — the
                    # harness only ever makes syncs fail that way (no fault injection), which the model state
                    # confirms below (`admissible` is re-checked by feeding the same schedule)
                    inputs.append("f"); expected.append("sync-failed")
                else:
                    inputs.append("s"); expected.append("sync-end")
                rel = 0
            elif w == "exit":
                inputs.append("s"); expected.append("exit-" + l.get("sub", "?"))
            i += 1
        for tok in inject_at.get(len(ls), []) + inject_at.get(len(ls) + 1, []): inputs.append(tok)
        init_failed = ("initial-sync-start" in whats and "initial-sync-end" not in whats and self.proc.poll() == 1
                       and self.sig_at is None)
        if init_failed:
            # `self.engine.sync(..).await?` returned Err: no trace line, exit status 1
            inputs.append("f"); expected.append("initial-sync-failed")
        if self.sig_at is not None and not sig_done:
            inputs.append("i")
        cfg = "%d,%d,%d,1,%d,%d" % (deb, RECV_TIMEOUT_US, SELECT_SLEEP_US, NS, 1 if arm_first else 0)
        d0 = "99999,0,0"
        req = "watch.run %s %d,%d,%d %s %s" % (cfg, *self.vers[0], d0, " ".join(inputs))
        resp = self.drv.ask(req)
        rep.tag("trace-sessions")
        rep.tag("trace-lines", len(ls))
        for e in expected: rep.tag("decision:" + e.split(":")[0])
        for l in ls:
            if l["what"] == "event": rep.tag("kind:%s:%s" % (l.get("sub"), l.get("kind")))
        if " | " not in resp:
            rep.disagree({"session": spec["name"], "what": "driver rejected the request", "request": req[:2000], "response": resp}); return
        got, state = resp.split(" | ", 1)
        got = [] if got == "-" else got.split(";")
        st = dict(kv.split("=", 1) for kv in state.split())
        rep.tag("schedule-admissible:" + st.get("adm", "?"))
        if st.get("adm") != "true" and os.environ.get("C20_DEBUG"): print("INADMISSIBLE", spec["name"], req[:3000], file=sys.stderr)
        rep.case("%s/trace" % spec["name"], any(e.startswith("timeout-sync") for e in expected))
        if got != expected:
            j = next((k for k in range(min(len(got), len(expected))) if got[k] != expected[k]), min(len(got), len(expected)))
            rep.disagree({"session": spec["name"], "what": "decision trace differs from the model", "first_difference": j,
                          "model": got[max(0, j - 3):j + 3], "implementation": expected[max(0, j - 3):j + 3], "spec": spec, "request": req[:4000]})
            return
        if anomalies:
            rep.disagree({"session": spec["name"], "what": "a timed-out iteration was shorter than select sleep + receive timeout (the model's time lower bound)",
                          "anomalies": anomalies[:3], "spec": spec})
        if init_failed and st.get("exit") != "error":
            rep.disagree({"session": spec["name"], "what": "exit kind differs", "model": st.get("exit"), "implementation": "error (status 1)", "spec": spec})
        # exit kind
        if self.sig_at is not None and hasattr(self, "rc"):
            model_exit = st.get("exit")
            real_exit = "sigint" if (self.rc == 0 and ls[-1]["what"] == "exit") else ("killed" if self.rc == -signal.SIGINT else "rc=%d" % self.rc)
            if model_exit != real_exit:
                rep.disagree({"session": spec["name"], "what": "exit kind differs", "model": model_exit, "implementation": real_exit, "spec": spec})
        # convergence verdict of the model for the last settled burst (one-directional: the model is
        # conservative about edits a running sync may or may not have picked up)
        if results and not self.inconclusive and spec.get("sigint", "idle") == "idle":
            bi, verdict, cls = results[-1]
            model_conv = st.get("src") == st.get("dst")
            if model_conv and verdict != "converged":
                rep.disagree({"session": spec["name"], "what": "model predicts dst = src, implementation did not converge", "state": st, "spec": spec})
            quiet_cls = all(c in ("idle", "in-debounce", "pending-nonempty", "receiving") for c in cls.split("+"))
            if (not model_conv) and verdict == "converged" and quiet_cls and self.spec["bursts"][bi].get("expect") != "not-propagated" and not self.same_size:
                rep.disagree({"session": spec["name"], "what": "model predicts dst != src, implementation converged", "state": st, "spec": spec, "request": req[:4000]})
        rep.sample({"session": spec["name"], "trace_lines": len(ls), "decisions": expected[:14], "model_state": state})


class Driver:
    def __init__(self, path):
        self.p = subprocess.Popen([path], stdin=subprocess.PIPE, stdout=subprocess.PIPE, text=True, bufsize=1)
        self.lock = threading.Lock()
    def ask(self, line):
        with self.lock:
            self.p.stdin.write(line + "\n"); self.p.stdin.flush()
            return self.p.stdout.readline().rstrip("\n")
    def close(self):
        try:
            self.p.stdin.close(); self.p.wait(timeout=5)
        except Exception:
            self.p.kill()


# ---------------------------------------------------------------------------------------------
NAMES = ["a.txt", "b.bin", "sub/c.dat", "sub/d e.txt", "sub/deep/f.log", "ü.txt", ".hidden", "g.tar.gz", "dir2/h", "dir2/i.txt"]

class Gen:
    """session specs; every choice from the seeded Rng; sizes are unique per session so that no two
    contents ever share a size (the size+mtime rule is exercised deliberately only by the same-size
    sessions)"""
    def __init__(self, rng): self.r = rng

    def session(self, idx, want_delete=None, delay=None, sigint=None, initial_burst=False):
        r = self.r
        self.size = 3 + r.below(40)
        n = 8 + r.below(3)
        files = {}
        for rel in NAMES[:n]: files[rel] = self.fresh()
        delete = r.chance(1, 2) if want_delete is None else want_delete
        delay = delay if delay is not None else r.pick([0, 0, 250, 350])
        spec = {"name": "s%d" % idx, "delete": delete, "delay_ms": delay,
                "initial": sorted(files.items()), "bursts": []}
        if r.chance(1, 3):
            spec["initial_dst"] = [("stale.txt", 5), (NAMES[0], 7)] if not delete else [(NAMES[0], 7)]
        self.files = dict(files); self.dirs = set(os.path.dirname(f) for f in files if os.path.dirname(f)); self.fresh_id = 0
        self.budget = 2
        if initial_burst:
            spec["bursts"].append({"parts": [{"wait": "on-initial-sync-start", "ops": self.ops(1 + r.below(3), delete)}]})
        nb = 3 + r.below(3)
        for _ in range(nb):
            self.budget = 2
            shape = r.pick(["idle", "idle", "in-debounce", "during-sync", "split-short", "split-long", "now"])
            if shape == "during-sync":
                parts = [{"wait": "idle", "ops": self.ops(1, delete)},
                         {"wait": "on-sync-start", "ops": self.ops(1 + r.below(3), delete)}]
            elif shape == "split-short":
                parts = [{"wait": "idle", "ops": self.ops(1 + r.below(2), delete)},
                         {"wait": "sleep:%d" % r.pick([30, 150, 250]), "ops": self.ops(1 + r.below(2), delete)}]
            elif shape == "split-long":
                parts = [{"wait": "idle", "ops": self.ops(1 + r.below(2), delete)},
                         {"wait": "sleep:%d" % r.pick([450, 600, 800]), "ops": self.ops(1 + r.below(2), delete)}]
            elif shape == "in-debounce":
                parts = [{"wait": "after-sync-end", "ops": self.ops(1 + r.below(3), delete)}]
            else:
                parts = [{"wait": shape, "ops": self.ops(1 + r.below(4), delete)}]
            spec["bursts"].append({"parts": parts})
        spec["sigint"] = sigint or r.pick(["idle", "idle", "pending", "during-sync"])
        self.budget = 2
        if spec["sigint"] in ("pending", "during-sync"): spec["sigint_ops"] = self.ops(1, delete)
        return spec

    def fresh(self):
        self.size += 1 + self.r.below(3); return self.size

    def newname(self):
        self.fresh_id += 1
        d = self.r.pick(sorted(self.dirs) + ["", ""])
        return os.path.normpath(os.path.join(d, "n%d%s" % (self.fresh_id, self.r.pick([".txt", "", ".dat", " x.md"]))))

    def ops(self, n, delete):
        """`n` operations.  With --delete every removed name is a planned deletion; sy's mass-deletion
        guard (C07, > 50 % of the destination) would make the sync fail, so a burst removes at most
        two names (`self.budget`, reset per burst)."""
        r = self.r; out = []
        for _ in range(n):
            kinds = ["create", "edit", "append", "mkdir-file"]
            can_remove = (not delete) or self.budget > 0
            if can_remove: kinds += ["rename"]
            if delete and can_remove and len(self.files) > 6: kinds += ["delete"]
            if len(self.dirs) > 0 and can_remove: kinds += ["rename-dir"]
            k = r.pick(kinds)
            fl = sorted(self.files)
            tag = "c%d:%d" % (self.fresh_id, r.below(1 << 30))
            if k == "create" or not fl:
                nm = self.newname(); sz = self.fresh(); self.files[nm] = sz; out.append(["create", nm, sz, tag])
            elif k == "edit":
                nm = r.pick(fl); sz = self.fresh(); self.files[nm] = sz; out.append(["edit", nm, sz, tag])
            elif k == "append":
                nm = r.pick(fl); add = 1 + r.below(9)
                # keep sizes unique
                while self.files[nm] + add in self.files.values() or self.files[nm] + add <= self.size: add += 1
                self.files[nm] += add; self.size = max(self.size, self.files[nm]); out.append(["append", nm, add, tag])
            elif k == "rename":
                nm = r.pick(fl); nn = self.newname(); self.files[nn] = self.files.pop(nm); out.append(["rename", nm, nn])
                self.budget -= 1
            elif k == "delete":
                nm = r.pick(fl); del self.files[nm]; out.append(["delete", nm]); self.budget -= 1
            elif k == "mkdir-file":
                self.fresh_id += 1
                d = "nd%d" % self.fresh_id; self.dirs.add(d)
                nm = os.path.join(d, "in.txt"); sz = self.fresh(); self.files[nm] = sz
                out.append(["mkdir", d]); out.append(["create", nm, sz, tag])
            elif k == "rename-dir":
                d = r.pick(sorted(self.dirs))
                inside = sum(1 for f in self.files if f.startswith(d + "/"))
                if delete and inside + 1 > self.budget: inside = -1
                if inside < 0 or any(o != d and (o.startswith(d + "/") or d.startswith(o + "/")) for o in self.dirs):
                    nm = self.newname(); sz = self.fresh(); self.files[nm] = sz; out.append(["create", nm, sz, tag]); continue
                self.fresh_id += 1
                nd = "rd%d" % self.fresh_id
                self.dirs.discard(d); self.dirs.add(nd)
                for f in list(self.files):
                    if f.startswith(d + "/"): self.files[nd + f[len(d):]] = self.files.pop(f)
                out.append(["rename", d, nd]); self.budget -= inside + 1
        return out


def same_size_session(name, dmtime_ns, expect):
    """loop running and in sync; then one same-size rewrite of a.txt whose mtime is placed `dmtime_ns`
    after the previous one"""
    return {"name": name, "class": "same-size", "delete": False, "delay_ms": 0,
            "initial": [["a.txt", 16], ["b.txt", 5]],
            "bursts": [{"parts": [{"wait": "idle", "ops": [["same-size", "a.txt", dmtime_ns, "v2"]]}], "expect": expect}],
            "sigint": "idle"}


def initial_sync_session(name, nfiles, delay_ms):
    """a change made while the initial sync is in progress (defect (a) of the pinned tree)"""
    init = [["d%d/f%d.txt" % (i % 7, i), 20 + i] for i in range(nfiles)]
    return {"name": name, "delete": False, "delay_ms": delay_ms, "initial": init,
            "bursts": [{"parts": [{"wait": "on-initial-sync-copied",
                                   "ops": [["create", "d1/new-during-initial.txt", 5000, "n"], ["edit", "d0/f0.txt", 5001, "e"]]}]}],
            "sigint": "idle"}


def rename_during_loop_sync_session(name, nfiles):
    """many renames while a sync inside the loop scans: that sync usually fails (`✗ Sync failed`, trace
    `sync-end err`), `pending` is cleared — and the queued rename events must still trigger a further sync"""
    init = [["d%d/f%d.txt" % (i % 9, i), 20 + i] for i in range(nfiles)]
    ops = [["rename", "d%d/f%d.txt" % (i % 9, i), "d%d/r%d.txt" % (i % 9, i)] for i in range(0, nfiles, 3)]
    return {"name": name, "delete": False, "delay_ms": 0, "initial": init,
            "bursts": [{"parts": [{"wait": "idle", "ops": [["create", "trigger.txt", 7, "t"]]},
                                  {"wait": "on-sync-start", "ops": ops}]}],
            "sigint": "idle"}


def sigint_initial_session(name, nfiles):
    init = [["d%d/f%d.txt" % (i % 7, i), 20 + i] for i in range(nfiles)]
    return {"name": name, "delete": False, "delay_ms": 1500, "initial": init, "bursts": [], "sigint": "during-initial"}


def corpus_specs():
    d = os.path.join(VERIF, "corpus", "C20")
    out = []
    if os.path.isdir(d):
        for fn in sorted(os.listdir(d)):
            if fn.endswith(".json"):
                j = json.load(open(os.path.join(d, fn)))
                out.append(j.get("spec", j))
    return out


def run(tier="quick", seed=20, work=None, replay=None, sessions=None, parallel=None, **kw):
    rep = Report()
    rep.rule = ("evaluations = settled bursts + SIGINT deliveries + traces replayed through the model; distinct_nontrivial = "
                "distinct (session, burst) pairs that needed a watcher-triggered sync, SIGINT cases, and traces containing a timeout-sync decision")
    work = work or os.path.join(VERIF, ".build", "work", "c20-%d" % os.getpid())
    os.makedirs(work, exist_ok=True)
    if not os.path.exists(SY):
        rep.skip("sy binary not found at %s" % SY); return rep.to_json()
    if not os.path.exists(DRIVER):
        rep.disagree({"what": "sydriver not found", "path": DRIVER}); return rep.to_json()
    ok, why = probe_inotify(work)
    if not ok:
        rep.skip("inotify unusable in this sandbox (%s): real-binary stream skipped" % why)
        return rep.to_json()
    rep.tag("inotify-probe-ok")
    ok, why = probe_hook(os.path.join(work, "probe"))
    if not ok:
        rep.skip("hook H4 not available (%s): real-binary stream skipped" % why)
        if why.startswith("no trace line"):
            # sy runs but never writes the trace: the hook is gone, the model is no longer tied to the loop
            rep.disagree({"what": "hook H4 (SY_VERIF_WATCH_TRACE) is missing from the sy binary built with --cfg nijaru_sy_verif: "
                                  "the watch-loop correspondence cannot be established", "binary": SY})
        return rep.to_json()
    drv = Driver(DRIVER)
    try:
        specs = []
        if replay:
            j = json.load(open(replay))
            spec = j.get("spec") or (j.get("failure", {}).get("input")) or j
            for k in ("failed_burst", "trace_tail"): spec.pop(k, None)
            specs = [spec]
        else:
            specs += corpus_specs()
            rng = Rng(seed * 0x9E3779B1 + 20)
            g = Gen(rng)
            n = sessions if sessions is not None else (10 if tier == "quick" else 40)
            # fixed shapes first: both same-size variants, a change during the initial sync, SIGINT during it
            specs.append(same_size_session("same-size-within-tolerance", 1 * NS, "not-propagated"))
            specs.append(same_size_session("same-size-outside-tolerance", 5 * NS, "converged"))
            specs.append(initial_sync_session("during-initial-sync", 40 + rng.below(60), 700))
            specs.append(sigint_initial_session("sigint-during-initial-sync", 30 + rng.below(30)))
            specs.append(rename_during_loop_sync_session("rename-during-loop-sync", 500 + rng.below(200)))
            for i in range(n):
                specs.append(g.session(i, delay=(250 + 50 * rng.below(3)) if i % 2 == 0 else None,
                                       sigint=["idle", "pending", "during-sync"][i % 3] if i < 3 else None,
                                       initial_burst=(i % 4 == 1)))
            # the model's malformed-request leg: the driver rejects what it cannot parse
            for bad in ["watch.run", "watch.run 1,2,3 0,0,0 0,0,0 s", "watch.run 500,100,10,1,1000000000,1 0,0,0 0,0,0 q",
                        "watch.run 500,100,10,1,0,1 0,0,0 0,0,0 s", "watch.cmp 1 0,0,0 0,0,0", "watch.step s"]:
                r = drv.ask(bad); rep.case("bad:" + bad, False); rep.tag("malformed-request")
                if r != "bad-op": rep.disagree({"what": "driver accepted a malformed request", "request": bad, "response": r})
            # comparison rule boundary (strategy.rs:372-376 as modelled): 1.999… s matches, 2 s does not
            for (dm, want) in [(0, "skip"), (999_999_999, "skip"), (1_000_000_000, "skip"), (1_999_999_999, "skip"), (2_000_000_000, "update"), (5_000_000_000, "update")]:
                for sgn in (1, -1):
                    a = BASE_MTIME_NS + sgn * dm
                    r = drv.ask("watch.cmp 1,%d 1,10,%d 0,10,%d" % (NS, a, BASE_MTIME_NS)); rep.case("cmp:%d:%d" % (dm, sgn), False); rep.tag("cmp-rule")
                    if r != want: rep.disagree({"what": "comparison rule of the model", "dmtime_ns": sgn * dm, "model": r, "expected": want})
        seen = set(); uniq = []
        for sp in specs:          # corpus cases come first and win over built-in shapes of the same name
            if sp["name"] not in seen:
                seen.add(sp["name"]); uniq.append(sp)
        specs = uniq
        par = parallel or (6 if tier == "quick" else 8)
        def one(spec):
            s = Session(spec, os.path.join(work, spec["name"]), rep, drv)
            try:
                s.run()
            except Exception as e:
                import traceback
                rep.disagree({"session": spec["name"], "what": "harness exception", "error": traceback.format_exc()[-1500:]})
            finally:
                if not os.environ.get("C20_KEEP"): shutil.rmtree(s.root, ignore_errors=True)
        with ThreadPoolExecutor(max_workers=par) as ex:
            list(ex.map(one, specs))
    finally:
        drv.close()
    return rep.to_json()


if __name__ == "__main__":
    import argparse
    ap = argparse.ArgumentParser()
    ap.add_argument("--tier", default="quick"); ap.add_argument("--seed", type=int, default=20)
    ap.add_argument("--work", default=None); ap.add_argument("--replay", default=None)
    ap.add_argument("--sessions", type=int, default=None); ap.add_argument("--parallel", type=int, default=None)
    a = ap.parse_args()
    t0 = time.time()
    out = run(a.tier, a.seed, a.work, a.replay, sessions=a.sessions, parallel=a.parallel)
    out["wall_s"] = round(time.time() - t0, 1)
    print(json.dumps(out, indent=1, ensure_ascii=False))
