#!/bin/sh
# Runs the pinned baseline (guard OFF) of $SY_REPO (default /repo) and compares with BASELINE.json's stable_pass list.
R=${SY_REPO:-/repo}
cd "$R" && cargo nextest run --workspace --no-fail-fast --tool-config-file pb:/w/lib/nextest.toml --profile pb --test-threads 8 --offline >/tmp/baseline-$$.log 2>&1
python3 - "$R" <<'PY'
import json,xml.etree.ElementTree as ET,sys
b=json.load(open('/root/.vp/BASELINE.json'))
t=ET.parse(sys.argv[1]+'/target/nextest/pb/junit.xml')
res={}
for ts in t.getroot().iter('testsuite'):
    for tc in ts.iter('testcase'):
        res[f"{ts.get('name')}::{tc.get('name')}"] = tc.find('failure') is None and tc.find('error') is None
missing=[n for n in b['stable_pass'] if not res.get(n)]
print('stable_pass:',len(b['stable_pass']),'not passing:',len(missing))
for m in missing[:40]: print('  FAIL',m)
sys.exit(1 if missing else 0)
PY
rc=$?; rm -f /tmp/baseline-$$.log; exit $rc
