#!/usr/bin/env python3
"""usage: seed_meta.py <seed> <breaks> <change> <needs> <caught_by> [strengthening]  — completes seeded/<seed>/meta.json"""
import json,sys
seed,breaks,change,needs,caught=sys.argv[1:6]
p=f"/verif/seeded/{seed}/meta.json"; m=json.load(open(p))
m.update({"breaks":breaks,"change":change,"needs":needs,"ran":f"tools/confirm_seed.sh {seed} … (apply to /repo, build, demo must fail, 850-test baseline must pass, quick checks, revert, demo must pass)","caught_by":caught,"round":2})
if len(sys.argv)>6: m["strengthening"]=sys.argv[6]
json.dump(m,open(p,"w"),indent=1)
