#!/bin/sh
# usage: tools/lake_locked.sh <lake build targets…>  — builds under the same file lock check.py uses
cd "$(dirname "$0")/../lean" && mkdir -p ../.build && flock ../.build/lake.lock lake build "$@"
