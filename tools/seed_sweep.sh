#!/bin/sh
# seed independence: every quick check must exit 0 on the unchanged tree for any VERIF_SEED.
# usage: tools/seed_sweep.sh "<seeds>" [par] [props...]
seeds=${1:-"101 102 103"}; par=${2:-4}; shift; shift
props=${*:-"C01 C02 C03 C04 C05 C06 C07 C08 C09 C10 C11 C12 C13 C14 C15 C16 C17 C18 C19 C20"}
cd "$(dirname "$0")/.."
mkdir -p .build/sweep
for s in $seeds; do for p in $props; do echo "$p $s"; done; done | \
  xargs -P "$par" -L1 sh -c 'p=$0; s=$1; t0=$(date +%s); VERIF_SEED=$s VERIF_EVIDENCE_DIR=.build/sweep python3 tools/check.py $p --tier quick > .build/sweep/$p-$s.out 2> .build/sweep/$p-$s.err; rc=$?; echo "$p seed=$s rc=$rc wall=$(( $(date +%s) - t0 ))s"; if [ $rc -ne 0 ]; then f=$(sed -n "s/^VIOLATION property=[A-Z0-9]* replay=\([^ ]*\).*/\1/p" .build/sweep/$p-$s.out | head -1); [ -n "$f" ] && cp "$f" .build/sweep/; fi'
