"""Per-property configuration of check.py: streams, trusted base, assumptions."""
PROPS = {
 "C04": {
  "seed": 4,
  "streams": [{"kind": "rust", "name": "c04"}],
  "trusted_base": [
    "hand-written Lean model of src/delta/{rolling,checksum,generator,applier}.rs tied to the code by the in-process differential stream c04 (op lists compared byte for byte)",
    "tools/extract_consts.py (MOD_ADLER, CHUNK_SIZE, block-size clamp regenerated from source each run)",
    "xxh3-64 has no collision between compared blocks (hypothesis NoCollision); File::read returns full buffers before EOF",
  ],
  "assumptions": ["NoCollision strong old new bs", "0 < bs", "bs ≤ chunk for the streaming generator (consts_ok_chunk)"],
 },
 "C07": {
  "seed": 7,
  "streams": [{"kind": "py", "name": "engine-c07", "module": "engine_stream", "kwargs": {"focus": "C07"}}],
  "trusted_base": [
    "hand-written Lean model of SyncEngine::sync (src/sync/mod.rs), planner and executors at directory-entry level, tied to the real `sy` binary by the engine stream (exit status, counters, event multiset, final destination snapshot compared per case)",
    "tools/extract_consts.py (default --delete-threshold regenerated from src/cli.rs each run)",
    "f64 division/multiplication do not flip a strict inequality in the guard's range (exact rational model with an explicit tie bit; boundary cases generated at, below and above the threshold)",
  ],
  "assumptions": ["the guard's destination count comes from a successful scan of the destination", "exact-arithmetic model of the f64 percentage with an explicit tie bit"],
 },
 "C08": {
  "seed": 8,
  "streams": [{"kind": "py", "name": "engine-c08", "module": "engine_stream", "kwargs": {"focus": "C08"}}],
  "trusted_base": [
    "hand-written Lean model of the one-way engine tied to the real binary by twin runs (same command with and without --dry-run) compared with the model and with each other",
    "what happens around the engine in main.rs (clean-state, clear-cache, checksum DB, resume, bisync DB) is covered by the snapshot oracle over the destination and a private HOME/XDG tree, not by the model",
  ],
  "assumptions": ["plan equality is stated for real runs in which no task fails"],
 },
 "C19": {
  "seed": 19,
  "streams": [{"kind": "py", "name": "engine-c19", "module": "engine_stream", "kwargs": {"focus": "C19"}}],
  "trusted_base": [
    "hand-written Lean model of the engine's bookkeeping (counters, events, errors) tied to the real `sy --json` output by the engine stream",
    "tools/extract_consts.py: log sink and error-event emission regenerated from src/main.rs / src/sync/mod.rs each run",
    "serde_json prints one object per line (every stdout line is parsed with a strict JSON parser each run)",
  ],
  "assumptions": ["events are compared with the file-system diff of the destination before/after the run"],
 },
}
