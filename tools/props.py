"""Per-property configuration of check.py: streams, trusted base, assumptions."""
PROPS = {
 "C04": {
  "seed": 4,
  "streams": [{"kind": "rust", "name": "c04"}],
  "trusted_base": [
    "hand-written Lean model of src/delta/{rolling,checksum,generator,applier}.rs tied to the code by the in-process differential stream c04 (op lists compared byte for byte)",
    "tools/extract_consts.py (MOD_ADLER, CHUNK_SIZE, block-size clamp regenerated from source each run)",
    "xxh3-64 has no collision between compared blocks (hypothesis NoCollision); File::read returns full buffers before EOF",
  ],
  "assumptions": ["NoCollision strong old new bs", "0 < bs", "bs ≤ chunk for the streaming generator (consts_ok_chunk)"],
 },
}
