"""Per-property configuration of check.py: streams, trusted base, assumptions."""
PROPS = {
 "C04": {
  "seed": 4,
  "streams": [{"kind": "rust", "name": "c04"}, {"kind": "rust", "name": "c04wire"}],
  "extra_modules": ["SyModel.Props.C04Wire"],
  "trusted_base": [
    "hand-written Lean model of src/delta/{rolling,checksum,generator,applier}.rs tied to the code by the in-process differential stream c04 (op lists compared byte for byte)",
    "tools/extract_consts.py (MOD_ADLER, CHUNK_SIZE, block-size clamp regenerated from source each run)",
    "xxh3-64 has no collision between compared blocks (hypothesis NoCollision); File::read returns full buffers before EOF",
    "zstd lossless + frame magic (Codec.Sound), validated on every wire payload by the stream c04wire",
  ],
  "assumptions": ["NoCollision strong old new bs", "0 < bs", "bs ≤ chunk for the streaming generator (consts_ok_chunk)"],
 },
 "C07": {
  "seed": 7,
  "streams": [{"kind": "py", "name": "engine-c07", "module": "engine_stream", "kwargs": {"focus": "C07"}}],
  "trusted_base": [
    "hand-written Lean model of SyncEngine::sync (src/sync/mod.rs), planner and executors at directory-entry level, tied to the real `sy` binary by the engine stream (exit status, counters, event multiset, final destination snapshot compared per case)",
    "tools/extract_consts.py (default --delete-threshold regenerated from src/cli.rs each run)",
    "f64 division/multiplication do not flip a strict inequality in the guard's range (exact rational model with an explicit tie bit; boundary cases generated at, below and above the threshold)",
  ],
  "assumptions": ["the guard's destination count comes from a successful scan of the destination", "exact-arithmetic model of the f64 percentage with an explicit tie bit"],
 },
 "C08": {
  "seed": 8,
  "streams": [{"kind": "py", "name": "engine-c08", "module": "engine_stream", "kwargs": {"focus": "C08"}}],
  "trusted_base": [
    "hand-written Lean model of the one-way engine tied to the real binary by twin runs (same command with and without --dry-run) compared with the model and with each other",
    "what happens around the engine in main.rs (clean-state, clear-cache, checksum DB, resume, bisync DB) is covered by the snapshot oracle over the destination and a private HOME/XDG tree, not by the model",
  ],
  "assumptions": ["plan equality is stated for real runs in which no task fails"],
 },
 "C19": {
  "seed": 19,
  "streams": [{"kind": "py", "name": "engine-c19", "module": "engine_stream", "kwargs": {"focus": "C19"}}],
  "trusted_base": [
    "hand-written Lean model of the engine's bookkeeping (counters, events, errors) tied to the real `sy --json` output by the engine stream",
    "tools/extract_consts.py: log sink and error-event emission regenerated from src/main.rs / src/sync/mod.rs each run",
    "serde_json prints one object per line (every stdout line is parsed with a strict JSON parser each run)",
  ],
  "assumptions": ["events are compared with the file-system diff of the destination before/after the run"],
 },
 "C14": {
  "seed": 14,
  "streams": [{"kind": "rust", "name": "c14"}],
  "trusted_base": [
    "hand-written Lean model of src/compress/mod.rs (decision, dispatch), src/bin/sy-remote.rs (receive-file, receive-sparse-file), src/transport/ssh.rs (sender's branch, copy_sparse_file) and src/transport/local.rs (sparse copiers), tied to the code by the stream c14: decision table vs the real functions, real sy-remote binary fed with payloads built by the same library calls as ssh.rs (ssh.rs itself cannot be driven without an SSH server: its sender side is a line-by-line replica in harness/src/c14.rs)",
    "tools/extract_consts.py (1 MiB gates, 64 KiB sample, 0.9 ratio as 9/10, COMPRESSED_EXTENSIONS, zstd magic bytes and length guard of both sniffing sites, sparse threshold / block size, helper command names of the sender's arms regenerated from source each run)",
    "zstd (C library via the zstd crate) and lz4_flex: decompress(compress x) = x and the zstd frame magic are hypotheses (Codec.Lossless / Codec.Sound), validated on every generated payload by the stream, never proved",
    "kernel: SEEK_DATA/SEEK_HOLE report every non-zero byte inside some region (hypothesis Covers, checked on every generated layout); pwrite/ftruncate semantics as modelled by writeAt/setLen (validated against the files the real helper writes)",
    "the SSH channel and SFTP are byte-transparent pipes; f64 comparison `ratio < 0.9` equals the exact rational comparison for samples ≤ 64 KiB (margin lemma consts_ok_sample_f64_margin)",
    "copy_sparse_file_blocks (local.rs:129-170) is modelled and proved but not exercised against the implementation (needs EINVAL from lseek(SEEK_DATA))",
  ],
  "assumptions": ["Codec.Sound Z (zstd lossless + magic)", "Codec.Lossless L (lz4)", "Covers content regions (SEEK_DATA/SEEK_HOLE contract)"],
 },
 "C13": {
  "seed": 13,
  "streams": [{"kind": "rust", "name": "c13"}],
  "trusted_base": [
    "hand-written Lean labelled transition system of Transferrer::create's hard-link hand-off (src/sync/transfer.rs) at mutex granularity, tied to the code by polling the real create() futures (hook H3) over a mock Transport in every order and comparing every poll with the model's `poll` macro-step",
    "tokio 1.47.1 Notify is MODELLED, not verified: notify_waiters() counter, Notified snapshots it at creation and completes iff it changed (src/sync/notify.rs l.565-575, 743-760, 1132, 1249)",
    "thread-level schedules are covered by the theorems over micro-steps; on the real code they are only sampled (sy -H -j1..8 on generated trees, wall-clock bound 90 s, a timeout is a hang only for the deterministic A11 scenario)",
    "the mock Transport's file table stands for the file system at the mock level (copy = fresh inode, link = share inode); real inode classes are compared at binary level",
    "tokio Semaphore / spawn / join_all of SyncEngine::sync are not modelled: every task is assumed to be polled again after a wake-up (fair executor)",
  ],
  "assumptions": ["cfg.variant = repaired for no_stuck / every_run_completes / owner_failure_surfaces (fix-c13-hardlink-hang)",
                  "WF cfg: files sharing a source inode are all hard-link candidates (nlink > 1)",
                  "Clean cfg for link_structure_clean (link_structure itself needs no such assumption)",
                  "updates below the 10 MiB delta threshold for link_structure_partial"],
 },
 "C15": {
  "seed": 15,
  "streams": [{"kind": "py", "name": "verify", "module": "verify_stream", "kwargs": {"focus": "C15"}}],
  "trusted_base": [
    "hand-written Lean model of SyncEngine::verify and the exit mapping of main.rs, tied to the real `sy --verify-only --json` by comparing exit status and all result lists per generated pair of trees",
    "tools/extract_consts.py: the verify body contains no mutating transport call and never selects the no-checksum mode (regenerated each run)",
    "xxh3 / BLAKE3 do not collide on the compared files (content ids stand for checksums)",
  ],
  "assumptions": ["scans list every path once (UniqueRels)", "exit-0 equivalence is stated for readable files and without size bounds"],
 },
 "C16": {
  "seed": 16,
  "streams": [{"kind": "rust", "name": "c16"}],
  "trusted_base": [
    "hand-written Lean model of glob 0.3.3 Pattern::new / matches_from (default MatchOptions), src/filter.rs, the filter fold of src/sync/mod.rs:370-411 and the rule construction of src/main.rs:209-333, tied to the code by the differential stream c16 (glob token lists / error kind+pos / match results, add_rule text parsing, FilterRule::matches, should_include incl. deciding rule index, exhaustive small universes, destination path sets of filtered syncs through the real sy binary)",
    "tools/extract_consts.py (order of the filter-engine feeding statements in src/main.rs, the calls they make, should_include's first-match / no-match results — regenerated from source each run, consts_ok_rule_order / consts_ok_filter_calls)",
    "ignore::Walk yields a directory before everything below it and no path twice (hypothesis ParentsFirst); entries hidden by .ignore/.gitignore files never reach the filter (recorded as observation by the stream)",
    "the transfer side (a kept entry is created/updated, a dropped one is not) is observed at binary level by the oracle, not yet proved in the engine model",
  ],
  "assumptions": ["ParentsFirst scan", "clean relative paths (non-empty components without '/', none '.' or '..')", "plain byte counts or exact KB multiples for --min-size/--max-size (parse_size's f64 arithmetic is outside the model)"],
 },
 "C10": {
  "seed": 10,
  "streams": [{"kind": "py", "name": "faults", "module": "fault_stream", "kwargs": {"focus": "C10"}},
              {"kind": "py", "name": "engine-c10", "module": "engine_stream", "kwargs": {"focus": "C10", "ncases": 60}}],
  "trusted_base": [
    "hand-written Lean model of the engine under fault plans (a faulted task fails and leaves an arbitrary node at its own path; every other task runs unchanged), tied to the real binary by strace fault injection (inject=<syscall>:error=<errno>:when=<k>) at system-call granularity",
    "tools/extract_consts.py: main.rs consults the error list and the verification-failure counter for the exit status (regenerated each run)",
    "strace's injection makes the k-th invocation of the chosen call fail with the chosen errno (kernel not reached)",
  ],
  "assumptions": ["faults are injected at system-call granularity only", "silent corruption of written bytes is not injected (would need an LD_PRELOAD shim): the verifying modes are covered by the exit-status theorem and constants only",
                  "faults in read-only calls during planning are judged by the oracle only (the fault-plan model speaks about task execution)"],
 },
 "C11": {
  "seed": 11,
  "streams": [{"kind": "rust", "name": "c11", "replayable": True}],
  "trusted_base": [
    "hand-written Lean model of src/bisync/{classifier,resolver,engine,state}.rs (both the tree as shipped, Cfg.pinned, and the tree with fix-bisync-state / fix-bisync-content-equal, Cfg.repaired), tied to the code by the stream c11: exhaustive in-process differential of classify_changes / resolve_changes / conflict_filename on fabricated metadata, and histories of edits and syncs on two real directories through BisyncEngine::sync and through the real `sy -b` binary (both roots and the rows of the state database compared after every sync); the stream detects which variant is linked and compares with that variant of the model",
    "kernel semantics assumed by the model: fs::copy gives the destination the source's bytes and a fresh mtime; rename replaces its target; remove_file removes one name; SQLite INSERT OR REPLACE / DELETE on the (path, side) key",
    "time: mtimes are compared exactly in nanoseconds and only by order; the harness realises the logical clock with 1 ns, 1 µs and 1 s ticks and re-stamps every kernel-stamped mtime (copy destinations, rows) with the sync's tick",
    "regular files only (directories are skipped by the classifier; symlinks, permissions and xattrs are outside the bisync code)",
  ],
  "assumptions": ["Consistent w (rows in pairs; files that both still match their rows agree) — proved to hold after every sync (sync_consistent) and along every history (C12 paired_state)",
                  "Fresh w stamp (the conflict names of this wall-clock second name nothing that exists)",
                  "the run is not refused by --max-delete (refused runs change nothing: refused_changes_nothing)"],
 },
 "C12": {
  "seed": 12,
  "streams": [{"kind": "rust", "name": "c12", "replayable": True}],
  "trusted_base": [
    "the model and correspondence of C11 (same files, stream c12 judges the same runs with the three-way-merge oracle)",
    "histories start from two arbitrary trees with an empty state database; every write stamps mtime := logical now (strictly increasing), i.e. the clock of the machine never runs backwards between an edit and the next sync",
    "a touched side counts as changed (the code's is_modified and the model's changedL/changedR agree; content-only reading is reported as an observation tag, see Props/C12.lean)",
  ],
  "assumptions": ["Trace.Init (empty state database, mtimes in the past)", "FreshRun (every sync of the history meets a fresh conflict stamp)", "the judged sync is not refused by --max-delete"],
 },
}
