#!/usr/bin/env python3
"""Translator for constants and tables: regenerates lean/SyModel/Generated/Consts.lean from the Rust
source of /repo on every run (DESIGN §4.1).  Each anchor is a line-anchored regular expression that
must match exactly once in its file; a missing or ambiguous anchor is a broken obligation."""
import re, os, sys

def num(expr):
    expr = expr.replace("_", "").strip()
    if not re.fullmatch(r"[0-9\s\*\+\(\)]+", expr):
        raise ValueError("not a constant expression: " + expr)
    return int(eval(expr, {"__builtins__": {}}))

# (lean name, file, regex with one group, kind)
ANCHORS = [
    ("MOD_ADLER", "src/delta/rolling.rs", r"^const MOD_ADLER: u32 = ([0-9_]+);", "nat"),
    ("ROLL_SLACK_A", "src/delta/rolling.rs", r"self\.a = \(self\.a \+ MOD_ADLER \* ([0-9]+) - old \+ new\) % MOD_ADLER;", "nat"),
    ("ROLL_SLACK_B", "src/delta/rolling.rs", r"self\.b = \(self\.b \+ MOD_ADLER \* ([0-9]+) - n_old \+ self\.a - 1\) % MOD_ADLER;", "nat"),
    ("STREAM_CHUNK_SIZE", "src/delta/generator.rs", r"^\s*const CHUNK_SIZE: usize = ([0-9_\s\*]+);", "nat"),
    ("BLOCK_SIZE_MIN", "src/delta/mod.rs", r"size\.clamp\(([0-9_\s\*]+),\s*[0-9_\s\*]+\)", "nat"),
    ("BLOCK_SIZE_MAX", "src/delta/mod.rs", r"size\.clamp\([0-9_\s\*]+,\s*([0-9_\s\*]+)\)", "nat"),
    ("DELETE_THRESHOLD_DEFAULT", "src/cli.rs", r'#\[arg\(long, default_value = "([0-9]+)"\)\]\s*\n\s*pub delete_threshold: u8,', "nat"),
    ("MAX_ERRORS_DEFAULT", "src/cli.rs", r'#\[arg\(long, default_value = "([0-9]+)"\)\]\s*\n\s*pub max_errors: usize,', "nat"),
    ("PARALLEL_DEFAULT", "src/cli.rs", r'#\[arg\(short = \'j\', long, default_value = "([0-9]+)"\)\]\s*\n\s*pub parallel: usize,', "nat"),
    ("MTIME_TOLERANCE_SECS", "src/sync/strategy.rs", r"pub fn with_comparison_flags\([^)]*\) -> Self \{.*?mtime_tolerance: ([0-9]+),", "nat_s"),
    ("DELTA_THRESHOLD", "src/transport/local.rs", r"^\s*const DELTA_THRESHOLD: u64 = ([0-9_\s\*]+);", "nat"),
    ("LOCAL_BLOCK_SIZE", "src/transport/local.rs", r"^\s*let block_size = ([0-9_\s\*]+); // 64KB blocks", "nat"),
    ("BLOOM_THRESHOLD", "src/sync/strategy.rs", r"^\s*const BLOOM_THRESHOLD: usize = ([0-9_]+);", "nat"),
    ("LOG_WRITER_IS_STDERR", "src/main.rs", r"^\s*(\.with_writer\(std::io::stderr\))", "flag"),
    ("EMITS_ERROR_EVENTS", "src/sync/mod.rs", r"for err in &final_stats\.errors \{\s*(SyncEvent::Error) \{", "flag"),
    ("EXIT_CONSULTS_ERRORS", "src/main.rs", r"if (!stats\.errors\.is_empty\(\)) \|\| stats\.verification_failures > 0 \{\s*anyhow::bail!", "flag"),
    ("EXIT_CONSULTS_VERIFICATION", "src/main.rs", r"if !stats\.errors\.is_empty\(\) \|\| (stats\.verification_failures > 0) \{\s*anyhow::bail!", "flag"),
    # --- C04 wire leg / C14: magic sniffing of the remote helper (src/bin/sy-remote.rs) ---
    ("ZSTD_MAGIC_APPLY_DELTA", "src/bin/sy-remote.rs",
     r"let delta_json = if stdin_data\.len\(\) >= [0-9]+((?:\s*&& stdin_data\[[0-9]+\] == 0x[0-9A-Fa-f]+)+)\s*\{", "idxhexlist"),
    ("SNIFF_MIN_LEN_APPLY_DELTA", "src/bin/sy-remote.rs", r"let delta_json = if stdin_data\.len\(\) >= ([0-9]+)", "nat"),
    ("ZSTD_MAGIC_RECEIVE_FILE", "src/bin/sy-remote.rs",
     r"let file_data = if stdin_data\.len\(\) >= [0-9]+((?:\s*&& stdin_data\[[0-9]+\] == 0x[0-9A-Fa-f]+)+)\s*\{", "idxhexlist"),
    ("SNIFF_MIN_LEN_RECEIVE_FILE", "src/bin/sy-remote.rs", r"let file_data = if stdin_data\.len\(\) >= ([0-9]+)", "nat"),
    # --- C14: compression decision (src/compress/mod.rs) ---
    ("COMPRESS_SIZE_GATE_SMART", "src/compress/mod.rs", r"pub fn should_compress_smart\([\s\S]*?if file_size < ([0-9_\s\*]+) \{", "nat"),
    ("COMPRESS_SIZE_GATE_ADAPTIVE", "src/compress/mod.rs", r"pub fn should_compress_adaptive\([\s\S]*?if file_size < ([0-9_\s\*]+) \{", "nat"),
    ("COMPRESS_SAMPLE_SIZE", "src/compress/mod.rs", r"^\s*const SAMPLE_SIZE: usize = ([0-9_\s\*]+);", "nat"),
    ("COMPRESS_RATIO", "src/compress/mod.rs", r"Ok\(ratio\) if ratio < ([0-9]+\.[0-9]+) =>", "ratio"),
    ("COMPRESSED_EXTENSIONS", "src/compress/mod.rs", r"^const COMPRESSED_EXTENSIONS: &\[&str\] = &\[([^\]]*)\];", "strlist"),
    # --- C14: sparse handling ---
    ("SPARSE_THRESHOLD_LOCAL", "src/transport/local.rs", r"^\s*let threshold = ([0-9_]+);", "nat"),
    ("SPARSE_BLOCK_SIZE_LOCAL", "src/transport/local.rs", r"^\s*const BLOCK_SIZE: usize = ([0-9_\s\*]+);", "nat"),
    # the sender's branch: compressed payloads go to `receive-file`, `Compression::None` goes to SFTP (no helper)
    ("SENDER_COMPRESSED_COMMAND", "src/transport/ssh.rs",
     r'Compression::Lz4 \| Compression::Zstd => \{[\s\S]*?"\{\} (receive-file) \{\} \{\}"[\s\S]*?Compression::None => \{[\s\S]*?sftp\.create\(', "str"),
    ("SENDER_SPARSE_COMMAND", "src/transport/ssh.rs", r'"\{\} (receive-sparse-file) \{\} --total-size \{\} --regions \'\{\}\' \{\}"', "str"),
    # how the writers open their output path: File::create truncates what the path held before
    ("HELPER_RECEIVE_FILE_TRUNCATES", "src/bin/sy-remote.rs",
     r"(let mut output_file = std::fs::File::create\(&output_path\)\?;)\s*output_file\.write_all\(&file_data\)\?;", "flag"),
    ("HELPER_SPARSE_TRUNCATES", "src/bin/sy-remote.rs",
     r"(let mut output_file = std::fs::File::create\(&output_path\)\?;)\s*output_file\.set_len\(total_size\)\?;", "flag"),
    ("LOCAL_SPARSE_SEEK_CREATES", "src/transport/local.rs", r"^fn copy_sparse_file_seek\([\s\S]*?\n\}\n", "count:let mut dst_file = File::create\\(dest\\)\\?;"),
    ("LOCAL_SPARSE_BLOCKS_CREATES", "src/transport/local.rs", r"^fn copy_sparse_file_blocks\([\s\S]*?\n\}\n", "count:let mut dst_file = File::create\\(dest\\)\\?;"),
    ("VERIFY_REPLACES_NONE_CHECKSUM", "src/sync/mod.rs", r"let checksum_type = if self\.checksum (\|\| self\.verification_mode == ChecksumType::None) \{", "flag"),
    ("VERIFY_BODY_MUTATING_CALLS", "src/sync/mod.rs", r"pub async fn verify\(&self[\s\S]*?\n    \}\n", "count:copy_file|sync_file_with_delta|\\.remove\(|create_dir_all|create_symlink|create_hardlink|write_file|set_file_mtime|std::fs::write|File::create"),
    # C16: order in which src/main.rs feeds the filter engine, and what each step calls
    ("FILTER_RULE_ORDER", "src/main.rs", [
        ("filter", r"for rule in &cli\.filter \{"),
        ("include", r"for pattern in &cli\.include \{"),
        ("exclude", r"for pattern in &cli\.exclude \{"),
        ("include_from", r"if let Some\(ref include_from\) = cli\.include_from \{"),
        ("exclude_from", r"if let Some\(ref exclude_from\) = cli\.exclude_from \{"),
        ("template", r"for template_name in &cli\.ignore_template \{"),
        ("syignore", r"filter_engine\.add_syignore_if_exists\("),
    ], "order"),
    ("FILTER_LOOP_CALL", "src/main.rs", r"for rule in &cli\.filter \{\s*if let Err\(e\) = filter_engine\.(\w+)\(rule\)", "str"),
    ("INCLUDE_LOOP_CALL", "src/main.rs", r"for pattern in &cli\.include \{\s*if let Err\(e\) = filter_engine\.(\w+)\(pattern\)", "str"),
    ("EXCLUDE_LOOP_CALL", "src/main.rs", r"for pattern in &cli\.exclude \{\s*if let Err\(e\) = filter_engine\.(\w+)\(pattern\)", "str"),
    ("ADD_INCLUDE_ACTION", "src/filter.rs", r"pub fn add_include\(&mut self, pattern: &str\) -> Result<\(\)> \{\s*let rule = FilterRule::new\(FilterAction::(\w+), pattern\)", "str"),
    ("ADD_EXCLUDE_ACTION", "src/filter.rs", r"pub fn add_exclude\(&mut self, pattern: &str\) -> Result<\(\)> \{\s*let rule = FilterRule::new\(FilterAction::(\w+), pattern\)", "str"),
    ("FILTER_NO_MATCH_RESULT", "src/filter.rs", r"// No rules matched - default is to include\s*(true|false)\s*\}", "str"),
    ("FILTER_FIRST_MATCH_RETURN", "src/filter.rs", r"if rule\.matches\(path, is_dir\) \{\s*return rule\.action == FilterAction::(\w+);", "str"),
    # C11/C12: the repaired bisync state handling and content comparison are present in the source
    ("BISYNC_STATE_RECORDS_BOTH_SIDES", "src/bisync/engine.rs", r"^fn (file_state)\(path: &Path\) -> Option<\(SystemTime, u64\)>", "flag"),
    ("BISYNC_STATE_SKIPS_FAILED", "src/bisync/engine.rs", r"(if failed\.contains\(path\)) \{\s*continue;", "flag"),
    ("BISYNC_CONTENT_EQUAL_READS_BYTES", "src/bisync/classifier.rs", r"Ok\((same_bytes)\(&source\.path, &dest\.path\)\.unwrap_or\(true\)\)", "flag"),
    ("BISYNC_MAX_DELETE_DEFAULT", "src/cli.rs", r'#\[arg\(long, default_value = "([0-9]+)"\)\]\s*\n\s*pub max_delete: u8,', "nat"),
    ("BISYNC_STRATEGIES", "src/cli.rs", r'let valid_strategies = \[([^\]]*)\];', "strlist"),
    # C20 — watch loop (src/sync/watch.rs, src/main.rs) and the mtime tolerance of the comparison rule
    ("WATCH_DEBOUNCE_MS", "src/main.rs", r"^\s*Duration::from_millis\(([0-9_]+)\), // [0-9]+ms debounce", "nat"),
    ("WATCH_RECV_TIMEOUT_MS", "src/sync/watch.rs", r"rx\.recv_timeout\(Duration::from_millis\(([0-9_]+)\)\)", "nat"),
    ("WATCH_SELECT_SLEEP_MS", "src/sync/watch.rs", r"_ = tokio::time::sleep\(Duration::from_millis\(([0-9_]+)\)\) =>", "nat"),
    ("WATCH_KEPT_KINDS", "src/sync/watch.rs", r"^\s*((?:EventKind::\w+\(_\)(?: \| )?)+) => true,", "kinds"),
    ("WATCH_ARM_FIRST", "src/sync/watch.rs",
     (r"^\s*watcher\.watch\(&self\.source, RecursiveMode::Recursive\)\?;", r"^\s*self\.engine\.sync\(&self\.source, &self\.destination\)\.await\?;"), "before"),
    ("MTIME_TOLERANCE_S", "src/sync/strategy.rs", r"^\s*mtime_tolerance: ([0-9_]+), // 1 second tolerance for mtime comparison", "nat"),
    # C02: protective steps against writing through destination symlinks
    ("COPY_REMOVES_DEST_SYMLINK", "src/transport/local.rs", r"impl Transport for LocalTransport \{[\s\S]*", "count:remove_if_symlink\\(dest\\)\\.await\\?;"),
    ("UPDATE_ROUTES_SYMLINKS_TO_HANDLER", "src/sync/transfer.rs", r"pub async fn update\([\s\S]*?(if source\.is_symlink \{\s*return self\.handle_symlink\(source, dest_path\)\.await;)", "flag"),
    ("CREATE_SYMLINK_REPLACES_ENTRY", "src/transport/local.rs", r"async fn create_symlink\([\s\S]*?(if let Ok\(meta\) = tokio::fs::symlink_metadata\(dest\)\.await \{\s*if !meta\.is_dir\(\) \{\s*tokio::fs::remove_file\(dest\))", "flag"),
    ("PLANNER_FORCES_UPDATE_OVER_DEST_LINK", "src/sync/mod.rs", r"(matches!\(task\.action, SyncAction::Skip \| SyncAction::Create\)\s*&& task\.source\.as_ref\(\)\.is_some_and\(\|f\| !f\.is_symlink\)\s*(?:// [^\n]*\s*)*&& matches!\(\s*self\.transport\.read_link\(&task\.dest_path\)\.await,\s*Ok\(Some\(_\)\) \| Err\(_\)\s*\))", "flag"),
    # C18: persistence mechanisms
    ("CHECKSUMDB_LOOKUP_GUARDS", "src/sync/checksumdb.rs", r"SELECT checksum_type, checksum FROM checksums\s*WHERE ([^\"]*)\"", "str_ws"),
    # what the end-of-run block files under the SOURCE key (path, mtime, size): the checksum of which file?
    ("CHECKSUMDB_STORE_HASHED_FILE", "src/sync/mod.rs",
     r"if let Ok\(checksum\) = verifier\.compute_file_checksum\(([^)]*)\) \{\s*// Store in database\s*if let Err\(e\) =\s*db\.store_checksum\(&file\.path, file\.modified, file\.size, &checksum\)", "str"),
    ("RESUME_SAVE_CALLS_IN_ENGINE", "src/sync/mod.rs", r"pub async fn sync\(&self[\s\S]*?\n    \}\n", "count:state\\.save\\(|resume_state\\.save\\(|\\.save\\(destination\\)\\s*\\{?[^\\n]*resume"),
    ("DIRCACHE_ROOT_KEY", "src/sync/mod.rs", r'let source_path = PathBuf::from\("([^"]*)"\);\s*!cache\.needs_rescan\(&source_path, source_mtime\)', "str"),
    # --- C01 byte-level transfer paths (SyModel/Transfer/BlockCompare.lean) ---
    # every BufReader of the block loops / of the sampler has the same capacity ("nat_all": >= 1 match, all equal)
    ("XFER_BUFREADER_CAP", "src/transport/local.rs", r"BufReader::with_capacity\(\s*([0-9_\s\*]+?),", "nat_all"),
    ("XFER_BUFREADER_CAP_RATIO", "src/delta/ratio.rs", r"BufReader::with_capacity\(\s*([0-9_\s\*]+?),", "nat_all"),
    ("XFER_SMALL_DEST_GATE", "src/transport/local.rs", r"^\s*if dest_size < ([0-9_]+) \{", "nat"),
    ("XFER_SAMPLE_COUNT", "src/transport/local.rs", r"^\s*Some\(([0-9]+)\), // Sample [0-9]+ blocks", "nat"),
    ("XFER_RATIO_THRESHOLD", "src/transport/local.rs", r"^\s*Some\(([0-9]+\.[0-9]+)\), // [0-9]+% threshold", "ratio"),
    ("XFER_SIZE_DIFF_RATIO", "src/delta/ratio.rs", r"^\s*if size_diff_ratio > ([0-9]+\.[0-9]+) \{", "ratio"),
    ("XFER_USE_DELTA_IS_LE", "src/delta/ratio.rs", r"^\s*(let use_delta = change_ratio <= threshold;)", "flag"),
    ("XFER_SAMPLE_STEP_DIV", "src/delta/ratio.rs", r"^\s*(total_blocks / \(sample_count - 1\))\s*$", "flag"),
    ("XFER_SAMPLE_IDX_CLAMP", "src/delta/ratio.rs", r"^\s*(\(i \* step\)\.min\(total_blocks\.saturating_sub\(1\)\))\s*$", "flag"),
    ("XFER_TOTAL_BLOCKS_OF_DEST", "src/delta/ratio.rs", r"^\s*(let total_blocks = \(dest_size as usize\)\.div_ceil\(block_size\);)", "flag"),
    ("XFER_COW_TRUNCATES", "src/transport/local.rs", r"^\s*(temp_file\.set_len\(bytes_written\))", "flag"),
    ("XFER_INPLACE_PREALLOCATES", "src/transport/local.rs", r"^\s*(temp_file\.set_len\(source_size\))", "flag"),
    ("XFER_MTIME_BEFORE_RENAME", "src/transport/local.rs",
        (r"filetime::set_file_mtime\(\s*&temp_dest,", r"fs::rename\(&temp_dest, &dest\)"), "before"),
    ("TEMP_SUFFIX", "src/temp_file.rs", r'name\.push\("([^"]+)"\);', "str"),
]

def extract(repo):
    vals, errs = {}, []
    cache = {}
    for name, rel, rx, kind in ANCHORS:
        p = os.path.join(repo, rel)
        try:
            src = cache.setdefault(p, open(p).read())
        except OSError as e:
            errs.append(f"{name}: cannot read {rel}: {e}"); continue
        if kind == "nat_all":
            # several occurrences that must all denote the same number
            ms_all = re.findall(rx, src, flags=re.M)
            try:
                vs = {num(m) for m in ms_all}
            except Exception as e:
                errs.append(f"{name}: {e}"); continue
            if len(vs) != 1:
                errs.append(f"{name}: anchor matched {len(ms_all)} times in {rel} with values {sorted(vs)} (expected >= 1 match, one value)"); continue
            vals[name] = ("Nat", str(vs.pop())); continue
        if kind == "before":
            # Bool: the unique match of rx[0] lies before the unique match of rx[1]
            a = [m.start() for m in re.finditer(rx[0], src, flags=re.M)]
            b = [m.start() for m in re.finditer(rx[1], src, flags=re.M)]
            if len(a) != 1 or len(b) != 1:
                errs.append(f"{name}: anchors matched {len(a)}/{len(b)} times in {rel} (expected 1/1)"); continue
            vals[name] = ("Bool", "true" if a[0] < b[0] else "false"); continue
        if kind == "order":
            # rx is a list of (label, regex); every regex must match exactly once; value = labels by position
            pos, bad = [], False
            for label, r1 in rx:
                ms1 = [m.start() for m in re.finditer(r1, src, flags=re.M)]
                if len(ms1) != 1:
                    errs.append(f"{name}.{label}: anchor matched {len(ms1)} times in {rel} (expected 1): /{r1}/"); bad = True
                else:
                    pos.append((ms1[0], label))
            if not bad:
                vals[name] = ("List String", "[" + ", ".join('"' + l + '"' for _, l in sorted(pos)) + "]")
            continue
        ms = re.findall(rx, src, flags=re.M | (re.S if kind.endswith("_s") else 0))
        if kind.startswith("count:"):
            # number of occurrences of a sub-pattern inside the (unique) anchored region
            if len(ms) != 1: errs.append(f"{name}: region anchor matched {len(ms)} times in {rel}"); continue
            vals[name] = ("Nat", str(len(re.findall(kind[6:], ms[0])))); continue
        if kind == "flag":
            # presence flags: absent is a value (false), not a missing anchor; the consts_ok lemma decides
            if len(ms) > 1: errs.append(f"{name}: anchor matched {len(ms)} times in {rel}"); continue
            vals[name] = ("Bool", "true" if len(ms) == 1 else "false"); continue
        if len(ms) != 1:
            errs.append(f"{name}: anchor matched {len(ms)} times in {rel} (expected 1): /{rx}/"); continue
        try:
            if kind in ("nat", "nat_s"): vals[name] = ("Nat", str(num(ms[0])))
            elif kind == "str": vals[name] = ("String", '"' + ms[0] + '"')
            elif kind == "str_ws": vals[name] = ("String", '"' + " ".join(ms[0].split()) + '"')
            elif kind == "strlist":
                items = re.findall(r'"([^"]*)"', ms[0])
                vals[name] = ("List String", "[" + ", ".join('"' + i + '"' for i in items) + "]")
            elif kind == "bool": vals[name] = ("Bool", "true" if ms[0] else "false")
            elif kind == "kinds":
                items = re.findall(r"EventKind::(\w+)\(_\)", ms[0])
                vals[name] = ("List String", "[" + ", ".join('"' + i + '"' for i in items) + "]")
            elif kind == "idxhexlist":
                # `&& stdin_data[i] == 0xNN` comparisons; the indices must be 0, 1, 2, … in order
                pairs = re.findall(r"\[([0-9]+)\] == 0x([0-9A-Fa-f]+)", ms[0])
                if [int(i) for i, _ in pairs] != list(range(len(pairs))):
                    raise ValueError("magic comparison indices are not 0..n-1: " + repr(pairs))
                vals[name] = ("List Nat", "[" + ", ".join(str(int(h, 16)) for _, h in pairs) + "]")
            elif kind == "ratio":
                # a decimal literal as an exact rational (no floats in the model)
                ip, fp = ms[0].split(".")
                vals[name + "_NUM"] = ("Nat", str(int(ip + fp)))
                vals[name + "_DEN"] = ("Nat", str(10 ** len(fp)))
        except Exception as e:
            errs.append(f"{name}: {e}")
    return vals, errs

def render(vals):
    lines = ["-- GENERATED by tools/extract_consts.py from the Rust source of /repo on every run. Do not edit.",
             "namespace SyModel.Generated"]
    for name in sorted(vals):
        ty, v = vals[name]
        lines.append(f"def {name} : {ty} := {v}")
    lines.append("end SyModel.Generated")
    return "\n".join(lines) + "\n"

def regenerate(repo, out):
    vals, errs = extract(repo)
    if errs:
        return False, "; ".join(errs)
    txt = render(vals)
    old = open(out).read() if os.path.exists(out) else None
    if old != txt:
        with open(out, "w") as f: f.write(txt)
    return True, ""

if __name__ == "__main__":
    repo = sys.argv[1] if len(sys.argv) > 1 else "/repo"
    vals, errs = extract(repo)
    print(render(vals)); print(errs, file=sys.stderr)
    sys.exit(1 if errs else 0)
