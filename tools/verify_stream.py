"""C15 — `--verify-only`: correspondence with the verify model (Driver/Verify.lean) and oracle from the
property text (exit 0 iff same files with identical contents; lists exact; exit 2 only on read errors;
read-only)."""
import os, shutil, stat, json
from sylib import *
from engine_stream import gen_src, gen_dst, tree_fingerprint, NAMES

def enc_ventries(root, contents, unreadable=()):
    items = []
    for dp, dn, fn in os.walk(root):
        dn.sort(); fn.sort()
        for name in dn + fn:
            p = os.path.join(dp, name); rel = os.path.relpath(p, root)
            st = os.lstat(p)
            if stat.S_ISDIR(st.st_mode): items.append(f"{enc_path(rel)}:D"); continue
            if stat.S_ISLNK(st.st_mode):
                # the scanner lists the link (not a dir); checksums follow it
                try:
                    with open(p, "rb") as f: data = f.read()
                    items.append(f"{enc_path(rel)}:F{contents.id(data)}.{st.st_size}")
                except OSError: items.append(f"{enc_path(rel)}:Fx.{st.st_size}")
                if name in dn: dn.remove(name)
                continue
            with open(p, "rb") as f: data = f.read()
            items.append(f"{enc_path(rel)}:F{contents.id(data)}.{st.st_size}")
    return ";".join(items) if items else "-"

def gen_pair(rng):
    opts = {"symlinks": rng.chance(1, 6), "extras": True}
    src = gen_src(rng, opts)
    k = rng.below(10)
    if k == 0: dst = {r: dict(n) for r, n in src.items()}                      # identical
    elif k == 1: dst = {}                                                       # empty destination
    elif k == 2: src, dst = {}, gen_dst(rng, src, opts)                         # empty source
    else: dst = gen_dst(rng, src, opts)
    # equal size and mtime, different content
    for rel, n in list(dst.items()):
        if n["k"] == "f" and rel in src and src[rel]["k"] == "f" and rng.chance(1, 5) and n["data"]:
            d = bytearray(src[rel]["data"] or b"x"); d[0] ^= 0xFF
            dst[rel] = F(bytes(d), src[rel]["mtime"])
    # file <-> directory conflicts
    if rng.chance(1, 4):
        files = [r for r, n in src.items() if n["k"] == "f" and "/" not in r]
        if files:
            r = rng.pick(files)
            for q in [q for q in dst if q == r or q.startswith(r + "/")]: del dst[q]
            dst[r] = D(); dst[r + "/inner"] = F(b"x")
    if rng.chance(1, 4):
        dirs = [r for r, n in src.items() if n["k"] == "d" and "/" not in r]
        if dirs:
            r = rng.pick(dirs)
            for q in [q for q in dst if q == r or q.startswith(r + "/")]: del dst[q]
            dst[r] = F(b"file where the source has a directory")
    # keep dst well-formed (parents present)
    for rel in sorted(dst):
        parts = rel.split("/")
        for i in range(1, len(parts)):
            a = "/".join(parts[:i])
            if a not in dst: dst[a] = D()
    dst = {r: n for r, n in dst.items() if not any(dst.get("/".join(r.split("/")[:i]), {"k": "d"})["k"] != "d" for i in range(1, len(r.split("/"))))}
    return src, dst, opts

def run(tier="quick", seed=1, work=None, replay=None, focus="C15", ncases=None):
    rep = Report(rule="pairs of trees (generated source; destination derived per entry: equal / absent / stale / equal size+mtime with different content / "
                      "file<->directory conflicts / extras / empty trees) x verification modes (--mode fast|standard|verify|paranoid, --checksum) x size bounds; "
                      "non-trivial = at least one of mismatched/only-source/only-destination non-empty or matched > 0 with exit 0; distinct = distinct (trees, flags)")
    rng = Rng(seed * 7919 + 15)
    n = ncases or (120 if tier == "quick" else 1500)
    os.makedirs(work, exist_ok=True)
    drv = Driver(); contents = Contents()
    try:
        for ci in range(n):
            case_dir = os.path.join(work, f"v{ci}")
            src_root, dst_root, out_root = (os.path.join(case_dir, x) for x in ("src", "dst", "out"))
            src, dst, opts = gen_pair(rng)
            os.makedirs(out_root); open(os.path.join(out_root, "sentinel.txt"), "wb").write(b"sentinel")
            subst = {"@SRC@": src_root, "@OUT@": out_root}
            materialize(src_root, src, subst); materialize(dst_root, dst, subst)
            if rng.chance(1, 4) and src is not None:
                # a sparse image ending in a HOLE on the source side; on the other side a fully allocated byte-identical copy
                # (what sy itself writes: must MATCH), the same data with a longer or shorter trailing hole, or the data alone
                # (must MISMATCH): a checksum that skips holes must still account for every byte (seeded change C15c)
                unit = 4096; nblk = rng.pick([8, 16]); size = unit * nblk
                data_blocks = sorted(set([0] + [rng.below(nblk - 2) for _ in range(rng.range(0, 2))]))
                chunks = [(b * unit, bytes((x % 255) + 1 for x in rng.bytes(unit))) for b in data_blocks]
                def put(root, total, sparse=True):
                    os.makedirs(root, exist_ok=True)
                    with open(os.path.join(root, "sparse.img"), "wb") as f:
                        if sparse: f.truncate(total)
                        else: f.write(b"\0" * total)
                        for off, d in chunks:
                            if off + len(d) <= total: f.seek(off); f.write(d)
                    os.utime(os.path.join(root, "sparse.img"), ns=(BASE_T * 10**9, BASE_T * 10**9))
                variant = rng.pick(["dense-identical", "longer-hole", "shorter-hole", "data-only", "sparse-identical"])
                put(src_root, size)
                if variant == "dense-identical": put(dst_root, size, sparse=False)
                elif variant == "longer-hole": put(dst_root, size + unit * rng.range(1, 4))
                elif variant == "shorter-hole": put(dst_root, size - unit)
                elif variant == "data-only": put(dst_root, (data_blocks[-1] + 1) * unit)
                else: put(dst_root, size)
                rep.tag("sparse-pair." + variant)
            flags = []
            mode = rng.pick([None, None, "fast", "standard", "verify", "paranoid"])
            if mode: flags += ["--mode", mode]
            if rng.chance(1, 5): flags.append("--checksum")
            mn = mx = "-"
            if rng.chance(1, 8): mn = rng.pick([1, 10, 100]); flags += ["--min-size", str(mn)]
            if rng.chance(1, 8): mx = rng.pick([100, 3000]); flags += ["--max-size", str(mx)]
            pre_s, pre_d = snapshot(src_root, contents), snapshot(dst_root, contents, with_own=True)
            req = f"verify.run {mn} {mx} {enc_ventries(src_root, contents)} {enc_ventries(dst_root, contents)}"
            m = drv.ask(req).split(" ")
            rc, out, err = run_sy([src_root, dst_root, "--verify-only", "--json"] + flags, case_dir)
            post_s, post_d = snapshot(src_root, contents), snapshot(dst_root, contents, with_own=True)
            ev, bad = parse_json_lines(out)
            vr = next((e for e in ev if e.get("type") == "verification_result"), None)
            desc = {"case": ci, "seed": seed, "flags": flags, "src": {r: (n["k"], n.get("size")) for r, n in sorted(pre_s.items())},
                    "dst": {r: (n["k"], n.get("size")) for r, n in sorted(pre_d.items())}}
            for fl in flags:
                if fl.startswith("--"): rep.tag("flag." + fl)
            if mode: rep.tag("mode." + mode)
            rep.tag("exit.%s" % rc)
            if len(m) != 6: rep.disagree({"what": ["model bad-op"], "request": req[:300], **desc}); shutil.rmtree(case_dir, ignore_errors=True); continue
            lst = lambda s: [] if s == "-" else sorted(dec_path(x) for x in s.split(";"))
            mm = {"exit": int(m[0]), "matched": int(m[1]), "mismatched": lst(m[2]), "only_src": lst(m[3]), "only_dst": lst(m[4]), "errors": lst(m[5])}
            if vr is None:
                rep.disagree({"what": ["no verification_result event"], "stderr": err[-300:], "rc": rc, **desc})
            else:
                unl = unlossy(set(pre_s) | set(pre_d))        # JSON paths are lossy for names that are not UTF-8
                real = {"exit": rc, "matched": vr["files_matched"], "mismatched": sorted(unl(p) for p in vr["files_mismatched"]), "only_src": sorted(unl(p) for p in vr["files_only_in_source"]),
                        "only_dst": sorted(unl(p) for p in vr["files_only_in_dest"]), "errors": sorted(unl(e["path"]) for e in vr["errors"])}
                if vr.get("exit_code") != rc: rep.oracle_fail("C15/exit-code-field-differs-from-status", f"exit_code field {vr.get('exit_code')} but process status {rc}", desc)
                if real != mm:
                    rep.disagree({"what": [k for k in real if real[k] != mm[k]], "details": [f"{k}: impl={real[k]} model={mm[k]}"[:300] for k in real if real[k] != mm[k]], **desc})
                nontrivial = bool(real["mismatched"] or real["only_src"] or real["only_dst"] or real["matched"])
                rep.case((tuple(flags), tuple(sorted((r, repr(v)) for r, v in tree_fingerprint(pre_s).items())), tuple(sorted((r, repr(v)) for r, v in tree_fingerprint(pre_d).items()))), nontrivial)
                rep.sample({"flags": flags, "result": {k: (v if not isinstance(v, list) else v[:4]) for k, v in real.items()}})
                # ---- oracle from the property text (no size bounds, no symlinks: plain statement)
                if mn == "-" and mx == "-" and not opts.get("symlinks"):
                    sf = {r: n for r, n in pre_s.items() if n["k"] == "f"}; df = {r: n for r, n in pre_d.items() if n["k"] == "f"}
                    t_mis = sorted(r for r in sf if r in df and sf[r]["cid"] != df[r]["cid"])
                    t_os = sorted(r for r in sf if r not in df); t_od = sorted(r for r in df if r not in sf)
                    same = not t_mis and not t_os and not t_od
                    if same and rc != 0: rep.oracle_fail("C15/exit-nonzero-on-identical-trees", f"trees hold the same files with identical contents but exit {rc}", desc)
                    if not same and rc == 0: rep.oracle_fail("C15/exit-zero-on-different-trees", f"trees differ (mismatched {t_mis[:2]}, only-src {t_os[:2]}, only-dst {t_od[:2]}) but exit 0", desc)
                    if rc == 2 and not real["errors"]: rep.oracle_fail("C15/exit-2-without-read-error", "exit 2 but no unreadable file", desc)
                    if real["mismatched"] != t_mis: rep.oracle_fail("C15/mismatched-list-wrong", f"reported {real['mismatched'][:3]} true {t_mis[:3]}", desc)
                    if real["only_src"] != t_os: rep.oracle_fail("C15/only-source-list-wrong", f"reported {real['only_src'][:3]} true {t_os[:3]}", desc)
                    if real["only_dst"] != t_od: rep.oracle_fail("C15/only-destination-list-wrong", f"reported {real['only_dst'][:3]} true {t_od[:3]}", desc)
            if tree_fingerprint(pre_s) != tree_fingerprint(post_s) or tree_fingerprint(pre_d) != tree_fingerprint(post_d):
                rep.oracle_fail("C15/verify-only-modified-a-tree", "--verify-only changed the source or the destination", desc)
            if bad: rep.oracle_fail("C19/non-json-line-on-stdout", f"stdout lines that are not JSON objects: {bad[:2]}", desc)
            shutil.rmtree(case_dir, ignore_errors=True)
    finally:
        drv.close()
    return rep.to_dict()
