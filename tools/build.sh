#!/bin/sh
# setup_cmd: build everything from files on disk only (offline).
set -e
cd "$(dirname "$0")/.."
export CARGO_NET_OFFLINE=true
export RUSTFLAGS="--cfg nijaru_sy_verif"
export CARGO_TARGET_DIR="$PWD/.build/target"
REPO="${SY_REPO:-/repo}"
mkdir -p .build evidence replays
cp "$REPO/Cargo.lock" harness/Cargo.lock
cargo build --offline --bins --manifest-path "$REPO/Cargo.toml"
cargo build --offline --manifest-path harness/Cargo.toml
python3 tools/extract_consts.py "$REPO" > /dev/null
python3 -c "
import sys; sys.path.insert(0,'tools'); import extract_consts, rs2lean
ok,msg = extract_consts.regenerate('$REPO','lean/SyModel/Generated/Consts.lean'); print('consts', ok, msg)
print('rs2lean', rs2lean.regenerate('$REPO','lean/SyModel/Generated/Code'))"
cd lean && lake build
# every property module (53 s cold on 16 cores), so that no quick check pays for a cold proof build
lake build $(ls SyModel/Props/*.lean | sed 's#/#.#g; s#\.lean$##')
