#!/bin/sh
# setup_cmd: build everything from files on disk only (offline).
set -e
cd "$(dirname "$0")/.."
export CARGO_NET_OFFLINE=true
export RUSTFLAGS="--cfg nijaru_sy_verif"
export CARGO_TARGET_DIR="$PWD/.build/target"
mkdir -p .build evidence replays
cp /repo/Cargo.lock harness/Cargo.lock
cargo build --offline --bins --manifest-path /repo/Cargo.toml
cargo build --offline --manifest-path harness/Cargo.toml
python3 tools/extract_consts.py /repo > /dev/null
python3 -c "
import sys; sys.path.insert(0,'tools'); import extract_consts
ok,msg = extract_consts.regenerate('/repo','lean/SyModel/Generated/Consts.lean'); print('consts', ok, msg)"
cd lean && lake build
# every property module (53 s cold on 16 cores), so that no quick check pays for a cold proof build
lake build $(ls SyModel/Props/*.lean | sed 's#/#.#g; s#\.lean$##')
