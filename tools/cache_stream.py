"""C18 — twin-world histories on the real binary: the same sequence of source edits and syncs is run in a world
with --use-cache / --checksum-db / --resume (and whatever cache, database or state files earlier runs or a saboteur
left behind) and in a world without them; after every sync the destinations (minus sy's own files) must be equal.
K: the real `.sy-dir-cache.json` keys and `.sy-checksums.db` rows after each run are compared with the model
(`caches.dircache`, `caches.store`): the root key is never cached, rows are keyed by path with the scanned
(mtime, size) and one checksum per distinct content."""
import os, shutil, json, sqlite3
from sylib import *
import engine_stream as es

OWN = (".sy-dir-cache.json", ".sy-checksums.db", ".sy-state.json")
DAMAGE = ["truncate", "garbage", "version", "wrong-schema", "empty", "valid-but-foreign", "valid-resume-state", "db-old-schema", "db-pages-zeroed"]

def valid_resume_state(dst_root, src_root, completed, delete=False):
    """a resume state file that passes ResumeState::load's integrity check and is compatible with the run's flags (what an
    older version, or a copied destination, leaves behind): it lists `completed` as already transferred"""
    st = {"version": 1, "source": os.path.abspath(src_root), "destination": os.path.abspath(dst_root),
          "started_at": "2020-01-01T00:00:00+00:00", "checkpoint_at": "2020-01-01T00:00:05+00:00",
          "flags": {"delete": bool(delete), "exclude": [], "min_size": None, "max_size": None},
          "completed_files": [{"relative_path": r, "action": "create", "size": 1, "checksum": "xxhash3:0", "completed_at": "2020-01-01T00:00:02+00:00"} for r in completed],
          "total_files": len(completed) + 3, "total_bytes_transferred": len(completed)}
    open(os.path.join(dst_root, ".sy-state.json"), "w").write(json.dumps(st))

def damage(rng, dst_root, tag, delete=False, force=None):
    name = rng.pick(OWN); p = os.path.join(dst_root, name)
    kind = force or rng.pick(DAMAGE)
    if kind == "valid-resume-state":
        # lists every current source file as completed: whatever was edited since must still be compared and transferred
        src_root = os.path.join(os.path.dirname(dst_root), "src"); done = []
        for dp, dn, fn in os.walk(src_root):
            for n in fn: done.append(os.path.relpath(os.path.join(dp, n), src_root))
        try: done = [r for r in done if r.encode("utf-8", "strict")]
        except UnicodeEncodeError: done = [r for r in done if r.isascii()]
        valid_resume_state(dst_root, src_root, sorted(done)[:40], delete=delete)
        return ".sy-state.json:valid-resume-state"
    if kind in ("db-old-schema", "db-pages-zeroed"):
        # damage that lets the database OPEN but makes its queries fail (seeded change C18d): an older column layout of the `checksums`
        # table, or data pages zeroed behind an intact header — a failed lookup is a miss, never a reason to stop or to skip
        import sqlite3
        p = os.path.join(dst_root, ".sy-checksums.db")
        size = os.path.getsize(p) if os.path.exists(p) else 0
        if kind == "db-pages-zeroed" and size > 2 * 4096:
            with open(p, "r+b") as h:
                h.seek(2 * 4096); h.write(b"\0" * (size - 2 * 4096))
            return ".sy-checksums.db:db-pages-zeroed"
        for ext_ in ("", "-wal", "-shm", "-journal"):
            try: os.unlink(p + ext_)
            except OSError: pass
        c = sqlite3.connect(p); c.execute("CREATE TABLE checksums (path TEXT PRIMARY KEY, mtime_secs INTEGER NOT NULL, size INTEGER NOT NULL, checksum_type TEXT NOT NULL, checksum BLOB NOT NULL, updated_at INTEGER NOT NULL)")   # an older layout: no mtime_nanos — the index on updated_at can still be created, every lookup fails
        c.execute("INSERT INTO checksums VALUES ('a', 1, 1, 'fast', x'00', 1)"); c.commit(); c.close()
        return ".sy-checksums.db:db-old-schema"
    if kind == "truncate":
        if os.path.exists(p):
            d = open(p, "rb").read(); open(p, "wb").write(d[:max(1, len(d) // 2)])
        else: open(p, "wb").write(b"{\"dir_entr")
    elif kind == "garbage": open(p, "wb").write(bytes(range(256)) * 3)
    elif kind == "version":
        if name.endswith(".json"): open(p, "w").write(json.dumps({"version": 99, "dir_entries": {}, "file_entries": {}, "last_updated": {"secs_since_epoch": 1, "nanos_since_epoch": 0}}))
        else: open(p, "wb").write(b"SQLite format 3\x00" + b"\x00" * 100)
    elif kind == "wrong-schema": open(p, "w").write(json.dumps({"hello": [1, 2, 3], "version": 2}))
    elif kind == "empty": open(p, "wb").close()
    else: open(p, "w").write(json.dumps([{"completed": True}]))
    return f"{name}:{kind}"

def edit(rng, src_root, clock):
    """one source edit that changes a file's size or mtime (clock strictly increases)"""
    files, dirs = [], [src_root]
    for dp, dn, fn in os.walk(src_root):
        dn.sort(); fn.sort()                      # same order in both worlds (readdir order is not deterministic)
        for n in fn:
            if not os.path.islink(os.path.join(dp, n)): files.append(os.path.join(dp, n))
        for n in list(dn):
            if os.path.islink(os.path.join(dp, n)): dn.remove(n)
            else: dirs.append(os.path.join(dp, n))
    k = rng.below(7); t = BASE_T * 10**9 + clock * 10**9
    if k == 0 or not files:
        p = os.path.join(rng.pick(dirs), f"new{clock}"); open(p, "wb").write(rng.bytes(rng.range(0, 200))); os.utime(p, ns=(t, t)); return "create"
    if k == 1:
        p = rng.pick(files); d = bytearray(open(p, "rb").read() or b"x"); d[0] ^= 0xFF
        old = os.lstat(p).st_mtime_ns
        open(p, "wb").write(bytes(d))
        if rng.chance(1, 2):
            # same whole second as the version that was synced, different nanoseconds (a sub-second edit)
            t2 = (old // 10**9) * 10**9 + ((old % 10**9) + 1 + rng.below(900_000_000)) % 10**9
            if t2 <= old: t2 = old + 1
            if t2 // 10**9 == old // 10**9:
                os.utime(p, ns=(t2, t2)); return "modify-same-size-same-second"
        os.utime(p, ns=(t, t)); return "modify-same-size"
    if k == 2:
        p = rng.pick(files); open(p, "ab").write(b"more"); os.utime(p, ns=(t, t)); return "modify-grow"
    if k == 3:
        p = rng.pick(files); os.unlink(p); return "delete"
    if k == 4:
        p = rng.pick(files); q = p + "_r"; os.rename(p, q); return "rename"
    if k == 5 and len(dirs) > 1:
        d = rng.pick(dirs[1:]); shutil.rmtree(d); open(d, "wb").write(b"dir became file"); os.utime(d, ns=(t, t)); return "dir-to-file"
    d = os.path.join(rng.pick(dirs), f"nd{clock}"); os.makedirs(d, exist_ok=True); p = os.path.join(d, "inner"); open(p, "wb").write(b"in"); os.utime(p, ns=(t, t)); return "mkdir"

def user_snapshot(root, contents, world):
    """snapshot with absolute link texts made world-independent"""
    out = {}
    for r, v in es.tree_fingerprint(snapshot(root, contents)).items():
        if v[0] == "l": v = ("l", v[1].replace(world, "@WORLD@"))
        out[r] = v
    return out

def strip(fp):
    return {r: (v[0], v[1], v[2], v[3]) if v[0] == "f" else v for r, v in fp.items()}

def db_rows(dst_root):
    p = os.path.join(dst_root, ".sy-checksums.db")
    if not os.path.exists(p): return None
    try:
        c = sqlite3.connect(f"file:{p}?mode=ro", uri=True)
        rows = c.execute("SELECT path, mtime_secs, mtime_nanos, size, checksum FROM checksums").fetchall()
        c.close(); return rows
    except sqlite3.Error: return None

def run(tier="quick", seed=1, work=None, replay=None, focus="C18", ncases=None):
    rep = Report(rule="twin-world histories: generated source tree, then 3-6 steps of (0-2 source edits among create / modify same size / grow / delete / rename / "
                      "directory->file / mkdir, with a strictly increasing mtime clock; optionally sabotage of sy's own files in the cached world: truncated, garbage, "
                      "version-bumped, wrong schema, empty, foreign valid JSON) followed by a sync in both worlds; mechanisms: --use-cache, --checksum --checksum-db, "
                      "--resume (and combinations) with/without --delete; non-trivial = a history with at least one edit between two syncs; distinct = distinct (tree, flags, history)")
    rng = Rng(seed * 999983 + 18)
    n = ncases or (30 if tier == "quick" else 400)
    os.makedirs(work, exist_ok=True)
    caps = probe_caps(work)
    drv = Driver(); contents = Contents()
    try:
        for ci in range(n):
            case = os.path.join(work, f"k{ci}")
            A, B = os.path.join(case, "A"), os.path.join(case, "B")
            # (names are kept valid UTF-8 here: serde cannot serialise other names, so sy — with a warning — does not save the
            #  directory cache for such trees, and database paths are stored lossily; neither is what this stream is about)
            opts = {"symlinks": rng.chance(1, 4), "extras": True, "utf8_only": True}
            src = es.gen_src(rng, opts); dst = es.gen_dst(rng, src, opts)
            for W in (A, B):
                os.makedirs(os.path.join(W, "out")); open(os.path.join(W, "out", "sentinel.txt"), "wb").write(b"s")
                subst = {"@SRC@": os.path.join(W, "src"), "@OUT@": os.path.join(W, "out")}
                materialize(os.path.join(W, "src"), src, subst); materialize(os.path.join(W, "dst"), dst, subst)
            mech = rng.pick([["--use-cache", "true"], ["--checksum", "--checksum-db", "true"], ["--resume", "true"],
                             ["--use-cache", "true", "--checksum", "--checksum-db", "true"], ["--use-cache", "true", "--resume", "true"],
                             ["--checksum", "--checksum-db", "true", "--prune-checksum-db"]])
            base = ["--checksum"] if "--checksum" in mech else []
            common = (["--delete", "--force-delete"] if rng.chance(1, 2) else []) + ["-j", str(rng.pick([1, 4]))]
            fa = [x for x in mech] + common; fb = base + common
            hist = []; clock = 2000; prev_keys = []; cache_damaged = False; db_damaged = False; all_keys = set()
            steps = rng.range(3, 6)
            for st in range(steps):
                ops = []
                if st > 0:
                    for _ in range(rng.range(0, 2)):
                        clock += rng.range(3, 50); r = Rng(rng.next())
                        # the same edit in both worlds (same PRNG)
                        ra, rb = Rng(r.s), Rng(r.s)
                        oa = edit(ra, os.path.join(A, "src"), clock); ob = edit(rb, os.path.join(B, "src"), clock); ops.append(oa)
                    if ci % 3 == 1 and st == steps - 1 and "--resume" not in " ".join(x for x in mech if x == "false"):
                        # every third history ends with a VALID, compatible resume state that lists every current source file as
                        # completed, left just before the last sync (after that step's edits): the edits must still arrive
                        ops.append("sabotage:" + damage(rng, os.path.join(A, "dst"), st, delete=("--delete" in common), force="valid-resume-state"))
                    elif "--checksum-db" in mech and (ci % 3 == 2) and st >= 2 and st % 2 == 0:
                        # every third history with the checksum database damages it (after at least two syncs filled it) so that it still OPENS
                        # but its queries fail — old column layout / data pages zeroed (seeded change C18d)
                        ops.append("sabotage:" + damage(rng, os.path.join(A, "dst"), st, delete=("--delete" in common), force=("db-old-schema" if st == 2 and ci % 2 == 0 else "db-pages-zeroed")))
                    elif rng.chance(1, 3): ops.append("sabotage:" + damage(rng, os.path.join(A, "dst"), st, delete=("--delete" in common)))
                hist.append(ops)
                # a damaged cache file stays damaged (and is read as empty) until a successful run saves a new one
                if any(o.startswith("sabotage:.sy-dir-cache.json") for o in ops): cache_damaged = True
                ra_, oa_, ea_ = run_sy([os.path.join(A, "src"), os.path.join(A, "dst"), "--json"] + fa, A)
                rb_, ob_, eb_ = run_sy([os.path.join(B, "src"), os.path.join(B, "dst"), "--json"] + fb, B)
                desc = {"case": ci, "seed": seed, "with": fa, "without": fb, "history": hist, "step": st, "exit_with": ra_, "exit_without": rb_, "stderr_with": ea_[-200:]}
                sa, sb = strip(user_snapshot(os.path.join(A, "dst"), contents, A)), strip(user_snapshot(os.path.join(B, "dst"), contents, B))
                rep.tag("mech." + "+".join(x for x in mech if x.startswith("--")))
                for o in ops: rep.tag("edit." + o.split(":")[0])
                if (ra_ == 0) != (rb_ == 0):
                    rep.oracle_fail("C18/exit-status-differs", f"with caches exit {ra_}, without {rb_}", desc)
                if sa != sb:
                    ch = sorted(r for r in set(sa) | set(sb) if sa.get(r) != sb.get(r))
                    rep.oracle_fail("C18/destination-differs", f"destination differs between the cached and the plain world at {ch[:4]}", desc)
                # ---- K: real cache / database contents vs the model
                dis = []
                cp = os.path.join(A, "dst", ".sy-dir-cache.json")
                if "--use-cache" in mech and ra_ != 0 and os.path.exists(cp):
                    # a run that ends with per-file errors saves its cache all the same: its keys are keys "an earlier saved state" had
                    try:
                        cj_ = json.load(open(cp))
                        if isinstance(cj_, dict) and isinstance(cj_.get("directories"), dict): all_keys |= set(cj_["directories"].keys())
                    except (ValueError, OSError): pass
                if "--use-cache" in mech and ra_ == 0 and os.path.exists(cp):
                    try:
                        cj = json.load(open(cp))
                        if not isinstance(cj, dict) or not isinstance(cj.get("directories"), dict):
                            raise ValueError("the saved cache is not the expected JSON object: " + repr(cj)[:80])
                        keys = sorted(cj.get("directories", {}).keys())
                        if "." in keys: rep.oracle_fail("C18/root-key-cached", "the directory cache contains the root key '.' (cached scans would be substituted)", desc)
                        # model: keys after one update from the scan of this run
                        scan = []
                        sroot = os.path.join(A, "src")
                        for dp, dn, fn in os.walk(sroot):
                            for nme in dn: scan.append(enc_path(os.path.relpath(os.path.join(dp, nme), sroot)) + (":f" if os.path.islink(os.path.join(dp, nme)) else ":d"))
                            for nme in fn: scan.append(enc_path(os.path.relpath(os.path.join(dp, nme), sroot)) + ":f")
                            dn[:] = [d for d in dn if not os.path.islink(os.path.join(dp, d))]
                        prior = [] if cache_damaged else prev_keys
                        m = drv.ask(f"caches.dircache {';'.join(enc_path(k) for k in prior) if prior else '-'} {';'.join(scan) if scan else '-'}").split(" ")
                        mdirs = [] if m[2] == "-" else sorted(dec_path(x) for x in m[2].split(";"))
                        if m[1] != "0": dis.append("model says the cache becomes usable")
                        # the saved file accumulates keys of earlier runs (it is also saved by runs that end with per-file errors),
                        # so the comparison is: every key the model adds in this run is present, and every real key is one the
                        # model knows (this run's scan or an earlier saved state)
                        known = set(mdirs) | set(all_keys)
                        if not set(m[2].split(";") if False else [k for k in mdirs if k not in prior]) <= set(keys) or not set(keys) <= known:
                            dis.append(f"dir keys impl={keys[:6]} model-this-run={[k for k in mdirs if k not in prior][:6]}")
                        all_keys |= set(keys)
                        prev_keys = keys; cache_damaged = False
                    except (ValueError, OSError) as e:
                        dis.append(f"cannot read the saved cache: {e}")
                # a database whose pages were zeroed / whose table has another layout stays unreadable: its rows are not compared with the
                # model's any more (the twin comparison of the destinations — the property — goes on)
                if any(o.startswith("sabotage:.sy-checksums.db:db-") for o in ops): db_damaged = True
                rows = db_rows(os.path.join(A, "dst")) if "--checksum-db" in mech and ra_ == 0 and not db_damaged else None
                if rows is not None:
                    sroot = os.path.join(A, "src")
                    files = []
                    for dp, dn, fn in os.walk(sroot):
                        for nme in fn:
                            p = os.path.join(dp, nme)
                            if os.path.islink(p): continue
                            stt = os.lstat(p); files.append((os.path.relpath(p, sroot), stt.st_mtime_ns, stt.st_size, contents.id(open(p, "rb").read())))
                    req = ";".join(f"{enc_path(r)}:{mt}.{sz}.{c}" for r, mt, sz, c in files) or "-"
                    mrows = drv.ask(f"caches.store - {req}")
                    model = {}
                    for it in ([] if mrows == "-" else mrows.split(";")):
                        pth, r = it.split(":"); mt, sz, c = r.split("."); model[dec_path(pth)] = (int(mt), int(sz), int(c))
                    # rows for symlink entries (keyed by the link's own lstat mtime/size, checksum taken through the link) are not
                    # modelled: the planner never consults them in preserve/skip mode and queries them with the target's
                    # (mtime, size) in follow mode
                    real = {os.path.relpath(p, sroot): (s * 10**9 + ns, sz, ck) for p, s, ns, sz, ck in rows
                            if p.startswith(sroot + "/") and not os.path.islink(p)}
                    if "--prune-checksum-db" in mech or st == 0:
                        if set(real) != set(model): dis.append(f"db paths impl-only={sorted(set(real) - set(model))[:3]} model-only={sorted(set(model) - set(real))[:3]}")
                    byc = {}
                    for r, (mt, sz, ck) in real.items():
                        if r in model:
                            if (mt, sz) != model[r][:2]: dis.append(f"db row {r}: impl (mtime,size)={(mt, sz)} model={model[r][:2]}")
                            byc.setdefault(model[r][2], set()).add(bytes(ck))
                    if any(len(v) > 1 for v in byc.values()): dis.append("equal contents stored with different checksums")
                    if len({next(iter(v)) for v in byc.values() if v}) != len([v for v in byc.values() if v]): dis.append("different contents stored with equal checksums")
                if dis: rep.disagree({"what": dis, **desc})
            rep.case((tuple(fa), json.dumps(hist), tuple(sorted(src))), any(h and any(not o.startswith("sabotage") for o in h) for h in hist))
            rep.sample({"with": fa, "without": fb, "history": hist})
            shutil.rmtree(case, ignore_errors=True)
        # ---- the known stale-row history (O only): mtime and size restored with different content, no sync in between
        for ci in range(2 if tier == "quick" else 10):
            stale_row_history(rep, contents, rng, os.path.join(work, f"stale{ci}"), seed, ci)
            faulted_update_history(rep, contents, rng, os.path.join(work, f"faulted{ci}"), seed, ci)
            subsecond_history(rep, contents, rng, os.path.join(work, f"subsec{ci}"), seed, ci)
    finally:
        drv.close()
    return rep.to_dict()

# RLIMIT_FSIZE with SIGXFSZ ignored: every write that would take a file beyond 32 KiB fails with EFBIG (sy's own state files are smaller)
FSIZE_LIMIT = ["sh", "-c", 'trap "" XFSZ; ulimit -f 64; exec "$@"', "sh"]

def faulted_update_history(rep, contents, rng, case, seed, ci):
    """a sync in which the update of one file FAILS (file-size limit) while the run goes on to its end-of-run bookkeeping,
    followed by an unrestricted sync: whatever the failed run stored in the database or the caches must not keep the
    later run from repairing the file.  K: over the whole history every database row's checksum is the checksum of the
    SOURCE content scanned by that run (one checksum per distinct content, never shared between different contents)."""
    A, B = os.path.join(case, "A"), os.path.join(case, "B")
    t1 = (BASE_T + 9000 + ci) * 10**9; t2 = t1 + 40 * 10**9
    nbig = rng.range(40_000, 90_000); big1 = rng.bytes(nbig)
    grow = rng.pick([0, 0, 17, -23]); big2 = bytes([big1[0] ^ 0x5A]) + big1[1:nbig + min(grow, 0)] + (rng.bytes(grow) if grow > 0 else b"")
    small = rng.bytes(rng.range(1, 500))
    mech = rng.pick([["--checksum", "--checksum-db", "true"], ["--use-cache", "true", "--checksum", "--checksum-db", "true"],
                     ["--checksum", "--checksum-db", "true", "--prune-checksum-db"]])
    jj = ["-j", str(rng.pick([1, 4]))]
    fa = mech + jj; fb = ["--checksum"] + jj
    for W in (A, B):
        os.makedirs(os.path.join(W, "src", "d")); os.makedirs(os.path.join(W, "dst"))
        for rel, c in (("big.bin", big1), ("d/small", small)):
            p = os.path.join(W, "src", rel); open(p, "wb").write(c); os.utime(p, ns=(t1, t1))
    hist = [["create big.bin (%d B), d/small" % nbig], ["big.bin: other content (%+d B), later mtime" % grow, "sync under a 32 KiB file-size limit (the update of big.bin fails)"], ["sync without the limit"]]
    seen = {}     # content id -> checksum bytes, over the whole history
    dis = []
    def rows_check(step):
        rows = db_rows(os.path.join(A, "dst"))
        if rows is None: return
        sroot = os.path.join(A, "src")
        for pth, s_, ns_, sz, ck in rows:
            if not pth.startswith(sroot + "/") or not os.path.isfile(pth): continue
            stt = os.lstat(pth)
            if (s_ * 10**9 + ns_, sz) != (stt.st_mtime_ns, stt.st_size): continue      # a row of an earlier version
            cid = contents.id(open(pth, "rb").read())
            for c2, k2 in seen.items():
                if c2 != cid and k2 == bytes(ck): dis.append(f"step {step}: row {os.path.relpath(pth, sroot)} carries the checksum stored earlier for a DIFFERENT content")
            if cid in seen and seen[cid] != bytes(ck): dis.append(f"step {step}: row {os.path.relpath(pth, sroot)}: equal contents stored with different checksums")
            seen.setdefault(cid, bytes(ck))
    exits = []
    for st, pre in ((0, None), (1, FSIZE_LIMIT), (2, None)):
        if st == 1:
            for W in (A, B):
                p = os.path.join(W, "src", "big.bin"); open(p, "wb").write(big2); os.utime(p, ns=(t2, t2))
        ra, _, ea = run_sy([os.path.join(A, "src"), os.path.join(A, "dst"), "--json"] + fa, A, prefix=pre)
        rb, _, _ = run_sy([os.path.join(B, "src"), os.path.join(B, "dst"), "--json"] + fb, B, prefix=pre)
        exits.append((ra, rb)); rows_check(st)
    desc = {"case": ci, "seed": seed, "with": fa, "without": fb, "history": hist, "exits": exits}
    rep.tag("faulted-update-history"); rep.tag("faulted.limit-hit" if exits[1][1] not in (0, None) else "faulted.limit-not-hit")
    rep.case(("faulted", ci, nbig, grow, tuple(mech)), True)
    sa, sb = strip(user_snapshot(os.path.join(A, "dst"), contents, A)), strip(user_snapshot(os.path.join(B, "dst"), contents, B))
    if (exits[2][0] == 0) != (exits[2][1] == 0):
        rep.oracle_fail("C18/exit-status-differs", f"after a failed update: with caches exit {exits[2][0]}, without {exits[2][1]}", desc)
    if sa != sb:
        ch = sorted(r for r in set(sa) | set(sb) if sa.get(r) != sb.get(r))
        rep.oracle_fail("C18/destination-differs", f"after a sync whose update of big.bin failed, the next sync leaves different destinations with and without the database/caches at {ch[:4]}", desc)
    if dis: rep.disagree({"what": dis[:4], **desc})
    shutil.rmtree(case, ignore_errors=True)

def subsecond_history(rep, contents, rng, case, seed, ci):
    """an edit that keeps the size and lands in the same whole second as the synced version (different nanoseconds):
    the database row must not match"""
    A, B = os.path.join(case, "A"), os.path.join(case, "B")
    sec = BASE_T + 7000 + ci; t1 = sec * 10**9 + rng.range(1, 400) * 10**6; t2 = sec * 10**9 + rng.range(500, 990) * 10**6
    n = rng.range(1, 3000); c1 = rng.bytes(n); c2 = bytes([c1[0] ^ 0xFF]) + c1[1:]
    for W in (A, B):
        os.makedirs(os.path.join(W, "src", "sub")); os.makedirs(os.path.join(W, "dst"))
        for rel in ("f", "sub/g"):
            p = os.path.join(W, "src", rel); open(p, "wb").write(c1); os.utime(p, ns=(t1, t1))
    fa = ["--checksum", "--checksum-db", "true"]; fb = ["--checksum"]
    for W, f in ((A, fa), (B, fb)): run_sy([os.path.join(W, "src"), os.path.join(W, "dst"), "--json"] + f, W)
    for W in (A, B):
        p = os.path.join(W, "src", "sub", "g"); open(p, "wb").write(c2); os.utime(p, ns=(t2, t2))
    run_sy([os.path.join(A, "src"), os.path.join(A, "dst"), "--json"] + fa, A); run_sy([os.path.join(B, "src"), os.path.join(B, "dst"), "--json"] + fb, B)
    da, db = open(os.path.join(A, "dst", "sub", "g"), "rb").read(), open(os.path.join(B, "dst", "sub", "g"), "rb").read()
    rep.tag("subsecond-history"); rep.case(("subsecond", ci, n), True)
    if da != db:
        rep.oracle_fail("C18/destination-differs", "after an edit in the same whole second (different nanoseconds, same size) the world with the checksum database keeps the old content, the world without it is updated",
                        {"case": ci, "seed": seed, "with": fa, "without": fb, "history": [["create f, sub/g mtime t1"], [f"sub/g: same size, other content, mtime same second (+{(t2 - t1) // 10**6} ms)"]]})
    shutil.rmtree(case, ignore_errors=True)

def stale_row_history(rep, contents, rng, case, seed, ci):
    A, B = os.path.join(case, "A"), os.path.join(case, "B")
    t1 = BASE_T * 10**9 + 5000 * 10**9; t2 = t1 + 50 * 10**9
    c1, c2, c3 = b"AAAA", b"BBBBBB", b"CCCC"
    for W in (A, B):
        os.makedirs(os.path.join(W, "src")); os.makedirs(os.path.join(W, "dst"))
        p = os.path.join(W, "src", "f"); open(p, "wb").write(c1); os.utime(p, ns=(t1, t1))
    fa = ["--checksum", "--checksum-db", "true"]; fb = ["--checksum"]
    hist = [["create f=AAAA mtime t1"], ["f=BBBBBB mtime t2 (not synced)", "f=CCCC mtime t1 again"]]
    for W, f in ((A, fa), (B, fb)): run_sy([os.path.join(W, "src"), os.path.join(W, "dst"), "--json"] + f, W)
    for W in (A, B):
        p = os.path.join(W, "src", "f"); open(p, "wb").write(c2); os.utime(p, ns=(t2, t2)); open(p, "wb").write(c3); os.utime(p, ns=(t1, t1))
    ra, _, ea = run_sy([os.path.join(A, "src"), os.path.join(A, "dst"), "--json"] + fa, A)
    rb, _, _ = run_sy([os.path.join(B, "src"), os.path.join(B, "dst"), "--json"] + fb, B)
    da, db = open(os.path.join(A, "dst", "f"), "rb").read(), open(os.path.join(B, "dst", "f"), "rb").read()
    rep.tag("stale-row-history"); rep.case(("stale-row", ci), True)
    if da != db:
        rep.oracle_fail("C18/checksumdb-stale-row-after-mtime-restored",
                        f"with the checksum database the destination keeps {da!r}, without it {db!r}: the row of the last synced version matches the restored (mtime, size)",
                        {"case": ci, "seed": seed, "with": fa, "without": fb, "history": hist})
    shutil.rmtree(case, ignore_errors=True)
