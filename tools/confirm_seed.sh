#!/bin/sh
# usage: [SEED_SRC=<dir>] tools/confirm_seed.sh <ID> <prop> [<prop>...]   (seed deliverables in $SEED_SRC, default /tmp/seed-<ID>/)
# Confirms a seeded change here: applies to /repo, builds, runs the seed's own demo (must fail), the existing test
# suite (must still pass), our checks; then reverts, rebuilds and runs the demo again (must pass).
id="$1"; shift
S=${SEED_SRC:-/tmp/seed-$id}; OUT=/verif/seeded/$id
mkdir -p "$OUT"; cp "$S/patch.diff" "$S/demo.sh" "$OUT/" 2>/dev/null; [ -f "$S/NOTES.md" ] && cp "$S/NOTES.md" "$OUT/NOTES.md"
git -C /repo diff --quiet || { echo "/repo not clean"; exit 2; }
git -C /repo apply --check "$OUT/patch.diff" 2>/dev/null || { echo "PATCH-DOES-NOT-APPLY (3-way...)"; git -C /repo apply -3 "$OUT/patch.diff" || exit 2; git -C /repo reset -q; }
git -C /repo diff --quiet && git -C /repo apply "$OUT/patch.diff"
export CARGO_NET_OFFLINE=true
build() { (cd /repo && RUSTFLAGS="--cfg nijaru_sy_verif" CARGO_TARGET_DIR=/verif/.build/target cargo build --offline --bins 2>&1 | grep -E "^error" -A6 | head -20); }
mkdir -p /verif/.build/fakeroot; ln -sfn /verif/.build/target /verif/.build/fakeroot/target
build
echo "== demo with change"; (cd /verif/.build/fakeroot && timeout 1500 bash "$OUT/demo.sh" /verif/.build/fakeroot >/verif/.build/demo_with.log 2>&1); d1=$?; echo "demo rc=$d1"; tail -3 /verif/.build/demo_with.log | cut -c1-200
echo "== test suite with change"; /verif/tools/baseline.sh | tail -3; b=$?
res=""
for p in "$@"; do
  out=$(python3 /verif/tools/check.py "$p" --tier quick 2>&1); rc=$?
  echo "== $p rc=$rc"; echo "$out" | grep -E "^VIOLATION|\[check\]" | cut -c1-220
  f=$(echo "$out" | sed -n 's/^VIOLATION property=[A-Z0-9]* replay=\([^ ]*\).*/\1/p' | head -1)
  sig=""
  if [ -n "$f" ]; then sig=$(python3 - "$f" <<'PY'
import json,sys
r=json.load(open(sys.argv[1]))
if r.get("kind")=="oracle-failure": print("oracle:"+",".join(r.get("all_signatures",[])[:4]))
else: print("obligation:"+"; ".join((x["kind"]+" "+x["name"]+" "+x["detail"][:120].replace("\n"," ")) for x in r.get("no_longer_checks",[])[:2]))
PY
); echo "   $sig"; fi
  res="$res $p:rc=$rc:$sig |"
done
git -C /repo checkout -- .
build
echo "== demo without change"; (cd /verif/.build/fakeroot && timeout 1500 bash "$OUT/demo.sh" /verif/.build/fakeroot >/verif/.build/demo_without.log 2>&1); d0=$?; echo "demo rc=$d0"
python3 - "$id" "$d1" "$d0" "$res" <<'PY'
import json,sys,os
id,d1,d0,res=sys.argv[1:5]
p=f"/verif/seeded/{id}/meta.json"
m=json.load(open(p)) if os.path.exists(p) else {}
m.update({"seed_id":id,"demo_rc_with_change":int(d1),"demo_rc_without_change":int(d0),"checks_run":res.strip(),
          "confirmed":(int(d1)!=0 and int(d0)==0)})
json.dump(m,open(p,"w"),indent=1)
print(json.dumps(m)[:600])
PY
