#!/usr/bin/env python3
"""alarm test of lean/SyModel/Props/GenBisyncEngine.lean: mutate a copy of src/bisync/engine.rs (7 mutations), regenerate
the translated code from the mutated copy, rebuild the bridge, report which theorems break; restores nothing in the
generated directory — rerun `python3 tools/rs2lean.py /tmp/repo-clean lean/SyModel/Generated/Code` afterwards.
usage: mkdir -p /tmp/wb-genE-mut && cp -r /tmp/repo-clean/src /tmp/wb-genE-mut/src && python3 tools/alarm_gen_bisync_engine.py [M3]"""
import subprocess, re, shutil, os, sys
ROOT='/tmp/wb-genE'; MUT='/tmp/wb-genE-mut'
ENG=MUT+'/src/bisync/engine.rs'
muts = [
 ("M1 prior-state match: `None if opts.clear_state` -> `None if opts.clear_state && !opts.dry_run`",
  "None if opts.clear_state => std::collections::HashMap::new(),",
  "None if opts.clear_state && !opts.dry_run => std::collections::HashMap::new(),"),
 ("M2 CopyToSource: src/dst roots swapped",
  "let src = dest_root.join(&entry.relative_path);\n            let dst = source_root.join(&entry.relative_path);",
  "let src = source_root.join(&entry.relative_path);\n            let dst = dest_root.join(&entry.relative_path);"),
 ("M3 update_state: `failed.contains` test skipped",
  "if failed.contains(path) {\n            continue;\n        }\n",
  ""),
 ("M4 update_state: only the Source row stored",
  """                state_db.store(&SyncState {
                    path: path.clone(),
                    side: Side::Dest,
                    mtime: dest_mtime,
                    size: dest_size,
                    checksum: None,
                    last_sync: now,
                })?;
""", ""),
 ("M5 sync: the state database is opened (and cleared) in a dry run too",
  "let mut state_db = if opts.dry_run {\n            None\n        } else {\n            Some(BisyncStateDb::open(source, dest)?)\n        };",
  "let mut state_db = Some(BisyncStateDb::open(source, dest)?);"),
 ("M6 execute_actions: a failed action's path is not recorded",
  "failed.insert(action_path(action).to_path_buf());", ""),
 ("M7 check_deletion_limit: `>` -> `>=`",
  "if deletion_percent > max_delete_percent as f64 {", "if deletion_percent >= max_delete_percent as f64 {"),
]
def enclosing(lines, ln):
    for i in range(ln-1, -1, -1):
        m = re.match(r'\s*(?:private\s+)?(theorem|def|example|instance)\s+([^\s:({]+)?', lines[i])
        if m: return (m.group(1)+' '+(m.group(2) or '')).strip()
    return '?'
def run(which):
    for name, old, new in muts:
        if which and not name.startswith(which): continue
        shutil.copy('/tmp/repo-clean/src/bisync/engine.rs', ENG)
        s = open(ENG).read()
        assert s.count(old) == 1, (name, s.count(old))
        open(ENG,'w').write(s.replace(old, new))
        r = subprocess.run(['python3','tools/rs2lean.py',MUT,'lean/SyModel/Generated/Code'],cwd=ROOT,capture_output=True,text=True)
        print('==', name); print('   rs2lean:', r.stdout.strip().splitlines()[-1] if r.stdout.strip() else r.stderr.strip()[-200:])
        b = subprocess.run(['lake','build','SyModel.Props.GenBisyncEngine','SyModel.Props.GenBisync'],cwd=ROOT+'/lean',capture_output=True,text=True)
        out = b.stdout + b.stderr
        broken = []
        for m in re.finditer(r'error: (SyModel/[^:]+):(\d+):\d+', out):
            f, ln = m.group(1), int(m.group(2))
            lines = open(ROOT+'/lean/'+f).read().split('\n')
            e = f.split('/')[-1]+': '+enclosing(lines, ln)
            if e not in broken: broken.append(e)
        print('   build:', 'OK (NO ALARM)' if b.returncode == 0 else 'FAILED')
        for e in broken: print('     broken:', e)
    shutil.copy('/tmp/repo-clean/src/bisync/engine.rs', ENG)
run(sys.argv[1] if len(sys.argv) > 1 else None)
