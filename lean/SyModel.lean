import SyModel.Basic
import SyModel.Delta.Adler
