/-
  Driver.Hardlink — requests `hl.*` (C13): run the hard-link hand-off model
  (`SyModel/Hardlink/Protocol.lean`) on a whole schedule. `sydriver` is stateless per line, so one
  request carries the configuration and the complete schedule.

    hl.run   <pinned|repaired> <n> <cfg_0> … <cfg_{n-1}> <sched>
    hl.micro <pinned|repaired> <n> <cfg_0> … <cfg_{n-1}> <sched>

  cfg_w  = inode,linked,action,large,dst0ino,dst0content,yMkdir,yCopy,yLink,failMkdir,failCopy,failAttrs,failLink
           (numbers, 0/1; action = c|u|s for create/update/skip; dst0ino dst0content = `-` `-` when the
           path does not exist before the run; for an update yMkdir/failMkdir script `remove` and
           yCopy/failCopy script `sync_file_with_delta`)
  sched  = `-` or worker ids separated by `.`

  `hl.run` polls (`poll`, the macro-step) the listed workers in order and answers one record per
  poll, separated by `;`:   w:out:labels:map:dst
    out    = P | ok | E-<op>          (Pending / Ready(Ok) / Ready(Err))
    labels = `,`-separated labels of the micro-steps run by this poll, or `-`
    map    = `,`-separated  inode=I<owner> | inode=C<path>  sorted by inode, or `-`
    dst    = `,`-separated  w=<ino>/<content>  for existing destination files, or `-`
  followed by ` | done=<0|1> enabled=<ids or ->`.
  `hl.micro` runs micro-steps instead and answers `labels | rest=<unconsumed schedule> | pcs | map | done= enabled=`.
  Source content of inode `i` is the content id `i`.
-/
import Driver.Util
import SyModel.Hardlink.Protocol
open SyModel.Hardlink

namespace Driver.Hardlink

def showOp : Op → String
  | .mkdir => "mkdir"
  | .copy => "copy"
  | .attrs => "attrs"
  | .link => "link"
  | .sync => "sync"
  | .remove => "remove"

def showLabel : Label → String
  | .plain => "plain"
  | .readNone => "readNone"
  | .readInProgress g => s!"readIP{g}"
  | .readCompleted p => s!"readC{p}"
  | .claimOk => "claimOk"
  | .claimLost => "claimLost"
  | .arm g => s!"arm{g}"
  | .recheckSame => "recheckSame"
  | .recheckChanged => "recheckChanged"
  | .wake => "wake"
  | .yield op => s!"y-{showOp op}"
  | .opOk op => s!"ok-{showOp op}"
  | .opErr op => s!"err-{showOp op}"
  | .sameInode => "sameInode"
  | .otherInode => "otherInode"
  | .complete => "complete"
  | .remove => "remove"
  | .notify => "notify"

def showPc : Pc → String
  | .start => "start"
  | .sawNone => "sawNone"
  | .sawInProgress g => s!"sawIP{g}"
  | .armed g k => s!"armed{g}/{k}"
  | .waiting g k => s!"waiting{g}/{k}"
  | .linkOp p k => s!"link{p}/{k}"
  | .sameOp p => s!"same{p}"
  | .removeOp p k => s!"remove{p}/{k}"
  | .syncOp k => s!"sync/{k}"
  | .mkdirOp k => s!"mkdir/{k}"
  | .copyOp k => s!"copy/{k}"
  | .metaOp => "attrs"
  | .complete => "complete"
  | .notifyOk => "notifyOk"
  | .cleanup op => s!"cleanup-{showOp op}"
  | .failNotify op => s!"failNotify-{showOp op}"
  | .done .ok => "done-ok"
  | .done (.err op) => s!"done-E-{showOp op}"

def showOut : PollOut → String
  | .pending => "P"
  | .ready .ok => "ok"
  | .ready (.err op) => s!"E-{showOp op}"
  | .outOfFuel => "FUEL"

def joinOr (sep : String) (xs : List String) : String :=
  if xs.isEmpty then "-" else sep.intercalate xs

def insertSorted (x : Nat) : List Nat → List Nat
  | [] => [x]
  | y :: ys => if x < y then x :: y :: ys else if x = y then y :: ys else y :: insertSorted x ys

def inodes (cfg : Cfg) : List Nat :=
  (List.range cfg.n).foldl (fun acc w => insertSorted (cfg.worker w).inode acc) []

def showMap (cfg : Cfg) (s : State) : String :=
  joinOr "," <| (inodes cfg).filterMap fun i =>
    match s.map i with
    | none => none
    | some (.inProgress g) => some s!"{i}=I{g}"
    | some (.completed p) => some s!"{i}=C{p}"

def showDst (cfg : Cfg) (s : State) : String :=
  joinOr "," <| (List.range cfg.n).filterMap fun w =>
    match s.dst w with
    | none => none
    | some f => some s!"{w}={f.ino}/{f.content}"

def showTail (cfg : Cfg) (s : State) : String :=
  let d := if allDoneB cfg s then "1" else "0"
  s!"done={d} enabled={joinOr "." ((enabledSet cfg s).map toString)}"

def parseBool (s : String) : Option Bool :=
  if s == "0" then some false else if s == "1" then some true else none

def parseAction (s : String) : Option Action :=
  if s == "c" then some .create else if s == "u" then some .update else if s == "s" then some .skip else none

def parseDst0 (i c : String) : Option (Option File) :=
  if i == "-" && c == "-" then some none
  else do
    let ino ← i.toNat?
    let content ← c.toNat?
    pure (some ⟨ino, content⟩)

def parseWorker (s : String) : Option WorkerCfg :=
  match s.splitOn "," with
  | [i, l, a, lg, di, dc, ym, yc, yl, fm, fc, fx, fl] => do
    let inode ← i.toNat?
    let linked ← parseBool l
    let action ← parseAction a
    let large ← parseBool lg
    let dst0 ← parseDst0 di dc
    let yMkdir ← ym.toNat?
    let yCopy ← yc.toNat?
    let yLink ← yl.toNat?
    let failMkdir ← parseBool fm
    let failCopy ← parseBool fc
    let failMeta ← parseBool fx
    let failLink ← parseBool fl
    pure { inode, linked, action, large, dst0, yMkdir, yCopy, yLink, failMkdir, failCopy, failMeta, failLink }
  | _ => none

def parseVariant (s : String) : Option Variant :=
  if s == "pinned" then some .pinned else if s == "repaired" then some .repaired else none

def dummyWorker : WorkerCfg :=
  { inode := 0, linked := false, yMkdir := 0, yCopy := 0, yLink := 0,
    failMkdir := false, failCopy := false, failMeta := false, failLink := false }

def parseSched (n : Nat) (s : String) : Option (List Nat) :=
  if s == "-" then some []
  else do
    let ws ← (s.splitOn ".").mapM (·.toNat?)
    if ws.all (· < n) then pure ws else none

/-- `variant n cfg_0 … cfg_{n-1} sched` -/
def parseRun (toks : List String) : Option (Cfg × List Nat) :=
  match toks with
  | v :: n :: rest => do
    let variant ← parseVariant v
    let n ← n.toNat?
    if rest.length ≠ n + 1 then none
    else
      let ws ← (rest.take n).mapM parseWorker
      let sched ← parseSched n (rest.getD n "-")
      pure ({ variant, n, worker := fun w => ws.getD w dummyWorker, content := fun i => i }, sched)
  | _ => none

def runPolls (cfg : Cfg) : State → List Nat → List String → State × List String
  | s, [], acc => (s, acc.reverse)
  | s, w :: ws, acc =>
    let (s', labels, out) := poll cfg s w
    let rec_ := s!"{w}:{showOut out}:{joinOr "," (labels.map showLabel)}:{showMap cfg s'}:{showDst cfg s'}"
    runPolls cfg s' ws (rec_ :: acc)

def handle (toks : List String) : Option String :=
  some <|
  match toks with
  | "hl.run" :: rest =>
    match parseRun rest with
    | some (cfg, sched) =>
      let (s, recs) := runPolls cfg (init cfg) sched []
      s!"{joinOr ";" recs} | {showTail cfg s}"
    | none => "bad-op"
  | "hl.micro" :: rest =>
    match parseRun rest with
    | some (cfg, sched) =>
      let (s, labels, left) := runMicro cfg (init cfg) sched
      let pcs := joinOr "," ((List.range cfg.n).map fun w => showPc (s.pc w))
      s!"{joinOr "," (labels.map showLabel)} | rest={joinOr "." (left.map toString)} | {pcs} | {showMap cfg s} | {showTail cfg s}"
    | none => "bad-op"
  | _ => "bad-op"

end Driver.Hardlink
