/-
  Driver.Watch — requests `watch.*` (C20).  The driver is stateless per line, so one request
  carries a whole schedule:

    watch.run <debounce>,<recvTimeout>,<selectSleep>,<tolerance>,<nsPerSec>,<armFirst 0|1> <src ver> <dst ver> <input>*
      ver   := <id>,<size>,<mtime>
      input := s                      one move of the loop thread
             | f                      the same move, but the sync it completes (if any) fails
             | t<δ>                   δ time units pass
             | i                      SIGINT
             | e<kind>                the watcher delivers an event (no source change)
             | e<kind>:<ver>          the source becomes <ver> and the watcher delivers an event
      kind  := any | access | create | modify | remove | other | error
    -> <decision>;…;<decision> | phase=…   (timeouts as `timeout-idle:p=<pending>` / `timeout-sync:p=<pending>`)
       phase=… pending=… queue=… src=<id> dst=<id> snap=<id> syncs=… exit=… now=… last=… adm=<the schedule is `admissible`>
       (`-` when the schedule contains no `s`)

    watch.cmp <tolerance>,<nsPerSec> <src ver> <dst ver>   -> update | skip
-/
import Driver.Util
import SyModel.Watch.Loop
open SyModel SyModel.Watch

namespace Driver.Watch

def parseNats (s : String) : Option (List Nat) := (s.splitOn ",").mapM String.toNat?

def parseVer (s : String) : Option Ver :=
  match parseNats s with
  | some [a, b, c] => some { id := a, size := b, mtime := c }
  | _ => none

def parseCfg (s : String) : Option Cfg :=
  match parseNats s with
  | some [d, r, sl, tol, ns, arm] =>
    if arm > 1 ∨ ns = 0 then none
    else some { debounce := d, recvTimeout := r, selectSleep := sl, tolerance := tol, nsPerSec := ns,
                armFirst := arm == 1 }
  | _ => none

def kindName : Kind → String
  | .any => "any" | .access => "access" | .create => "create" | .modify => "modify"
  | .remove => "remove" | .other => "other" | .error => "error"

def parseKind (s : String) : Option Kind :=
  [Kind.any, .access, .create, .modify, .remove, .other, .error].find? (fun k => kindName k == s)

def parseInput (s : String) : Option Input :=
  match s.toList with
  | ['s'] => some .step
  | ['i'] => some .sigint
  | ['f'] => some .fail
  | 't' :: rest => (String.ofList rest).toNat?.map .tick
  | 'e' :: rest =>
    match (String.ofList rest).splitOn ":" with
    | [k] => (parseKind k).map (fun k => .event k none)
    | [k, v] => do
      let k ← parseKind k
      let v ← parseVer v
      pure (.event k (some v))
    | _ => none
  | _ => none

def showDecision : Decision → String
  | .armed => "armed"
  | .initialSyncStart => "initial-sync-start"
  | .initialSyncEnd => "initial-sync-end"
  | .loopStart => "loop-start"
  | .exitSigint => "exit-sigint"
  | .eventKept k => s!"event-kept:{kindName k}"
  | .eventDropped k => s!"event-dropped:{kindName k}"
  | .timeoutIdle => "timeout-idle"
  | .timeoutSync => "timeout-sync"
  | .syncEnd => "sync-end"
  | .initialSyncFailed => "initial-sync-failed"
  | .syncFailed => "sync-failed"
  | .halted => "halted"

/-- the decisions of a schedule as text; timeouts also show `pending.len()` at the decision
    (the H4 trace prints it), so the trace comparison covers `pending` too -/
def labels (c : Cfg) : State → List Input → List String
  | _, [] => []
  | s, .step :: t =>
    let d := (step c s).2
    let l := match d with
      | .timeoutIdle => s!"timeout-idle:p={s.pending.length}"
      | .timeoutSync => s!"timeout-sync:p={s.pending.length}"
      | d => showDecision d
    l :: labels c (step c s).1 t
  | s, .fail :: t =>
    let d := (failMove c s).2
    let l := match d with
      | .timeoutIdle => s!"timeout-idle:p={s.pending.length}"
      | .timeoutSync => s!"timeout-sync:p={s.pending.length}"
      | d => showDecision d
    l :: labels c (failMove c s).1 t
  | s, i :: t => labels c (apply c s i) t

def showPhase : Phase → String
  | .boot => "boot" | .initSync => "init-sync" | .postInit => "post-init" | .loop => "loop"
  | .sync => "sync" | .done => "done"

def showExit : Option Exit → String
  | none => "none" | some .sigint => "sigint" | some .killed => "killed" | some .error => "error"

def showState (s : State) : String :=
  s!"phase={showPhase s.phase} pending={s.pending.length} queue={s.queue.length} src={s.src.id} " ++
  s!"dst={s.dst.id} snap={s.snap.id} syncs={s.syncs} exit={showExit s.exit} now={s.now} last={s.lastSync}"

def handle (toks : List String) : Option String :=
  some <|
  match toks with
  | "watch.run" :: cfg :: v0 :: d0 :: ins =>
    match parseCfg cfg, parseVer v0, parseVer d0, ins.mapM parseInput with
    | some c, some v0, some d0, some is =>
      let ds := labels c (init v0 d0) is
      let s := run c (init v0 d0) is
      (if ds.isEmpty then "-" else ";".intercalate ds) ++ " | " ++ showState s ++
        s!" adm={admissible c (init v0 d0) is}"
    | _, _, _, _ => "bad-op"
  | ["watch.cmp", p, a, d] =>
    match parseNats p, parseVer a, parseVer d with
    | some [tol, ns], some a, some d =>
      if ns = 0 then "bad-op"
      else
        let c : Cfg := { Cfg.sy with tolerance := tol, nsPerSec := ns }
        if needsUpdate c a d then "update" else "skip"
    | _, _, _ => "bad-op"
  | _ => "bad-op"

end Driver.Watch
