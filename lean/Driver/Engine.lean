/-
  Driver.Engine — requests `engine.*` (one-way sync model; C01 C03 C06 C07 C08 C10 C17 C19 …).

  engine.run <cfg> <scan> <dst>
    cfg  : k=v,… (delete force dry x h thr links cmp min max maxerr tie nextino)
    scan : entries `;`-separated `<path>:<kind>:<size>:<excl>`; `-` = none
           kind = F<content>.<size>.<mtime>.<ino>.<nlink>.<xattrs> | D | L<hextext>.<tgt>
           tgt  = x | d | f<content>.<size>.<mtime>
    dst  : entries `<path>:<node>`; node = F<content>.<size>.<mtime>.<ino>.<xattrs> | D | L<hextext>
    path : hex components joined by `/`;  xattrs : `-` or `<hexname>=<val>` joined by `+`
  →  exit refused aborted created updated skipped deleted bytes <events> <errors> <dst>   (lists sorted)
-/
import Driver.Util
import SyModel.Engine.Model
open SyModel SyModel.Engine

namespace Driver.Engine
open Driver

def unhexStr (s : String) : Option String := do
  let b ← unhex s
  pure (String.ofList (b.map fun x => Char.ofNat x.toNat))   -- names are ASCII in the protocol; bytes ≥ 128 map 1:1

def hexStr (s : String) : String := hex (s.toList.map fun c => UInt8.ofNat c.toNat)

def parsePath (s : String) : Option Path :=
  if s == "." then some [] else (s.splitOn "/").mapM unhexStr

def showPath (p : Path) : String := if p.isEmpty then "." else "/".intercalate (p.map hexStr)

def parseXattrs (s : String) : Option (List (String × Nat)) :=
  if s == "-" then some []
  else (s.splitOn "+").mapM fun kv =>
    match kv.splitOn "=" with
    | [k, v] => do let k ← unhexStr k; let v ← v.toNat?; pure (k, v)
    | _ => none

def showXattrs (x : List (String × Nat)) : String :=
  if x.isEmpty then "-" else "+".intercalate (x.map fun (k, v) => s!"{hexStr k}={v}")

def parseBool (s : String) : Option Bool := if s == "1" then some true else if s == "0" then some false else none

def parseOptNat (s : String) : Option (Option Nat) := if s == "-" then some none else s.toNat?.map some

def kv (m : List (String × String)) (k : String) : Option String := (m.find? (·.1 == k)).map (·.2)

def parseCfg (s : String) : Option (Cfg × Nat) := do
  let m ← (s.splitOn ",").mapM fun x => match x.splitOn "=" with | [a, b] => some (a, b) | _ => none
  let links ← match ← kv m "links" with | "p" => some LinkMode.preserve | "f" => some .follow | "s" => some .skip | _ => none
  let cmp ← match ← kv m "cmp" with | "d" => some Compare.default | "c" => some .checksum | "i" => some .ignoreTimes | "s" => some .sizeOnly | _ => none
  let cfg : Cfg := {
    delete := ← parseBool (← kv m "delete"), force := ← parseBool (← kv m "force"),
    dryRun := ← parseBool (← kv m "dry"), xattrs := ← parseBool (← kv m "x"),
    hardlinks := ← parseBool (← kv m "h"), threshold := ← (← kv m "thr").toNat?,
    links := links, compare := cmp, minSize := ← parseOptNat (← kv m "min"),
    maxSize := ← parseOptNat (← kv m "max"), maxErrors := ← (← kv m "maxerr").toNat?,
    tie := ← parseBool (← kv m "tie") }
  pure (cfg, ← (← kv m "nextino").toNat?)

def parseMeta3 (c s t : String) : Option (Nat × Nat × Nat) := do pure (← c.toNat?, ← s.toNat?, ← t.toNat?)

def parseSKind (s : String) : Option SKind :=
  match s.toList with
  | ['D'] => some .dir
  | 'F' :: r =>
    match (String.ofList r).splitOn "." with
    | [c, sz, mt, ino, nl, xa] => do
      pure (.file { content := ← c.toNat?, size := ← sz.toNat?, mtime := ← mt.toNat?, xattrs := ← parseXattrs xa, ino := ← ino.toNat? } (← nl.toNat?))
    | _ => none
  | 'L' :: r =>
    match (String.ofList r).splitOn "." with
    | [t, "x"] => do pure (.symlink (← unhexStr t) .dangling)
    | [t, "d"] => do pure (.symlink (← unhexStr t) .dir)
    | [t, c, sz, mt] =>
      match c.toList with
      | 'f' :: c' => do
        pure (.symlink (← unhexStr t) (.file { content := ← (String.ofList c').toNat?, size := ← sz.toNat?, mtime := ← mt.toNat?, xattrs := [], ino := 0 }))
      | _ => none
    | _ => none
  | _ => none

def parseSEntry (s : String) : Option SEntry :=
  match s.splitOn ":" with
  | [p, k, sz, ex] => do pure { rel := ← parsePath p, kind := ← parseSKind k, size := ← sz.toNat?, excluded := ← parseBool ex }
  | _ => none

def parseDNode (s : String) : Option DNode :=
  match s.toList with
  | ['D'] => some .dir
  | 'F' :: r =>
    match (String.ofList r).splitOn "." with
    | [c, sz, mt, ino, xa] => do
      pure (.file { content := ← c.toNat?, size := ← sz.toNat?, mtime := ← mt.toNat?, xattrs := ← parseXattrs xa, ino := ← ino.toNat? })
    | _ => none
  | 'L' :: r => do pure (.symlink (← unhexStr (String.ofList r)))
  | _ => none

def parseDEntry (s : String) : Option (Path × DNode) :=
  match s.splitOn ":" with
  | [p, n] => do pure (← parsePath p, ← parseDNode n)
  | _ => none

def parseList {α} (f : String → Option α) (s : String) : Option (List α) :=
  if s == "-" then some [] else (s.splitOn ";").mapM f

def showDNode : DNode → String
  | .dir => "D"
  | .file m => s!"F{m.content}.{m.size}.{m.mtime}.{m.ino}.{showXattrs m.xattrs}"
  | .symlink t => s!"L{hexStr t}"

def showAct : Act → String
  | .create => "c" | .update => "u" | .skip => "s" | .delete => "d"

def sorted (l : List String) : String :=
  if l.isEmpty then "-" else ";".intercalate (l.mergeSort (fun a b => decide (a ≤ b)))

def b2s (b : Bool) : String := if b then "1" else "0"

def showResult (r : Result) : String :=
  let ev := sorted (r.events.map fun (a, p) => s!"{showAct a}{showPath p}")
  let er := sorted (r.errors.map fun (a, p) => s!"{showAct a}{showPath p}")
  let ds := sorted (r.dst.map fun (p, n) => s!"{showPath p}:{showDNode n}")
  s!"{r.exit} {b2s r.refused} {b2s r.aborted} {r.created} {r.updated} {r.skipped} {r.deleted} {r.bytes} {ev} {er} {ds}"

def handle (toks : List String) : Option String :=
  some <| match toks with
  | ["engine.run", cfg, scan, dst] =>
    match parseCfg cfg, parseList parseSEntry scan, parseList parseDEntry dst with
    | some (cfg, nextIno), some scan, some dst => showResult (run cfg scan dst nextIno)
    | _, _, _ => "bad-op"
  | ["engine.runf", cfg, scan, dst, faults] =>
    -- faults: `;`-separated `<path>:<node|->`: the task at that path fails leaving the node (or nothing)
    let parseFault (x : String) : Option (Path × Option DNode) :=
      match x.splitOn ":" with
      | [p, g] => do
        let p ← parsePath p
        if g == "-" then pure (p, none) else do let n ← parseDNode g; pure (p, some n)
      | _ => none
    match parseCfg cfg, parseList parseSEntry scan, parseList parseDEntry dst, parseList parseFault faults with
    | some (cfg, nextIno), some scan, some dst, some fl =>
      let flt : Faults := fun t => (fl.find? (·.1 == t.rel)).map (·.2)
      showResult (runF cfg flt scan dst nextIno)
    | _, _, _, _ => "bad-op"
  | ["engine.plan", cfg, scan, dst] =>
    match parseCfg cfg, parseList parseSEntry scan, parseList parseDEntry dst with
    | some (cfg, _), some scan, some dst =>
      sorted ((plan cfg scan dst).map fun t => s!"{showAct t.act}{showPath t.rel}")
    | _, _, _ => "bad-op"
  | _ => "bad-op"

end Driver.Engine
