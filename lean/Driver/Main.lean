/-
  sydriver — line protocol front end for the executable model.
  One request per line on stdin, one response per line on stdout.
  Imports model files only (no Mathlib, no Lemmas) so that it links natively.
-/
import SyModel.Delta.Stream
open SyModel SyModel.Delta

namespace Driver

def hexVal (c : Char) : Option Nat :=
  if '0' ≤ c ∧ c ≤ '9' then some (c.toNat - '0'.toNat)
  else if 'a' ≤ c ∧ c ≤ 'f' then some (c.toNat - 'a'.toNat + 10)
  else none

def unhexGo : List Char → List UInt8 → Option Bytes
  | [], acc => some acc.reverse
  | [_], _ => none
  | a :: b :: t, acc =>
    match hexVal a, hexVal b with
    | some x, some y => unhexGo t (UInt8.ofNat (x * 16 + y) :: acc)
    | _, _ => none

/-- `-` is the empty string. -/
def unhex (s : String) : Option Bytes :=
  if s == "-" then some [] else unhexGo s.toList []

def hexDigit (n : Nat) : Char :=
  if n < 10 then Char.ofNat (n + '0'.toNat) else Char.ofNat (n - 10 + 'a'.toNat)

def hex (b : Bytes) : String :=
  if b.isEmpty then "-"
  else String.ofList (b.foldr (fun x acc => hexDigit (x.toNat / 16) :: hexDigit (x.toNat % 16) :: acc) [])

def showOp : Op → String
  | .copy o s => s!"C{o},{s}"
  | .data d => s!"D{hex d}"

def showOps (ops : List Op) : String :=
  if ops.isEmpty then "-" else ";".intercalate (ops.map showOp)

def parseOp (s : String) : Option Op :=
  match s.toList with
  | 'C' :: rest =>
    match (String.ofList rest).splitOn "," with
    | [a, b] => do let o ← a.toNat?; let z ← b.toNat?; pure (.copy o z)
    | _ => none
  | 'D' :: rest => do let d ← unhex (String.ofList rest); pure (.data d)
  | _ => none

def parseOps (s : String) : Option (List Op) :=
  if s == "-" then some [] else (s.splitOn ";").mapM parseOp

def showBlocks (bs : List (Block Bytes)) : String :=
  if bs.isEmpty then "-" else ";".intercalate (bs.map fun c => s!"{c.offset},{c.size},{c.weak}")

instance : BEq Bytes := inferInstance

def handle (toks : List String) : String :=
  match toks with
  | ["adler.hash", h] =>
    match unhex h with
    | some d => toString (hashBytes d)
    | none => "bad-op"
  | ["adler.roll", n, h, k] =>
    match n.toNat?, unhex h, k.toNat? with
    | some n, some d, some k =>
      if n = 0 ∨ d.length < k + n then "bad-op"
      else toString (rollN n (Adler.ofBlock (d.take n)) d k).digest
    | _, _, _ => "bad-op"
  | ["delta.checksums", bs, old] =>
    match bs.toNat?, unhex old with
    | some bs, some old => if bs = 0 then "bad-op" else showBlocks (checksums id bs old)
    | _, _ => "bad-op"
  | ["delta.gen", kind, bs, chunk, old, new] =>
    match bs.toNat?, chunk.toNat?, unhex old, unhex new with
    | some bs, some chunk, some old, some new =>
      if bs = 0 then "bad-op"
      else
        let cs := checksums id bs old
        if kind == "mem" then showOps (genMem id cs bs new)
        else if kind == "stream" then
          match genStream id cs bs chunk new with
          | some ops => showOps ops
          | none => "bad-op"
        else "bad-op"
    | _, _, _, _ => "bad-op"
  | ["delta.apply", old, ops] =>
    match unhex old, parseOps ops with
    | some old, some ops =>
      match applyOps old ops with
      | some r => s!"ok {hex r}"
      | none => "err eof"
    | _, _ => "bad-op"
  | _ => "bad-op"

partial def loop (hin : IO.FS.Stream) (hout : IO.FS.Stream) : IO Unit := do
  let line ← hin.getLine
  if line.isEmpty then return ()
  let toks := (line.trimAscii.toString.splitOn " ").filter (· ≠ "")
  hout.putStrLn (handle toks)
  hout.flush
  loop hin hout

end Driver

def main : IO Unit := do
  Driver.loop (← IO.getStdin) (← IO.getStdout)
