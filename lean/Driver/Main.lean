/-
  sydriver — line protocol front end for the executable model.
  One request per line on stdin, one response per line on stdout.
  Imports model files only (no Mathlib, no Lemmas) so that it links natively.
  The first token `<area>.<op>` selects the handler.
-/
import Driver.Util
import Driver.Delta
import Driver.Engine
import Driver.Wire
import Driver.Compress
import Driver.Hardlink
import Driver.Verify
import Driver.Filter
import Driver.Bisync
import Driver.Watch
import Driver.Caches
import Driver.Steps
import Driver.Transfer
import Driver.Prelude

namespace Driver

def dispatch (toks : List String) : String :=
  match toks with
  | [] => "bad-op"
  | cmd :: _ =>
    let area := (cmd.splitOn ".").headD ""
    let r : Option String :=
      if area == "adler" || area == "delta" then Driver.Delta.handle toks
      else if area == "engine" then Driver.Engine.handle toks
      else if area == "wire" then Driver.Wire.handle toks
      else if area == "compress" || area == "sparse" then Driver.Compress.handle toks
      else if area == "hl" then Driver.Hardlink.handle toks
      else if area == "verify" then Driver.Verify.handle toks
      else if area == "glob" || area == "filter" then Driver.Filter.handle toks
      else if area == "bisync" then Driver.Bisync.handle toks
      else if area == "watch" then Driver.Watch.handle toks
      else if area == "caches" then Driver.Caches.handle toks
      else if area == "steps" then Driver.Steps.handle toks
      else if area == "xfer" then Driver.Transfer.handle toks
      else if area == "prelude" then Driver.Prelude.handle toks
      else none
    r.getD "bad-op"

partial def loop (hin : IO.FS.Stream) (hout : IO.FS.Stream) : IO Unit := do
  let line ← hin.getLine
  if line.isEmpty then return ()
  let toks := (line.trimAscii.toString.splitOn " ").filter (· ≠ "")
  hout.putStrLn (dispatch toks)
  hout.flush
  loop hin hout

end Driver

def main : IO Unit := do
  Driver.loop (← IO.getStdin) (← IO.getStdout)
