/-
  Driver.Bisync — requests `bisync.*` (C11, C12).

  bisync.classify <cfg> <s> <d> <ps> <pd>            -> <verdict> tag=<arm>
  bisync.resolve <strategy> <stamp> <verdict> <s> <d> -> <action>
  bisync.plan <cfg> <strategy> <stamp> <maxdel> <SRC> <DST> <PRIOR>
        -> <path:verdict:action;…> resolved=<n> renamed=<n> refused=<0|1> tie=<0|1>
  bisync.conflictname <hexpath> <stamp> <source|dest> -> <hexpath>
  bisync.history <cfg> <events>                       -> one block per sync, joined by " | "

  <cfg>    two bits `<fixContent><fixState>`: 00 = tree as shipped, 11 = both repairs
  entry    `-` | `<size>:<mtime>:<isDir 0|1>:<content id | ->`
  row      `-` | `<mtime>:<size>`
  SRC/DST  `-` | `<hexpath>=<entry>;…`        PRIOR  `-` | `<hexpath>=<row>|<row>;…`
  events   `;`-separated: `e<L|R>:<hexpath>:<c<size>|mS|mK|d|t|n>`  or  `s:<strategy>:<maxdel>:<stamp>`
  Paths are hex of ASCII bytes. Every list in a response is sorted by hex path.
-/
import Driver.Util
import SyModel.Bisync.History
open SyModel SyModel.Bisync

namespace Driver.Bisync
open Driver

def parsePath (s : String) : Option Path := do
  let b ← unhex s
  if b.isEmpty then none
  else if b.all (fun x => x.toNat < 128) then some (b.map fun x => Char.ofNat x.toNat) else none

def showPath (p : Path) : String := hex (p.map fun c => UInt8.ofNat c.toNat)

def parseCfg (s : String) : Option Cfg :=
  match s.toList with
  | [a, b] =>
    if (a == '0' || a == '1') && (b == '0' || b == '1') then some ⟨a == '1', b == '1'⟩ else none
  | _ => none

def parseEntry (s : String) : Option (Option Entry) :=
  if s == "-" then some none
  else match s.splitOn ":" with
    | [sz, mt, dir, c] => do
      let sz ← sz.toNat?
      let mt ← mt.toNat?
      let dir ← if dir == "0" then some false else if dir == "1" then some true else none
      let c ← if c == "-" then some none else (c.toNat?).map some
      pure (some { size := sz, mtime := mt, isDir := dir, content := c })
    | _ => none

def parseRow (s : String) : Option (Option Row) :=
  if s == "-" then some none
  else match s.splitOn ":" with
    | [mt, sz] => do let mt ← mt.toNat?; let sz ← sz.toNat?; pure (some ⟨mt, sz⟩)
    | _ => none

def parseStrategy : String → Option Strategy
  | "newer" => some .newer | "larger" => some .larger | "smaller" => some .smaller
  | "source" => some .source | "dest" => some .dest | "rename" => some .rename
  | _ => none

def showCtype : ChangeType → String
  | .newInSource => "NewInSource" | .newInDest => "NewInDest"
  | .modifiedInSource => "ModifiedInSource" | .modifiedInDest => "ModifiedInDest"
  | .deletedFromSource => "DeletedFromSource" | .deletedFromDest => "DeletedFromDest"
  | .modifiedBoth => "ModifiedBoth" | .createCreate => "CreateCreateConflict"
  | .modifyDelete => "ModifyDeleteConflict"

def parseCtype : String → Option ChangeType
  | "NewInSource" => some .newInSource | "NewInDest" => some .newInDest
  | "ModifiedInSource" => some .modifiedInSource | "ModifiedInDest" => some .modifiedInDest
  | "DeletedFromSource" => some .deletedFromSource | "DeletedFromDest" => some .deletedFromDest
  | "ModifiedBoth" => some .modifiedBoth | "CreateCreateConflict" => some .createCreate
  | "ModifyDeleteConflict" => some .modifyDelete
  | _ => none

def showAction : Action → String
  | .copyToSource .. => "CopyToSource"
  | .copyToDest .. => "CopyToDest"
  | .deleteFromSource _ => "DeleteFromSource"
  | .deleteFromDest _ => "DeleteFromDest"
  | .renameConflict _ _ _ st => s!"RenameConflict@{st}"

def insertBy {α} (key : α → String) (x : α) : List α → List α
  | [] => [x]
  | y :: t => if key x < key y then x :: y :: t else y :: insertBy key x t

def sortBy {α} (key : α → String) (l : List α) : List α := l.foldl (fun acc x => insertBy key x acc) []

def joinOr (sep : String) (l : List String) : String := if l.isEmpty then "-" else sep.intercalate l

def parseList {α} (f : String → Option α) (s : String) : Option (List (Path × α)) :=
  if s == "-" then some []
  else (s.splitOn ";").mapM fun item =>
    match item.splitOn "=" with
    | [k, v] => do let p ← parsePath k; let x ← f v; pure (p, x)
    | _ => none

def parseSomeEntry (s : String) : Option Entry := (parseEntry s).bind id

def parseRowPair (s : String) : Option (Option Row × Option Row) :=
  match s.splitOn "|" with
  | [a, b] => do let a ← parseRow a; let b ← parseRow b; pure (a, b)
  | _ => none

def b01 (b : Bool) : String := if b then "1" else "0"

/-! ### histories -/

def parseOp (s : String) : Option EditOp :=
  match s.toList with
  | 'c' :: rest => (String.ofList rest).toNat?.map .create
  | ['m', 'S'] => some .modSize
  | ['m', 'K'] => some .modSame
  | ['d'] => some .delete
  | ['t'] => some .touch
  | ['n'] => some .nothing
  | _ => none

def parseEvent (s : String) : Option Event :=
  match s.splitOn ":" with
  | ["eL", p, op] => do let p ← parsePath p; let op ← parseOp op; pure (.edit .source p op)
  | ["eR", p, op] => do let p ← parsePath p; let op ← parseOp op; pure (.edit .dest p op)
  | ["s", st, md, stamp] => do
    let st ← parseStrategy st; let md ← md.toNat?; let stamp ← stamp.toNat?
    pure (.sync st md stamp)
  | _ => none

def showRoot (r : Root) : String :=
  joinOr "," ((sortBy (fun (kv : Path × File) => showPath kv.1) r).map fun kv =>
    s!"{showPath kv.1}:{kv.2.cid}:{kv.2.size}:{kv.2.mtime}")

def showDb (db : Db) : String :=
  joinOr "," ((sortBy (fun (kv : (Path × Side) × Row) => showPath kv.1.1 ++ (if kv.1.2 == Side.source then "s" else "d")) db).map
    fun kv => s!"{showPath kv.1.1}:{if kv.1.2 == Side.source then "source" else "dest"}:{kv.2.mtime}:{kv.2.size}")

def showLog (l : SyncLog) : String :=
  let r := l.result
  let acts := joinOr "," ((sortBy (fun (a : Action) => showPath a.path) r.actions).map fun a =>
    s!"{showPath a.path}:{showAction a}")
  let chs := joinOr "," ((sortBy (fun (c : Change) => showPath c.path) r.changes).map fun c =>
    s!"{showPath c.path}:{showCtype c.ctype}")
  s!"refused={b01 r.refused} fresh={b01 l.fresh} tie={b01 l.tie} errors={r.errors.length} changes={chs} actions={acts} L={showRoot r.world.left} R={showRoot r.world.right} DB={showDb r.world.db}"

def handle (toks : List String) : Option String :=
  some <|
  match toks with
  | ["bisync.classify", cfg, s, d, ps, pd] =>
    match parseCfg cfg, parseEntry s, parseEntry d, parseRow ps, parseRow pd with
    | some cfg, some s, some d, some ps, some pd =>
      let v := match classifySingle cfg s d ps pd with
        | some ct => showCtype ct
        | none => "none"
      s!"{v} tag={classifyTag s d ps pd}"
    | _, _, _, _, _ => "bad-op"
  | ["bisync.resolve", st, stamp, ct, s, d] =>
    match parseStrategy st, stamp.toNat?, parseCtype ct, parseEntry s, parseEntry d with
    | some st, some stamp, some ct, some s, some d =>
      match resolveOne st stamp ⟨['x'], ct, s, d⟩ with
      | some a => showAction a
      | none => "none"
    | _, _, _, _, _ => "bad-op"
  | ["bisync.plan", cfg, st, stamp, md, src, dst, prior] =>
    match parseCfg cfg, parseStrategy st, stamp.toNat?, md.toNat?, parseList parseSomeEntry src,
        parseList parseSomeEntry dst, parseList parseRowPair prior with
    | some cfg, some st, some stamp, some md, some src, some dst, some prior =>
      let changes := classifyChanges cfg src dst prior
      let items := (sortBy (fun (c : Change) => showPath c.path) changes).map fun c =>
        let a := match resolveOne st stamp c with
          | some a => showAction a
          | none => "none"
        s!"{showPath c.path}:{showCtype c.ctype}:{a}"
      let (res, ren) := conflictCounts st stamp changes
      s!"{joinOr ";" items} resolved={res} renamed={ren} refused={b01 (deletionLimitExceeded changes md)} tie={b01 (deletionTie changes md)}"
    | _, _, _, _, _, _, _ => "bad-op"
  | ["bisync.conflictname", p, stamp, side] =>
    match parsePath p, stamp.toNat?, (if side == "source" then some Side.source else if side == "dest" then some Side.dest else none) with
    | some p, some stamp, some side => showPath (conflictName p stamp side)
    | _, _, _ => "bad-op"
  | ["bisync.history", cfg, evs] =>
    match parseCfg cfg, (if evs == "-" then some [] else (evs.splitOn ";").mapM parseEvent) with
    | some cfg, some evs => joinOr " | " ((runLog cfg evs Trace.empty).map showLog)
    | _, _ => "bad-op"
  | _ => "bad-op"

end Driver.Bisync
