/-
  Driver.Verify — request `verify.run <min|-> <max|-> <src> <dst>` (C15).
  entries `;`-separated `<path>:D` | `<path>:F<content|x>.<size>`
  → exit matched <mismatched> <onlySrc> <onlyDst> <errors>   (path lists sorted, `-` = empty)
-/
import Driver.Engine
import SyModel.Engine.Verify
open SyModel SyModel.Engine

namespace Driver.Verify
open Driver Driver.Engine

def parseVEntry (s : String) : Option VEntry :=
  match s.splitOn ":" with
  | [p, "D"] => do pure { rel := ← parsePath p, isDir := true, content := none, size := 0 }
  | [p, k] =>
    match k.toList with
    | 'F' :: r =>
      match (String.ofList r).splitOn "." with
      | [c, sz] => do
        let content ← if c == "x" then some none else c.toNat?.map some
        pure { rel := ← parsePath p, isDir := false, content := content, size := ← sz.toNat? }
      | _ => none
    | _ => none
  | _ => none

def handle (toks : List String) : Option String :=
  some <| match toks with
  | ["verify.run", mn, mx, src, dst] =>
    match parseOptNat mn, parseOptNat mx, parseList parseVEntry src, parseList parseVEntry dst with
    | some mn, some mx, some src, some dst =>
      let r := verify ⟨mn, mx⟩ src dst
      let sp (l : List Path) := sorted (l.map showPath)
      s!"{exitCode r} {r.matched} {sp r.mismatched} {sp r.onlySrc} {sp r.onlyDst} {sp r.errors}"
    | _, _, _, _ => "bad-op"
  | _ => "bad-op"

end Driver.Verify
