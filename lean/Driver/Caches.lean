/-
  Driver.Caches — requests `caches.*` (C18).
  caches.store <rows> <files>   rows/files: `;`-separated `<path>:<mtime>.<size>.<content>`; `-` = none
     → rows after `Db.storeAll` (sorted)
  caches.seen <rows> <files>    → for each file the checksum the planner sees (`seenContent`), sorted by path
  caches.dircache <dirs> <scan> → `canUse` and the directory keys after one more update; dirs `;`-separated paths,
                                   scan entries `<path>:<d|f>`
-/
import Driver.Engine
import SyModel.Engine.Caches
open SyModel SyModel.Engine

namespace Driver.Caches
open Driver Driver.Engine

def parseRow (s : String) : Option (Path × Nat × Nat × Nat) :=
  match s.splitOn ":" with
  | [p, r] =>
    match r.splitOn "." with
    | [mt, sz, c] => do pure (← parsePath p, ← mt.toNat?, ← sz.toNat?, ← c.toNat?)
    | _ => none
  | _ => none

def toDb (rows : List (Path × Nat × Nat × Nat)) : Db := rows.map fun (p, mt, sz, c) => (p, ⟨mt, sz, c⟩)

def toEntry (r : Path × Nat × Nat × Nat) : SEntry :=
  { rel := r.1, kind := .file { content := r.2.2.2, size := r.2.2.1, mtime := r.2.1, xattrs := [], ino := 0 } 1,
    size := r.2.2.1, excluded := false }

def handle (toks : List String) : Option String :=
  some <| match toks with
  | ["caches.store", rows, files] =>
    match parseList parseRow rows, parseList parseRow files with
    | some rows, some files =>
      let db := Db.storeAll (toDb rows) (files.map toEntry)
      sorted (db.map fun (p, r) => s!"{showPath p}:{r.mtime}.{r.size}.{r.cksum}")
    | _, _ => "bad-op"
  | ["caches.seen", rows, files] =>
    match parseList parseRow rows, parseList parseRow files with
    | some rows, some files =>
      let db := toDb rows
      sorted (files.map fun f => s!"{showPath f.1}:{seenContent db f.1 (match (toEntry f).kind with | .file m _ => m | _ => ⟨0, 0, 0, [], 0⟩)}")
    | _, _ => "bad-op"
  | ["caches.dircache", dirs, scan] =>
    let parseScan (x : String) : Option SEntry :=
      match x.splitOn ":" with
      | [p, "d"] => do pure { rel := ← parsePath p, kind := .dir, size := 0, excluded := false }
      | [p, "f"] => do pure { rel := ← parsePath p, kind := .file ⟨0, 0, 0, [], 0⟩ 1, size := 0, excluded := false }
      | _ => none
    match parseList parsePath dirs, parseList parseScan scan with
    | some dirs, some scan =>
      let c : DirCache := ⟨dirs, []⟩
      let c' := c.update scan
      s!"{b2s c.canUse} {b2s c'.canUse} {sorted (c'.dirs.map showPath)} {sorted (c'.files.eraseDups.map showPath)}"
    | _, _ => "bad-op"
  | _ => "bad-op"

end Driver.Caches
