/-
  Driver.Prelude — request handlers for the translated code's vocabulary (SyModel.Generated.Prelude): the meaning
  given to std's path and string methods is run against the real std functions by the harness stream `prelude`.
  Texts travel as hex of their UTF-8 bytes (ASCII in the generated inputs).
-/
import Driver.Util
import SyModel.Generated.Prelude
import SyModel.Generated.Code.TempFile
open SyModel SyModel.Generated

namespace Driver.Prelude

def txt (s : String) : Option (List Char) := (unhex s).map fun b => b.map fun x => Char.ofNat x.toNat
def out (l : List Char) : String := hex (l.map fun c => UInt8.ofNat c.toNat)
def outOpt : Option (List Char) → String
  | some l => "some:" ++ out l
  | none => "none"

def handle : List String → Option String
  | ["prelude.parent", p] => (txt p).map fun p => outOpt (Rs.parent p)
  | ["prelude.file_name", p] => (txt p).map fun p => outOpt (Rs.path_file_name p)
  | ["prelude.file_stem", p] => (txt p).map fun p => outOpt (Rs.file_stem p)
  | ["prelude.extension", p] => (txt p).map fun p => outOpt (Rs.extension p)
  | ["prelude.join", p, n] => do let p ← txt p; let n ← txt n; pure (out (Rs.join p n))
  | ["prelude.with_file_name", p, n] => do let p ← txt p; let n ← txt n; pure (out (Rs.with_file_name p n))
  | ["prelude.working_file_path", p] => (txt p).map fun p => out (SyModel.Generated.TempFile.working_file_path p)
  | ["prelude.path_starts_with", p, b] => do let p ← txt p; let b ← txt b; pure (toString (Rs.path_starts_with p b))
  | ["prelude.str_starts_with", p, b] => do let p ← txt p; let b ← txt b; pure (toString (Rs.str_starts_with p b))
  | ["prelude.ends_with_slash", p] => (txt p).map fun p => toString (Rs.ends_with p '/')
  | ["prelude.sort_by_key_odd", l] => do
      let xs ← (if l == "-" then some [] else (l.splitOn ",").mapM (·.toNat?))
      pure (",".intercalate ((Rs.sort_by_key_bool xs (fun x => x % 2 == 1)).map toString))
  | ["prelude.partition_odd", l] => do
      let xs ← (if l == "-" then some [] else (l.splitOn ",").mapM (·.toNat?))
      let (a, b) := Rs.partition xs (fun x => x % 2 == 1)
      pure (",".intercalate (a.map toString) ++ "|" ++ ",".intercalate (b.map toString))
  | ["prelude.div_ceil", a, b] => do let a ← a.toNat?; let b ← b.toNat?; pure (toString (Rs.div_ceil a b))
  | ["prelude.abs_diff", a, b] => do let a ← a.toNat?; let b ← b.toNat?; pure (toString (Rs.abs_diff a b))
  | ["prelude.saturating_sub", a, b] => do let a ← a.toNat?; let b ← b.toNat?; pure (toString (Rs.saturating_sub a b))
  | ["prelude.strip_prefix", p, b] => do
      let p ← txt p; let b ← txt b
      pure (match Rs.strip_prefix p b with | .ok r => "ok:" ++ out r | .error _ => "err")
  | ["prelude.to_lowercase", s] => (txt s).map fun s => out (Rs.to_lowercase s)
  | ["prelude.eq_ignore_ascii_case", a, b] => do let a ← txt a; let b ← txt b; pure (toString (Rs.eq_ignore_ascii_case a b))
  | ["prelude.rsplit_first", s, c] => do
      let s ← txt s; let c ← txt c
      match c with
      | [ch] => pure (outOpt (Rs.next (Rs.rsplit s ch)))
      | _ => none
  | ["prelude.display_nat", n] => n.toNat?.map fun k => out (Rs.display k)
  | ["prelude.as_secs", n] => n.toNat?.map fun k => toString (Rs.as_secs k)
  | ["prelude.duration_since", a, b] => do
      let a ← a.toNat?; let b ← b.toNat?
      pure (match Rs.duration_since a b with | .ok d => s!"ok:{d}" | .error e => s!"err:{Rs.duration e}")
  | _ => none

end Driver.Prelude
