/-
  Driver.Transfer — requests `xfer.*` (C01, byte-level transfer paths).

  xfer.inplace <bs> <hex src> <hex dst>        → <hex result> <changed_blocks> <literal_bytes>
  xfer.cow     <bs> <hex src> <hex dst>        → <hex result> <changed_blocks> <literal_bytes>
  xfer.ratio   <bs> <hex src> <hex dst>        → <sampled> <changed> <use_delta 0|1> <num>/<den>
  xfer.blocks  <bs> <hex src> <hex dst>        → <off>,<src_read>,<dst_read>,<differs 0|1>;…   (`-` when empty)
  xfer.writes  cow|inplace <bs> <hex src> <hex dst> → <off>,<len>;…  in issue order          (`-` when empty)
  xfer.route   <threshold|-> <bs> <cow 0|1> <hex src> <hex dst|absent> [<sparse>]
      threshold `-` = hook unset (production gate 10 MiB); dst `-` = empty file, `absent` = no file;
      <sparse> = `sparse:<off>,<len>;…` (regions the kernel reports, `sparse:-` = none),
                 `sparse-einval` (SEEK_DATA unsupported → block copier); omitted = source not sparse
      → <route> <hex result> <bytes_written> <delta_operations|-> <literal_bytes|-> <mtime carried 0|1>
-/
import Driver.Util
import SyModel.Transfer.BlockCompare
open SyModel SyModel.Transfer

namespace Driver.Transfer
open Driver

def showOpt : Option Nat → String
  | some n => toString n
  | none => "-"

def parseRegion (s : String) : Option SyModel.Compress.Region :=
  match s.splitOn "," with
  | [a, b] => do let o ← a.toNat?; let l ← b.toNat?; pure { offset := o, length := l }
  | _ => none

def parseRegions (s : String) : Option (List SyModel.Compress.Region) :=
  if s == "-" then some [] else (s.splitOn ";").mapM parseRegion

/-- `(srcSparse, seekData)` -/
def parseSparse (s : String) : Option (Bool × Option (List SyModel.Compress.Region)) :=
  if s == "sparse-einval" then some (true, none)
  else if s.startsWith "sparse:" then (parseRegions (s.drop 7).toString).map fun rs => (true, some rs)
  else none

def showTriple (r : Bytes × Nat × Nat) : String := s!"{hex r.1} {r.2.1} {r.2.2}"

def joinOr (l : List String) : String := if l.isEmpty then "-" else ";".intercalate l

/-- source mtime / run time used for the mtime bit of `xfer.route` (any two distinct values). -/
def SRC_MTIME : Nat := 1000000000
def NOW : Nat := 2000000000

def route (thr : Option Nat) (bs : Nat) (cow : Bool) (src : Bytes) (dst : Option Bytes)
    (sp : Bool × Option (List SyModel.Compress.Region)) : String :=
  let cfg : Cfg := { hookThreshold := thr, blockSize := bs, srcSparse := sp.1, seekData := sp.2, useCow := cow }
  let o := syncFileWithDelta cfg { bytes := src, mtime := SRC_MTIME } (dst.map fun d => { bytes := d, mtime := 5 }) NOW
  s!"{o.route.tag} {hex o.file.bytes} {o.bytesWritten} {showOpt o.deltaOps} {showOpt o.literalBytes} {if o.file.mtime == SRC_MTIME then 1 else 0}"

def handle (toks : List String) : Option String :=
  some <|
  match toks with
  | ["xfer.inplace", bs, s, d] =>
    match bs.toNat?, unhex s, unhex d with
    | some bs, some s, some d => showTriple (rebuildInPlace bs s d)
    | _, _, _ => "bad-op"
  | ["xfer.cow", bs, s, d] =>
    match bs.toNat?, unhex s, unhex d with
    | some bs, some s, some d => showTriple (rebuildCow bs s d)
    | _, _, _ => "bad-op"
  | ["xfer.ratio", bs, s, d] =>
    match bs.toNat?, unhex s, unhex d with
    | some bs, some s, some d =>
      if bs = 0 then "bad-op"
      else
        let r := changeRatio bs s d
        s!"{r.sampled} {r.changed} {if r.useDelta then 1 else 0} {r.num}/{r.den}"
    | _, _, _ => "bad-op"
  | ["xfer.blocks", bs, s, d] =>
    match bs.toNat?, unhex s, unhex d with
    | some bs, some s, some d =>
      joinOr ((cmpBlocks (chunkAt BUF_CAP bs) s d).map fun b =>
        s!"{b.off},{b.s.length},{b.d.length},{if b.differs then 1 else 0}")
    | _, _, _ => "bad-op"
  | ["xfer.writes", kind, bs, s, d] =>
    match bs.toNat?, unhex s, unhex d with
    | some bs, some s, some d =>
      let w := if kind == "cow" then (rebuildCowLoop bs s d).writes else (rebuildInPlaceLoop bs s d).writes
      if kind == "cow" || kind == "inplace" then joinOr (w.reverse.map fun p => s!"{p.1},{p.2.length}") else "bad-op"
    | _, _, _ => "bad-op"
  | "xfer.route" :: thr :: bs :: cow :: s :: d :: rest =>
    let thr' : Option (Option Nat) := if thr == "-" then some none else thr.toNat?.map some
    let d' : Option (Option Bytes) := if d == "absent" then some none else (unhex d).map some
    let sp : Option (Bool × Option (List SyModel.Compress.Region)) :=
      match rest with
      | [] => some (false, some [])
      | [x] => parseSparse x
      | _ => none
    match thr', bs.toNat?, unhex s, d', sp with
    | some thr, some bs, some s, some d, some sp =>
      if bs = 0 || !(cow == "0" || cow == "1") then "bad-op" else route thr bs (cow == "1") s d sp
    | _, _, _, _, _ => "bad-op"
  | _ => "bad-op"

end Driver.Transfer
