/-
  Driver.Wire — requests `wire.*` (C04 wire leg).

  wire.encode <ops> <src_size> <bs>          -> hex of the JSON text
  wire.decode <hex-json>                      -> ops=<ops> src=<n> bs=<n> | err
  wire.remote <hex-old> <hex-stdin> <dz>      -> ok <hex-output> | err
      `sy-remote apply-delta` on `stdin`; `dz` is what the real `decompress(stdin, Zstd)` answered
      (`fail` | `na` (not asked: only valid without magic) | hex): the codec is a parameter of the
      model and the driver instantiates it with the observed answer.
-/
import Driver.Util
import Driver.Delta
import SyModel.Delta.Wire
open SyModel SyModel.Delta SyModel.Compress

namespace Driver.Wire
open Driver Driver.Delta

/-- codec whose `decompress` is the observed answer of the real library on this very input. -/
def oracleZ (dz : Option Bytes) : Codec := { compress := fun x => x, decompress := fun _ => dz }

def parseDz (s : String) : Option (Option Bytes) :=
  if s == "fail" || s == "na" then some none else (unhex s).map some

def handle (toks : List String) : Option String :=
  some <|
  match toks with
  | ["wire.encode", ops, ss, bs] =>
    match parseOps ops, ss.toNat?, bs.toNat? with
    | some ops, some ss, some bs => hex (encodeJson { ops := ops, sourceSize := ss, blockSize := bs })
    | _, _, _ => "bad-op"
  | ["wire.decode", h] =>
    match unhex h with
    | some j =>
      match decodeJson j with
      | some d => s!"ops={showOps d.ops} src={d.sourceSize} bs={d.blockSize}"
      | none => "err"
    | none => "bad-op"
  | ["wire.remote", old, stdin, dz] =>
    match unhex old, unhex stdin, parseDz dz with
    | some old, some stdin, some dz =>
      match remoteApply (oracleZ dz) old stdin with
      | some out => s!"ok {hex out}"
      | none => "err"
    | _, _, _ => "bad-op"
  | _ => "bad-op"

end Driver.Wire
