/-
  Driver.Filter — requests `glob.*`, `filter.*` (C16).

  Strings travel as hex of their UTF-8 (`-` = empty). Answers:

    glob.parse <pat>                       -> ok <tokens in Rust Debug shape, chars as 'U+XXXX'> | err <kind> <pos>
    glob.match <pat> <str>                 -> true | false | err <kind> <pos>
    filter.rulematch <i|x><pat> <path> <d|f>  -> true | false | err …      (FilterRule::new + matches)
    filter.spec <line>                     -> none | include <hexpat> | exclude <hexpat> | err empty   (add_rule text part)
    filter.include <rules> <path> <d|f>    -> include rule=<i|none> | exclude rule=<i> | err …
          rules: `-` or `;`-separated items  r<hex> (add_rule) | i<hex> (add_include) | x<hex> (add_exclude)
    glob.universe <pat> <alphabet> <n>     -> 0/1 per string of length 0..n over the alphabet (length-major, lexicographic) | err …
    filter.universe <rules> <names `,`-sep> <depth> -> for every path of 1..depth components over the names, two chars
                                              (as file, as directory): i = include, e = exclude | err …
    filter.scan F=<l> I=<l> X=<l> IF=<l|none> XF=<l|none> T=<l|l|..|-> S=<l|none> min=<n|none> max=<n|none> E=<entries>
          l: `e` (empty list) or `,`-separated items h<hex>;  entries: `-` or `,`-separated <d|f>:<size>:<hexpath>
                                           -> ok <kept hexpaths `,`-separated | -> | err sizes | err …
    filter.single <same fields, E = exactly one entry>   -> the same for a single-file source (`sync_single_file`)
-/
import Driver.Util
import SyModel.Filter.ScanFilter
open SyModel SyModel.Filter

namespace Driver.Filter
open Driver

def unhexStr (s : String) : Option (List Char) := do
  let b ← unhex s
  let str ← String.fromUTF8? (ByteArray.mk b.toArray)
  pure str.toList

def hexStr (cs : List Char) : String :=
  hex (String.ofList cs).toUTF8.toList

/-- split a `/`-joined relative path into components; only clean paths are accepted. -/
def splitSlash (cs : List Char) : List (List Char) :=
  let r := cs.foldr (fun c (acc : List (List Char)) =>
    if c == '/' then [] :: acc
    else match acc with
      | [] => [[c]]
      | h :: t => (c :: h) :: t) [[]]
  r

def parsePath (s : String) : Option RelPath := do
  let cs ← unhexStr s
  if cs.isEmpty then pure []
  else
    let p := splitSlash cs
    if decide (CleanPath p) then pure p else none

def showChar (c : Char) : String :=
  let n := c.toNat
  let digs := (Nat.toDigits 16 n).map Char.toUpper
  let pad := List.replicate (4 - digs.length) '0'
  "'U+" ++ String.ofList (pad ++ digs) ++ "'"

def showSpec : CharSpec → String
  | .single c => s!"SingleChar({showChar c})"
  | .range a b => s!"CharRange({showChar a}, {showChar b})"

def showTok : Token → String
  | .char c => s!"Char({showChar c})"
  | .anyChar => "AnyChar"
  | .anySeq => "AnySequence"
  | .anyRecSeq => "AnyRecursiveSequence"
  | .anyWithin cs => "AnyWithin([" ++ ", ".intercalate (cs.map showSpec) ++ "])"
  | .anyExcept cs => "AnyExcept([" ++ ", ".intercalate (cs.map showSpec) ++ "])"

def showPatErr : PatErr → String
  | .wildcards p => s!"err wildcards {p}"
  | .recursiveWildcards p => s!"err recursive {p}"
  | .invalidRange p => s!"err range {p}"

def showRuleErr : RuleErr → String
  | .emptyPattern => "err empty"
  | .pattern e => showPatErr e

def parseBoolDF (s : String) : Option Bool :=
  if s == "d" then some true else if s == "f" then some false else none

/-- one item of a `filter.include` rule list applied to the engine -/
def applyItem (rs : List Rule) (item : String) : Option (Except RuleErr (List Rule)) :=
  match item.toList with
  | 'r' :: h => do let l ← unhexStr (if h.isEmpty then "-" else String.ofList h); pure (addRule rs l)
  | 'i' :: h => do let l ← unhexStr (if h.isEmpty then "-" else String.ofList h); pure (addPattern rs true l)
  | 'x' :: h => do let l ← unhexStr (if h.isEmpty then "-" else String.ofList h); pure (addPattern rs false l)
  | _ => none

def applyItems : List Rule → List String → Option (Except RuleErr (List Rule))
  | rs, [] => some (.ok rs)
  | rs, it :: rest =>
    match applyItem rs it with
    | none => none
    | some (.error e) => some (.error e)
    | some (.ok rs') => applyItems rs' rest

def parseItems (s : String) : List String :=
  if s == "-" then [] else s.splitOn ";"

/-- `e` = empty list, else `,`-separated `h<hex>` -/
def parseLines (s : String) : Option (List (List Char)) :=
  if s == "e" then some []
  else (s.splitOn ",").mapM fun it =>
    match it.toList with
    | 'h' :: h => unhexStr (if h.isEmpty then "-" else String.ofList h)
    | _ => none

def parseOptLines (s : String) : Option (Option (List (List Char))) :=
  if s == "none" then some none else (parseLines s).map some

def parseOptNat (s : String) : Option (Option Nat) :=
  if s == "none" then some none else s.toNat?.map some

def parseEntry (s : String) : Option Entry :=
  match s.splitOn ":" with
  | [k, sz, p] => do
    let d ← parseBoolDF k
    let n ← sz.toNat?
    let rel ← parsePath p
    if rel.isEmpty then none else pure { rel := rel, isDir := d, size := n }
  | _ => none

def parseEntries (s : String) : Option (List Entry) :=
  if s == "-" then some [] else (s.splitOn ",").mapM parseEntry

def field (name : String) (tok : String) : Option String :=
  let pre := name ++ "="
  if tok.startsWith pre then some ((tok.drop pre.length).toString) else none

def handleScan (single : Bool) (toks : List String) : Option String :=
  match toks with
  | [f, i, x, inf, xf, t, s, mn, mx, e] => do
    let f ← field "F" f >>= parseLines
    let i ← field "I" i >>= parseLines
    let x ← field "X" x >>= parseLines
    let inf ← field "IF" inf >>= parseOptLines
    let xf ← field "XF" xf >>= parseOptLines
    let t ← field "T" t
    let t ← if t == "-" then some [] else (t.splitOn "|").mapM parseLines
    let s ← field "S" s >>= parseOptLines
    let mn ← field "min" mn >>= parseOptNat
    let mx ← field "max" mx >>= parseOptNat
    let e ← field "E" e >>= parseEntries
    let src : RuleSources := { filters := f, includes := i, excludes := x, includeFrom := inf,
                               excludeFrom := xf, templates := t, syignore := s }
    let probe : FilterCfg := { rules := [], minSize := mn, maxSize := mx }
    if !sizeBoundsValid probe then pure "err sizes"
    else
      match buildRules src with
      | .error er => pure (showRuleErr er)
      | .ok rs =>
        let cfg : FilterCfg := { rules := rs, minSize := mn, maxSize := mx }
        let src? : Option Source :=
          if single then (match e with | [x] => some (.singleFile x) | _ => none) else some (.dir e)
        let src ← src?
        let kept := transferSet cfg src
        pure ("ok " ++ (if kept.isEmpty then "-" else ",".intercalate (kept.map fun k => hexStr (pathStr k.rel))))
  | _ => none

/-- all lists of length exactly `n` over `alpha`, lexicographic (first position most significant) -/
def allLists {α : Type} (alpha : List α) : Nat → List (List α)
  | 0 => [[]]
  | n + 1 => alpha.flatMap (fun c => (allLists alpha n).map (c :: ·))

def upTo {α : Type} (alpha : List α) (lo hi : Nat) : List (List α) :=
  ((List.range (hi + 1)).filter (lo ≤ ·)).flatMap (allLists alpha)

def handle (toks : List String) : Option String :=
  some <|
  match toks with
  | ["glob.parse", p] =>
    match unhexStr p with
    | some p =>
      match parse p with
      | .ok ts => "ok [" ++ ", ".intercalate (ts.map showTok) ++ "]"
      | .error e => showPatErr e
    | none => "bad-op"
  | ["glob.match", p, s] =>
    match unhexStr p, unhexStr s with
    | some p, some s =>
      match parse p with
      | .ok ts => toString (globMatch ts s)
      | .error e => showPatErr e
    | _, _ => "bad-op"
  | ["filter.spec", l] =>
    match unhexStr l with
    | some l =>
      match ruleSpec l with
      | .ok none => "none"
      | .ok (some (true, p)) => s!"include {hexStr p}"
      | .ok (some (false, p)) => s!"exclude {hexStr p}"
      | .error e => showRuleErr e
    | none => "bad-op"
  | ["filter.rulematch", r, p, d] =>
    match applyItem [] r, parsePath p, parseBoolDF d with
    | some (.ok [rule]), some p, some d => toString (rule.matches p d)
    | some (.error e), some _, some _ => showRuleErr e
    | _, _, _ => "bad-op"
  | ["filter.include", rules, p, d] =>
    match applyItems [] (parseItems rules), parsePath p, parseBoolDF d with
    | some (.ok rs), some p, some d =>
      let verdict := if shouldInclude rs p d then "include" else "exclude"
      match decidingRule p d rs 0 with
      | some i => s!"{verdict} rule={i}"
      | none => s!"{verdict} rule=none"
    | some (.error e), some _, some _ => showRuleErr e
    | _, _, _ => "bad-op"
  | ["glob.universe", p, alpha, n] =>
    match unhexStr p, unhexStr alpha, n.toNat? with
    | some p, some alpha, some n =>
      match parse p with
      | .ok ts => String.ofList ((upTo alpha 0 n).map fun s => if globMatch ts s then '1' else '0')
      | .error e => showPatErr e
    | _, _, _ => "bad-op"
  | ["filter.universe", rules, names, depth] =>
    match applyItems [] (parseItems rules), (names.splitOn ",").mapM unhexStr, depth.toNat? with
    | some (.ok rs), some names, some depth =>
      if names.all (fun n => cleanName n) then
        String.ofList ((upTo names 1 depth).flatMap fun p =>
          [if shouldInclude rs p false then 'i' else 'e', if shouldInclude rs p true then 'i' else 'e'])
      else "bad-op"
    | some (.error e), some _, some _ => showRuleErr e
    | _, _, _ => "bad-op"
  | "filter.scan" :: rest => (handleScan false rest).getD "bad-op"
  | "filter.single" :: rest => (handleScan true rest).getD "bad-op"
  | _ => "bad-op"

end Driver.Filter
