/-
  Driver.Delta — requests `adler.*`, `delta.*` (C04).
-/
import Driver.Util
import SyModel.Delta.Stream
open SyModel SyModel.Delta

namespace Driver.Delta
open Driver

def showOp : Op → String
  | .copy o s => s!"C{o},{s}"
  | .data d => s!"D{hex d}"

def showOps (ops : List Op) : String :=
  if ops.isEmpty then "-" else ";".intercalate (ops.map showOp)

def parseOp (s : String) : Option Op :=
  match s.toList with
  | 'C' :: rest =>
    match (String.ofList rest).splitOn "," with
    | [a, b] => do let o ← a.toNat?; let z ← b.toNat?; pure (.copy o z)
    | _ => none
  | 'D' :: rest => do let d ← unhex (String.ofList rest); pure (.data d)
  | _ => none

def parseOps (s : String) : Option (List Op) :=
  if s == "-" then some [] else (s.splitOn ";").mapM parseOp

def showBlocks (bs : List (Block Bytes)) : String :=
  if bs.isEmpty then "-" else ";".intercalate (bs.map fun c => s!"{c.offset},{c.size},{c.weak}")

instance : BEq Bytes := inferInstance

def handle (toks : List String) : Option String :=
  some <|
  match toks with
  | ["adler.hash", h] =>
    match unhex h with
    | some d => toString (hashBytes d)
    | none => "bad-op"
  | ["adler.roll", n, h, k] =>
    match n.toNat?, unhex h, k.toNat? with
    | some n, some d, some k =>
      if n = 0 ∨ d.length < k + n then "bad-op"
      else toString (rollN n (Adler.ofBlock (d.take n)) d k).digest
    | _, _, _ => "bad-op"
  | ["delta.checksums", bs, old] =>
    match bs.toNat?, unhex old with
    | some bs, some old => if bs = 0 then "bad-op" else showBlocks (checksums id bs old)
    | _, _ => "bad-op"
  | ["delta.gen", kind, bs, chunk, old, new] =>
    match bs.toNat?, chunk.toNat?, unhex old, unhex new with
    | some bs, some chunk, some old, some new =>
      if bs = 0 then "bad-op"
      else
        let cs := checksums id bs old
        if kind == "mem" then showOps (genMem id cs bs new)
        else if kind == "stream" then
          match genStream id cs bs chunk new with
          | some ops => showOps ops
          | none => "bad-op"
        else "bad-op"
    | _, _, _, _ => "bad-op"
  | ["delta.apply", old, ops] =>
    match unhex old, parseOps ops with
    | some old, some ops =>
      match applyOps old ops with
      | some r => s!"ok {hex r}"
      | none => "err eof"
    | _, _ => "bad-op"
  | _ => "bad-op"

end Driver.Delta
