/-
  Driver.Compress — requests `compress.*`, `sparse.*` (C14).

  compress.ext <hex-name>                                         -> 0|1
  compress.smart <hex-name> <size> <local 0|1> <mode> <sample>    -> none|lz4|zstd
        mode: auto|extension|always|never ; sample: nopath | err | r<compressed>,<sampled>
  compress.adaptive <hex-name> <size> <local 0|1>                 -> none|lz4|zstd
  compress.send <decision> <hex-x> <mtime_ns|-> <hex-zstd(x)|na> <hex-lz4(x)|na>
                                                                  -> helper <hex-stdin> <secs|-> | sftp <hex> <secs|->
  compress.recv <hex-stdin> <secs|-> <dz>                         -> ok <hex-content> <secs|-> | err
        dz: the real `decompress(stdin, Zstd)` answer: fail | na | hex
  sparse.issparse remote|local <allocated> <size>                 -> 0|1
  sparse.json <regions>                                           -> hex of the regions JSON
  sparse.gather <hex-content> <regions>                           -> ok <hex> | err
  sparse.send <hex-content> <err|regions> <mtime_ns|->            -> fallback | helper <total> <hex-json> <hex-stdin> <secs|->
  sparse.recv <total> <hex-regions-json> <hex-stdin> <secs|->     -> ok <hex-content> <secs|-> | err
  sparse.localseek <hex-content> <regions>                        -> <hex>
  sparse.localblocks <hex-content>                                -> <hex>
        regions: `-` or `off,len;off,len;…` ; `_` stands for "absent" where `-` is the empty byte string
-/
import Driver.Util
import SyModel.Compress.Sparse
import SyModel.Generated.Consts
open SyModel SyModel.Compress

namespace Driver.Compress
open Driver

def showC : Compression → String
  | .none => "none" | .lz4 => "lz4" | .zstd => "zstd"

def parseC (s : String) : Option Compression :=
  if s == "none" then some .none else if s == "lz4" then some .lz4 else if s == "zstd" then some .zstd else none

def parseMode (s : String) : Option Detection :=
  if s == "auto" then some .auto else if s == "extension" then some .extension
  else if s == "always" then some .always else if s == "never" then some .never else none

def parseSample (s : String) : Option Sample :=
  if s == "nopath" then some .noPath
  else if s == "err" then some .err
  else match s.toList with
    | 'r' :: rest =>
      match (String.ofList rest).splitOn "," with
      | [a, b] => do let c ← a.toNat?; let n ← b.toNat?; pure (.ratio c n)
      | _ => none
    | _ => none

def parseBool (s : String) : Option Bool :=
  if s == "1" then some true else if s == "0" then some false else none

/-- hex of UTF-8 → `List Char` (`none` for invalid UTF-8). -/
def parseName (s : String) : Option (List Char) := do
  let b ← unhex s
  let str ← String.fromUTF8? ⟨b.toArray⟩
  pure str.toList

/-- `_` = absent, otherwise a natural number -/
def parseOptNat (s : String) : Option (Option Nat) :=
  if s == "_" then some none else s.toNat?.map some

def showOptNat : Option Nat → String
  | none => "_"
  | some n => toString n

def parseRegion (s : String) : Option Region :=
  match s.splitOn "," with
  | [a, b] => do let o ← a.toNat?; let l ← b.toNat?; pure { offset := o, length := l }
  | _ => none

def parseRegions (s : String) : Option (List Region) :=
  if s == "-" then some [] else (s.splitOn ";").mapM parseRegion

/-- codecs instantiated with the answers the real library gave on this very input. -/
def oracleC (c : Bytes) (d : Option Bytes) : Codec := { compress := fun _ => c, decompress := fun _ => d }

def parseDz (s : String) : Option (Option Bytes) :=
  if s == "fail" || s == "na" then some none else (unhex s).map some

def parseNa (s : String) : Option Bytes :=
  if s == "na" then some [] else unhex s

def showRoute : Route → String
  | .helper stdin m => s!"helper {hex stdin} {showOptNat m}"
  | .sftp c m => s!"sftp {hex c} {showOptNat m}"

def showRemote : Option RemoteFile → String
  | some f => s!"ok {hex f.content} {showOptNat f.mtimeSec}"
  | none => "err"

def handle (toks : List String) : Option String :=
  some <|
  match toks with
  | ["compress.ext", n] =>
    match parseName n with
    | some n => if isCompressedExtension n then "1" else "0"
    | none => "bad-op"
  | ["compress.smart", n, size, loc, mode, sample] =>
    match parseName n, size.toNat?, parseBool loc, parseMode mode, parseSample sample with
    | some n, some size, some loc, some mode, some sample =>
      showC (shouldCompressSmart { name := n, size := size, isLocal := loc, mode := mode, sample := sample })
    | _, _, _, _, _ => "bad-op"
  | ["compress.adaptive", n, size, loc] =>
    match parseName n, size.toNat?, parseBool loc with
    | some n, some size, some loc => showC (shouldCompressAdaptive n size loc)
    | _, _, _ => "bad-op"
  | ["compress.send", dec, x, mt, zc, lc] =>
    match parseC dec, unhex x, parseOptNat mt, parseNa zc, parseNa lc with
    | some dec, some x, some mt, some zc, some lc =>
      showRoute (sendFile (oracleC lc none) (oracleC zc none) dec x mt)
    | _, _, _, _, _ => "bad-op"
  | ["compress.recv", stdin, mt, dz] =>
    match unhex stdin, parseOptNat mt, parseDz dz with
    | some stdin, some mt, some dz => showRemote (receiveFile (oracleC [] dz) stdin mt)
    | _, _, _ => "bad-op"
  | ["compress.recvover", prior, stdin, mt, dz] =>
    -- the same over an existing destination (`-` = nothing there), with the open mode the source has now
    let prior' : Option (Option Bytes) := if prior == "-" then some none else (unhex prior).map some
    match prior', unhex stdin, parseOptNat mt, parseDz dz with
    | some prior, some stdin, some mt, some dz =>
      showRemote (receiveFileOver (OpenMode.ofTruncates SyModel.Generated.HELPER_RECEIVE_FILE_TRUNCATES)
        (oracleC [] dz) prior stdin mt)
    | _, _, _, _ => "bad-op"
  | ["sparse.recvover", prior, total, regs, stdin, mt] =>
    let prior' : Option (Option Bytes) := if prior == "-" then some none else (unhex prior).map some
    match prior', total.toNat?, unhex regs, unhex stdin, parseOptNat mt with
    | some prior, some total, some regs, some stdin, some mt =>
      showRemote (receiveSparseFileOver (OpenMode.ofTruncates SyModel.Generated.HELPER_SPARSE_TRUNCATES)
        prior total regs stdin mt)
    | _, _, _, _, _ => "bad-op"
  | ["sparse.issparse", which, alloc, size] =>
    match alloc.toNat?, size.toNat? with
    | some a, some s =>
      if which == "remote" then (if isSparseRemote a s then "1" else "0")
      else if which == "local" then (if isSparseLocal a s then "1" else "0")
      else "bad-op"
    | _, _ => "bad-op"
  | ["sparse.json", rs] =>
    match parseRegions rs with
    | some rs => hex (encodeRegions rs)
    | none => "bad-op"
  | ["sparse.gather", c, rs] =>
    match unhex c, parseRegions rs with
    | some c, some rs =>
      match gather c rs with
      | some b => s!"ok {hex b}"
      | none => "err"
    | _, _ => "bad-op"
  | ["sparse.send", c, det, mt] =>
    let det' : Option (Option (List Region)) := if det == "err" then some none else (parseRegions det).map some
    match unhex c, det', parseOptNat mt with
    | some c, some det, some mt =>
      match sendSparse c det mt with
      | .fallback => "fallback"
      | .helper total regs stdin m => s!"helper {total} {hex regs} {hex stdin} {showOptNat m}"
    | _, _, _ => "bad-op"
  | ["sparse.recv", total, regs, stdin, mt] =>
    match total.toNat?, unhex regs, unhex stdin, parseOptNat mt with
    | some total, some regs, some stdin, some mt => showRemote (receiveSparseFile total regs stdin mt)
    | _, _, _, _ => "bad-op"
  | ["sparse.localseek", c, rs] =>
    match unhex c, parseRegions rs with
    | some c, some rs => hex (localSeek c rs)
    | _, _ => "bad-op"
  | ["sparse.localblocks", c] =>
    match unhex c with
    | some c => hex (localBlocks c)
    | none => "bad-op"
  | _ => "bad-op"

end Driver.Compress
