/-
  Driver.Steps — requests `steps.*` (step-level model of task execution; C05, C09).

  steps.of  <cfg> <deltaThreshold> <chunk> <task> <oldnode|-> [hint]
      → the step list of the task, short form (what the strace refinement compares):
        mkdir:<path>;unlinkIfSymlink:<path>;openTrunc:<path>;grow:<path>:<upto>;utimens:<path>;
        createTemp:<path>;rename:<from>:<to>;unlink:<path>;removeTree:<path>;symlink:<path>;
        setLen:<path>:<size>;fill:<path>:<upto>          (`-` = empty list)
  steps.ofx <cfg> <deltaThreshold> <chunk> <task> <oldnode|-> [hint]
      → the same list, full form (every parameter; the input syntax of steps.replay):
        openTrunc:<path>:<cid>:<now>  grow:<path>:<cid>:<upto>  utimens:<path>:<mtime>
        createTemp:<path>:<cid>  rename:<from>:<to>:<cid>:<size>:<mtime>  symlink:<path>:<hextext>
        setLen:<path>:<cid>:<size>  fill:<path>:<cid>:<upto>   (mkdir/unlink/unlinkIfSymlink/removeTree as above)
  steps.replay <initial entries> <step list (full form)>
      → `<path>:<node>` for every mentioned path (initial entries, step paths), sorted;
        node = D | F<cid>.<len>.<mtime> | L<hextext> | T<cid> | H<cid>.<size>.<done>.<mtime> | -
        initial entries: `<path>:<node>` with the same node syntax (`;`-separated, `-` = none)
  steps.temp <path>        → the temp path of a destination path (suffix from Generated.TEMP_SUFFIX)
  steps.tempold <path>     → the temp path under the naming before commit 0c4aecb

    cfg, path, oldnode: as in Driver.Engine (`parseCfg`, `parsePath`, `parseDNode`)
    task : <act c|u|s|d>:<path>:<payload D|F<content>.<size>.<mtime>.<ino>.<nlink>|L<hextext>|N>
    hint : k=v,… with route=delta|full|followed|sparseSeek|sparseBlocks  break=0|1  now=<n>
-/
import Driver.Util
import Driver.Engine
import SyModel.Engine.Steps
import SyModel.Generated.Consts
open SyModel SyModel.Engine

namespace Driver.Steps
open Driver Driver.Engine

def parseAct (s : String) : Option Act :=
  match s with
  | "c" => some .create | "u" => some .update | "s" => some .skip | "d" => some .delete | _ => none

def parsePayload (s : String) : Option Payload :=
  match s.toList with
  | ['D'] => some .dir
  | ['N'] => some .nothing
  | 'F' :: r =>
    match (String.ofList r).splitOn "." with
    | [c, sz, mt, ino, nl] => do
      pure (.file { content := ← c.toNat?, size := ← sz.toNat?, mtime := ← mt.toNat?, xattrs := [], ino := ← ino.toNat? } (← nl.toNat?))
    | _ => none
  | 'L' :: r => do pure (.symlink (← unhexStr (String.ofList r)))
  | _ => none

def parseTask (s : String) : Option Task :=
  match s.splitOn ":" with
  | [a, p, pl] => do pure { act := ← parseAct a, rel := ← parsePath p, payload := ← parsePayload pl }
  | _ => none

def parseRoute (s : String) : Option Route :=
  match s with
  | "delta" => some .delta | "full" => some .full | "followed" => some .followed
  | "sparseSeek" => some .sparseSeek | "sparseBlocks" => some .sparseBlocks | _ => none

def parseHint (s : String) : Option Hint := do
  let m ← (s.splitOn ",").mapM fun x => match x.splitOn "=" with | [a, b] => some (a, b) | _ => none
  let route ← match kv m "route" with | some r => parseRoute r | none => some Route.delta
  let brk ← match kv m "break" with | some b => parseBool b | none => some false
  let now ← match kv m "now" with | some n => n.toNat? | none => some 0
  pure { route := route, breakLink := brk, now := now }

def parseOld (s : String) : Option (Option DNode) :=
  if s == "-" then some none else (parseDNode s).map some

def showStep (full : Bool) : Step → String
  | .mkdir p => s!"mkdir:{showPath p}"
  | .unlinkIfSymlink p => s!"unlinkIfSymlink:{showPath p}"
  | .openTrunc p c now => if full then s!"openTrunc:{showPath p}:{c}:{now}" else s!"openTrunc:{showPath p}"
  | .grow p c u => if full then s!"grow:{showPath p}:{c}:{u}" else s!"grow:{showPath p}:{u}"
  | .utimens p mt => if full then s!"utimens:{showPath p}:{mt}" else s!"utimens:{showPath p}"
  | .createTemp q c => if full then s!"createTemp:{showPath q}:{c}" else s!"createTemp:{showPath q}"
  | .rename q p c sz mt =>
    if full then s!"rename:{showPath q}:{showPath p}:{c}:{sz}:{mt}" else s!"rename:{showPath q}:{showPath p}"
  | .unlink p => s!"unlink:{showPath p}"
  | .removeTree p => s!"removeTree:{showPath p}"
  | .symlink p t => if full then s!"symlink:{showPath p}:{hexStr t}" else s!"symlink:{showPath p}"
  | .setLen p c sz => if full then s!"setLen:{showPath p}:{c}:{sz}" else s!"setLen:{showPath p}:{sz}"
  | .fill p c u => if full then s!"fill:{showPath p}:{c}:{u}" else s!"fill:{showPath p}:{u}"

def showSteps (full : Bool) (l : List Step) : String :=
  if l.isEmpty then "-" else ";".intercalate (l.map (showStep full))

def parseStep (s : String) : Option Step :=
  match s.splitOn ":" with
  | ["mkdir", p] => do pure (.mkdir (← parsePath p))
  | ["unlinkIfSymlink", p] => do pure (.unlinkIfSymlink (← parsePath p))
  | ["openTrunc", p, c, now] => do pure (.openTrunc (← parsePath p) (← c.toNat?) (← now.toNat?))
  | ["grow", p, c, u] => do pure (.grow (← parsePath p) (← c.toNat?) (← u.toNat?))
  | ["utimens", p, mt] => do pure (.utimens (← parsePath p) (← mt.toNat?))
  | ["createTemp", q, c] => do pure (.createTemp (← parsePath q) (← c.toNat?))
  | ["rename", q, p, c, sz, mt] => do
    pure (.rename (← parsePath q) (← parsePath p) (← c.toNat?) (← sz.toNat?) (← mt.toNat?))
  | ["unlink", p] => do pure (.unlink (← parsePath p))
  | ["removeTree", p] => do pure (.removeTree (← parsePath p))
  | ["symlink", p, t] => do pure (.symlink (← parsePath p) (← unhexStr t))
  | ["setLen", p, c, sz] => do pure (.setLen (← parsePath p) (← c.toNat?) (← sz.toNat?))
  | ["fill", p, c, u] => do pure (.fill (← parsePath p) (← c.toNat?) (← u.toNat?))
  | _ => none

def parseSNode (s : String) : Option SNode :=
  match s.toList with
  | ['D'] => some .dir
  | 'F' :: r =>
    match (String.ofList r).splitOn "." with
    | [c, l, mt] => do pure (.file (← c.toNat?) (← l.toNat?) (← mt.toNat?))
    | _ => none
  | 'L' :: r => do pure (.symlink (← unhexStr (String.ofList r)))
  | 'T' :: r => do pure (.temp (← (String.ofList r).toNat?))
  | 'H' :: r =>
    match (String.ofList r).splitOn "." with
    | [c, sz, d, mt] => do pure (.holey (← c.toNat?) (← sz.toNat?) (← d.toNat?) (← mt.toNat?))
    | _ => none
  | _ => none

def showSNode : Option SNode → String
  | none => "-"
  | some .dir => "D"
  | some (.file c l mt) => s!"F{c}.{l}.{mt}"
  | some (.symlink t) => s!"L{hexStr t}"
  | some (.temp c) => s!"T{c}"
  | some (.holey c sz d mt) => s!"H{c}.{sz}.{d}.{mt}"

def parseSEntryNode (s : String) : Option (Path × SNode) :=
  match s.splitOn ":" with
  | [p, n] => do pure (← parsePath p, ← parseSNode n)
  | _ => none

/-- the world of a finite list of entries -/
def worldOf (l : List (Path × SNode)) : SWorld := fun p => (l.find? (·.1 == p)).map (·.2)

def stepPaths : Step → List Path
  | .rename q p .. => [q, p]
  | s => [s.path]

def dedup (l : List Path) : List Path := l.foldl (fun acc p => if acc.contains p then acc else acc ++ [p]) []

def replay (init : List (Path × SNode)) (steps : List Step) : String :=
  let w := applyAll steps (worldOf init)
  let paths := dedup (init.map (·.1) ++ steps.flatMap stepPaths)
  sorted (paths.map fun p => s!"{showPath p}:{showSNode (w p)}")

def stepsFor (toks : List String) : Option (List Step) :=
  match toks with
  | cfg :: thr :: chunk :: task :: old :: rest => do
    let (cfg, _) ← parseCfg cfg
    let h ← match rest with | [] => some ({} : Hint) | [h] => parseHint h | _ => none
    pure (stepsOfH cfg (← thr.toNat?) (← chunk.toNat?) Generated.TEMP_SUFFIX h (← parseOld old) (← parseTask task))
  | _ => none

def handle (toks : List String) : Option String :=
  some <| match toks with
  | "steps.of" :: rest => match stepsFor rest with | some l => showSteps false l | none => "bad-op"
  | "steps.ofx" :: rest => match stepsFor rest with | some l => showSteps true l | none => "bad-op"
  | ["steps.replay", init, steps] =>
    match parseList parseSEntryNode init, parseList parseStep steps with
    | some init, some steps => replay init steps
    | _, _ => "bad-op"
  | ["steps.temp", p] => match parsePath p with | some p => showPath (tempOf Generated.TEMP_SUFFIX p) | none => "bad-op"
  | ["steps.tempold", p] => match parsePath p with | some p => showPath (tempOfOld p) | none => "bad-op"
  | _ => "bad-op"

end Driver.Steps
