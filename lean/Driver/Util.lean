/-
  Driver.Util — hex and small parsing helpers shared by the per-area request handlers.
-/
import SyModel.Basic
open SyModel

namespace Driver

def hexVal (c : Char) : Option Nat :=
  if '0' ≤ c ∧ c ≤ '9' then some (c.toNat - '0'.toNat)
  else if 'a' ≤ c ∧ c ≤ 'f' then some (c.toNat - 'a'.toNat + 10)
  else none

def unhexGo : List Char → List UInt8 → Option Bytes
  | [], acc => some acc.reverse
  | [_], _ => none
  | a :: b :: t, acc =>
    match hexVal a, hexVal b with
    | some x, some y => unhexGo t (UInt8.ofNat (x * 16 + y) :: acc)
    | _, _ => none

/-- `-` is the empty string. -/
def unhex (s : String) : Option Bytes :=
  if s == "-" then some [] else unhexGo s.toList []

def hexDigit (n : Nat) : Char :=
  if n < 10 then Char.ofNat (n + '0'.toNat) else Char.ofNat (n - 10 + 'a'.toNat)

def hex (b : Bytes) : String :=
  if b.isEmpty then "-"
  else String.ofList (b.foldr (fun x acc => hexDigit (x.toNat / 16) :: hexDigit (x.toNat % 16) :: acc) [])

end Driver
