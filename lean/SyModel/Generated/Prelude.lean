/-
  SyModel.Generated.Prelude — the handwritten, TRUSTED vocabulary the translated code (Generated/Code/*.lean,
  written by tools/rs2lean.py from /repo's Rust source on every run) is expressed in.

  Each `Rs.x` below is the meaning given to the Rust standard-library method or type `x` wherever the
  translator meets it; no type inference is performed, so methods that exist on several Rust types are
  type classes here.  This file is part of the trusted base (DESIGN §8): a wrong definition here
  misrepresents the code, and it is validated only indirectly (the translated functions are proved equal
  to the handwritten model, and the handwritten model is run against the real code by the K streams).
-/
namespace SyModel.Generated
namespace Rs

/-- types the translator does not look into (hash maps of xattrs, verifier handles, …) -/
structure Opaque where
  deriving DecidableEq, Repr, Inhabited

/-- `str` / `String`: the characters (string literals of the source become explicit character lists, which
    reduce in the kernel) -/
abbrev Str := List Char
/-- `std::path::Path{,Buf}`: the path text (units that need the component structure override this) -/
abbrev Path := List Char
/-- `std::time::SystemTime`: nanoseconds since the epoch (total order is all the translated code uses) -/
abbrev SystemTime := Nat
/-- `std::time::Duration`: nanoseconds -/
abbrev Duration := Nat
/-- `crate::error::SyncError` / `anyhow::Error` / `io::Error`: the message is not modelled -/
inductive Err where
  | io | config (msg : Str) | other
  deriving DecidableEq, Repr, Inhabited

/-- `x as T` -/
class Cast (α β : Type) where
  cast : α → β
export Cast (cast)
instance : Cast Nat Nat := ⟨id⟩
instance : Cast UInt8 Nat := ⟨UInt8.toNat⟩
instance : Cast UInt8 UInt32 := ⟨UInt8.toUInt32⟩
instance : Cast UInt8 UInt64 := ⟨UInt8.toUInt64⟩
instance : Cast UInt32 UInt64 := ⟨UInt32.toUInt64⟩
instance : Cast UInt64 UInt32 := ⟨UInt64.toUInt32⟩   -- truncating, as `as u32`
instance : Cast UInt32 UInt32 := ⟨id⟩
instance : Cast UInt64 UInt64 := ⟨id⟩
instance : Cast UInt32 Nat := ⟨UInt32.toNat⟩
instance : Cast UInt64 Nat := ⟨UInt64.toNat⟩
/-- `n as f64` with `f64` idealised as ℚ (exact for |n| < 2^53; DESIGN §8) -/
instance : Cast Nat Rat := ⟨fun n => (n : Rat)⟩

def is_some (o : Option α) : Bool := o.isSome
def is_none (o : Option α) : Bool := o.isNone
/-- `Option::unwrap` on a value the code has just tested with `is_some` — `default` stands for the panic -/
def unwrap [Inhabited α] (o : Option α) : α := o.getD default

class UnwrapOr (γ : Type) (α : outParam Type) where
  unwrap_or : γ → α → α
export UnwrapOr (unwrap_or)
instance : UnwrapOr (Option α) α := ⟨fun o d => o.getD d⟩
instance : UnwrapOr (Except ε α) α := ⟨fun r d => match r with | .ok v => v | .error _ => d⟩

class Len (γ : Type) where
  len : γ → Nat
export Len (len)
instance : Len (List α) := ⟨List.length⟩
def is_empty [Len γ] (x : γ) : Bool := len x == 0

/-- `iter().filter(p)` -/
def filter (l : List α) (p : α → Bool) : List α := l.filter p
/-- `iter().count()` -/
def count (l : List α) : Nat := l.length
def any (l : List α) (p : α → Bool) : Bool := l.any p
def all (l : List α) (p : α → Bool) : Bool := l.all p
def contains [BEq α] (l : List α) (x : α) : Bool := l.contains x
def min (a b : Nat) : Nat := Nat.min a b
def max (a b : Nat) : Nat := Nat.max a b
def saturating_sub (a b : Nat) : Nat := a - b
def abs_diff (a b : Nat) : Nat := if a ≤ b then b - a else a - b

/-- `SystemTime::duration_since(earlier)`: `Ok(self - earlier)` or `Err(SystemTimeError)` carrying `earlier - self` -/
structure SystemTimeError where
  dur : Duration
  deriving DecidableEq, Repr
def duration_since (a b : SystemTime) : Except SystemTimeError Duration :=
  if b ≤ a then .ok (a - b) else .error ⟨b - a⟩
/-- `SystemTimeError::duration` -/
def duration (e : SystemTimeError) : Duration := e.dur
/-- `Duration::as_secs` -/
def as_secs (d : Duration) : Nat := d / 1000000000

/-- ASCII lower-casing of one character -/
def lowerAscii (c : Char) : Char := if 'A' ≤ c ∧ c ≤ 'Z' then Char.ofNat (c.toNat + 32) else c
/-- `str::to_lowercase` restricted to ASCII letters (the strings it is compared against are ASCII literals;
    non-ASCII input can never equal them, before or after Unicode lower-casing … except `K` (KELVIN SIGN) and
    `İ`, which lower-case into ASCII: stated in DESIGN §8) -/
def to_lowercase (s : Str) : Str := s.map lowerAscii
/-- `str::eq_ignore_ascii_case` -/
def eq_ignore_ascii_case (a b : Str) : Bool := a.map lowerAscii == b.map lowerAscii
/-- pieces of `s` between occurrences of `c`, in order (`str::split`) -/
def splitAux (c : Char) : Str → Str → List Str
  | [], cur => [cur.reverse]
  | x :: t, cur => if x == c then cur.reverse :: splitAux c t [] else splitAux c t (x :: cur)
def split (s : Str) (c : Char) : List Str := splitAux c s []
/-- `str::rsplit(c)`: the same pieces, last piece first -/
def rsplit (s : Str) (c : Char) : List Str := (split s c).reverse
/-- `as_str()` -/
class AsStr (γ : Type) where
  as_str : γ → Str
export AsStr (as_str)
instance : AsStr Str := ⟨id⟩
/-- `to_str()`: `Some` of the text (names that are not valid UTF-8 are outside the model) -/
class ToStr (γ : Type) where
  to_str : γ → Option Str
export ToStr (to_str)
def ends_with (s : Str) (c : Char) : Bool := s.getLast? == some c
/-- `starts_with` (of `str` with a `char`; of `Path` with a `Path`: component-wise, see PreludeFilter) -/
class StartsWith (γ δ : Type) where
  starts_with : γ → δ → Bool
export StartsWith (starts_with)
instance : StartsWith Str Char := ⟨fun s c => s.head? == some c⟩
/-- `Iterator::next` on a fresh iterator: the first element -/
def next (l : List α) : Option α := l.head?

end Rs
end SyModel.Generated
