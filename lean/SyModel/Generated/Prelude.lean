/-
  SyModel.Generated.Prelude — the handwritten, TRUSTED vocabulary the translated code (Generated/Code/*.lean,
  written by tools/rs2lean.py from /repo's Rust source on every run) is expressed in.

  Each `Rs.x` below is the meaning given to the Rust standard-library method or type `x` wherever the
  translator meets it; no type inference is performed, so methods that exist on several Rust types are
  type classes here.  This file is part of the trusted base (DESIGN §8): a wrong definition here
  misrepresents the code, and it is validated only indirectly (the translated functions are proved equal
  to the handwritten model, and the handwritten model is run against the real code by the K streams).
-/
namespace SyModel.Generated
namespace Rs

/-- types the translator does not look into (hash maps of xattrs, verifier handles, …) -/
structure Opaque where
  deriving DecidableEq, Repr, Inhabited

/-- `str` / `String`: the characters (string literals of the source become explicit character lists, which
    reduce in the kernel) -/
abbrev Str := List Char
/-- `std::path::Path{,Buf}`: the path text (units that need the component structure override this) -/
abbrev Path := List Char
/-- `std::time::SystemTime`: nanoseconds since the epoch (total order is all the translated code uses) -/
abbrev SystemTime := Nat
/-- `std::time::Duration`: nanoseconds -/
abbrev Duration := Nat
/-- `crate::error::SyncError` / `anyhow::Error` / `io::Error`: the message is not modelled -/
inductive Err where
  | io | config (msg : Str) | other
  deriving DecidableEq, Repr, Inhabited

/-- `x as T` -/
class Cast (α β : Type) where
  cast : α → β
export Cast (cast)
instance : Cast Nat Nat := ⟨id⟩
instance : Cast UInt8 Nat := ⟨UInt8.toNat⟩
instance : Cast UInt8 UInt32 := ⟨UInt8.toUInt32⟩
instance : Cast UInt8 UInt64 := ⟨UInt8.toUInt64⟩
instance : Cast UInt32 UInt64 := ⟨UInt32.toUInt64⟩
instance : Cast UInt64 UInt32 := ⟨UInt64.toUInt32⟩   -- truncating, as `as u32`
instance : Cast UInt32 UInt32 := ⟨id⟩
instance : Cast UInt64 UInt64 := ⟨id⟩
instance : Cast UInt32 Nat := ⟨UInt32.toNat⟩
instance : Cast UInt64 Nat := ⟨UInt64.toNat⟩
/-- `n as f64` with `f64` idealised as ℚ (exact for |n| < 2^53; DESIGN §8) -/
instance : Cast Nat Rat := ⟨fun n => (n : Rat)⟩

def is_some (o : Option α) : Bool := o.isSome
def is_none (o : Option α) : Bool := o.isNone
/-- `Option::unwrap` on a value the code has just tested with `is_some` — `default` stands for the panic -/
def unwrap [Inhabited α] (o : Option α) : α := o.getD default

class UnwrapOr (γ : Type) (α : outParam Type) where
  unwrap_or : γ → α → α
export UnwrapOr (unwrap_or)
instance : UnwrapOr (Option α) α := ⟨fun o d => o.getD d⟩
instance : UnwrapOr (Except ε α) α := ⟨fun r d => match r with | .ok v => v | .error _ => d⟩

class Len (γ : Type) where
  len : γ → Nat
export Len (len)
instance : Len (List α) := ⟨List.length⟩
def is_empty [Len γ] (x : γ) : Bool := len x == 0

/-- `HashMap<K, V>` / `BTreeMap`: an association list, newest binding first (iteration order is never relied on by
    the translated functions: they only `get`, `insert`, `remove`, `contains_key`) -/
abbrev HashMap (κ ν : Type) := List (κ × ν)
abbrev HashSet (κ : Type) := List κ
/-- `map.get(&k)` -/
def get [BEq κ] (m : HashMap κ ν) (k : κ) : Option ν := (m.find? (fun p => p.1 == k)).map (·.2)
def contains_key [BEq κ] (m : HashMap κ ν) (k : κ) : Bool := m.any (fun p => p.1 == k)
/-- `map.insert(k, v);` as a statement (the returned old value is discarded) -/
def insert_mut [BEq κ] (m : HashMap κ ν) (k : κ) (v : ν) : HashMap κ ν := (k, v) :: m.filter (fun p => !(p.1 == k))
/-- `map.remove(&k);` as a statement -/
def remove_mut [BEq κ] (m : HashMap κ ν) (k : κ) : HashMap κ ν := m.filter (fun p => !(p.1 == k))
/-- `v.push(x);` on a field -/
def push_mut (l : List α) (x : α) : List α := l ++ [x]
def clear_mut (l : List α) : List α := []
def clear (l : List α) : List α := []

/-! ### effect units: functions that read or change the outside world -/
/-- the monad of translated effectful code over a world `W`: the state is INSIDE the exception layer, so a failing
    operation keeps the changes made before it — as in Rust, where `?` only returns early -/
abbrev M (W : Type) := ExceptT Err (StateM W)
/-- a `Result`-returning effectful call whose result is kept as a value (`let r = f(..); match r { Ok(..) .. Err(..) .. }`) -/
def capture {W α : Type} (x : M W α) : M W (Except Err α) := ExceptT.lift x.run
/-- `e?` on a `Result` VALUE -/
def liftE {W α : Type} (e : Except Err α) : M W α := match e with | .ok v => pure v | .error x => throw x
/-- `Result::ok` -/
def ok (r : Except ε α) : Option α := match r with | .ok v => some v | .error _ => none
/-- `std::fs::Metadata` as far as the translated code looks at it -/
structure Metadata where
  dir : Bool
  mtime : SystemTime
  size : Nat
  deriving DecidableEq, Repr, Inhabited
def is_dir (m : Metadata) : Bool := m.dir
def modified (m : Metadata) : Except Err SystemTime := .ok m.mtime
instance : Len Metadata := ⟨fun m => m.size⟩
/-- what `symlink_metadata` (lstat) reports: the kind of the entry ITSELF -/
inductive EntryKind where
  | file | dir | symlink
  deriving DecidableEq, Repr, Inhabited
structure LMetadata where
  kind : EntryKind
  nlink : Nat
  deriving DecidableEq, Repr, Inhabited
def l_is_dir (m : LMetadata) : Bool := m.kind == .dir
def l_is_file (m : LMetadata) : Bool := m.kind == .file
/-- `Metadata::file_type()` followed by `is_symlink()` -/
def l_file_type (m : LMetadata) : EntryKind := m.kind
def l_is_symlink (k : EntryKind) : Bool := k == .symlink
/-- `v[i]` behind a length test (`default` stands for the out-of-bounds panic) -/
def index [Inhabited α] (l : List α) (i : Nat) : α := l.getD i default
/-- `&l[lo..hi]`.  Rust panics when `lo > hi` or `hi > l.len()`; totalised here — the translated code guards every use,
    and the bridge theorems show the guards (unit Delta) -/
def slice (l : List α) (lo hi : Nat) : List α := (l.drop lo).take (hi - lo)
/-- `&l[lo..]` (Rust panics when `lo > l.len()`) -/
def slice_from (l : List α) (lo : Nat) : List α := l.drop lo
/-- `l.drain(lo..hi)` as a statement: what stays in `l` -/
def drain_range (l : List α) (lo hi : Nat) : List α := l.take lo ++ l.drop hi
/-- `m.entry(k).or_default().push(v)` for a `HashMap<K, Vec<V>>`: append to the key's bucket, creating it when absent -/
def entry_push [BEq κ] (m : List (κ × List ν)) (k : κ) (v : ν) : List (κ × List ν) :=
  if m.any (fun p => p.1 == k) then m.map (fun p => if p.1 == k then (p.1, p.2 ++ [v]) else p) else m ++ [(k, [v])]
/-- `Xxh3::new()`: a streaming hasher is the list of the bytes fed so far (`update` appends, `digest` is an operation of `Ext`) -/
def xxh3_new : List Nat := []
/-- `a.div_ceil(b)` -/
def div_ceil (a b : Nat) : Nat := (a + b - 1) / b
/-- `BufReader::with_capacity(n, file)`: buffering is not observable; the reader IS the handle -/
def bufreader_with_capacity (_n : Nat) (h : Nat) : Nat := h
/-- `File::options()` / `OpenOptions`: only `.write(true)` is used by the translated code (no create, no truncate) -/
structure OpenOptions where
  write : Bool
  deriving DecidableEq, Repr, Inhabited
def oo_new : OpenOptions := ⟨false⟩
def oo_write (o : OpenOptions) (b : Bool) : OpenOptions := { o with write := b }
/-- `std::io::SeekFrom` -/
inductive SeekFrom where
  | Start (n : Nat) | End (n : Int) | Current (n : Int)
  deriving DecidableEq, Repr
/-- `UNIX_EPOCH`, `Duration::from_secs`, `SystemTime + Duration` (nanoseconds) -/
def UNIX_EPOCH : SystemTime := 0
def duration_from_secs (s : Nat) : Duration := s * 1000000000
def duration_from_millis (ms : Nat) : Duration := ms * 1000000
/-- `FileSetBloom`: a Bloom filter has no false negatives, but answers "maybe" for some paths that were never
    inserted.  Those false positives are an UNKNOWN list (`opaque`: nothing can be proved about its members) that
    the filter contains from the start; `insert` adds the real members (`set_insert`), `contains` is membership.
    (With the exact set `[]` here the `HashSet` re-check of `plan_deletions` would be dead code in the translation,
    and removing it from the Rust source could not be noticed.) -/
opaque bloomFalsePositives : Nat → HashSet Path
def bloom_new (n : Nat) : HashSet Path := bloomFalsePositives n
/-- `Iterator::flatten` over `Result` items: the `Ok` ones -/
def flatten (l : List α) : List α := l
/-- `Option::ok_or_else` -/
def ok_or_else (o : Option α) (f : Unit → Err) : Except Err α := match o with | some v => .ok v | none => .error (f ())
/-- `Duration::ZERO` -/
def DURATION_ZERO : Duration := 0
/-- `std::io::Error::other(msg)` (the message is not modelled) -/
def io_other (_msg : Str) : Err := .io
/-- the text of an error message (never inspected by the program) -/
def opaqueMsg : Str := []
def as_millis (d : Duration) : Nat := d / 1000000
/-- iterator adaptors on lists -/
def keys (m : HashMap κ ν) : List κ := m.map (·.1)
def chain (a b : List α) : List α := a ++ b
def map (l : List α) (f : α → β) : List β := l.map f
/-- `Option::map` (units whose only `.map(..)` receivers are options select it through `method_map`) -/
def opt_map (o : Option α) (f : α → β) : Option β := o.map f
def collect (l : List α) : List α := l
/-- `set.insert(x);` / `set.extend(iter);` (a set is a duplicate-free list in insertion order; the translated code never
    relies on the order of a `HashSet`/`HashMap` — the real order is arbitrary: DESIGN §8) -/
def set_insert [BEq α] (s : HashSet α) (x : α) : HashSet α := if s.contains x then s else s ++ [x]
def extend [BEq α] (s : HashSet α) (l : List α) : HashSet α := l.foldl set_insert s

/-- `iter().filter(p)` -/
def filter (l : List α) (p : α → Bool) : List α := l.filter p
/-- `Vec::sort_by_key` with a Boolean key: a STABLE sort, `false` before `true` -/
def sort_by_key_bool (l : List α) (k : α → Bool) : List α := l.filter (fun a => !k a) ++ l.filter k
/-- `Iterator::partition`: (the elements satisfying the predicate, the others), each in the original order -/
def partition (l : List α) (p : α → Bool) : List α × List α := (l.filter p, l.filter (fun a => !p a))
/-- `iter().count()` -/
def count (l : List α) : Nat := l.length
def any (l : List α) (p : α → Bool) : Bool := l.any p
def all (l : List α) (p : α → Bool) : Bool := l.all p
def contains [BEq α] (l : List α) (x : α) : Bool := l.contains x
def min (a b : Nat) : Nat := Nat.min a b
def max (a b : Nat) : Nat := Nat.max a b
def saturating_sub (a b : Nat) : Nat := a - b
def abs_diff (a b : Nat) : Nat := if a ≤ b then b - a else a - b

/-- `SystemTime::duration_since(earlier)`: `Ok(self - earlier)` or `Err(SystemTimeError)` carrying `earlier - self` -/
structure SystemTimeError where
  dur : Duration
  deriving DecidableEq, Repr
def duration_since (a b : SystemTime) : Except SystemTimeError Duration :=
  if b ≤ a then .ok (a - b) else .error ⟨b - a⟩
/-- `SystemTimeError::duration` -/
def duration (e : SystemTimeError) : Duration := e.dur
/-- `Duration::as_secs` -/
def as_secs (d : Duration) : Nat := d / 1000000000

/-- ASCII lower-casing of one character -/
def lowerAscii (c : Char) : Char := if 'A' ≤ c ∧ c ≤ 'Z' then Char.ofNat (c.toNat + 32) else c
/-- `str::to_lowercase` restricted to ASCII letters (the strings it is compared against are ASCII literals;
    non-ASCII input can never equal them, before or after Unicode lower-casing … except `K` (KELVIN SIGN) and
    `İ`, which lower-case into ASCII: stated in DESIGN §8) -/
def to_lowercase (s : Str) : Str := s.map lowerAscii
/-- `str::eq_ignore_ascii_case` -/
def eq_ignore_ascii_case (a b : Str) : Bool := a.map lowerAscii == b.map lowerAscii
/-- pieces of `s` between occurrences of `c`, in order (`str::split`) -/
def splitAux (c : Char) : Str → Str → List Str
  | [], cur => [cur.reverse]
  | x :: t, cur => if x == c then cur.reverse :: splitAux c t [] else splitAux c t (x :: cur)
def split (s : Str) (c : Char) : List Str := splitAux c s []
/-- `str::rsplit(c)`: the same pieces, last piece first -/
def rsplit (s : Str) (c : Char) : List Str := (split s c).reverse
/-- `format!("{}", x)` for the argument types that occur: text as it is, unsigned integers in decimal -/
class Display (γ : Type) where
  display : γ → Str
export Display (display)
instance : Display Str := ⟨id⟩
instance : Display Nat := ⟨Nat.toDigits 10⟩
/-- the pieces of a `format!` in order -/
def concat (l : List Str) : Str := l.flatten

/-- split around the LAST occurrence of `c`: `(before, after)`; `none` when `c` does not occur -/
def splitLastAt (c : Char) (l : Str) : Option (Str × Str) :=
  let r := l.reverse
  match r.dropWhile (· ≠ c) with
  | [] => none
  | _ :: before => some (before.reverse, (r.takeWhile (· ≠ c)).reverse)
/-- last component of a clean relative path text (no trailing `/`, no `.`/`..` components: the domain of the bisync
    paths, which come from `strip_prefix` of scanned files) -/
def lastComponent (p : Path) : Str := match splitLastAt '/' p with | some (_, n) => n | none => p
/-- `Path::file_name` of a path text: its last component; `None` for the empty path and for `..` -/
def path_file_name (p : Path) : Option Str :=
  let n := lastComponent p
  if n.isEmpty || n = ['.', '.'] then none else some n
/-- `Path::parent` on that domain: the text before the last `/`; the empty path for a single component; `None` for
    the empty path -/
def parent (p : Path) : Option Path :=
  match splitLastAt '/' p with
  | some (before, _) => some before
  | none => if p.isEmpty then none else some []
/-- `Path::file_stem` / `Path::extension` (std): split the file name at its last `.`; a name without `.`, or whose
    only `.` is its first character, or `..`, has no extension and is its own stem -/
def file_stem (p : Path) : Option Str :=
  let n := lastComponent p
  if n.isEmpty then none
  else if n = ['.', '.'] then some n
  else match splitLastAt '.' n with
    | none => some n
    | some (before, _) => if before.isEmpty then some n else some before
def extension (p : Path) : Option Str :=
  let n := lastComponent p
  if n.isEmpty || n = ['.', '.'] then none
  else match splitLastAt '.' n with
    | none => none
    | some (before, after) => if before.isEmpty then none else some after
/-- `Path::with_file_name` on a path text without trailing `/`: the text up to and including the last `/`, then the new name; a
    single component becomes the name -/
def with_file_name (p : Path) (n : Str) : Path := match splitLastAt '/' p with | some (before, _) => before ++ '/' :: n | none => n
/-- `Option::unwrap_or_default` for texts -/
def unwrap_or_default_str (o : Option Str) : Str := o.getD []
/-- `Path::join` with a relative second argument -/
def join (p : Path) (n : Str) : Path := if p.isEmpty then n else p ++ '/' :: n
/-- `Option::and_then` -/
def and_then (o : Option α) (f : α → Option β) : Option β := o.bind f
/-- `str::starts_with(&str)`: plain prefix of the text (NOT component-wise, unlike `Path::starts_with`) -/
def str_starts_with (s t : Str) : Bool := t.isPrefixOf s
/-- `Option::is_some_and` -/
def is_some_and (o : Option α) (p : α → Bool) : Bool := match o with | some v => p v | none => false
/-- `Path::starts_with` on path TEXTS without trailing separators: component-wise — `a/bc` does not start with `a/b` -/
def path_starts_with (p q : Path) : Bool := p == q || (q ++ ['/']).isPrefixOf p || q.isEmpty

/-- `to_string()` of a text, or of an error (the message is not modelled) -/
class ToStringRs (γ : Type) where
  to_string : γ → Str
export ToStringRs (to_string)
instance : ToStringRs Str := ⟨id⟩
instance : ToStringRs Err := ⟨fun _ => []⟩
/-- `Path::strip_prefix(base)`: the rest after `base` and the separator; `Err` when `base` is not a whole-component prefix
    (path texts without trailing separators; `base` itself strips to the empty path) -/
def strip_prefix (p base : Path) : Except Err Path :=
  if p == base then .ok []
  else if base.isEmpty then .ok p
  else if (base ++ ['/']).isPrefixOf p then .ok (p.drop (base.length + 1)) else .error .other

/-- `as_str()` -/
class AsStr (γ : Type) where
  as_str : γ → Str
export AsStr (as_str)
instance : AsStr Str := ⟨id⟩
/-- `to_str()`: `Some` of the text (names that are not valid UTF-8 are outside the model) -/
class ToStr (γ : Type) where
  to_str : γ → Option Str
export ToStr (to_str)
instance : ToStr Str := ⟨fun s => some s⟩
def ends_with (s : Str) (c : Char) : Bool := s.getLast? == some c
/-- `starts_with` (of `str` with a `char`; of `Path` with a `Path`: component-wise, see PreludeFilter) -/
class StartsWith (γ δ : Type) where
  starts_with : γ → δ → Bool
export StartsWith (starts_with)
instance : StartsWith Str Char := ⟨fun s c => s.head? == some c⟩
/-- `Iterator::next` on a fresh iterator: the first element -/
def next (l : List α) : Option α := l.head?

end Rs
end SyModel.Generated
