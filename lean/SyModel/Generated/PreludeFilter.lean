/-
  SyModel.Generated.PreludeFilter — vocabulary of the translated src/filter.rs (TRUSTED, handwritten).

  Paths given to the filter are the scanner's clean relative paths; as in SyModel.Filter.Rule a path is its
  list of components, and `std::path::Path`'s methods get the meaning documented there.  `glob::Pattern`
  (third-party crate, modelled by hand in SyModel.Filter.Glob and run against the real crate by the C16
  stream) is the pair of its source text and its compiled tokens.
-/
import SyModel.Generated.Prelude
import SyModel.Filter.Rule
namespace SyModel.Generated
namespace Rs

/-- `glob::Pattern` -/
structure GlobPattern where
  text : List Char
  toks : List SyModel.Filter.Token
  deriving DecidableEq, Repr
instance : Inhabited GlobPattern := ⟨⟨[], []⟩⟩

/-- `Pattern::matches(str)` -/
def «matches» (p : GlobPattern) (s : Str) : Bool := SyModel.Filter.globMatch p.toks s
/-- `Pattern::as_str()` -/
instance : AsStr GlobPattern := ⟨fun p => p.text⟩

open SyModel.Filter in
/-- `Path::to_str` (clean relative paths are valid UTF-8 in the model; names that are not are outside it) -/
instance : ToStr RelPath := ⟨fun p => some (pathStr p)⟩
open SyModel.Filter in
/-- `Path::file_name` followed by `OsStr::to_str` through `and_then`: the name itself -/
def file_name (p : RelPath) : Option Name := fileName p
open SyModel.Filter in
/-- `Path::ancestors()`: the path itself, then its proper prefixes, longest first, ending with the empty path -/
def ancestors (p : RelPath) : List RelPath := p :: ancestorsSkip1 p
/-- `Path::starts_with(base)`: whole components -/
instance : StartsWith SyModel.Filter.RelPath SyModel.Filter.RelPath := ⟨fun p dir => dir.isPrefixOf p⟩
/-- `Iterator::skip(n)` -/
def skip (l : List α) (n : Nat) : List α := l.drop n

end Rs
end SyModel.Generated
