/-
  Lemmas.GenSparseCopy — the world in which the translated sparse copiers of the local transport
  (`SyModel/Generated/Code/SparseCopy.lean`: `is_file_sparse`, `copy_sparse_file_seek`, `copy_sparse_file_blocks`,
  `copy_sparse_file` of src/transport/local.rs:14-170) are run, the instance `sparseExt seekSupported : Ext SWorld`
  giving every operation its POSIX meaning, and the lemmas that execute the translated code in it.

  PART 1 (`SWorld` … `sparseExt`) IS TRUSTED: the bridge theorems of `Props/GenSparseCopy.lean` are statements about
  `copy_sparse_file… (sparseExt b)`, so a wrong operation here misrepresents the operating system.  It is kept small
  and every operation carries the POSIX / std fact it encodes.  Everything after PART 1 is proved.

  Simplifications (repeated in INTEGRATION.md):
    * the name space is flat and holds regular files only (no directories, symlinks, permissions): `File::create`
      cannot fail, `Path::exists` is "there is a regular file";
    * an open file description refers to the file by its PATH (not by inode): unlinking a file that is open is outside
      the model — the translated code unlinks the destination BEFORE it creates and opens it, and never the source;
      all theorems carry `source ≠ dest`;
    * the kernel's data map of a file (`dataMap`) is an input; it is only ever queried (lseek SEEK_DATA / SEEK_HOLE) on
      the source, which the code opens read-only and never writes — it is not updated by writes;
    * `io::Error` values keep the one bit the code looks at (is the errno EINVAL): `Rs.Err` has no errno payload;
    * durability is not modelled: `sync_all` changes no content (it is logged, so that ORDER statements can name it);
    * no fault injection: an operation fails only for the stated POSIX reason.
-/
import SyModel.Generated.Code.SparseCopy
import SyModel.Lemmas.Sparse
set_option autoImplicit false
set_option linter.unusedSimpArgs false
set_option linter.unusedVariables false
namespace SyModel.SparseCopy
open SyModel SyModel.Generated SyModel.Generated.SparseCopy SyModel.Compress

/-! ## PART 1 — the world of one call of a sparse copier (trusted) -/

/-- point update of a function -/
def upd {κ ν : Type} [DecidableEq κ] (f : κ → ν) (k : κ) (v : ν) : κ → ν := fun x => if x = k then v else f x

/-- an open file description: the file it refers to, its file position, and whether it was opened for writing
    (`File::open` is O_RDONLY, `File::create` is O_WRONLY|O_CREAT|O_TRUNC) -/
structure OpenFile where
  path     : Rs.Path
  pos      : Nat
  writable : Bool
  deriving DecidableEq, Repr

/-- the mutating system calls as they appear in the log -/
inductive MutOp where
  /-- `unlink(path)` -/
  | unlink
  /-- `open(path, O_WRONLY|O_CREAT|O_TRUNC)` -/
  | create
  /-- `write` of `len > 0` bytes at file offset `off` -/
  | write (off len : Nat)
  /-- `ftruncate(n)` -/
  | setLen (n : Nat)
  /-- `fsync` -/
  | sync
  deriving DecidableEq, Repr

/-- one line of the log: the call, the file it reached, and the content of that file right AFTER the call
    (`none`: the path does not exist).  The `after` fields of the log are exactly the states of the file that a
    process killed between two system calls can leave behind. -/
structure LogEntry where
  path  : Rs.Path
  op    : MutOp
  after : Option (List Nat)
  deriving DecidableEq, Repr

/-- What one call can see and change.  Bytes are natural numbers, as in the translated code (`Vec<u8>` is `List Nat`). -/
structure SWorld where
  /-- regular files: path ↦ content -/
  files   : Rs.Path → Option (List Nat)
  /-- the kernel's data map of each file: the extents it reports as DATA; everything else is a hole.  (`Covers content
      (dataMap p)` is the contract the theorems assume of it: extents inside the file, holes read as zeros.) -/
  dataMap : Rs.Path → List Region
  /-- `st_blocks` of each file (512-byte units) — only reported by `metadata()`, never interpreted -/
  blocks  : Rs.Path → Nat
  /-- open files: handles `1 … opened` have been handed out (`as_raw_fd` is the identity on handles) -/
  opened  : Nat
  handle  : Nat → Option OpenFile
  /-- the thread's `errno`: set by a failing libc call, read by `io::Error::last_os_error()` -/
  errno   : Int
  /-- every mutating call so far, oldest first -/
  log     : List LogEntry

def EBADF : Int := 9
def ENXIO : Int := 6
def EIO : Int := 5

def zerosN (n : Nat) : List Nat := List.replicate n 0

/-- `pwrite(data, pos)` with `data` non-empty: overwrite, extend the file when the range passes its end; a position
    beyond the end leaves a gap that reads as zeros (POSIX `write`/`lseek`) -/
def pwrite (file : List Nat) (pos : Nat) (data : List Nat) : List Nat :=
  (file ++ zerosN (pos - file.length)).take pos ++ data ++ file.drop (pos + data.length)

/-- `ftruncate(n)`: cut, or extend with zeros -/
def truncate (file : List Nat) (n : Nat) : List Nat := file.take n ++ zerosN (n - file.length)

/-- offset `i` lies in an extent the kernel reports as data -/
def isData (rs : List Region) (i : Nat) : Bool :=
  rs.any fun r => decide (r.offset ≤ i) && decide (i < r.offset + r.length)

/-- `lseek(fd, off, SEEK_DATA)` for `off < size`: the least offset `≥ off` (and `< size`) that lies in data; `none`
    (ENXIO) when only a hole follows.  On a sorted list of disjoint extents: `max off (start of the first extent ending
    after off)`. -/
def seekData (rs : List Region) (size off : Nat) : Option Nat :=
  (List.range' off (size - off)).find? (isData rs)

/-- `lseek(fd, off, SEEK_HOLE)` for `off < size`: the least offset `≥ off` that lies in a hole; the end of the file
    counts as a hole.  On a sorted list of disjoint extents: the end of the extent containing `off`, `off` itself in a
    hole. -/
def seekHole (rs : List Region) (size off : Nat) : Nat :=
  ((List.range' off (size - off)).find? (fun i => !isData rs i)).getD size

/-- the open file behind a handle, with the file's content (the file must still exist) -/
def SWorld.target (w : SWorld) (h : Nat) : Option (OpenFile × List Nat) :=
  match w.handle h with
  | some f => (w.files f.path).map fun c => (f, c)
  | none => none

/-- move the position behind a handle -/
def SWorld.setPos (w : SWorld) (h : Nat) (p : Nat) : SWorld :=
  { w with handle := upd w.handle h ((w.handle h).map ({ · with pos := p })) }

/-- a libc call fails: result `-1`, `errno` set -/
def failWith (w : SWorld) (e : Int) : Except Rs.Err Int × SWorld := (.ok (-1), { w with errno := e })

/-- `File::open(p)`: ENOENT on a missing file; read-only, position 0 -/
def openOp (p : Rs.Path) : Rs.M SWorld Nat := fun w =>
  match w.files p with
  | none => (.error .io, w)
  | some _ => (.ok (w.opened + 1),
      { w with opened := w.opened + 1, handle := upd w.handle (w.opened + 1) (some ⟨p, 0, false⟩) })

/-- `File::create(p)`: the file exists afterwards and is EMPTY (created, or truncated); write-only, position 0 -/
def createOp (p : Rs.Path) : Rs.M SWorld Nat := fun w =>
  (.ok (w.opened + 1),
    { w with files := upd w.files p (some []), opened := w.opened + 1,
             handle := upd w.handle (w.opened + 1) (some ⟨p, 0, true⟩),
             log := w.log ++ [⟨p, .create, some []⟩] })

/-- `fs::remove_file(p)`: ENOENT on a missing file -/
def removeOp (p : Rs.Path) : Rs.M SWorld Unit := fun w =>
  match w.files p with
  | none => (.error .io, w)
  | some _ => (.ok (), { w with files := upd w.files p none, log := w.log ++ [⟨p, .unlink, none⟩] })

/-- `libc::lseek(fd, off, whence)` — never an `Err` of Rust: the result is `-1` and `errno` is set.
    * SEEK_SET (0): the position becomes `off` (EINVAL when negative);
    * SEEK_DATA (3) / SEEK_HOLE (4): EINVAL on a file system without support (`seekSupported = false`); ENXIO when `off`
      is negative or at / beyond the end of the file, and for SEEK_DATA when only a hole follows; otherwise the position
      becomes the answer (`seekData` / `seekHole`);
    * any other `whence`: EINVAL;  a bad descriptor: EBADF. -/
def lseekOp (seekSupported : Bool) (h : Nat) (off whence : Int) : Rs.M SWorld Int := fun w =>
  match w.target h with
  | none => failWith w EBADF
  | some (f, c) =>
    if whence = 0 then
      if off < 0 then failWith w EINVAL else (.ok off, w.setPos h off.toNat)
    else if whence = 3 then
      if !seekSupported then failWith w EINVAL
      else if off < 0 ∨ (c.length : Int) ≤ off then failWith w ENXIO
      else match seekData (w.dataMap f.path) c.length off.toNat with
        | none => failWith w ENXIO
        | some d => (.ok (d : Int), w.setPos h d)
    else if whence = 4 then
      if !seekSupported then failWith w EINVAL
      else if off < 0 ∨ (c.length : Int) ≤ off then failWith w ENXIO
      else (.ok (seekHole (w.dataMap f.path) c.length off.toNat : Int),
            w.setPos h (seekHole (w.dataMap f.path) c.length off.toNat))
    else failWith w EINVAL

/-- `io::Error::last_os_error()`: the error built from `errno`.  `Rs.Err` has no errno payload: `.other` IS the error
    whose `raw_os_error()` is `Some(EINVAL)`, `.io` stands for every other OS error. -/
def lastOsError (e : Int) : Rs.Err := if e = EINVAL then .other else .io

/-- `io::Error::raw_os_error()` on those values (`EIO` stands for "an errno that is not EINVAL") -/
def rawOsError : Rs.Err → Option Int
  | .other => some EINVAL
  | .io => some EIO
  | .config _ => none

/-- `src_file.read(&mut buffer[..n])`: a FULL read — `min n (bytes left)` bytes arrive at the front of the buffer (the
    rest of the buffer is unchanged), the position advances; EBADF on a handle opened write-only.  (`read` may return
    fewer bytes on pipes or when interrupted; on regular files Linux returns short only at end of file.) -/
def readUptoOp (h : Nat) (buf : List Nat) (n : Nat) : Rs.M SWorld (Nat × List Nat) := fun w =>
  match w.target h with
  | none => (.error .io, w)
  | some (f, c) =>
    if f.writable then (.error .io, w)
    else
      let k := min (min n buf.length) (c.length - f.pos)
      (.ok (k, (c.drop f.pos).take k ++ buf.drop k), w.setPos h (f.pos + k))

/-- `File::metadata()`: size and `st_blocks` -/
def metadataOp (h : Nat) : Rs.M SWorld SMeta := fun w =>
  match w.target h with
  | none => (.error .io, w)
  | some (f, c) => (.ok ⟨c.length, w.blocks f.path⟩, w)

/-- `write_all(data)`: nothing at all for empty data (no `write` is issued); otherwise `pwrite` at the position of the
    handle, which advances; EBADF on a handle opened read-only -/
def writeAllOp (h : Nat) (data : List Nat) : Rs.M SWorld Unit := fun w =>
  if data.isEmpty then (.ok (), w)
  else match w.target h with
    | none => (.error .io, w)
    | some (f, c) =>
      if f.writable then
        (.ok (), { (w.setPos h (f.pos + data.length)) with
                     files := upd w.files f.path (some (pwrite c f.pos data)),
                     log := w.log ++ [⟨f.path, .write f.pos data.length, some (pwrite c f.pos data)⟩] })
      else (.error .io, w)

/-- `File::set_len(n)` (`ftruncate`): the position does not move; EINVAL/EBADF on a handle opened read-only -/
def setLenOp (h : Nat) (n : Nat) : Rs.M SWorld Unit := fun w =>
  match w.target h with
  | none => (.error .io, w)
  | some (f, c) =>
    if f.writable then
      (.ok (), { w with files := upd w.files f.path (some (truncate c n)),
                        log := w.log ++ [⟨f.path, .setLen n, some (truncate c n)⟩] })
    else (.error .io, w)

/-- `File::sync_all()` (`fsync`): no content changes -/
def syncOp (h : Nat) : Rs.M SWorld Unit := fun w =>
  match w.target h with
  | none => (.error .io, w)
  | some (f, c) => (.ok (), { w with log := w.log ++ [⟨f.path, .sync, some c⟩] })

/-- `File::seek`: a negative result is EINVAL -/
def seekOp (h : Nat) (s : Rs.SeekFrom) : Rs.M SWorld Nat := fun w =>
  match w.target h with
  | none => (.error .io, w)
  | some (f, c) =>
    let p : Int := match s with
      | .Start n => n
      | .End k => c.length + k
      | .Current k => f.pos + k
    if p < 0 then (.error .io, w) else (.ok p.toNat, w.setPos h p.toNat)

/-- THE INSTANCE: every operation of the translated sparse copiers in the world above.  `seekSupported = false` is a
    file system whose `lseek` rejects SEEK_DATA / SEEK_HOLE with EINVAL. -/
def sparseExt (seekSupported : Bool) : Ext SWorld where
  raw_os_error := rawOsError
  File_open := openOp
  File_create := createOp
  fs_remove_file := removeOp
  libc_lseek := lseekOp seekSupported
  std_io_Error_last_os_error _ := fun w => (.ok (lastOsError w.errno), w)
  h_read_upto := readUptoOp
  h_metadata := metadataOp
  path_exists p := fun w => (.ok (w.files p).isSome, w)      -- `Path::exists`: a regular file is there
  h_read h buf := readUptoOp h buf buf.length                 -- `read(&mut buf)` = the bounded read with the whole buffer
  h_write_all := writeAllOp
  h_seek := seekOp
  h_set_len := setLenOp
  h_sync_all := syncOp

/-! ## PART 2 — executing the translated code in that world (all proved) -/

section proj
variable (b : Bool)
theorem ext_raw : (sparseExt b).raw_os_error = rawOsError := rfl
theorem ext_open : (sparseExt b).File_open = openOp := rfl
theorem ext_create : (sparseExt b).File_create = createOp := rfl
theorem ext_remove : (sparseExt b).fs_remove_file = removeOp := rfl
theorem ext_lseek : (sparseExt b).libc_lseek = lseekOp b := rfl
theorem ext_last : (sparseExt b).std_io_Error_last_os_error = fun _ w => (.ok (lastOsError w.errno), w) := rfl
theorem ext_read_upto : (sparseExt b).h_read_upto = readUptoOp := rfl
theorem ext_metadata : (sparseExt b).h_metadata = metadataOp := rfl
theorem ext_exists : (sparseExt b).path_exists = fun p w => (.ok (w.files p).isSome, w) := rfl
theorem ext_write_all : (sparseExt b).h_write_all = writeAllOp := rfl
theorem ext_seek : (sparseExt b).h_seek = seekOp := rfl
theorem ext_set_len : (sparseExt b).h_set_len = setLenOp := rfl
theorem ext_sync : (sparseExt b).h_sync_all = syncOp := rfl
end proj

/-! ### effectful loops with `break` -/

section loops
variable {m : Type → Type} [Monad m] [LawfulMonad m] {α σ : Type}
set_option linter.unusedSectionVars false
def iterM (step : σ → m (ForInStep σ)) : Nat → σ → m σ
  | 0, s => pure s
  | k + 1, s => step s >>= fun r => match r with
    | .done s' => pure s'
    | .yield s' => iterM step k s'

theorem forIn_list_const_M (l : List α) (s : σ) (step : σ → m (ForInStep σ)) :
    forIn l s (fun _ s => step s) = iterM step l.length s := by
  induction l generalizing s with
  | nil => rfl
  | cons a l ih =>
    rw [List.forIn_cons]
    simp only [List.length_cons, iterM]
    refine bind_congr fun r => ?_
    cases r with
    | done s' => rfl
    | yield s' => exact ih s'

theorem forIn_range_M (n : Nat) (s : σ) (step : σ → m (ForInStep σ)) :
    forIn [0:n] s (fun _ s => step s) = iterM step n s := by
  rw [Std.Legacy.Range.forIn_eq_forIn_range', forIn_list_const_M]
  simp [Std.Legacy.Range.size]
end loops

/-! ### bytes as numbers; prefix lemmas -/

def ofU8 (l : Bytes) : List Nat := l.map UInt8.toNat

theorem ofU8_length (a : Bytes) : (ofU8 a).length = a.length := by simp [ofU8]
theorem ofU8_append (a b : Bytes) : ofU8 (a ++ b) = ofU8 a ++ ofU8 b := by simp [ofU8]
theorem ofU8_take (a : Bytes) (n : Nat) : ofU8 (a.take n) = (ofU8 a).take n := by simp [ofU8, List.map_take]
theorem ofU8_drop (a : Bytes) (n : Nat) : ofU8 (a.drop n) = (ofU8 a).drop n := by simp [ofU8, List.map_drop]
theorem ofU8_zeros (n : Nat) : ofU8 (zeros n) = zerosN n := by simp [ofU8, zeros, zerosN]
theorem ofU8_inj {a b : Bytes} (h : ofU8 a = ofU8 b) : a = b := by
  unfold ofU8 at h
  exact (List.map_inj_right (fun x y hxy => UInt8.toNat_inj.mp hxy)).mp h

theorem pwrite_ofU8 (f d : Bytes) (off : Nat) (hd : d ≠ []) :
    pwrite (ofU8 f) off (ofU8 d) = ofU8 (writeAt f off d) := by
  unfold writeAt pwrite
  have : d.isEmpty = false := by cases d <;> simp_all
  rw [this]
  simp only [Bool.false_eq_true, if_false, ofU8_append, ofU8_take, ofU8_drop, ofU8_zeros, ofU8_length]

theorem truncate_ofU8 (f : Bytes) (n : Nat) : truncate (ofU8 f) n = ofU8 (setLen f n) := by
  simp only [truncate, setLen, ofU8_append, ofU8_take, ofU8_zeros, ofU8_length]

theorem all_zero_ofU8 (b : Bytes) : (ofU8 b).all (fun x => x == 0) = b.all (· == 0) := by
  induction b with
  | nil => rfl
  | cons x t ih =>
    simp only [ofU8, List.map_cons, List.all_cons] at ih ⊢
    rw [ih]
    congr 1
    rw [Bool.eq_iff_iff]; simp only [beq_iff_eq]
    constructor
    · intro h; exact UInt8.toNat_inj.mp (by simpa using h)
    · intro h; subst h; rfl

def ZeroOn (content : Bytes) (q p : Nat) : Prop := ∀ i, q ≤ i → i < p → at0 content i = 0

theorem writeAt_prefix (content : Bytes) (q p k : Nat) (hq : q ≤ p) (hz : ZeroOn content q p) (hk : 0 < k)
    (hle : p + k ≤ content.length) :
    writeAt (content.take q) p ((content.drop p).take k) = content.take (p + k) := by
  have hdl : ((content.drop p).take k).length = k := by simp; omega
  have hne : ((content.drop p).take k).isEmpty = false := by
    cases h : (content.drop p).take k with
    | nil => rw [h] at hdl; simp at hdl; omega
    | cons _ _ => rfl
  have hlen : (writeAt (content.take q) p ((content.drop p).take k)).length = p + k := by
    unfold writeAt
    rw [hne]
    simp only [Bool.false_eq_true, if_false, List.length_append, List.length_take, List.length_drop, zeros,
      List.length_replicate]
    omega
  apply ext_at0
  · rw [hlen]; simp; omega
  · intro i hi
    simp only [List.length_take] at hi
    have hi' : i < p + k := by omega
    rw [at0_writeAt, hdl, at0_take (a := content) (n := p + k), if_pos hi']
    by_cases h : p ≤ i ∧ i < p + k
    · rw [if_pos h, at0_take, if_pos (by omega), at0_drop]; congr 1; omega
    · rw [if_neg h, at0_take]
      by_cases h2 : i < q
      · rw [if_pos h2]
      · rw [if_neg h2]; exact (hz i (by omega) (by omega)).symm

theorem setLen_prefix (content : Bytes) (q : Nat) (hq : q ≤ content.length) (hz : ZeroOn content q content.length) :
    setLen (content.take q) content.length = content := by
  apply ext_at0 _ _ (length_setLen _ _)
  intro i hi
  rw [at0_setLen, if_pos hi, at0_take]
  split
  · rfl
  · exact (hz i (by omega) hi).symm

/-! ### point updates; running the monad -/

@[simp] theorem upd_same {κ ν : Type} [DecidableEq κ] (f : κ → ν) (k : κ) (v : ν) : upd f k v k = v := by simp [upd]
theorem upd_ne {κ ν : Type} [DecidableEq κ] (f : κ → ν) {k x : κ} (v : ν) (h : x ≠ k) : upd f k v x = f x := by
  simp [upd, h]
@[simp] theorem upd_upd {κ ν : Type} [DecidableEq κ] (f : κ → ν) (k : κ) (v v' : ν) :
    upd (upd f k v) k v' = upd f k v' := by
  funext x; simp only [upd]; split <;> rfl
theorem upd_comm {κ ν : Type} [DecidableEq κ] (f : κ → ν) {k k' : κ} (v v' : ν) (h : k ≠ k') :
    upd (upd f k v) k' v' = upd (upd f k' v') k v := by
  funext x; simp only [upd]; split <;> split <;> simp_all
theorem upd_shadow {κ ν : Type} [DecidableEq κ] (f : κ → ν) {a b : κ} (x y x' : ν) (h : a ≠ b) :
    upd (upd (upd f a x) b y) a x' = upd (upd f a x') b y := by
  rw [upd_comm _ _ _ h.symm, upd_upd]

theorem run_bind {W α β : Type} (x : Rs.M W α) (f : α → Rs.M W β) (w : W) :
    (x >>= f) w = match x w with
      | (.ok a, w') => f a w'
      | (.error e, w') => (.error e, w') := by
  show (ExceptT.bind x f) w = _
  simp only [ExceptT.bind, ExceptT.mk]
  show (StateT.bind x _) w = _
  simp only [StateT.bind]
  rcases x w with ⟨r, w'⟩
  cases r <;> rfl

theorem run_pure {W α : Type} (a : α) (w : W) : (pure a : Rs.M W α) w = (.ok a, w) := rfl
theorem run_throw {W α : Type} (e : Rs.Err) (w : W) : (throw e : Rs.M W α) w = (.error e, w) := rfl
theorem run_capture {W α : Type} (x : Rs.M W α) (w : W) : Rs.capture x w = (.ok (x w).1, (x w).2) := rfl

/-! ### the world while a copier runs -/

/-- the world while (and after) a copier runs from `w0`: the source open read-only under the next handle at position
    `ps`, the destination created, holding `out`, open write-only under the handle after that at position `pd`; `errno`
    is `err` and the log is `lg`; nothing else differs from `w0` -/
def cw (w0 : SWorld) (src dst : Rs.Path) (ps pd : Nat) (out : List Nat) (err : Int) (lg : List LogEntry) : SWorld :=
  { w0 with files := upd w0.files dst (some out), opened := w0.opened + 2,
            handle := upd (upd w0.handle (w0.opened + 1) (some ⟨src, ps, false⟩)) (w0.opened + 2) (some ⟨dst, pd, true⟩),
            errno := err, log := lg }

section ops
variable (w0 : SWorld) (src dst : Rs.Path) (c : List Nat) (hsrc : w0.files src = some c) (hne : src ≠ dst)
include hsrc hne

theorem cw_target_src (ps pd : Nat) (out : List Nat) (err : Int) (lg : List LogEntry) :
    (cw w0 src dst ps pd out err lg).target (w0.opened + 1) = some (⟨src, ps, false⟩, c) := by
  simp [SWorld.target, cw, upd_ne, hne, hsrc]

omit hsrc hne in
theorem cw_target_dst (ps pd : Nat) (out : List Nat) (err : Int) (lg : List LogEntry) :
    (cw w0 src dst ps pd out err lg).target (w0.opened + 2) = some (⟨dst, pd, true⟩, out) := by
  simp [SWorld.target, cw]

omit hsrc hne in
theorem cw_setPos_src (ps pd p : Nat) (out : List Nat) (err : Int) (lg : List LogEntry) :
    (cw w0 src dst ps pd out err lg).setPos (w0.opened + 1) p = cw w0 src dst p pd out err lg := by
  simp [SWorld.setPos, cw, upd_ne, upd_shadow]

omit hsrc hne in
theorem cw_setPos_dst (ps pd p : Nat) (out : List Nat) (err : Int) (lg : List LogEntry) :
    (cw w0 src dst ps pd out err lg).setPos (w0.opened + 2) p = cw w0 src dst ps p out err lg := by
  simp [SWorld.setPos, cw]

theorem cw_read (ps pd : Nat) (out : List Nat) (err : Int) (lg : List LogEntry) (buf : List Nat) (n : Nat) :
    readUptoOp (w0.opened + 1) buf n (cw w0 src dst ps pd out err lg) =
      (.ok (min (min n buf.length) (c.length - ps),
            (c.drop ps).take (min (min n buf.length) (c.length - ps)) ++ buf.drop (min (min n buf.length) (c.length - ps))),
       cw w0 src dst (ps + min (min n buf.length) (c.length - ps)) pd out err lg) := by
  unfold readUptoOp
  rw [cw_target_src w0 src dst c hsrc hne]
  simp only [Bool.false_eq_true, if_false, cw_setPos_src]

theorem cw_seek_src (ps pd n : Nat) (out : List Nat) (err : Int) (lg : List LogEntry) :
    seekOp (w0.opened + 1) (.Start n) (cw w0 src dst ps pd out err lg) = (.ok n, cw w0 src dst n pd out err lg) := by
  unfold seekOp
  rw [cw_target_src w0 src dst c hsrc hne]
  have h1 : ¬ ((n : Int) < 0) := by omega
  simp only [h1, if_false, Int.toNat_natCast, cw_setPos_src]

omit hsrc hne in
theorem cw_seek_dst (ps pd n : Nat) (out : List Nat) (err : Int) (lg : List LogEntry) :
    seekOp (w0.opened + 2) (.Start n) (cw w0 src dst ps pd out err lg) = (.ok n, cw w0 src dst ps n out err lg) := by
  unfold seekOp
  rw [cw_target_dst]
  have h1 : ¬ ((n : Int) < 0) := by omega
  simp only [h1, if_false, Int.toNat_natCast, cw_setPos_dst]

omit hsrc hne in
theorem cw_write (ps pd : Nat) (out : List Nat) (err : Int) (lg : List LogEntry) (data : List Nat) (hd : data ≠ []) :
    writeAllOp (w0.opened + 2) data (cw w0 src dst ps pd out err lg) =
      (.ok (), cw w0 src dst ps (pd + data.length) (pwrite out pd data) err
        (lg ++ [⟨dst, .write pd data.length, some (pwrite out pd data)⟩])) := by
  unfold writeAllOp
  have : data.isEmpty = false := by cases data <;> simp_all
  rw [this, cw_target_dst]
  simp only [Bool.false_eq_true, if_false, if_true, cw_setPos_dst]
  simp [cw]

omit hsrc hne in
theorem cw_setLen (ps pd n : Nat) (out : List Nat) (err : Int) (lg : List LogEntry) :
    setLenOp (w0.opened + 2) n (cw w0 src dst ps pd out err lg) =
      (.ok (), cw w0 src dst ps pd (truncate out n) err (lg ++ [⟨dst, .setLen n, some (truncate out n)⟩])) := by
  unfold setLenOp
  rw [cw_target_dst]
  simp [cw]

omit hsrc hne in
theorem cw_sync (ps pd : Nat) (out : List Nat) (err : Int) (lg : List LogEntry) :
    syncOp (w0.opened + 2) (cw w0 src dst ps pd out err lg) =
      (.ok (), cw w0 src dst ps pd out err (lg ++ [⟨dst, .sync, some out⟩])) := by
  unfold syncOp
  rw [cw_target_dst]
  simp [cw]

end ops

/-! ### `copy_sparse_file_blocks` -/

/-- one round of `while pos < file_size` of `copy_sparse_file_blocks` (local.rs:149-166) on the loop state
    `(buffer, pos)`, in the shape of the generated code -/
def blockStep {W : Type} (ext : Ext W) (hs hd size : Nat) (s : List Nat × Nat) : Rs.M W (ForInStep (List Nat × Nat)) :=
  if (!decide (s.2 < size)) = true then pure (ForInStep.done (s.1, s.2))
  else
    ext.h_read_upto hs s.1 ((Rs.cast (size - s.2) : Nat).min 4096) >>= fun r =>
      if (r.1 == 0) = true then pure (ForInStep.done (r.2, s.2))
      else if (Rs.all (Rs.slice r.2 0 r.1) fun b => b == 0) = true then
        pure (ForInStep.yield (r.2, s.2 + Rs.cast r.1))
      else
        ext.h_seek hd (Rs.SeekFrom.Start s.2) >>= fun _ =>
          ext.h_write_all hd (Rs.slice r.2 0 r.1) >>= fun _ =>
            pure (ForInStep.yield (r.2, s.2 + Rs.cast r.1))

/-- `copy_sparse_file_blocks` after `File::create`: `set_len(file_size)` FIRST, the loop, `sync_all` -/
def blocksTail {W : Type} (ext : Ext W) (fuel : Nat → Nat) (hs size hd : Nat) : Rs.M W Nat :=
  ext.h_set_len hd size >>= fun _ =>
    iterM (blockStep ext hs hd size) (fuel size) (List.replicate 4096 0, 0) >>= fun _ =>
      ext.h_sync_all hd >>= fun _ => pure size

/-- what both copiers start with: open the source, `metadata().len()`, remove an existing destination, create it;
    `K source_handle file_size dest_handle` is the rest -/
def prologue {W : Type} (ext : Ext W) (s d : Rs.Path) (K : Nat → Nat → Nat → Rs.M W Nat) : Rs.M W Nat :=
  ext.File_open s >>= fun hs => ext.h_metadata hs >>= fun md => ext.path_exists d >>= fun ex =>
    if ex = true then ext.fs_remove_file d >>= fun _ => ext.File_create d >>= fun hd => K hs (Rs.len md) hd
    else ext.File_create d >>= fun hd => K hs (Rs.len md) hd

/-- NORMAL FORM of the translated `copy_sparse_file_blocks` for every `Ext`, with the fuel of the loop as a parameter -/
def blocksNF {W : Type} (ext : Ext W) (fuel : Nat → Nat) (s d : Rs.Path) : Rs.M W Nat :=
  prologue ext s d (blocksTail ext fuel)

/-- THE ONLY THEOREM ABOUT `copy_sparse_file_blocks` THAT DEPENDS ON THE SHAPE OF THE GENERATED CODE -/
theorem blocks_nf {W : Type} (ext : Ext W) (s d : Rs.Path) : copy_sparse_file_blocks ext s d = blocksNF ext (· + 2) s d := by
  unfold copy_sparse_file_blocks
  simp only [forIn_range_M]
  rfl

theorem take_length_take {α : Type} (l : List α) (n : Nat) : l.take (l.take n).length = l.take n := by
  induction l generalizing n with
  | nil => simp
  | cons x t ih =>
    cases n with
    | zero => simp
    | succ n => simp [ih]

theorem drop_drop_take_length {α : Type} (l : List α) (p n : Nat) :
    (l.drop p).drop n = l.drop (p + ((l.drop p).take n).length) := by
  rw [List.drop_drop, List.length_take, List.length_drop]
  by_cases h : n ≤ l.length - p
  · rw [Nat.min_eq_left h]
  · rw [Nat.min_eq_right (by omega), List.drop_eq_nil_of_le (by omega), List.drop_eq_nil_of_le (by omega)]

/-- a `write` of the block copier on `dst`: it leaves a file of the FINAL size -/
def BlockWrite (dst : Rs.Path) (size : Nat) (e : LogEntry) : Prop :=
  ∃ off len c, e = ⟨dst, .write off len, some c⟩ ∧ c.length = size

section blocks
variable (w0 : SWorld) (src dst : Rs.Path) (content : Bytes) (hsrc : w0.files src = some (ofU8 content)) (hne : src ≠ dst)
include hsrc hne

/-- one round in the world: the next block (`≤ 4096` bytes) is read; when all zero nothing is written, otherwise it is
    written at its own offset -/
theorem block_step (b : Bool) (pos pd : Nat) (buf : List Nat) (file : Bytes) (err : Int) (lg : List LogEntry)
    (hbuf : buf.length = 4096) (hpos : pos < content.length) :
    blockStep (sparseExt b) (w0.opened + 1) (w0.opened + 2) content.length (buf, pos)
        (cw w0 src dst pos pd (ofU8 file) err lg) =
      if ((content.drop pos).take 4096).all (· == 0) = true then
        (.ok (.yield (ofU8 ((content.drop pos).take 4096) ++ buf.drop ((content.drop pos).take 4096).length,
                      pos + ((content.drop pos).take 4096).length)),
         cw w0 src dst (pos + ((content.drop pos).take 4096).length) pd (ofU8 file) err lg)
      else
        (.ok (.yield (ofU8 ((content.drop pos).take 4096) ++ buf.drop ((content.drop pos).take 4096).length,
                      pos + ((content.drop pos).take 4096).length)),
         cw w0 src dst (pos + ((content.drop pos).take 4096).length) (pos + ((content.drop pos).take 4096).length)
           (ofU8 (writeAt file pos ((content.drop pos).take 4096))) err
           (lg ++ [⟨dst, .write pos ((content.drop pos).take 4096).length,
                    some (ofU8 (writeAt file pos ((content.drop pos).take 4096)))⟩])) := by
  have hbl : ((content.drop pos).take 4096).length = min 4096 (content.length - pos) := by simp
  have hk : min (min ((content.length - pos).min 4096) buf.length) ((ofU8 content).length - pos) =
      ((content.drop pos).take 4096).length := by
    rw [hbl, hbuf, ofU8_length]
    show min (min (min (content.length - pos) 4096) 4096) (content.length - pos) = _
    omega
  have hpos0 : 0 < ((content.drop pos).take 4096).length := by rw [hbl]; omega
  have hdata : ((ofU8 content).drop pos).take ((content.drop pos).take 4096).length = ofU8 ((content.drop pos).take 4096) := by
    rw [ofU8_take, ofU8_drop, ← ofU8_length ((content.drop pos).take 4096), ofU8_take, ofU8_drop, take_length_take]
  have hnz : ((content.drop pos).take 4096) ≠ [] := by
    intro h; rw [h] at hpos0; simp at hpos0
  have hnz' : ofU8 ((content.drop pos).take 4096) ≠ [] := by
    intro h; apply hnz; exact ofU8_inj (by rw [h]; rfl)
  have hslice : ∀ (t : List Nat), Rs.slice (ofU8 ((content.drop pos).take 4096) ++ t) 0 ((content.drop pos).take 4096).length
      = ofU8 ((content.drop pos).take 4096) := by
    intro t
    simp only [Rs.slice, List.drop_zero, Nat.sub_zero]
    rw [← ofU8_length ((content.drop pos).take 4096), List.take_left']
    rfl
  have hg : (!decide (pos < content.length)) = false := by simp [hpos]
  have hr0 : (((content.drop pos).take 4096).length == 0) = false := by
    rw [beq_eq_false_iff_ne]; omega
  unfold blockStep
  simp only [hg, Bool.false_eq_true, if_false, sparseExt, run_bind, Rs.cast, id,
    cw_read w0 src dst _ hsrc hne, hk, hdata, hr0, hslice, Rs.all, all_zero_ofU8]
  by_cases hz : ((content.drop pos).take 4096).all (· == 0) = true
  · rw [if_pos hz, if_pos hz]; rfl
  · rw [if_neg hz, if_neg hz]
    simp only [run_bind, cw_seek_dst, cw_write w0 src dst _ _ _ _ _ _ hnz', run_pure, pwrite_ofU8 _ _ _ hnz, ofU8_length]

/-- LOOP INVARIANT + FUEL of the block copier: from position `pos` with the destination holding `file`, there is ONE
    outcome that EVERY fuel above `file_size - pos` produces: the loop ends through its own test with the destination
    holding what the model's loop `blocksGo` computes; the log grows by writes only, each leaving a file of the final size -/
theorem blocks_loop (b : Bool) :
    ∀ (m pos pd : Nat) (buf : List Nat) (file : Bytes) (err : Int) (lg : List LogEntry),
      buf.length = 4096 → pos ≤ content.length → content.length - pos ≤ m → file.length = content.length →
      ∃ buf' pd' ws,
        (∀ fuel, content.length - pos < fuel →
          iterM (blockStep (sparseExt b) (w0.opened + 1) (w0.opened + 2) content.length) fuel (buf, pos)
              (cw w0 src dst pos pd (ofU8 file) err lg) =
            (.ok (buf', content.length),
             cw w0 src dst content.length pd' (ofU8 (blocksGo 4096 file pos (content.drop pos))) err (lg ++ ws))) ∧
        ∀ e ∈ ws, BlockWrite dst content.length e := by
  intro m
  induction m with
  | zero =>
    intro pos pd buf file err lg hbuf hpos hm hfile
    have hpe : pos = content.length := by omega
    subst hpe
    refine ⟨buf, pd, [], ?_, by simp⟩
    intro fuel hfuel
    obtain ⟨n, rfl⟩ : ∃ n, fuel = n + 1 := ⟨fuel - 1, by omega⟩
    have hg : (!decide (content.length < content.length)) = true := by simp
    simp only [iterM, blockStep, hg, if_true, run_bind, run_pure, List.append_nil]
    rw [blocksGo, dif_pos (Or.inr (by simp))]
  | succ k ih =>
    intro pos pd buf file err lg hbuf hpos hm hfile
    by_cases hp : pos < content.length
    · have hbl : ((content.drop pos).take 4096).length = min 4096 (content.length - pos) := by simp
      have hne' : ¬ ((4096 : Nat) = 0 ∨ content.drop pos = []) := by
        intro h; rcases h with h | h
        · omega
        · have := congrArg List.length h; simp at this; omega
      have hbuf' : (ofU8 ((content.drop pos).take 4096) ++ buf.drop ((content.drop pos).take 4096).length).length = 4096 := by
        rw [List.length_append, ofU8_length, List.length_drop, hbuf, hbl]; omega
      rw [blocksGo, dif_neg hne']
      dsimp only
      rw [drop_drop_take_length]
      by_cases hz : ((content.drop pos).take 4096).all (· == 0) = true
      · obtain ⟨buf', pd', ws, h1, h2⟩ := ih (pos + ((content.drop pos).take 4096).length) pd _ file err lg hbuf'
          (by rw [hbl]; omega) (by rw [hbl]; omega) hfile
        refine ⟨buf', pd', ws, ?_, h2⟩
        intro fuel hfuel
        obtain ⟨n, rfl⟩ : ∃ n, fuel = n + 1 := ⟨fuel - 1, by omega⟩
        simp only [iterM, run_bind, block_step w0 src dst content hsrc hne b pos pd buf file err lg hbuf hp, hz, if_true]
        exact h1 n (by rw [hbl]; omega)
      · have hfile' : (writeAt file pos ((content.drop pos).take 4096)).length = content.length := by
          have h1 := length_writeAt_le file pos ((content.drop pos).take 4096) content.length (by omega)
            (by rw [hbl]; omega)
          have h2 := length_writeAt_ge file pos ((content.drop pos).take 4096)
          omega
        obtain ⟨buf', pd', ws, h1, h2⟩ := ih (pos + ((content.drop pos).take 4096).length)
          (pos + ((content.drop pos).take 4096).length) _ (writeAt file pos ((content.drop pos).take 4096)) err
          (lg ++ [⟨dst, .write pos ((content.drop pos).take 4096).length,
                    some (ofU8 (writeAt file pos ((content.drop pos).take 4096)))⟩])
          hbuf' (by rw [hbl]; omega) (by rw [hbl]; omega) hfile'
        refine ⟨buf', pd', ⟨dst, .write pos ((content.drop pos).take 4096).length,
                    some (ofU8 (writeAt file pos ((content.drop pos).take 4096)))⟩ :: ws, ?_, ?_⟩
        · intro fuel hfuel
          obtain ⟨n, rfl⟩ : ∃ n, fuel = n + 1 := ⟨fuel - 1, by omega⟩
          simp only [iterM, run_bind, block_step w0 src dst content hsrc hne b pos pd buf file err lg hbuf hp, hz,
            Bool.false_eq_true, if_false]
          rw [h1 n (by rw [hbl]; omega), List.append_assoc]; rfl
        · intro e he
          rcases List.mem_cons.mp he with rfl | he
          · exact ⟨_, _, _, rfl, by rw [ofU8_length, hfile']⟩
          · exact h2 e he
    · have hpe : pos = content.length := by omega
      subst hpe
      refine ⟨buf, pd, [], ?_, by simp⟩
      intro fuel hfuel
      obtain ⟨n, rfl⟩ : ∃ n, fuel = n + 1 := ⟨fuel - 1, by omega⟩
      have hg : (!decide (content.length < content.length)) = true := by simp
      simp only [iterM, blockStep, hg, if_true, run_bind, run_pure, List.append_nil]
      rw [blocksGo, dif_pos (Or.inr (by simp))]

end blocks

/-! ### `copy_sparse_file_seek`: normal form -/

/-- one round of `while remaining > 0` (local.rs:109-117) on the loop state `(remaining, buffer)` -/
def innerStep {W : Type} (ext : Ext W) (hs hd : Nat) (s : Nat × List Nat) : Rs.M W (ForInStep (Nat × List Nat)) :=
  if (!decide (s.1 > 0)) = true then pure (ForInStep.done (s.1, s.2))
  else
    ext.h_read_upto hs s.2 (s.1.min (Rs.len s.2)) >>= fun r =>
      if (r.1 == 0) = true then pure (ForInStep.done (s.1, r.2))
      else ext.h_write_all hd (Rs.slice r.2 0 r.1) >>= fun _ =>
        pure (ForInStep.yield (Rs.saturating_sub s.1 r.1, r.2))

/-- `data_end` (local.rs:96-100) -/
def dataEnd (size : Nat) (hole_start : Int) : Int :=
  if (decide (hole_start < 0) || decide (hole_start > (Rs.cast size : Int))) = true then (Rs.cast size : Int) else hole_start

/-- one round of `while pos < file_size_i64` (local.rs:86-120) on the loop state `pos`; `fi` is the fuel of the inner loop -/
def outerStep {W : Type} (ext : Ext W) (fi hs hd size : Nat) (pos : Int) : Rs.M W (ForInStep Int) :=
  if (!decide (pos < (Rs.cast size : Int))) = true then pure (ForInStep.done pos)
  else
    ext.libc_lseek (id hs) pos 3 >>= fun ds =>
      if decide (ds < 0) = true then pure (ForInStep.done pos)
      else if decide (ds ≥ (Rs.cast size : Int)) = true then pure (ForInStep.done pos)
      else
        ext.libc_lseek (id hs) ds 4 >>= fun hole =>
          ext.h_seek hs (Rs.SeekFrom.Start (Rs.cast ds)) >>= fun _ =>
            ext.h_seek hd (Rs.SeekFrom.Start (Rs.cast ds)) >>= fun _ =>
              iterM (innerStep ext hs hd) fi ((Rs.cast (dataEnd size hole - ds) : Nat), List.replicate (1024 * 1024) 0) >>= fun _ =>
                pure (ForInStep.yield (dataEnd size hole))

/-- `copy_sparse_file_seek` after `File::create`: the probe, the all-hole exit, the walk, `set_len`, `sync_all` -/
def seekTail {W : Type} (ext : Ext W) (fo fi : Nat → Nat) (hs size hd : Nat) : Rs.M W Nat :=
  ext.libc_lseek (id hs) 0 3 >>= fun first =>
    if decide (first < 0) = true then
      ext.std_io_Error_last_os_error () >>= fun err =>
        if (ext.raw_os_error err == some EINVAL) = true then throw err
        else ext.h_set_len hd size >>= fun _ => pure size
    else
      ext.libc_lseek (id hs) 0 SEEK_SET >>= fun _ =>
        ext.h_seek hs (Rs.SeekFrom.Start 0) >>= fun _ =>
          iterM (outerStep ext (fi size) hs hd size) (fo size) 0 >>= fun _ =>
            ext.h_set_len hd size >>= fun _ => ext.h_sync_all hd >>= fun _ => pure size

/-- NORMAL FORM of the translated `copy_sparse_file_seek` for every `Ext`, with the fuels of the two loops as parameters -/
def seekNF {W : Type} (ext : Ext W) (fo fi : Nat → Nat) (s d : Rs.Path) : Rs.M W Nat :=
  prologue ext s d (seekTail ext fo fi)

theorem throw_bind {W α β : Type} (e : Rs.Err) (f : α → Rs.M W β) : (throw e : Rs.M W α) >>= f = throw e := rfl

/-- THE ONLY THEOREM ABOUT `copy_sparse_file_seek` THAT DEPENDS ON THE SHAPE OF THE GENERATED CODE -/
theorem seek_nf {W : Type} (ext : Ext W) (s d : Rs.Path) :
    copy_sparse_file_seek ext s d = seekNF ext (· + 2) (· + 2) s d := by
  unfold copy_sparse_file_seek
  simp only [forIn_range_M, pure_bind]
  rfl

/-! ### the prologue and the block copier in the world -/

/-- what the prologue appends to the log: `unlink` when the destination existed, then `create` -/
def preLog (w : SWorld) (dst : Rs.Path) : List LogEntry :=
  (if (w.files dst).isSome then [⟨dst, .unlink, none⟩] else []) ++ [⟨dst, .create, some []⟩]

theorem prologue_run (b : Bool) (w : SWorld) (src dst : Rs.Path) (c : List Nat) (hsrc : w.files src = some c)
    (hne : src ≠ dst) (K : Nat → Nat → Nat → Rs.M SWorld Nat) :
    prologue (sparseExt b) src dst K w =
      K (w.opened + 1) c.length (w.opened + 2) (cw w src dst 0 0 [] w.errno (w.log ++ preLog w dst)) := by
  unfold prologue
  have hopen : openOp src w = (.ok (w.opened + 1),
      { w with opened := w.opened + 1, handle := upd w.handle (w.opened + 1) (some ⟨src, 0, false⟩) }) := by
    simp [openOp, hsrc]
  have hmeta : metadataOp (w.opened + 1)
      { w with opened := w.opened + 1, handle := upd w.handle (w.opened + 1) (some ⟨src, 0, false⟩) } =
      (.ok ⟨c.length, w.blocks src⟩,
       { w with opened := w.opened + 1, handle := upd w.handle (w.opened + 1) (some ⟨src, 0, false⟩) }) := by
    simp [metadataOp, SWorld.target, hsrc]
  simp only [ext_open, ext_metadata, ext_exists, ext_remove, ext_create, run_bind, hopen, hmeta, Rs.len]
  cases hd : w.files dst with
  | none =>
    simp only [Option.isSome_none, Bool.false_eq_true, if_false, run_bind, createOp, preLog, hd, List.nil_append]
    rfl
  | some prior =>
    simp only [Option.isSome_some, if_true, run_bind, removeOp, hd, createOp, preLog, upd_upd, List.append_assoc,
      List.singleton_append]
    rfl

section blocksRun
variable (w : SWorld) (src dst : Rs.Path) (content : Bytes) (hsrc : w.files src = some (ofU8 content)) (hne : src ≠ dst)
include hsrc hne

/-- the translated block copier in the world: ONE outcome for every fuel above the file size — it succeeds, answers
    the size, the destination holds the MODEL's `localBlocks content`, and the log of the run is
    `[unlink]? create, set_len(size) ↦ zeros, writes…, sync` -/
theorem blocksNF_run (b : Bool) :
    ∃ ps pd ws,
      (∀ fuel : Nat → Nat, content.length < fuel content.length →
        blocksNF (sparseExt b) fuel src dst w =
          (.ok content.length,
           cw w src dst ps pd (ofU8 (localBlocks content)) w.errno
             (w.log ++ preLog w dst ++ [⟨dst, .setLen content.length, some (zerosN content.length)⟩] ++ ws ++
               [⟨dst, .sync, some (ofU8 (localBlocks content))⟩]))) ∧
      ∀ e ∈ ws, BlockWrite dst content.length e := by
  have ht : truncate [] content.length = ofU8 (setLen [] content.length) := truncate_ofU8 [] _
  have hz : truncate [] content.length = zerosN content.length := by simp [truncate]
  obtain ⟨buf', pd', ws, h1, h2⟩ := blocks_loop w src dst content hsrc hne b content.length 0 0
    (List.replicate 4096 0) (setLen [] content.length) w.errno
    (w.log ++ preLog w dst ++ [⟨dst, .setLen content.length, some (zerosN content.length)⟩])
    List.length_replicate (by omega) (by omega) (length_setLen _ _)
  refine ⟨content.length, pd', ws, ?_, h2⟩
  intro fuel hfuel
  unfold blocksNF
  rw [prologue_run b w src dst _ hsrc hne, ofU8_length]
  unfold blocksTail
  have hzz : ofU8 (setLen [] content.length) = zerosN content.length := by rw [← ht, hz]
  have h1' := h1 (fuel content.length) (by omega)
  rw [hzz] at h1'
  simp only [ext_set_len, ext_sync, run_bind, cw_setLen, hz, h1', cw_sync, run_pure, List.drop_zero]
  rfl

end blocksRun

/-! ### SEEK_DATA / SEEK_HOLE answers; the contract `Covers` -/

theorem seekData_some {rs : List Region} {size off d : Nat} (h : seekData rs size off = some d) :
    off ≤ d ∧ d < size ∧ isData rs d = true ∧ ∀ j, off ≤ j → j < d → isData rs j = false := by
  unfold seekData at h
  obtain ⟨h1, h2, h3⟩ := List.find?_range'_eq_some.mp h
  rw [List.mem_range'_1] at h2
  refine ⟨h2.1, by omega, h1, ?_⟩
  intro j hj1 hj2
  simpa using h3 j hj1 hj2

theorem seekData_none {rs : List Region} {size off : Nat} (h : seekData rs size off = none) :
    ∀ i, off ≤ i → i < size → isData rs i = false := by
  unfold seekData at h
  intro i h1 h2
  simpa using List.find?_range'_eq_none.mp h i h1 (by omega)

theorem seekHole_spec (rs : List Region) (size d : Nat) (hd : d < size) (hdata : isData rs d = true) :
    d < seekHole rs size d ∧ seekHole rs size d ≤ size ∧ ∀ j, d ≤ j → j < seekHole rs size d → isData rs j = true := by
  unfold seekHole
  cases h : (List.range' d (size - d)).find? (fun i => !isData rs i) with
  | none =>
    simp only [Option.getD_none]
    refine ⟨hd, Nat.le_refl _, ?_⟩
    intro j h1 h2
    simpa using List.find?_range'_eq_none.mp h j h1 (by omega)
  | some x =>
    simp only [Option.getD_some]
    obtain ⟨h1, h2, h3⟩ := List.find?_range'_eq_some.mp h
    rw [List.mem_range'_1] at h2
    have hx : x ≠ d := by intro e; subst e; simp [hdata] at h1
    refine ⟨by omega, by omega, ?_⟩
    intro j hj1 hj2
    simpa using h3 j hj1 hj2

/-- the contract: an offset outside every reported extent reads as zero -/
theorem covers_hole_zero {content : Bytes} {rs : List Region} (h : Covers content rs) (i : Nat)
    (hi : isData rs i = false) : at0 content i = 0 := by
  by_cases hl : i < content.length
  · apply Classical.byContradiction
    intro hne
    obtain ⟨r, hr, h1, h2⟩ := h.holesZero i hl hne
    have : isData rs i = true := by
      unfold isData
      rw [List.any_eq_true]
      exact ⟨r, hr, by simp [h1, h2]⟩
    rw [hi] at this; cases this
  · exact at0_of_le _ _ (by omega)

theorem ZeroOn.extend {content : Bytes} {q p p' : Nat} (h : ZeroOn content q p) (h' : ∀ i, p ≤ i → i < p' → at0 content i = 0) :
    ZeroOn content q p' := by
  intro i h1 h2
  by_cases hp : i < p
  · exact h i h1 hp
  · exact h' i (by omega) h2

/-! ### `lseek` in the world -/

section lseek
variable (w0 : SWorld) (src dst : Rs.Path) (c : List Nat) (hsrc : w0.files src = some c) (hne : src ≠ dst)
include hsrc hne

theorem cw_lseek_data (ps pd : Nat) (out : List Nat) (err : Int) (lg : List LogEntry) (off : Nat) :
    lseekOp true (w0.opened + 1) (off : Int) 3 (cw w0 src dst ps pd out err lg) =
      match (if off < c.length then seekData (w0.dataMap src) c.length off else none) with
      | none => (.ok (-1), cw w0 src dst ps pd out ENXIO lg)
      | some d => (.ok (d : Int), cw w0 src dst d pd out err lg) := by
  unfold lseekOp
  rw [cw_target_src w0 src dst c hsrc hne]
  have h0 : ¬ ((off : Int) < 0) := by omega
  by_cases hlt : off < c.length
  · have h1 : ¬ ((off : Int) < 0 ∨ (c.length : Int) ≤ off) := by omega
    simp only [if_pos hlt, h1, if_false, Int.toNat_natCast, Bool.not_true, Bool.false_eq_true,
      show ¬ ((3 : Int) = 0) by decide, if_true]
    have hdm : (cw w0 src dst ps pd out err lg).dataMap src = w0.dataMap src := rfl
    rw [hdm]
    cases seekData (w0.dataMap src) c.length off with
    | none => rfl
    | some d => simp only [cw_setPos_src]
  · have h1 : ((off : Int) < 0 ∨ (c.length : Int) ≤ off) := by omega
    simp only [if_neg hlt, h1, if_true, Bool.not_true, Bool.false_eq_true, if_false,
      show ¬ ((3 : Int) = 0) by decide]
    rfl

theorem cw_lseek_data_unsupported (ps pd : Nat) (out : List Nat) (err : Int) (lg : List LogEntry) (off : Int) :
    lseekOp false (w0.opened + 1) off 3 (cw w0 src dst ps pd out err lg) =
      (.ok (-1), cw w0 src dst ps pd out EINVAL lg) := by
  unfold lseekOp
  rw [cw_target_src w0 src dst c hsrc hne]
  simp only [show ¬ ((3 : Int) = 0) by decide, if_false, if_true, Bool.not_false]
  rfl

theorem cw_lseek_hole (ps pd : Nat) (out : List Nat) (err : Int) (lg : List LogEntry) (off : Nat) (hlt : off < c.length) :
    lseekOp true (w0.opened + 1) (off : Int) 4 (cw w0 src dst ps pd out err lg) =
      (.ok (seekHole (w0.dataMap src) c.length off : Int),
       cw w0 src dst (seekHole (w0.dataMap src) c.length off) pd out err lg) := by
  unfold lseekOp
  rw [cw_target_src w0 src dst c hsrc hne]
  have h1 : ¬ ((off : Int) < 0 ∨ (c.length : Int) ≤ off) := by omega
  have hdm : (cw w0 src dst ps pd out err lg).dataMap src = w0.dataMap src := rfl
  simp only [h1, if_false, Int.toNat_natCast, Bool.not_true, Bool.false_eq_true,
    show ¬ ((4 : Int) = 0) by decide, show ¬ ((4 : Int) = 3) by decide, if_true, cw_setPos_src, hdm]

theorem cw_lseek_set (b : Bool) (ps pd : Nat) (out : List Nat) (err : Int) (lg : List LogEntry) :
    lseekOp b (w0.opened + 1) 0 SEEK_SET (cw w0 src dst ps pd out err lg) =
      (.ok 0, cw w0 src dst 0 pd out err lg) := by
  unfold lseekOp
  rw [cw_target_src w0 src dst c hsrc hne]
  simp only [SEEK_SET, if_true, show ¬ ((0 : Int) < 0) by decide, if_false, Int.toNat_zero, cw_setPos_src]

end lseek

/-! ### the two loops of `copy_sparse_file_seek` in the world -/

theorem cast_nat_int (n : Nat) : (Rs.cast n : Int) = (n : Int) := rfl
theorem cast_int_nat (i : Int) : (Rs.cast i : Nat) = i.toNat := rfl

/-- a `write` of the seek copier on `dst`: `len > 0` bytes at `off`, and the file it leaves is exactly the PREFIX of
    the source up to the end of that write -/
def SeekWrite (dst : Rs.Path) (content : Bytes) (e : LogEntry) : Prop :=
  ∃ off len, 0 < len ∧ off + len ≤ content.length ∧
    e = ⟨dst, .write off len, some (ofU8 (content.take (off + len)))⟩

section seek
variable (w0 : SWorld) (src dst : Rs.Path) (content : Bytes) (hsrc : w0.files src = some (ofU8 content)) (hne : src ≠ dst)
include hsrc hne

/-- INNER LOOP (one extent `[p, p + rem)` through the 1 MiB buffer), invariant + fuel: the destination holds the prefix
    `content.take q` with only zeros between `q` and the common position `p` of both handles; there is ONE outcome that
    every fuel above `rem` produces: the loop ends through `remaining > 0` failing, the positions at `p + rem`, the
    destination again a prefix with only zeros up to there -/
theorem inner_loop (b : Bool) :
    ∀ (m rem p q : Nat) (buf : List Nat) (err : Int) (lg : List LogEntry),
      buf.length = 1024 * 1024 → p + rem ≤ content.length → q ≤ p → ZeroOn content q p → rem ≤ m →
      ∃ buf' q' ws,
        (∀ fuel, rem < fuel →
          iterM (innerStep (sparseExt b) (w0.opened + 1) (w0.opened + 2)) fuel (rem, buf)
              (cw w0 src dst p p (ofU8 (content.take q)) err lg) =
            (.ok (0, buf'), cw w0 src dst (p + rem) (p + rem) (ofU8 (content.take q')) err (lg ++ ws))) ∧
        q' ≤ p + rem ∧ ZeroOn content q' (p + rem) ∧ (rem = 0 → q' = q) ∧ (0 < rem → q' = p + rem) ∧
        ∀ e ∈ ws, SeekWrite dst content e := by
  have hdone : ∀ (p q : Nat) (buf : List Nat) (err : Int) (lg : List LogEntry), ZeroOn content q p → q ≤ p →
      ∃ buf' q' ws,
        (∀ fuel, 0 < fuel →
          iterM (innerStep (sparseExt b) (w0.opened + 1) (w0.opened + 2)) fuel (0, buf)
              (cw w0 src dst p p (ofU8 (content.take q)) err lg) =
            (.ok (0, buf'), cw w0 src dst (p + 0) (p + 0) (ofU8 (content.take q')) err (lg ++ ws))) ∧
        q' ≤ p + 0 ∧ ZeroOn content q' (p + 0) ∧ ((0 : Nat) = 0 → q' = q) ∧ (0 < (0 : Nat) → q' = p + 0) ∧
        ∀ e ∈ ws, SeekWrite dst content e := by
    intro p q buf err lg hz hq
    refine ⟨buf, q, [], ?_, by omega, by simpa using hz, fun _ => rfl, by omega, by simp⟩
    intro fuel hfuel
    obtain ⟨n, rfl⟩ : ∃ n, fuel = n + 1 := ⟨fuel - 1, by omega⟩
    have hg : (!decide (0 > 0)) = true := by simp
    simp only [iterM, innerStep, hg, if_true, run_bind, run_pure, List.append_nil, Nat.add_zero]
  intro m
  induction m with
  | zero =>
    intro rem p q buf err lg hbuf hle hq hz hm
    have hr0 : rem = 0 := by omega
    subst hr0
    exact hdone p q buf err lg hz hq
  | succ n ih =>
    intro rem p q buf err lg hbuf hle hq hz hm
    by_cases hr : 0 < rem
    · -- one chunk
      have hk : min (min (rem.min (Rs.len buf)) buf.length) (content.length - p) = min rem (1024 * 1024) := by
        show min (min (min rem buf.length) buf.length) (content.length - p) = _
        rw [hbuf]; omega
      have hkpos : 0 < min rem (1024 * 1024) := by omega
      have hkle : p + min rem (1024 * 1024) ≤ content.length := by omega
      have hdl : ((content.drop p).take (min rem (1024 * 1024))).length = min rem (1024 * 1024) := by
        simp only [List.length_take, List.length_drop]; omega
      have hdata : ((ofU8 content).drop p).take (min rem (1024 * 1024)) =
          ofU8 ((content.drop p).take (min rem (1024 * 1024))) := by rw [ofU8_take, ofU8_drop]
      have hnz : ((content.drop p).take (min rem (1024 * 1024))) ≠ [] := by
        intro h; rw [h] at hdl; simp at hdl; omega
      have hnz' : ofU8 ((content.drop p).take (min rem (1024 * 1024))) ≠ [] := by
        intro h; apply hnz; exact ofU8_inj (by rw [h]; rfl)
      have hslice : ∀ (t : List Nat), Rs.slice (ofU8 ((content.drop p).take (min rem (1024 * 1024))) ++ t) 0
          (min rem (1024 * 1024)) = ofU8 ((content.drop p).take (min rem (1024 * 1024))) := by
        intro t
        simp only [Rs.slice, List.drop_zero, Nat.sub_zero]
        rw [List.take_left' (by rw [ofU8_length, hdl])]
      have hg : (!decide (rem > 0)) = false := by simp [hr]
      have hr0 : ((min rem (1024 * 1024)) == 0) = false := by rw [beq_eq_false_iff_ne]; omega
      have hbuf' : (ofU8 ((content.drop p).take (min rem (1024 * 1024))) ++ buf.drop (min rem (1024 * 1024))).length
          = 1024 * 1024 := by
        rw [List.length_append, ofU8_length, hdl, List.length_drop, hbuf]; omega
      obtain ⟨buf', q', ws, h1, h2, h3, h4, h5, h6⟩ := ih (rem - min rem (1024 * 1024)) (p + min rem (1024 * 1024))
        (p + min rem (1024 * 1024)) _ err
        (lg ++ [⟨dst, .write p (min rem (1024 * 1024)), some (ofU8 (content.take (p + min rem (1024 * 1024))))⟩])
        hbuf' (by omega) (Nat.le_refl _) (fun i h1 h2 => by omega) (by omega)
      have hpr : p + min rem (1024 * 1024) + (rem - min rem (1024 * 1024)) = p + rem := by omega
      rw [hpr] at h1 h2 h3 h5
      refine ⟨buf', q', ⟨dst, .write p (min rem (1024 * 1024)),
        some (ofU8 (content.take (p + min rem (1024 * 1024))))⟩ :: ws, ?_, h2, h3, by omega, ?_, ?_⟩
      · intro fuel hfuel
        obtain ⟨k, rfl⟩ : ∃ k, fuel = k + 1 := ⟨fuel - 1, by omega⟩
        simp only [iterM, innerStep, hg, Bool.false_eq_true, if_false, run_bind, ext_read_upto, ext_write_all,
          cw_read w0 src dst _ hsrc hne, hk, hdata, hr0, hslice, cw_write w0 src dst _ _ _ _ _ _ hnz', run_pure,
          pwrite_ofU8 _ _ _ hnz, writeAt_prefix content q p _ hq hz hkpos hkle, ofU8_length, hdl, Rs.saturating_sub]
        rw [h1 k (by omega), List.append_assoc]; rfl
      · intro _
        by_cases hr2 : 0 < rem - min rem (1024 * 1024)
        · exact h5 hr2
        · have := h4 (by omega)
          omega
      · intro e he
        rcases List.mem_cons.mp he with rfl | he
        · exact ⟨p, min rem (1024 * 1024), hkpos, hkle, rfl⟩
        · exact h6 e he
    · have hr0 : rem = 0 := by omega
      subst hr0
      exact hdone p q buf err lg hz hq

/-- OUTER LOOP (the SEEK_DATA / SEEK_HOLE walk), invariant + fuel, under the contract `Covers`: from `pos = p` with
    the destination a prefix `content.take q` and only zeros between `q` and `p`, there is ONE outcome that every fuel
    above `file_size - p` (with any inner fuel above `file_size`) produces: the loop ends through one of its own exits,
    the destination a prefix with only zeros from there TO THE END of the file; the log grows by `SeekWrite`s only -/
theorem outer_loop (hcov : Covers content (w0.dataMap src)) :
    ∀ (m p q ps pd : Nat) (err : Int) (lg : List LogEntry),
      p ≤ content.length → q ≤ p → ZeroOn content q p → content.length - p ≤ m →
      ∃ (p' : Int) (q' ps' pd' : Nat) (err' : Int) (ws : List LogEntry),
        (∀ fuel fi, content.length - p < fuel → content.length < fi →
          iterM (outerStep (sparseExt true) fi (w0.opened + 1) (w0.opened + 2) content.length) fuel (p : Int)
              (cw w0 src dst ps pd (ofU8 (content.take q)) err lg) =
            (.ok p', cw w0 src dst ps' pd' (ofU8 (content.take q')) err' (lg ++ ws))) ∧
        q ≤ q' ∧ q' ≤ content.length ∧ ZeroOn content q' content.length ∧ ∀ e ∈ ws, SeekWrite dst content e := by
  have hdone : ∀ (q ps pd : Nat) (err : Int) (lg : List LogEntry), q ≤ content.length →
      ZeroOn content q content.length →
      ∃ (p' : Int) (q' ps' pd' : Nat) (err' : Int) (ws : List LogEntry),
        (∀ fuel fi, content.length - content.length < fuel → content.length < fi →
          iterM (outerStep (sparseExt true) fi (w0.opened + 1) (w0.opened + 2) content.length) fuel (content.length : Int)
              (cw w0 src dst ps pd (ofU8 (content.take q)) err lg) =
            (.ok p', cw w0 src dst ps' pd' (ofU8 (content.take q')) err' (lg ++ ws))) ∧
        q ≤ q' ∧ q' ≤ content.length ∧ ZeroOn content q' content.length ∧ ∀ e ∈ ws, SeekWrite dst content e := by
    intro q ps pd err lg hq hz
    refine ⟨(content.length : Int), q, ps, pd, err, [], ?_, Nat.le_refl _, hq, hz, by simp⟩
    intro fuel fi hfuel _
    obtain ⟨k, rfl⟩ : ∃ k, fuel = k + 1 := ⟨fuel - 1, by omega⟩
    have hg : (!decide ((content.length : Int) < (Rs.cast content.length : Int))) = true := by
      rw [cast_nat_int]; simp
    simp only [iterM, outerStep, hg, if_true, run_bind, run_pure, List.append_nil]
  intro m
  induction m with
  | zero =>
    intro p q ps pd err lg hp hq hz hm
    have hpe : p = content.length := by omega
    subst hpe
    exact hdone q ps pd err lg hq hz
  | succ n ih =>
    intro p q ps pd err lg hp hq hz hm
    by_cases hlt : p < content.length
    · have hg : (!decide ((p : Int) < (Rs.cast content.length : Int))) = false := by
        rw [cast_nat_int]; simp; omega
      cases hsd : seekData (w0.dataMap src) content.length p with
      | none =>
        -- only a hole follows: `data_start < 0`, break
        refine ⟨p, q, ps, pd, ENXIO, [], ?_, Nat.le_refl _, by omega, ?_, by simp⟩
        · intro fuel fi hfuel _
          obtain ⟨k, rfl⟩ : ∃ k, fuel = k + 1 := ⟨fuel - 1, by omega⟩
          simp only [iterM, outerStep, hg, Bool.false_eq_true, if_false, run_bind, ext_lseek, id,
            cw_lseek_data w0 src dst _ hsrc hne, ofU8_length, if_pos hlt, hsd,
            show decide ((-1 : Int) < 0) = true by decide, if_true, run_pure, List.append_nil]
        · exact hz.extend fun i h1 h2 => covers_hole_zero hcov i (seekData_none hsd i h1 h2)
      | some d =>
        obtain ⟨hd1, hd2, hd3, hd4⟩ := seekData_some hsd
        obtain ⟨hh1, hh2, _⟩ := seekHole_spec (w0.dataMap src) content.length d hd2 hd3
        have hc1 : decide ((d : Int) < 0) = false := by simp
        have hc2 : decide ((d : Int) ≥ (Rs.cast content.length : Int)) = false := by
          rw [cast_nat_int]; simp; omega
        have hde : dataEnd content.length (seekHole (w0.dataMap src) content.length d : Int) =
            (seekHole (w0.dataMap src) content.length d : Int) := by
          unfold dataEnd
          rw [cast_nat_int, if_neg]
          simp; omega
        have hlen : ((seekHole (w0.dataMap src) content.length d : Int) - (d : Int)).toNat =
            seekHole (w0.dataMap src) content.length d - d := by
          omega
        have hzd : ZeroOn content q d :=
          hz.extend fun i h1 h2 => covers_hole_zero hcov i (hd4 i h1 h2)
        obtain ⟨buf', q1, ws1, hi1, hi2, hi3, _, hi5, hi6⟩ := inner_loop w0 src dst content hsrc hne true
          content.length (seekHole (w0.dataMap src) content.length d - d) d q (List.replicate (1024 * 1024) 0) err lg
          List.length_replicate (by omega) (by omega) hzd (by omega)
        have hdh : d + (seekHole (w0.dataMap src) content.length d - d) = seekHole (w0.dataMap src) content.length d := by
          omega
        rw [hdh] at hi1 hi2 hi3 hi5
        obtain ⟨p', q', ps', pd', err', ws, h1, h2, h3, h4, h5⟩ := ih (seekHole (w0.dataMap src) content.length d) q1
          (seekHole (w0.dataMap src) content.length d) (seekHole (w0.dataMap src) content.length d) err (lg ++ ws1)
          hh2 hi2 hi3 (by omega)
        refine ⟨p', q', ps', pd', err', ws1 ++ ws, ?_, by have := hi5 (by omega); omega, h3, h4, ?_⟩
        · intro fuel fi hfuel hfi
          obtain ⟨k, rfl⟩ : ∃ k, fuel = k + 1 := ⟨fuel - 1, by omega⟩
          simp only [iterM, outerStep, hg, Bool.false_eq_true, if_false, run_bind, ext_lseek, id,
            cw_lseek_data w0 src dst _ hsrc hne, ofU8_length, if_pos hlt, hsd,
            hc1, hc2, cw_lseek_hole w0 src dst _ hsrc hne _ _ _ _ _ d
            (by rw [ofU8_length]; exact hd2), ext_seek, cast_int_nat, Int.toNat_natCast,
            cw_seek_src w0 src dst _ hsrc hne, cw_seek_dst, hde, hlen, hi1 fi (by omega), run_pure,
            h1 k fi (by omega) hfi, List.append_assoc]
        · intro e he
          rcases List.mem_append.mp he with he | he
          · exact hi6 e he
          · exact h5 e he
    · have hpe : p = content.length := by omega
      subst hpe
      exact hdone q ps pd err lg hq hz

end seek

/-! ### `copy_sparse_file_seek` in the world -/

theorem cw_errno (w0 : SWorld) (src dst : Rs.Path) (ps pd : Nat) (out : List Nat) (err : Int) (lg : List LogEntry) :
    (cw w0 src dst ps pd out err lg).errno = err := rfl
theorem lastOsError_ENXIO : lastOsError ENXIO = .io := by decide
theorem lastOsError_EINVAL : lastOsError EINVAL = .other := by decide
theorem raw_last_ENXIO : (rawOsError (lastOsError ENXIO) == some EINVAL) = false := by decide
theorem raw_last_EINVAL : (rawOsError (lastOsError EINVAL) == some EINVAL) = true := by decide
theorem raw_io_ne : (rawOsError .io == some EINVAL) = false := by decide
theorem raw_other_eq : (rawOsError .other == some EINVAL) = true := by decide

/-- the error test after a failed probe: `EINVAL` is returned (as THE error with that errno), anything else goes on -/
theorem last_err_branch (b : Bool) {α : Type} (K : Rs.M SWorld α) (w' : SWorld) :
    ((sparseExt b).std_io_Error_last_os_error () >>= fun err =>
        if ((sparseExt b).raw_os_error err == some EINVAL) = true then throw err else K) w' =
      if w'.errno = EINVAL then (.error .other, w') else K w' := by
  rw [run_bind]
  show (if (rawOsError (lastOsError w'.errno) == some EINVAL) = true then throw (lastOsError w'.errno) else K) w' = _
  unfold lastOsError
  by_cases h : w'.errno = EINVAL
  · rw [if_pos h, if_pos h, if_pos (by decide)]; rfl
  · rw [if_neg h, if_neg h, if_neg (by decide)]

section seekRun
variable (w : SWorld) (src dst : Rs.Path) (content : Bytes) (hsrc : w.files src = some (ofU8 content)) (hne : src ≠ dst)
include hsrc hne

/-- the translated seek copier on a file system WITH SEEK_DATA, under the contract `Covers`: ONE outcome for all
    fuels above the file size — it succeeds, answers the size, the destination holds the source bytes, and the log of
    the run is `[unlink]? create, SeekWrite…, set_len(size) ↦ content` followed by `sync` — or by nothing, on the
    all-hole exit (no data at all: no write, no sync) -/
theorem seekNF_run (hcov : Covers content (w.dataMap src)) :
    ∃ ps pd err ws tail,
      (∀ fo fi : Nat → Nat, content.length < fo content.length → content.length < fi content.length →
        seekNF (sparseExt true) fo fi src dst w =
          (.ok content.length,
           cw w src dst ps pd (ofU8 content) err
             (w.log ++ preLog w dst ++ ws ++ [⟨dst, .setLen content.length, some (ofU8 content)⟩] ++ tail))) ∧
      (∀ e ∈ ws, SeekWrite dst content e) ∧
      ((tail = [] ∧ ws = [] ∧ ∀ i, isData (w.dataMap src) i = true → content.length ≤ i) ∨
       tail = [⟨dst, .sync, some (ofU8 content)⟩]) := by
  have h0 := cw_lseek_data w src dst _ hsrc hne 0 0 [] w.errno (w.log ++ preLog w dst) 0
  rw [ofU8_length] at h0
  simp only [Int.natCast_zero] at h0
  have hnil : ([] : List Nat) = ofU8 (content.take 0) := rfl
  cases hsd : (if 0 < content.length then seekData (w.dataMap src) content.length 0 else none) with
  | none =>
    -- no data at all (or an empty file): ENXIO, `set_len`, return
    rw [hsd] at h0
    have hnodata : ∀ i, i < content.length → isData (w.dataMap src) i = false := by
      intro i hi
      have : 0 < content.length := by omega
      rw [if_pos this] at hsd
      exact seekData_none hsd i (by omega) hi
    have hzero : ZeroOn content 0 content.length := fun i _ hi => covers_hole_zero hcov i (hnodata i hi)
    have hfin : truncate [] content.length = ofU8 content := by
      rw [hnil, truncate_ofU8, setLen_prefix content 0 (by omega) hzero]
    refine ⟨0, 0, ENXIO, [], [], ?_, by simp, Or.inl ⟨rfl, rfl, ?_⟩⟩
    · intro fo fi _ _
      unfold seekNF
      rw [prologue_run true w src dst _ hsrc hne, ofU8_length]
      unfold seekTail
      rw [run_bind]
      simp only [ext_lseek, id]
      rw [h0]
      simp only [show decide ((-1 : Int) < 0) = true by decide, if_true]
      rw [last_err_branch, cw_errno, if_neg (by decide)]
      simp only [run_bind, ext_set_len, cw_setLen, hfin, run_pure, List.append_nil]
    · intro i hi
      apply Classical.byContradiction
      intro hlt
      rw [hnodata i (by omega)] at hi; cases hi
  | some d =>
    rw [hsd] at h0
    have hd0 : decide ((d : Int) < 0) = false := by simp
    obtain ⟨p', q', ps', pd', err', ws, h1, _, h3, h4, h5⟩ := outer_loop w src dst content hsrc hne hcov
      content.length 0 0 0 0 w.errno (w.log ++ preLog w dst) (by omega) (by omega)
      (fun i h1 h2 => by omega) (by omega)
    have hfin : truncate (ofU8 (content.take q')) content.length = ofU8 content := by
      rw [truncate_ofU8, setLen_prefix content q' h3 h4]
    refine ⟨ps', pd', err', ws, [⟨dst, .sync, some (ofU8 content)⟩], ?_, h5, Or.inr rfl⟩
    intro fo fi hfo hfi
    unfold seekNF
    rw [prologue_run true w src dst _ hsrc hne, ofU8_length]
    unfold seekTail
    rw [run_bind]
    simp only [ext_lseek, id]
    rw [h0]
    simp only [hd0, Bool.false_eq_true, if_false, run_bind, cw_lseek_set w src dst _ hsrc hne, ext_seek,
      cw_seek_src w src dst _ hsrc hne]
    rw [hnil]
    have h1' := h1 (fo content.length) (fi content.length) (by omega) hfi
    simp only [Int.natCast_zero] at h1'
    simp only [h1', ext_set_len, ext_sync, cw_setLen, hfin, cw_sync, run_pure]

/-- … and on a file system WITHOUT it: the first probe answers EINVAL and the function returns THE error whose
    `raw_os_error()` is `Some(EINVAL)`, leaving the destination created and EMPTY (prior content gone) -/
theorem seekNF_unsupported (fo fi : Nat → Nat) :
    seekNF (sparseExt false) fo fi src dst w =
      (.error .other, cw w src dst 0 0 [] EINVAL (w.log ++ preLog w dst)) := by
  unfold seekNF
  rw [prologue_run false w src dst _ hsrc hne]
  unfold seekTail
  rw [run_bind]
  simp only [ext_lseek, id, cw_lseek_data_unsupported w src dst _ hsrc hne,
    show decide ((-1 : Int) < 0) = true by decide, if_true]
  rw [last_err_branch, cw_errno, if_pos rfl]

end seekRun

/-! ### `copy_sparse_file`: the dispatch, for every `Ext` -/

/-- `copy_sparse_file` is the seek variant; exactly when that fails with an error whose `raw_os_error()` is
    `Some(EINVAL)` the block variant is run — in the world the failed attempt left behind; every other error is
    returned as it is -/
theorem copy_sparse_file_eq {W : Type} (ext : Ext W) (s d : Rs.Path) (w : W) :
    copy_sparse_file ext s d w =
      match copy_sparse_file_seek ext s d w with
      | (.ok size, w') => (.ok size, w')
      | (.error e, w') =>
        if (ext.raw_os_error e == some EINVAL) = true then copy_sparse_file_blocks ext s d w' else (.error e, w') := by
  unfold copy_sparse_file
  simp only [run_bind, run_capture]
  rcases copy_sparse_file_seek ext s d w with ⟨r, w'⟩
  cases r with
  | ok v => rfl
  | error e =>
    simp only
    split <;> rfl

end SyModel.SparseCopy
