/-
  The invariant `Inv` along histories (repaired code).
-/
import SyModel.Lemmas.BisyncWorld
namespace SyModel.Bisync

/-! ### edits -/

def editResult (now : Nat) (op : EditOp) (x : Option File) : Option File :=
  match op, x with
  | .create sz, none => some ⟨now, sz, now⟩
  | .modSize, some f => some ⟨now, f.size + 1, now⟩
  | .modSame, some f => some ⟨now, f.size, now⟩
  | .delete, some _ => none
  | .touch, some f => some { f with mtime := now }
  | _, x => x

theorem aget_editRoot (now : Nat) (p q : Path) (op : EditOp) (r : Root) :
    aget q (editRoot now p op r) = if q = p then editResult now op (aget p r) else aget q r := by
  unfold editRoot editResult
  by_cases h : q = p
  · subst h
    cases op <;> cases hx : aget q r <;> simp [aget_aset, aget_aerase, hx]
  · cases op <;> cases hx : aget p r <;> simp [aget_aset, aget_aerase, h]

theorem editResult_cases (now : Nat) (op : EditOp) (x : Option File) :
    editResult now op x = x ∨ editResult now op x = none ∨ ∃ f, editResult now op x = some f ∧ f.mtime = now := by
  cases op <;> cases x <;> simp [editResult]

/-! ### `Inv` gives a consistent prior state -/

theorem Inv.rows_some {t : Trace} (h : Inv t) {p : Path} {rl rr : Row} (hr : t.w.rows p = (some rl, some rr)) :
    ∃ a b, t.agreed p = some (a, b) ∧ rl = a.meta ∧ rr = b.meta := by
  have := h.rows p
  rw [hr] at this
  cases ha : t.agreed p with
  | none => simp [ha] at this
  | some ab =>
    obtain ⟨a, b⟩ := ab
    simp only [ha, Prod.mk.injEq, Option.some.injEq] at this
    exact ⟨a, b, rfl, this.1, this.2⟩

theorem Inv.unmodified_left {t : Trace} (h : Inv t) {p : Path} {a b f : File}
    (ha : t.agreed p = some (a, b)) (hf : aget p t.w.left = some f)
    (hm : isModified f.entry a.meta = false) : f = a := by
  rcases h.newerL p a b ha f hf with e | e
  · exact e
  · have := (h.old p a b ha).1
    simp [isModified, File.entry, File.meta] at hm
    omega

theorem Inv.unmodified_right {t : Trace} (h : Inv t) {p : Path} {a b f : File}
    (ha : t.agreed p = some (a, b)) (hf : aget p t.w.right = some f)
    (hm : isModified f.entry b.meta = false) : f = b := by
  rcases h.newerR p a b ha f hf with e | e
  · exact e
  · have := (h.old p a b ha).2
    simp [isModified, File.entry, File.meta] at hm
    omega

theorem Inv.consistent {t : Trace} (h : Inv t) : Consistent t.w := by
  refine ⟨?_, ?_⟩
  · intro p
    have := h.rows p
    cases ha : t.agreed p with
    | none => simp [ha] at this; simp [this]
    | some ab => obtain ⟨a, b⟩ := ab; simp [ha] at this; simp [this]
  · intro p l r rl rr hl hr hrows m1 m2
    obtain ⟨a, b, ha, rfl, rfl⟩ := h.rows_some hrows
    have e1 := h.unmodified_left ha hl m1
    have e2 := h.unmodified_right ha hr m2
    subst e1; subst e2
    exact h.agree p _ _ ha

/-! ### start and edits preserve `Inv` -/

theorem agreed_nil {t : Trace} (hL : t.baseL = []) (p : Path) : t.agreed p = none := by
  simp [Trace.agreed, hL, aget]

theorem inv_init {t : Trace} (h : t.Init) : Inv t := by
  have ha : ∀ p, t.agreed p = none := agreed_nil h.baseL
  refine ⟨?_, ?_, ?_, h.clock, ?_, ?_, h.past⟩
  · intro p; rw [ha p]; simp [World.rows, h.db, aget]
  · intro p a b e; rw [ha p] at e; cases e
  · intro p a b e; rw [ha p] at e; cases e
  · intro p a b e; rw [ha p] at e; cases e
  · intro p a b e; rw [ha p] at e; cases e

theorem inv_edit {t : Trace} (h : Inv t) (cfg : Cfg) (side : Side) (p : Path) (op : EditOp) :
    Inv (t.step cfg (.edit side p op)) := by
  have hclk := h.clock
  cases side with
  | source =>
    refine ⟨h.rows, h.agree, h.old, ?_, ?_, h.newerR, ?_⟩
    · show t.syncClock < t.w.clock + 1; omega
    · intro q a b ha f hf
      have hf' : aget q (editRoot t.w.clock p op t.w.left) = some f := hf
      rw [aget_editRoot] at hf'
      by_cases hq : q = p
      · subst hq
        simp only [if_true] at hf'
        rcases editResult_cases t.w.clock op (aget q t.w.left) with e | e | ⟨g, e, hg⟩
        · rw [e] at hf'; exact h.newerL q a b ha f hf'
        · rw [e] at hf'; cases hf'
        · rw [e] at hf'; cases hf'; right; show t.syncClock < _; omega
      · simp only [hq, if_false] at hf'; exact h.newerL q a b ha f hf'
    · intro q f hf
      show f.mtime < t.w.clock + 1
      rcases hf with hf | hf
      · have hf' : aget q (editRoot t.w.clock p op t.w.left) = some f := hf
        rw [aget_editRoot] at hf'
        by_cases hq : q = p
        · subst hq
          simp only [if_true] at hf'
          rcases editResult_cases t.w.clock op (aget q t.w.left) with e | e | ⟨g, e, hg⟩
          · rw [e] at hf'; have := h.past q f (Or.inl hf'); omega
          · rw [e] at hf'; cases hf'
          · rw [e] at hf'; cases hf'; omega
        · simp only [hq, if_false] at hf'; have := h.past q f (Or.inl hf'); omega
      · have := h.past q f (Or.inr hf); omega
  | dest =>
    refine ⟨h.rows, h.agree, h.old, ?_, h.newerL, ?_, ?_⟩
    · show t.syncClock < t.w.clock + 1; omega
    · intro q a b ha f hf
      have hf' : aget q (editRoot t.w.clock p op t.w.right) = some f := hf
      rw [aget_editRoot] at hf'
      by_cases hq : q = p
      · subst hq
        simp only [if_true] at hf'
        rcases editResult_cases t.w.clock op (aget q t.w.right) with e | e | ⟨g, e, hg⟩
        · rw [e] at hf'; exact h.newerR q a b ha f hf'
        · rw [e] at hf'; cases hf'
        · rw [e] at hf'; cases hf'; right; show t.syncClock < _; omega
      · simp only [hq, if_false] at hf'; exact h.newerR q a b ha f hf'
    · intro q f hf
      show f.mtime < t.w.clock + 1
      rcases hf with hf | hf
      · have := h.past q f (Or.inl hf); omega
      · have hf' : aget q (editRoot t.w.clock p op t.w.right) = some f := hf
        rw [aget_editRoot] at hf'
        by_cases hq : q = p
        · subst hq
          simp only [if_true] at hf'
          rcases editResult_cases t.w.clock op (aget q t.w.right) with e | e | ⟨g, e, hg⟩
          · rw [e] at hf'; have := h.past q f (Or.inr hf'); omega
          · rw [e] at hf'; cases hf'
          · rw [e] at hf'; cases hf'; omega
        · simp only [hq, if_false] at hf'; have := h.past q f (Or.inr hf'); omega

/-! ### a sync preserves `Inv` -/

/-- every file of `own` is an old file or freshly stamped. -/
theorem own_files (now : Nat) (a : Option Action) (l r : Option File) (f : File)
    (h : (own now a l r).1 = some f ∨ (own now a l r).2 = some f) :
    f.mtime = now ∨ l = some f ∨ r = some f := by
  cases a with
  | none => simp only [own] at h; rcases h with h | h <;> simp [h]
  | some act =>
    cases act <;> simp only [own] at h
    · cases r with
      | none =>
        rcases h with h | h
        · right; left; exact h
        · cases h
      | some g =>
        rcases h with h | h
        · left; cases h; rfl
        · right; right; exact h
    · cases l with
      | none =>
        rcases h with h | h
        · cases h
        · right; right; exact h
      | some g =>
        rcases h with h | h
        · right; left; exact h
        · left; cases h; rfl
    · rcases h with h | h
      · cases h
      · right; right; exact h
    · rcases h with h | h
      · right; left; exact h
      · cases h
    · cases l with
      | none =>
        rcases h with h | h
        · cases h
        · right; right; exact h
      | some g => rcases h with h | h <;> cases h

theorem sync_file_mtimes (strat : Strategy) (md stamp : Nat) (w : World) (hf : Fresh w stamp)
    (hnr : (sync .repaired strat md stamp w).refused = false) (bound : Nat)
    (hpast : ∀ p f, (aget p w.left = some f ∨ aget p w.right = some f) → f.mtime < bound)
    (hb : w.clock ≤ bound) (q : Path) (f : File)
    (h : aget q (sync .repaired strat md stamp w).world.left = some f ∨
         aget q (sync .repaired strat md stamp w).world.right = some f) :
    f.mtime ≤ bound := by
  obtain ⟨hs, _, _⟩ := sync_spec .repaired rfl strat md stamp w hf hnr
  have h' : ((sync .repaired strat md stamp w).world.view q).l = some f ∨
      ((sync .repaired strat md stamp w).world.view q).r = some f := h
  by_cases hq : q ∈ w.allPaths
  · rw [hs.own q hq] at h'
    rcases own_files _ _ _ _ f h' with e | e | e
    · omega
    · exact Nat.le_of_lt (hpast q f (Or.inl e))
    · exact Nat.le_of_lt (hpast q f (Or.inr e))
  · by_cases hqn : q ∈ conflictNames w stamp
    · obtain ⟨p, hp, hq2⟩ := mem_conflictNames hqn
      rcases hq2 with rfl | rfl
      · rw [hs.nameS p hp] at h'
        simp only [or_false, reduceCtorEq] at h'
        split at h'
        · exact Nat.le_of_lt (hpast p f (Or.inl h'))
        · cases h'
      · rw [hs.nameD p hp] at h'
        simp only [false_or, reduceCtorEq] at h'
        split at h'
        · exact Nat.le_of_lt (hpast p f (Or.inr h'))
        · cases h'
    · rw [hs.other q hq hqn] at h'
      simp [View.empty] at h'

theorem inv_sync {t : Trace} (h : Inv t) (strat : Strategy) (md stamp : Nat) (hf : Fresh t.w stamp) :
    Inv (t.step .repaired (.sync strat md stamp)) := by
  have hclk := h.clock
  cases hr : (sync .repaired strat md stamp t.w).refused with
  | true =>
    have hstep : t.step .repaired (.sync strat md stamp) = { t with w := (sync .repaired strat md stamp t.w).world } := by
      simp [Trace.step, hr]
    have hcl : deletionLimitExceeded (t.w.changes .repaired) md = true := by
      cases hx : deletionLimitExceeded (t.w.changes .repaired) md
      · simp [sync, hx] at hr
      · rfl
    have hw : (sync .repaired strat md stamp t.w).world = { t.w with clock := t.w.clock + 1 } := by
      simp [sync, hcl]
    rw [hstep, hw]
    refine ⟨h.rows, h.agree, h.old, ?_, h.newerL, h.newerR, ?_⟩
    · show t.syncClock < t.w.clock + 1; omega
    · intro q f hq
      show f.mtime < t.w.clock + 1
      have := h.past q f hq; omega
  | false =>
    have hstep : t.step .repaired (.sync strat md stamp) =
        { w := (sync .repaired strat md stamp t.w).world,
          baseL := (sync .repaired strat md stamp t.w).world.left,
          baseR := (sync .repaired strat md stamp t.w).world.right, syncClock := t.w.clock } := by
      simp [Trace.step, hr]
    rw [hstep]
    have hps := sync_postSync strat md stamp t.w h.consistent hf hr
    have hwc : (sync .repaired strat md stamp t.w).world.clock = t.w.clock + 1 :=
      (sync_spec .repaired rfl strat md stamp t.w hf hr).1.clock
    have hmt := sync_file_mtimes strat md stamp t.w hf hr t.w.clock h.past (Nat.le_refl _)
    generalize (sync .repaired strat md stamp t.w).world = w' at *
    -- the agreed pair of the new trace is what both roots hold now
    have hag : ∀ p, Trace.agreed ⟨w', w'.left, w'.right, t.w.clock⟩ p =
        match aget p w'.left, aget p w'.right with
        | some a, some b => some (a, b)
        | _, _ => none := fun p => rfl
    refine ⟨?_, ?_, ?_, ?_, ?_, ?_, ?_⟩
    · intro p
      rw [hag]
      rcases hps p with hs | ho
      · have hs' := hs
        unfold Synced at hs'
        have e1 : (w'.view p).l = aget p w'.left := rfl
        have e2 : (w'.view p).r = aget p w'.right := rfl
        rw [e1, e2] at hs'
        cases hl : aget p w'.left <;> cases hr2 : aget p w'.right <;> simp only [hl, hr2] at hs'
        · exact Prod.ext hs'.1 hs'.2
        · exact Prod.ext hs'.2.1 hs'.2.2
      · rcases ho with ⟨f, e⟩ | ⟨f, e⟩
        · have e1 : aget p w'.left = some f := congrArg View.l e
          have e2 : aget p w'.right = none := congrArg View.r e
          have e3 : aget (p, Side.source) w'.db = none := congrArg View.rl e
          have e4 : aget (p, Side.dest) w'.db = none := congrArg View.rr e
          simp [e1, e2, World.rows, e3, e4]
        · have e1 : aget p w'.left = none := congrArg View.l e
          have e2 : aget p w'.right = some f := congrArg View.r e
          have e3 : aget (p, Side.source) w'.db = none := congrArg View.rl e
          have e4 : aget (p, Side.dest) w'.db = none := congrArg View.rr e
          simp [e1, e2, World.rows, e3, e4]
    · intro p a b hab
      rw [hag] at hab
      cases hl : aget p w'.left <;> cases hr2 : aget p w'.right <;> simp only [hl, hr2] at hab <;> try cases hab
      rcases hps p with hs | ho
      · unfold Synced at hs
        have e1 : (w'.view p).l = aget p w'.left := rfl
        have e2 : (w'.view p).r = aget p w'.right := rfl
        rw [e1, e2, hl, hr2] at hs
        exact hs.1
      · rcases ho with ⟨f, e⟩ | ⟨f, e⟩
        · have e2 : aget p w'.right = none := congrArg View.r e
          rw [e2] at hr2; cases hr2
        · have e1 : aget p w'.left = none := congrArg View.l e
          rw [e1] at hl; cases hl
    · intro p a b hab
      rw [hag] at hab
      cases hl : aget p w'.left <;> cases hr2 : aget p w'.right <;> simp only [hl, hr2] at hab <;> try cases hab
      exact ⟨hmt p _ (Or.inl hl), hmt p _ (Or.inr hr2)⟩
    · show t.w.clock < w'.clock; omega
    · intro p a b hab f hfl
      rw [hag] at hab
      cases hl : aget p w'.left <;> cases hr2 : aget p w'.right <;> simp only [hl, hr2] at hab <;> try cases hab
      left
      have : aget p w'.left = some f := hfl
      rw [hl] at this; cases this; rfl
    · intro p a b hab f hfr
      rw [hag] at hab
      cases hl : aget p w'.left <;> cases hr2 : aget p w'.right <;> simp only [hl, hr2] at hab <;> try cases hab
      left
      have : aget p w'.right = some f := hfr
      rw [hr2] at this; cases this; rfl
    · intro p f hpf
      show f.mtime < w'.clock
      have := hmt p f hpf; omega

theorem freshRun_cons (cfg : Cfg) (e : Event) (h : List Event) (t : Trace) :
    FreshRun cfg (e :: h) t ↔
      (match e with
       | .sync _ _ stamp => Fresh t.w stamp
       | _ => True) ∧ FreshRun cfg h (t.step cfg e) := by
  unfold FreshRun Fresh
  cases e <;> simp [freshRunB]

theorem inv_run (h : List Event) : ∀ (t : Trace), Inv t → FreshRun .repaired h t → Inv (run .repaired h t) := by
  induction h with
  | nil => intro t hi _; exact hi
  | cons e h ih =>
    intro t hi hfr
    obtain ⟨hf, hrest⟩ := (freshRun_cons _ _ _ _).mp hfr
    show Inv (run .repaired h (t.step .repaired e))
    apply ih _ _ hrest
    cases e with
    | edit side p op => exact inv_edit hi _ side p op
    | sync strat md stamp => exact inv_sync hi strat md stamp hf

end SyModel.Bisync
