/-
  Helper lemmas for `SyModel.Compress.Sparse`: pointwise reasoning about `writeAt` / `setLen`,
  the write-fold invariant shared by the remote helper and the local seek copier, the block
  copier invariant, and the regions JSON round trip.
-/
import SyModel.Compress.Sparse
import SyModel.Lemmas.Json
namespace SyModel.Compress

/-- byte at index `i`, reading zero beyond the end -/
def at0 (l : Bytes) (i : Nat) : UInt8 := l[i]?.getD 0

theorem at0_zeros (n i : Nat) : at0 (zeros n) i = 0 := by
  unfold at0 zeros
  by_cases h : i < n <;> simp [h]

theorem at0_nil (i : Nat) : at0 [] i = 0 := by simp [at0]

theorem at0_of_le (l : Bytes) (i : Nat) (h : l.length ≤ i) : at0 l i = 0 := by
  unfold at0; rw [List.getElem?_eq_none h]; rfl

theorem at0_append (a b : Bytes) (i : Nat) :
    at0 (a ++ b) i = if i < a.length then at0 a i else at0 b (i - a.length) := by
  unfold at0
  split
  · rename_i h; rw [List.getElem?_append_left h]
  · rename_i h; rw [List.getElem?_append_right (by omega)]

theorem at0_take (a : Bytes) (n i : Nat) : at0 (a.take n) i = if i < n then at0 a i else 0 := by
  unfold at0
  split
  · rename_i h; rw [List.getElem?_take_of_lt h]
  · rename_i h; rw [List.getElem?_eq_none (by simp; omega)]; rfl

theorem at0_drop (a : Bytes) (n i : Nat) : at0 (a.drop n) i = at0 a (n + i) := by
  unfold at0; rw [List.getElem?_drop]

theorem at0_writeAt (f : Bytes) (off : Nat) (data : Bytes) (i : Nat) :
    at0 (writeAt f off data) i =
      if off ≤ i ∧ i < off + data.length then at0 data (i - off) else at0 f i := by
  unfold writeAt
  cases data with
  | nil => simp; intro h; omega
  | cons d ds =>
    simp only [List.isEmpty_cons, Bool.false_eq_true, ↓reduceIte, List.append_assoc]
    rw [at0_append, at0_take, at0_append, at0_append, at0_drop, at0_zeros]
    have hl : ((f ++ zeros (off - f.length)).take off).length = off := by
      simp [zeros]; omega
    rw [hl]
    by_cases h1 : i < off
    · simp only [h1, ↓reduceIte]
      have : ¬ (off ≤ i ∧ i < off + (d :: ds).length) := by omega
      rw [if_neg this]
      split
      · rfl
      · rename_i h; exact (at0_of_le f i (by omega)).symm
    · simp only [h1, ↓reduceIte]
      by_cases h2 : i - off < (d :: ds).length
      · rw [if_pos h2, if_pos (by omega)]
      · rw [if_neg h2, if_neg (by omega)]
        congr 1; omega

theorem length_writeAt_le (f : Bytes) (off : Nat) (data : Bytes) (n : Nat)
    (hf : f.length ≤ n) (hd : off + data.length ≤ n) : (writeAt f off data).length ≤ n := by
  unfold writeAt
  split
  · exact hf
  · simp [zeros]; omega

theorem length_writeAt_ge (f : Bytes) (off : Nat) (data : Bytes) : f.length ≤ (writeAt f off data).length := by
  unfold writeAt
  split
  · exact Nat.le_refl _
  · simp [zeros]; omega

theorem length_slice (c : Bytes) (r : Region) (h : r.offset + r.length ≤ c.length) :
    (slice c r).length = r.length := by
  simp [slice]; omega

theorem at0_slice (c : Bytes) (r : Region) (j : Nat) :
    at0 (slice c r) j = if j < r.length then at0 c (r.offset + j) else 0 := by
  unfold slice; rw [at0_take, at0_drop]

theorem at0_setLen (f : Bytes) (n i : Nat) : at0 (setLen f n) i = if i < n then at0 f i else 0 := by
  unfold setLen
  rw [at0_append, at0_take, at0_zeros]
  simp only [List.length_take]
  by_cases h : i < n
  · simp only [h, ↓reduceIte]
    split
    · rfl
    · exact (at0_of_le f i (by omega)).symm
  · simp only [h, ↓reduceIte]; split <;> rfl

theorem length_setLen (f : Bytes) (n : Nat) : (setLen f n).length = n := by
  simp [setLen, zeros]; omega

theorem ext_at0 (f g : Bytes) (hl : f.length = g.length) (h : ∀ i, i < g.length → at0 f i = at0 g i) : f = g := by
  apply List.ext_getElem hl
  intro i h1 h2
  have := h i h2
  unfold at0 at this
  rw [List.getElem?_eq_getElem h1, List.getElem?_eq_getElem h2] at this
  simpa using this

/-- The contract of SEEK_DATA / SEEK_HOLE as far as sy relies on it: every reported region lies
    inside the file, and every byte outside all reported regions reads as zero.
    (Sortedness and disjointness are not needed by any theorem.) -/
structure Covers (content : Bytes) (rs : List Region) : Prop where
  inRange   : ∀ r ∈ rs, r.offset + r.length ≤ content.length
  holesZero : ∀ i, i < content.length → at0 content i ≠ 0 →
                ∃ r ∈ rs, r.offset ≤ i ∧ i < r.offset + r.length

/-- the fold of region writes both copiers perform. -/
def writeRegions (content : Bytes) (f0 : Bytes) (rs : List Region) : Bytes :=
  rs.foldl (fun f r => writeAt f r.offset (slice content r)) f0

theorem writeRegions_spec (content : Bytes) (rs : List Region) (f0 : Bytes)
    (hin : ∀ r ∈ rs, r.offset + r.length ≤ content.length)
    (hlen : f0.length ≤ content.length)
    (hinv : ∀ i, i < content.length → at0 f0 i ≠ at0 content i →
      ∃ r ∈ rs, r.offset ≤ i ∧ i < r.offset + r.length) :
    (writeRegions content f0 rs).length ≤ content.length ∧
    f0.length ≤ (writeRegions content f0 rs).length ∧
    ∀ i, i < content.length → at0 (writeRegions content f0 rs) i = at0 content i := by
  induction rs generalizing f0 with
  | nil =>
    refine ⟨hlen, Nat.le_refl _, ?_⟩
    intro i hi
    by_cases h : at0 f0 i = at0 content i
    · exact h
    · obtain ⟨r, hr, _⟩ := hinv i hi h; simp at hr
  | cons r rs ih =>
    have hr := hin r (by simp)
    have hsl := length_slice content r hr
    have h1 := ih (writeAt f0 r.offset (slice content r)) (fun x hx => hin x (by simp [hx]))
      (length_writeAt_le _ _ _ _ hlen (by rw [hsl]; exact hr))
      (by
        intro i hi hne
        rw [at0_writeAt, hsl] at hne
        split at hne
        · rename_i hc
          rw [at0_slice, if_pos (by omega)] at hne
          exact absurd (by congr 1; omega) hne
        · rename_i hc
          obtain ⟨x, hx, hxi⟩ := hinv i hi hne
          rcases List.mem_cons.mp hx with rfl | hx
          · exact absurd hxi hc
          · exact ⟨x, hx, hxi⟩)
    refine ⟨h1.1, Nat.le_trans (length_writeAt_ge _ _ _) h1.2.1, h1.2.2⟩

theorem gather_eq (content : Bytes) (rs : List Region)
    (hin : ∀ r ∈ rs, r.offset + r.length ≤ content.length) :
    gather content rs = some (rs.flatMap (slice content)) := by
  induction rs with
  | nil => rfl
  | cons r rs ih =>
    have hr := hin r (by simp)
    simp only [gather, readRegion, ih (fun x hx => hin x (by simp [hx])), hr, or_true, ↓reduceIte,
      List.flatMap_cons]

theorem receiveSparseGo_gather (content : Bytes) (rs : List Region) (f extra : Bytes)
    (hin : ∀ r ∈ rs, r.offset + r.length ≤ content.length) :
    receiveSparseGo f rs (rs.flatMap (slice content) ++ extra) = some (writeRegions content f rs) := by
  induction rs generalizing f with
  | nil => rfl
  | cons r rs ih =>
    have hr := hin r (by simp)
    have hsl := length_slice content r hr
    simp only [List.flatMap_cons, List.append_assoc, receiveSparseGo]
    rw [if_neg (by simp only [List.length_append, hsl]; omega)]
    rw [List.take_left' hsl, List.drop_left' hsl]
    exact ih _ (fun x hx => hin x (by simp [hx]))

/-- the helper's loop, fed with what the sender gathered, rebuilds the content. -/
theorem receiveSparse_gather (content : Bytes) (rs : List Region) (h : Covers content rs) (extra : Bytes) :
    receiveSparse content.length rs (rs.flatMap (slice content) ++ extra) = some content := by
  unfold receiveSparse
  rw [receiveSparseGo_gather content rs _ extra h.inRange]
  have h0 : (setLen [] content.length).length = content.length := length_setLen _ _
  obtain ⟨h1, h2, h3⟩ := writeRegions_spec content rs (setLen [] content.length) h.inRange (by omega)
    (by
      intro i hi hne
      rw [at0_setLen, if_pos hi, at0_nil] at hne
      exact h.holesZero i hi (fun e => hne e.symm))
  congr 1
  exact ext_at0 _ _ (by omega) h3

theorem localSeek_eq (content : Bytes) (rs : List Region) (h : Covers content rs) :
    localSeek content rs = content := by
  unfold localSeek
  obtain ⟨h1, _, h3⟩ := writeRegions_spec content rs [] h.inRange (by simp)
    (by
      intro i hi hne
      rw [at0_nil] at hne
      exact h.holesZero i hi (fun e => hne e.symm))
  apply ext_at0 _ _ (length_setLen _ _)
  intro i hi
  rw [at0_setLen, if_pos hi]
  exact h3 i hi

/-! ### the block copier -/

theorem all_zero_at0 (b : Bytes) (h : b.all (· == 0) = true) (j : Nat) : at0 b j = 0 := by
  unfold at0
  cases hj : b[j]? with
  | none => rfl
  | some x =>
    have hm : x ∈ b := List.mem_of_getElem? hj
    have := List.all_eq_true.mp h x hm
    simpa using this

theorem blocksGo_spec (blk : Nat) (hb : 0 < blk) (content : Bytes) :
    ∀ (n : Nat) (pre rest file : Bytes), rest.length = n → pre ++ rest = content →
      file.length = content.length →
      (∀ i, i < content.length → at0 file i = if i < pre.length then at0 content i else 0) →
      blocksGo blk file pre.length rest = content := by
  intro n
  induction n using Nat.strongRecOn with
  | _ n ih =>
    intro pre rest file hn hc hlen hinv
    rw [blocksGo]
    by_cases hr : rest = []
    · subst hr
      simp only [or_true, ↓reduceDIte]
      simp only [List.append_nil] at hc
      subst hc
      exact ext_at0 _ _ hlen (fun i hi => by rw [hinv i hi, if_pos hi])
    · have hne : ¬ (blk = 0 ∨ rest = []) := by
        intro h; rcases h with h | h
        · omega
        · exact hr h
      rw [dif_neg hne]
      have hpos : 0 < rest.length := List.length_pos_iff.mpr hr
      have hbl : (rest.take blk).length = min blk rest.length := List.length_take
      have hcl : content.length = pre.length + rest.length := by rw [← hc]; simp
      have hpre' : (pre ++ rest.take blk).length = pre.length + (rest.take blk).length := by simp
      have hcont : ∀ j, j < (rest.take blk).length → at0 content (pre.length + j) = at0 (rest.take blk) j := by
        intro j hj
        rw [← hc, at0_append, if_neg (by omega), at0_take, if_pos (by omega)]
        congr 1; omega
      show blocksGo blk (if ((rest.take blk).all fun x => x == 0) = true then file
          else writeAt file pre.length (rest.take blk)) (pre.length + (rest.take blk).length) (rest.drop blk) = content
      rw [← hpre']
      apply ih (rest.drop blk).length (by simp only [List.length_drop]; omega) (pre ++ rest.take blk)
        (rest.drop blk) _ rfl (by rw [List.append_assoc, List.take_append_drop]; exact hc)
      · split
        · exact hlen
        · have h1 := length_writeAt_le file pre.length (rest.take blk) content.length (by omega) (by omega)
          have h2 := length_writeAt_ge file pre.length (rest.take blk)
          omega
      · intro i hi
        rw [hpre']
        split
        · rename_i hz
          rw [hinv i hi]
          by_cases h1 : i < pre.length
          · rw [if_pos h1, if_pos (by omega)]
          · rw [if_neg h1]
            split
            · rename_i h2
              have := hcont (i - pre.length) (by omega)
              rw [show pre.length + (i - pre.length) = i by omega] at this
              rw [this, all_zero_at0 _ hz]
            · rfl
        · rw [at0_writeAt]
          split
          · rename_i h1
            rw [if_pos (by omega)]
            have := hcont (i - pre.length) (by omega)
            rw [show pre.length + (i - pre.length) = i by omega] at this
            exact this.symm
          · rename_i h1
            rw [hinv i hi]
            by_cases h2 : i < pre.length
            · rw [if_pos h2, if_pos (by omega)]
            · rw [if_neg h2, if_neg (by omega)]

theorem localBlocks_eq (content : Bytes) : localBlocks content = content := by
  unfold localBlocks
  have := blocksGo_spec LOCAL_BLOCK (by decide) content content.length [] content
    (setLen [] content.length) rfl rfl (length_setLen _ _)
    (by intro i hi; rw [at0_setLen, if_pos hi, at0_nil]; simp)
  simpa using this

/-! ### regions JSON -/
open SyModel.Json

theorem lit_offset : lit "{\"offset\":" = 123 :: lit "\"offset\":" := by decide
theorem lit_length : lit ",\"length\":" = 44 :: lit "\"length\":" := by decide
theorem lit_rclose : lit "}" = [125] := by decide

theorem parseRegion_encode (r : Region) (rest : Bytes) :
    parseRegion (encodeRegion r ++ rest) = some (r, rest) := by
  simp only [encodeRegion, List.append_assoc]
  unfold parseRegion
  rw [expect_append]
  simp only
  rw [parseNat_print _ _ (by rw [lit_length]; rfl)]
  simp only
  rw [expect_append]
  simp only
  rw [lit_rclose, parseNat_print _ _ (by rfl)]
  rfl

theorem parseRegionElems_comma (l : Bytes) (x : Region) (r' : Bytes) (hp : parseRegion l = some (x, 44 :: r')) :
    parseRegionElems l =
      match parseRegionElems r' with
      | some (xs, r'') => some (x :: xs, r'')
      | none => none := by
  rw [parseRegionElems]
  split
  · rename_i n2 r2 h; rw [hp] at h; cases h; rfl
  · rename_i n2 r2 h; rw [hp] at h; cases h
  · rename_i h1 h2; exact absurd hp (h1 x r')

theorem parseRegionElems_close (l : Bytes) (x : Region) (r' : Bytes) (hp : parseRegion l = some (x, 93 :: r')) :
    parseRegionElems l = some ([x], r') := by
  rw [parseRegionElems]
  split
  · rename_i n2 r2 h; rw [hp] at h; cases h
  · rename_i n2 r2 h; rw [hp] at h; cases h; rfl
  · rename_i h1 h2; exact absurd hp (h2 x r')

theorem parseRegionElems_encode (r : Region) (t : List Region) (rest : Bytes) :
    parseRegionElems (encodeRegionList (r :: t) ++ 93 :: rest) = some (r :: t, rest) := by
  induction t generalizing r with
  | nil =>
    simp only [encodeRegionList]
    rw [parseRegionElems_close _ _ _ (parseRegion_encode r (93 :: rest))]
  | cons r2 t ih =>
    simp only [encodeRegionList, List.append_assoc, List.cons_append]
    rw [parseRegionElems_comma _ _ _ (parseRegion_encode r (44 :: (encodeRegionList (r2 :: t) ++ 93 :: rest))), ih]

theorem encodeRegionList_head (r : Region) (t : List Region) :
    ∃ tl, encodeRegionList (r :: t) = 123 :: tl := by
  have h : ∃ tl, encodeRegion r = 123 :: tl := by
    simp only [encodeRegion, lit_offset, List.cons_append]; exact ⟨_, rfl⟩
  obtain ⟨tl, htl⟩ := h
  cases t with
  | nil => exact ⟨tl, by simp [encodeRegionList, htl]⟩
  | cons x t => exact ⟨tl ++ 44 :: encodeRegionList (x :: t), by simp [encodeRegionList, htl]⟩

/-- the helper's `serde_json::from_str` inverts the sender's `serde_json::to_string` on region lists. -/
theorem decodeRegions_encode (rs : List Region) : decodeRegions (encodeRegions rs) = some rs := by
  cases rs with
  | nil => rfl
  | cons r t =>
    have h := parseRegionElems_encode r t []
    obtain ⟨tl, htl⟩ := encodeRegionList_head r t
    unfold encodeRegions
    rw [htl] at h ⊢
    simp only [List.cons_append] at h ⊢
    unfold decodeRegions
    split
    · rename_i heq
      injection heq with _ h2
      injection h2 with h3 _
      exact absurd h3 (by decide)
    · rename_i l hne heq
      injection heq with _ h2
      subst h2
      rw [h]
    · rename_i h1 h2
      exact absurd rfl (h2 _)

end SyModel.Compress
