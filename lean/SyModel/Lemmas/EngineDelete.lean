/-
  Lemmas for the deletion property (C06): a present path stays present unless a delete task sits
  at or above it; the Bloom branch of the deletion planner.
-/
import SyModel.Lemmas.EngineClosed
import SyModel.Engine.Bloom
namespace SyModel.Engine

/-- one task keeps a present path present, unless it is a delete at or above it or a fault that
    leaves nothing at exactly that path -/
theorem execTask_present (cfg : Cfg) (flt : Faults) (st : Exec) (t : Task) (p : Path) (hp0 : p ≠ [])
    (hp : st.w.dst.get? p ≠ none) (hdel : t.act = .delete → isPrefix t.rel p = false)
    (hflt : t.rel = p → faultOf cfg flt t ≠ some none) :
    (execTask cfg flt st t).w.dst.get? p ≠ none := by
  by_cases hr : t.rel = p
  · have hnd : t.act ≠ .delete := by
      intro hd; have := hdel hd; rw [hr, isPrefix_refl] at this; cases this
    rcases execTask_cases cfg flt st t with ⟨g, hf, _, _, he⟩ | ⟨_, w', hperf, he⟩ | ⟨_, _, he⟩
    · rw [he]
      cases g with
      | none => exact absurd hf (hflt hr)
      | some v => simp [garbageAt, hr]
    · rw [he]
      by_cases hdry : cfg.dryRun = true
      · rw [perform_dry cfg hdry] at hperf; cases hperf; exact hp
      · simp only [Bool.not_eq_true] at hdry
        by_cases hs : t.act = .skip
        · rw [perform_skip hs] at hperf; cases hperf; exact hp
        · rw [perform_cu hs hnd hdry] at hperf
          cases hpl : t.payload with
          | nothing => rw [performCU_nothing hpl hperf]; exact hp
          | symlink text => rw [← hr, (performCU_symlink hpl hperf).1]; simp
          | file m n =>
            rcases performCU_file hpl hperf with ⟨node, hg, _⟩ | ⟨_, fm, _, _, _, _, _, _, hg, _⟩ <;>
              (rw [← hr, hg]; simp)
          | dir => rw [← hr, (performCU_dir hpl hperf).1 (hr ▸ hp0)]; simp
    · rw [he]; exact hp
  · rcases execTask_frame cfg flt st t p hr hdel with h1 | ⟨_, h2, _⟩
    · rw [h1]; exact hp
    · rw [h2]; simp

theorem foldl_present (cfg : Cfg) (flt : Faults) (ts : List Task) (st : Exec) (p : Path) (hp0 : p ≠ [])
    (hp : st.w.dst.get? p ≠ none) (hdel : ∀ t ∈ ts, t.act = .delete → isPrefix t.rel p = false)
    (hflt : ∀ t ∈ ts, t.rel = p → faultOf cfg flt t ≠ some none) :
    (ts.foldl (execTask cfg flt) st).w.dst.get? p ≠ none := by
  induction ts generalizing st with
  | nil => exact hp
  | cons t ts ih =>
    rw [List.foldl_cons]
    apply ih _ _ (fun t' ht' => hdel t' (List.mem_cons_of_mem _ ht')) (fun t' ht' => hflt t' (List.mem_cons_of_mem _ ht'))
    exact execTask_present cfg flt st t p hp0 hp (hdel t (List.mem_cons_self ..)) (hflt t (List.mem_cons_self ..))

theorem runF_refused_dst {cfg : Cfg} {flt : Faults} {scan : List SEntry} {dst : Map DNode} {n : Nat}
    (h : (runF cfg flt scan dst n).refused = true) : (runF cfg flt scan dst n).dst = dst := by
  unfold runF at h ⊢
  simp only at h ⊢
  split
  · rfl
  · rename_i hg; simp [hg] at h

/-! ### the Bloom branch -/

theorem bloomDeletes_eq (bloom : Path → Bool) (source : List SEntry) (h : ∀ e ∈ source, bloom e.rel = true)
    (p : Path) : bloomDeletes bloom source p = !(source.any (·.rel == p)) := by
  unfold bloomDeletes
  cases hb : bloom p with
  | true => simp
  | false =>
    simp only [Bool.not_false, ↓reduceIte]
    symm
    simp only [Bool.not_eq_true', List.any_eq_false, beq_iff_eq]
    intro e he hr
    have := h e he
    rw [hr, hb] at this; cases this

end SyModel.Engine
