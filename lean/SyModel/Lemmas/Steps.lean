/-
  SyModel.Lemmas.Steps — helper lemmas for the step-level model (`SyModel.Engine.Steps`):
  frame and locality of steps, commutation of independent steps, shuffles, crash decomposition.
-/
import SyModel.Engine.Steps
set_option linter.unusedVariables false
namespace SyModel.Engine

/-! ### pointwise updates -/

@[simp] theorem upd_same (w : SWorld) (p : Path) (v : Option SNode) : upd w p v p = v := by simp [upd]

theorem upd_ne (w : SWorld) (p x : Path) (v : Option SNode) (h : x ≠ p) : upd w p v x = w x := by
  simp [upd, h]

theorem upd_apply (w : SWorld) (p x : Path) (v : Option SNode) :
    upd w p v x = if x = p then v else w x := rfl

/-- single-path steps -/
def Step.single : Step → Bool
  | .rename .. => false
  | .removeTree _ => false
  | _ => true

theorem apply_single (s : Step) (h : s.single = true) (w : SWorld) :
    s.apply w = upd w s.path (s.nodeFn (w s.path)) := by
  cases s <;> first | rfl | simp [Step.single] at h

theorem touches_single (s : Step) (h : s.single = true) (x : Path) :
    s.touches x = (x == s.path) := by
  cases s <;> first | rfl | simp [Step.single] at h

theorem apply_rename (q p : Path) (c sz mt : Nat) (w : SWorld) :
    (Step.rename q p c sz mt).apply w =
      if w q = some (.temp c) then upd (upd w p (some (.file c sz mt))) q none else w := rfl

theorem apply_removeTree (p : Path) (w : SWorld) :
    (Step.removeTree p).apply w = fun x => if isPrefix p x then none else w x := rfl

/-! ### frame: a step changes nothing outside its footprint -/

theorem apply_frame (s : Step) (w : SWorld) (x : Path) (h : s.touches x = false) :
    s.apply w x = w x := by
  by_cases hs : s.single = true
  · rw [touches_single s hs] at h
    rw [apply_single s hs, upd_ne]
    simpa using h
  · cases s <;> simp [Step.single] at hs
    case rename q p c sz mt =>
      simp only [Step.touches, Bool.or_eq_false_iff, beq_eq_false_iff_ne] at h
      rw [apply_rename]; split
      · rw [upd_ne _ _ _ _ h.1, upd_ne _ _ _ _ h.2]
      · rfl
    case removeTree p =>
      simp only [Step.touches] at h
      simp [apply_removeTree, h]

/-- locality: what a step writes inside its footprint depends only on the footprint -/
theorem apply_local (s : Step) (w w' : SWorld) (h : ∀ x, s.touches x = true → w x = w' x)
    (x : Path) (hx : s.touches x = true) : s.apply w x = s.apply w' x := by
  by_cases hs : s.single = true
  · rw [touches_single s hs] at hx
    have hx' : x = s.path := by simpa using hx
    have := h s.path (by rw [touches_single s hs]; simp)
    rw [apply_single s hs, apply_single s hs, hx', upd_same, upd_same, this]
  · cases s <;> simp [Step.single] at hs
    case rename q p c sz mt =>
      have hq := h q (by simp [Step.touches])
      have hp := h p (by simp [Step.touches])
      simp only [Step.touches, Bool.or_eq_true, beq_iff_eq] at hx
      rw [apply_rename, apply_rename, ← hq]
      split
      · simp only [upd_apply]
        rcases hx with hx | hx
        · simp [hx]
        · by_cases hxq : x = q <;> simp [hxq, hx]
      · rcases hx with hx | hx
        · rw [hx]; exact hq
        · rw [hx]; exact hp
    case removeTree p =>
      simp only [Step.touches] at hx
      simp [apply_removeTree, hx]

/-! ### commutation -/

theorem commute_disjoint (s t : Step) (h : ∀ x, ¬ (s.touches x = true ∧ t.touches x = true))
    (w : SWorld) : s.apply (t.apply w) = t.apply (s.apply w) := by
  funext x
  by_cases hs : s.touches x = true
  · have ht : t.touches x = false := by
      cases htx : t.touches x with
      | false => rfl
      | true => exact absurd ⟨hs, htx⟩ (h x)
    rw [apply_frame t _ x ht]
    apply apply_local s _ _ _ x hs
    intro y hy
    have : t.touches y = false := by
      cases hty : t.touches y with
      | false => rfl
      | true => exact absurd ⟨hy, hty⟩ (h y)
    exact apply_frame t w y this
  · have hs' : s.touches x = false := by simpa using hs
    rw [apply_frame s _ x hs']
    by_cases ht : t.touches x = true
    · symm
      apply apply_local t _ _ _ x ht
      intro y hy
      have : s.touches y = false := by
        cases hsy : s.touches y with
        | false => rfl
        | true => exact absurd ⟨hsy, hy⟩ (h y)
      exact apply_frame s w y this
    · have ht' : t.touches x = false := by simpa using ht
      rw [apply_frame t _ x ht', apply_frame t _ x ht', apply_frame s _ x hs']

theorem isPrefix_refl (p : Path) : isPrefix p p = true := by
  induction p with
  | nil => rfl
  | cons a p ih => simp [isPrefix, ih]

/-- deletions commute on every world, whatever their paths -/
theorem commute_deletions (s t : Step) (hs : s.isDeletion = true) (ht : t.isDeletion = true)
    (w : SWorld) : s.apply (t.apply w) = t.apply (s.apply w) := by
  cases s <;> simp [Step.isDeletion] at hs <;> cases t <;> simp [Step.isDeletion] at ht
  case unlink.unlink a b =>
    by_cases hab : a = b
    · subst hab; rfl
    · apply commute_disjoint
      intro x ⟨h1, h2⟩
      simp [Step.touches] at h1 h2
      exact hab (h1 ▸ h2)
  case unlink.removeTree a b =>
    funext x
    simp only [apply_single (Step.unlink a) rfl, apply_removeTree]
    simp only [Step.path, upd_apply]
    by_cases hbx : isPrefix b x = true
    · simp only [hbx, ↓reduceIte]
      by_cases hxa : x = a
      · subst hxa; simp [hbx, Step.nodeFn]
      · simp [hxa]
    · simp only [hbx]
      by_cases hxa : x = a
      · subst hxa; simp [hbx]
      · simp [hxa]
  case removeTree.unlink b a =>
    funext x
    simp only [apply_single (Step.unlink a) rfl, apply_removeTree]
    simp only [Step.path, upd_apply]
    by_cases hbx : isPrefix b x = true
    · simp only [hbx, ↓reduceIte]
      by_cases hxa : x = a
      · subst hxa; simp [hbx, Step.nodeFn]
      · simp [hxa]
    · simp only [hbx]
      by_cases hxa : x = a
      · subst hxa; simp [hbx]
      · simp [hxa]
  case removeTree.removeTree a b =>
    funext x
    simp only [apply_removeTree]
    by_cases h1 : isPrefix a x = true <;> by_cases h2 : isPrefix b x = true <;> simp [h1, h2]

theorem commute_indep (s t : Step) (h : Indep s t) (w : SWorld) :
    s.apply (t.apply w) = t.apply (s.apply w) := by
  rcases h with h | ⟨p, rfl, rfl⟩ | ⟨h1, h2⟩
  · exact commute_disjoint s t h w
  · rfl
  · exact commute_deletions s t h1 h2 w

theorem Indep.symm {s t : Step} (h : Indep s t) : Indep t s := by
  rcases h with h | ⟨p, h1, h2⟩ | ⟨h1, h2⟩
  · exact Or.inl fun x hx => h x ⟨hx.2, hx.1⟩
  · exact Or.inr (Or.inl ⟨p, h2, h1⟩)
  · exact Or.inr (Or.inr ⟨h2, h1⟩)


/-! ### folding steps -/

@[simp] theorem applyAll_nil (w : SWorld) : applyAll [] w = w := rfl
@[simp] theorem applyAll_cons (s : Step) (l : List Step) (w : SWorld) :
    applyAll (s :: l) w = applyAll l (s.apply w) := rfl
theorem applyAll_append (a b : List Step) (w : SWorld) :
    applyAll (a ++ b) w = applyAll b (applyAll a w) := by simp [applyAll, List.foldl_append]

/-- a step that commutes with every step of `a` can be moved across `a` -/
theorem apply_applyAll_comm (s : Step) (a : List Step) (h : ∀ t ∈ a, Indep s t) (w : SWorld) :
    applyAll a (s.apply w) = s.apply (applyAll a w) := by
  induction a generalizing w with
  | nil => rfl
  | cons t a ih =>
    simp only [applyAll_cons]
    rw [← commute_indep s t (h t (by simp)) w]
    exact ih (fun u hu => h u (by simp [hu])) _

theorem applyAll_swap (a b : List Step) (h : IndepLists a b) (w : SWorld) :
    applyAll (a ++ b) w = applyAll (b ++ a) w := by
  induction a generalizing w with
  | nil => simp
  | cons s a ih =>
    have hs : ∀ t ∈ b, Indep s t := fun t ht => h s (by simp) t ht
    have ha : IndepLists a b := fun u hu t ht => h u (by simp [hu]) t ht
    simp only [List.cons_append, applyAll_cons]
    rw [ih ha, applyAll_append, applyAll_append, apply_applyAll_comm s b hs]
    rfl

theorem applyAll_frame (l : List Step) (w : SWorld) (x : Path)
    (h : ∀ s ∈ l, s.touches x = false) : applyAll l w x = w x := by
  induction l generalizing w with
  | nil => rfl
  | cons s l ih =>
    simp only [applyAll_cons]
    rw [ih _ (fun t ht => h t (by simp [ht])), apply_frame s w x (h s (by simp))]

/-! ### shuffles -/

section shuffle
variable {α : Type}

theorem Shuffle.mem_iff {a b σ : List α} (h : Shuffle a b σ) (x : α) : x ∈ σ ↔ x ∈ a ∨ x ∈ b := by
  induction h with
  | nil => simp
  | left _ ih => simp [ih, or_assoc]
  | right _ ih => simp [ih]; constructor <;> (intro h; rcases h with h | h | h <;> simp [h])

theorem ShuffleN.mem_iff {ls : List (List α)} {σ : List α} (h : ShuffleN ls σ) (x : α) :
    x ∈ σ ↔ ∃ l ∈ ls, x ∈ l := by
  induction h with
  | nil => simp
  | cons _ hs ih => rw [hs.mem_iff, ih]; simp

theorem Shuffle.nil_left {b : List α} : Shuffle [] b b := by
  induction b with
  | nil => exact .nil
  | cons s b ih => exact .right ih

theorem Shuffle.nil_right {a : List α} : Shuffle a [] a := by
  induction a with
  | nil => exact .nil
  | cons s a ih => exact .left ih

theorem Shuffle.eq_of_nil_left {b σ : List α} (h : Shuffle [] b σ) : σ = b := by
  generalize ha : ([] : List α) = a at h
  induction h with
  | nil => rfl
  | left _ _ => cases ha
  | right _ ih => rw [ih ha]

/-- a prefix of a shuffle is a shuffle of prefixes (and the rest a shuffle of the rests) -/
theorem Shuffle.split {a b σ : List α} (h : Shuffle a b σ) (k : Nat) :
    ∃ a1 a2 b1 b2, a = a1 ++ a2 ∧ b = b1 ++ b2 ∧ Shuffle a1 b1 (σ.take k) ∧ Shuffle a2 b2 (σ.drop k) := by
  induction h generalizing k with
  | nil => exact ⟨[], [], [], [], rfl, rfl, by simpa using .nil, by simpa using .nil⟩
  | @left a b σ s h ih =>
    cases k with
    | zero => exact ⟨[], s :: a, [], b, rfl, rfl, by simpa using .nil, by simpa using .left h⟩
    | succ k =>
      obtain ⟨a1, a2, b1, b2, ha, hb, h1, h2⟩ := ih k
      exact ⟨s :: a1, a2, b1, b2, by simp [ha], hb, by simpa using .left h1, by simpa using h2⟩
  | @right a b σ s h ih =>
    cases k with
    | zero => exact ⟨[], a, [], s :: b, rfl, rfl, by simpa using .nil, by simpa using .right h⟩
    | succ k =>
      obtain ⟨a1, a2, b1, b2, ha, hb, h1, h2⟩ := ih k
      exact ⟨a1, a2, s :: b1, b2, ha, by simp [hb], by simpa using .right h1, by simpa using h2⟩

/-- how far every list got: (done, rest) -/
abbrev Progress (α : Type) := List (List α × List α)
def Progress.wholes (g : Progress α) : List (List α) := g.map fun d => d.1 ++ d.2
def Progress.dones (g : Progress α) : List (List α) := g.map (·.1)
def Progress.rests (g : Progress α) : List (List α) := g.map (·.2)

theorem ShuffleN.split {ls : List (List α)} {σ : List α} (h : ShuffleN ls σ) (k : Nat) :
    ∃ g : Progress α, g.wholes = ls ∧ ShuffleN g.dones (σ.take k) ∧ ShuffleN g.rests (σ.drop k) := by
  induction h generalizing k with
  | nil => exact ⟨[], rfl, by simpa [Progress.dones] using .nil, by simpa [Progress.rests] using .nil⟩
  | @cons l ls τ σ hN hS ih =>
    obtain ⟨l1, l2, t1, t2, hl, ht, h1, h2⟩ := hS.split k
    obtain ⟨g, hg, hd, hr⟩ := ih t1.length
    have e1 : τ.take t1.length = t1 := by rw [ht]; simp
    have e2 : τ.drop t1.length = t2 := by rw [ht]; simp
    rw [e1] at hd; rw [e2] at hr
    refine ⟨(l1, l2) :: g, ?_, ?_, ?_⟩
    · simp [Progress.wholes] at hg ⊢; exact ⟨hl.symm, hg⟩
    · exact .cons hd h1
    · exact .cons hr h2

/-- picking the head of any member list is a shuffle step -/
theorem ShuffleN.pick {pre post : List (List α)} {l : List α} {s : α} {σ : List α}
    (h : ShuffleN (pre ++ l :: post) σ) : ShuffleN (pre ++ (s :: l) :: post) (s :: σ) := by
  induction pre generalizing σ with
  | nil =>
    cases h with
    | cons hN hS => exact .cons hN (.left hS)
  | cons a pre ih =>
    cases h with
    | cons hN hS => exact .cons (ih hN) (.right hS)

theorem shuffleN_of_all_nil {ls : List (List α)} (h : ∀ l ∈ ls, l = []) : ShuffleN ls [] := by
  induction ls with
  | nil => exact .nil
  | cons l ls ih =>
    have : l = [] := h l (by simp)
    subst this
    exact .cons (ih fun l hl => h l (by simp [hl])) .nil

theorem Interleaving.toShuffleN {ls : List (List α)} {σ : List α} (h : Interleaving ls σ) :
    ShuffleN ls σ := by
  induction h with
  | done h => exact shuffleN_of_all_nil h
  | pick h1 h2 _ ih => subst h1; subst h2; exact ih.pick

theorem Interleaving.cons_shuffle {a τ σ : List α} {ls : List (List α)} (hS : Shuffle a τ σ)
    (hI : Interleaving ls τ) : Interleaving (a :: ls) σ := by
  induction hS generalizing ls with
  | nil =>
    cases hI with
    | done h => exact .done (by intro l hl; rcases List.mem_cons.mp hl with h' | h'; exact h'; exact h l h')
  | @left a b σ s _ ih =>
    exact .pick (pre := []) (post := ls) (l := a) rfl rfl (ih hI)
  | @right a b σ s _ ih =>
    cases hI with
    | @pick _ ls' pre post l _ _ h1 h2 h3 =>
      subst h1; subst h2
      exact .pick (pre := a :: pre) (post := post) (l := l) rfl rfl (ih h3)

theorem ShuffleN.toInterleaving {ls : List (List α)} {σ : List α} (h : ShuffleN ls σ) :
    Interleaving ls σ := by
  induction h with
  | nil => exact .done (by simp)
  | cons _ hS ih => exact Interleaving.cons_shuffle hS ih

end shuffle

/-! ### every interleaving of independent lists equals the sequential run -/

theorem shuffle_eq_seq {a b σ : List Step} (h : Shuffle a b σ) (hind : IndepLists a b) (w : SWorld) :
    applyAll σ w = applyAll (a ++ b) w := by
  induction h generalizing w with
  | nil => rfl
  | @left a b σ s _ ih =>
    simp only [List.cons_append, applyAll_cons]
    exact ih (fun u hu t ht => hind u (by simp [hu]) t ht) _
  | @right a b σ s _ ih =>
    simp only [applyAll_cons]
    rw [ih (fun u hu t ht => hind u hu t (by simp [ht]))]
    rw [applyAll_append, applyAll_append, applyAll_cons]
    have : ∀ t ∈ a, Indep s t := fun t ht => (hind t ht s (by simp)).symm
    rw [apply_applyAll_comm s a this]

theorem shuffleN_eq_seq {ls : List (List Step)} {σ : List Step} (h : ShuffleN ls σ)
    (hind : PairwiseIndep ls) (w : SWorld) : applyAll σ w = applyAll ls.flatten w := by
  induction h generalizing w with
  | nil => rfl
  | @cons l ls τ σ hN hS ih =>
    have hp := List.pairwise_cons.mp hind
    have hlt : IndepLists l τ := by
      intro s hs t ht
      obtain ⟨l', hl', htl'⟩ := (hN.mem_iff t).mp ht
      exact hp.1 l' hl' s hs t htl'
    rw [shuffle_eq_seq hS hlt, List.flatten_cons, applyAll_append, applyAll_append, ih hp.2]


/-! ### independence bookkeeping -/

theorem IndepLists.symm {a b : List Step} (h : IndepLists a b) : IndepLists b a :=
  fun s hs t ht => (h t ht s hs).symm

theorem pairwise_split {pre post : List (List Step)} {L : List Step}
    (h : PairwiseIndep (pre ++ L :: post)) : ∀ l ∈ pre ++ post, IndepLists L l := by
  unfold PairwiseIndep at h
  rw [List.pairwise_append] at h
  obtain ⟨_, h2, h3⟩ := h
  have h2' := List.pairwise_cons.mp h2
  intro l hl
  rcases List.mem_append.mp hl with hl | hl
  · exact (h3 l hl L (by simp)).symm
  · exact h2'.1 l hl

theorem pairwise_drop_mid {pre post : List (List Step)} {L : List Step}
    (h : PairwiseIndep (pre ++ L :: post)) : PairwiseIndep (pre ++ post) := by
  unfold PairwiseIndep at h ⊢
  rw [List.pairwise_append] at h ⊢
  obtain ⟨h1, h2, h3⟩ := h
  exact ⟨h1, (List.pairwise_cons.mp h2).2, fun a ha b hb => h3 a ha b (by simp [hb])⟩

theorem indepLists_flatten {L : List Step} {ls : List (List Step)} (h : ∀ l ∈ ls, IndepLists L l) :
    IndepLists L ls.flatten := by
  intro s hs t ht
  obtain ⟨l, hl, htl⟩ := List.mem_flatten.mp ht
  exact h l hl s hs t htl

/-- the sequential run may start with any one of the lists -/
theorem flatten_front {pre post : List (List Step)} {L : List Step}
    (h : PairwiseIndep (pre ++ L :: post)) (w : SWorld) :
    applyAll (pre ++ L :: post).flatten w = applyAll (L ++ (pre ++ post).flatten) w := by
  have hs := pairwise_split h
  have : IndepLists pre.flatten L :=
    (indepLists_flatten (fun l hl => hs l (by simp [hl]))).symm
  simp only [List.flatten_append, List.flatten_cons]
  rw [← List.append_assoc, applyAll_append, applyAll_swap _ _ this, ← applyAll_append]
  simp [List.append_assoc]

theorem progress_dones_indep {g : Progress Step} (h : PairwiseIndep g.wholes) :
    PairwiseIndep g.dones := by
  unfold PairwiseIndep Progress.wholes Progress.dones at *
  rw [List.pairwise_map] at h ⊢
  exact h.imp fun {a b} hab s hs t ht => hab s (by simp [hs]) t (by simp [ht])

/-- two steps that touch a common path and are independent are the same `mkdir` or both deletions -/
theorem indep_touch {s t : Step} {x : Path} (h : Indep s t) (hs : s.touches x = true)
    (ht : t.touches x = true) :
    (s = .mkdir x ∧ t = .mkdir x) ∨ (s.isDeletion = true ∧ t.isDeletion = true) := by
  rcases h with h | ⟨p, rfl, rfl⟩ | h
  · exact absurd ⟨hs, ht⟩ (h x)
  · simp [Step.touches] at hs; subst hs; exact Or.inl ⟨rfl, rfl⟩
  · exact Or.inr h

/-- for every path: one list owns it, or every step touching it is `mkdir x`, or every step
    touching it is a deletion -/
theorem touch_classes {ls : List (List Step)} (hind : PairwiseIndep ls) (x : Path) :
    (∃ pre L post, ls = pre ++ L :: post ∧ ∀ l ∈ pre ++ post, ∀ s ∈ l, s.touches x = false) ∨
    (∀ l ∈ ls, ∀ s ∈ l, s.touches x = true → s = .mkdir x) ∨
    (∀ l ∈ ls, ∀ s ∈ l, s.touches x = true → s.isDeletion = true) := by
  by_cases hM : ∀ l ∈ ls, ∀ s ∈ l, s.touches x = true → s = .mkdir x
  · exact Or.inr (Or.inl hM)
  by_cases hD : ∀ l ∈ ls, ∀ s ∈ l, s.touches x = true → s.isDeletion = true
  · exact Or.inr (Or.inr hD)
  left
  have hM' : ∃ l1, l1 ∈ ls ∧ ∃ s1, s1 ∈ l1 ∧ s1.touches x = true ∧ ¬ s1 = .mkdir x := by
    apply Classical.byContradiction; intro hc; apply hM
    intro l hl s hs ht
    apply Classical.byContradiction; intro hn
    exact hc ⟨l, hl, s, hs, ht, hn⟩
  have hD' : ∃ l2, l2 ∈ ls ∧ ∃ s2, s2 ∈ l2 ∧ s2.touches x = true ∧ ¬ s2.isDeletion = true := by
    apply Classical.byContradiction; intro hc; apply hD
    intro l hl s hs ht
    apply Classical.byContradiction; intro hn
    exact hc ⟨l, hl, s, hs, ht, hn⟩
  obtain ⟨l1, hl1, s1, hs1, ht1, hn1⟩ := hM'
  obtain ⟨l2, hl2, s2, hs2, ht2, hn2⟩ := hD'
  obtain ⟨pre, post, rfl⟩ := List.append_of_mem hl1
  refine ⟨pre, l1, post, rfl, ?_⟩
  have hsp := pairwise_split hind
  -- s2 lives in l1 as well
  have h2in : ∀ l ∈ pre ++ post, ∀ t ∈ l, t.touches x = true → False := by
    intro l hl t ht htx
    have hI := hsp l hl
    -- s1 (not mkdir x) forces deletions
    rcases indep_touch (hI s1 hs1 t ht) ht1 htx with ⟨h, _⟩ | ⟨hd1, hdt⟩
    · exact hn1 h
    · -- where is s2?
      have : l2 ∈ pre ++ post ∨ l2 = l1 := by
        simp only [List.mem_append, List.mem_cons] at hl2 ⊢
        rcases hl2 with h | h | h
        · exact Or.inl (Or.inl h)
        · exact Or.inr h
        · exact Or.inl (Or.inr h)
      rcases this with h2 | h2
      · rcases indep_touch (hsp l2 h2 s1 hs1 s2 hs2) ht1 ht2 with ⟨h, _⟩ | ⟨_, h⟩
        · exact hn1 h
        · exact hn2 h
      · subst h2
        rcases indep_touch (hI s2 hs2 t ht) ht2 htx with ⟨_, h⟩ | ⟨h, _⟩
        · rw [h] at hdt; simp [Step.isDeletion] at hdt
        · exact hn2 h
  intro l hl t ht
  cases htx : t.touches x with
  | false => rfl
  | true => exact absurd htx (fun h => h2in l hl t ht h)

/-! ### crash states -/

/-- the crash state at a path owned by one list is what that list's executed prefix alone makes of
    the initial world -/
theorem crash_owned {pre post : List (List Step)} {L τ : List Step}
    (hind : PairwiseIndep (pre ++ L :: post)) (hτ : ShuffleN (pre ++ L :: post) τ) (x : Path)
    (hx : ∀ l ∈ pre ++ post, ∀ s ∈ l, s.touches x = false) (w : SWorld) :
    applyAll τ w x = applyAll L w x := by
  rw [shuffleN_eq_seq hτ hind, flatten_front hind, applyAll_append]
  apply applyAll_frame
  intro s hs
  obtain ⟨l, hl, hsl⟩ := List.mem_flatten.mp hs
  exact hx l hl s hsl

/-- `v` is absorbing for `s` at `x`: `s` leaves the node at `x` alone or makes it `v`, and keeps `v` -/
def Absorbs (v : Option SNode) (x : Path) (s : Step) : Prop :=
  ∀ w : SWorld, (s.apply w x = w x ∨ s.apply w x = v) ∧ (w x = v → s.apply w x = v)

theorem absorbs_of_not_touch (v : Option SNode) (x : Path) (s : Step) (h : s.touches x = false) :
    Absorbs v x s := fun w => by rw [apply_frame s w x h]; exact ⟨Or.inl rfl, id⟩

theorem absorbs_mkdir (x : Path) : Absorbs (some .dir) x (.mkdir x) := by
  intro w
  rw [apply_single _ rfl]; simp only [Step.path, upd_same, Step.nodeFn]
  cases h : w x with
  | none => simp
  | some n => simp

theorem absorbs_deletion (x : Path) (s : Step) (h : s.isDeletion = true) : Absorbs none x s := by
  cases s <;> simp [Step.isDeletion] at h
  case unlink p =>
    intro w
    rw [apply_single _ rfl]; simp only [Step.path, upd_apply, Step.nodeFn]
    by_cases hx : x = p
    · subst hx; simp only [↓reduceIte]
      cases h : w x with
      | none => simp
      | some n => cases n <;> simp
    · simp [hx]
  case removeTree p =>
    intro w
    rw [apply_removeTree]
    by_cases hx : isPrefix p x = true <;> simp [hx]

theorem absorbed_stays {v : Option SNode} {x : Path} {σ : List Step} (h : ∀ s ∈ σ, Absorbs v x s)
    (w : SWorld) (hw : w x = v) : applyAll σ w x = v := by
  induction σ generalizing w with
  | nil => exact hw
  | cons s σ ih =>
    exact ih (fun t ht => h t (by simp [ht])) _ ((h s (by simp) w).2 hw)

/-- along a run whose steps all absorb `v` at `x`, every intermediate node at `x` is the initial
    one or the final one -/
theorem absorbing_crash {v : Option SNode} {x : Path} {σ : List Step} (h : ∀ s ∈ σ, Absorbs v x s)
    (k : Nat) (w : SWorld) :
    applyAll (σ.take k) w x = w x ∨ applyAll (σ.take k) w x = applyAll σ w x := by
  induction σ generalizing w k with
  | nil => left; simp
  | cons s σ ih =>
    cases k with
    | zero => left; rfl
    | succ k =>
      simp only [List.take_succ_cons, applyAll_cons]
      have hσ : ∀ t ∈ σ, Absorbs v x t := fun t ht => h t (by simp [ht])
      rcases ih hσ k (s.apply w) with h1 | h1
      · rcases (h s (by simp) w).1 with h2 | h2
        · left; rw [h1, h2]
        · right
          rw [h1, h2, absorbed_stays hσ _ h2]
      · right; exact h1

end SyModel.Engine
