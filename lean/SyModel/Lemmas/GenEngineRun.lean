/-
  Lemmas.GenEngineRun — the EXECUTION stage of the capstone `Props/GenEngineRun.lean`: the translated per-task body
  `EngineTask.run_task` (src/sync/mod.rs, `let result = match task.action { … }`), folded over a task list by the
  trusted glue `execLoop`, against the fold of the model's `execTask` (`Engine/Model.lean`).

  Contents
    1. `execLoop` — the GLUE of the execution stage (TRUSTED, see its doc comment): `for task in tasks` with ONE worker;
    2. `SameEnv`, `TaskOK`, `NoResidue`, `FailClean` — what is carried along the fold;
    3. `run_task_sameEnv` — one task leaves the root text, the source side and the xattr-value ids of the world alone;
    4. `run_task_step` — `GenEngineTask.run_task_eq_execTask_model` with the `Left` relation collapsed to equality;
    5. `execLoop_eq_foldl` — the lift from one task to the whole list.

  The `Left` problem.  After a FAILED Create/Update the model keeps its world while the instance's world may differ from
  it in the way `Lemmas.GenTransfer.Left` lists: the parent directories of the task's path created (`copy_file` calls
  `create_dir_all(parent)` before the transport's copy), or — `update` of a directory entry — the symlink at the path
  removed.  `Left` is an over-approximation made by the Transfer bridge (any of three shapes).  The fold needs the world
  after task k to BE the world before task k+1, on both sides; so the fold theorem is stated for runs in which a failed
  task leaves nothing behind: `FailClean`, a predicate on the MODEL's run (decidable on concrete inputs), saying that
  whenever the model's `perform` fails for a task at `k`, `create_dir_all(parent k)` has nothing to create and `k` does
  not hold a symlink (`NoResidue`).  `Props/GenEngineRun.lean` proves it for error-free runs and dry runs
  (`failClean_of_no_errors`, `failClean_of_dry_run`), shows on a witness that it is a real restriction
  (`left_residue_witness`); deriving it from `ParentsFirst` + a parent-closed destination is NOT done.
-/
import SyModel.Props.GenEngineTask
set_option linter.unusedVariables false
set_option linter.unusedSimpArgs false
namespace SyModel.Lemmas.GenEngineRun
open SyModel SyModel.Engine SyModel.Generated SyModel.Generated.EngineTask SyModel.GenEngineTask
open SyModel.Lemmas.GenTransfer

/-! ## 1. the glue of the execution stage -/

section glue
variable {W : Type}

/-- **GLUE (TRUSTED).**  `for task in tasks { … let result = match task.action { … }; … }` of `SyncEngine::sync`
    (src/sync/mod.rs:771-1198) read with ONE worker (`-j 1`, `Semaphore::new(1)`): the task bodies run one after the
    other in list order, each from the world the previous one left, the statistics record threaded
    (`Arc<Mutex<SyncStats>>`, locked by every body for its whole bookkeeping), each body's `Result` collected
    (`results.extend(join_all(handles))`).  A body that answers `Err` does NOT end the loop (its error was pushed on
    `stats.errors`; `max_errors` aborts are not modelled here).  Stands for: the `for` header, `tokio::spawn`, the
    semaphore, `join_all`.  The body itself is the TRANSLATED `run_task`. -/
def execLoop (ext : Ext W) (transferrer verifier : Rs.Opaque) (dry json : Bool) (mode : ChecksumType)
    (limiter pm : Option Rs.Opaque) :
    List SyncTask → SyncStats → List (Except Rs.Err Unit) → Rs.M W (SyncStats × List (Except Rs.Err Unit))
  | [], st, rs => pure (st, rs)
  | t :: ts, st, rs => do
    let r ← run_task ext t transferrer verifier st dry json mode limiter pm
    execLoop ext transferrer verifier dry json mode limiter pm ts r.2 (rs ++ [r.1])

end glue

/-! ## 2. what is carried along the fold -/

/-- two worlds with the same root text, the same source side and the same xattr-value ids (they may differ in the
    destination tree, the link map, the counters) -/
def SameEnv (xw xw' : XWorld) : Prop := xw'.root = xw.root ∧ xw'.src = xw.src ∧ xw'.valId = xw.valId

theorem SameEnv.refl (xw : XWorld) : SameEnv xw xw := ⟨rfl, rfl, rfl⟩
theorem SameEnv.trans {a b c : XWorld} (h1 : SameEnv a b) (h2 : SameEnv b c) : SameEnv a c :=
  ⟨h2.1.trans h1.1, h2.2.1.trans h1.2.1, h2.2.2.trans h1.2.2⟩

theorem SameEnv.of_left {xw xw' : XWorld} {k : Engine.Path} (h : Left xw xw' k) : SameEnv xw xw' := by
  rcases h with rfl | ⟨d, _, rfl⟩ | ⟨s, _, rfl⟩ <;> exact ⟨rfl, rfl, rfl⟩

/-- the hypotheses of `GenEngineTask.run_task_eq_execTask_model` for one task and its key -/
structure TaskOK (cfg : Cfg) (xw : XWorld) (task : SyncTask) (k : Engine.Path) : Prop where
  clean : CleanPath k
  dest : task.dest_path = destOf xw.root k
  src : ∀ e, task.source = some e → Readable cfg (toE e) ∧ SrcFile xw (toE e) ∧ HasInode cfg (toE e)
  work : (task.action = .Create ∨ task.action = .Update) → task.source.isSome = true

theorem TaskOK.congr {cfg : Cfg} {xw xw' : XWorld} {task : SyncTask} {k : Engine.Path} (h : TaskOK cfg xw task k)
    (he : SameEnv xw xw') : TaskOK cfg xw' task k :=
  ⟨h.clean, by rw [he.1]; exact h.dest,
   fun e hs => ⟨(h.src e hs).1, by unfold SrcFile; rw [he.2.1]; exact (h.src e hs).2.1, (h.src e hs).2.2⟩, h.work⟩

theorem absTaskE_congr (cfg : Cfg) {xw xw' : XWorld} (task : SyncTask) (k : Engine.Path) (he : SameEnv xw xw') :
    absTaskE cfg xw' task k = absTaskE cfg xw task k := by
  unfold absTaskE absPayload metaOf
  rw [he.2.1, he.2.2]

/-- a failed executor call at `k` leaves NOTHING behind: `create_dir_all(parent k)` has nothing to create, and `k` does
    not hold a symlink (the two non-trivial shapes of `Left`) -/
def NoResidue (dst : Map DNode) (k : Engine.Path) : Prop :=
  (∀ d, mkdirAll dst (parentOf k) = some d → d = dst) ∧ ∀ s, dst.get? k ≠ some (.symlink s)

instance (dst : Map DNode) (k : Engine.Path) : Decidable (NoResidue dst k) := by
  unfold NoResidue
  have h1 : Decidable (∀ d, mkdirAll dst (parentOf k) = some d → d = dst) := by
    cases h : mkdirAll dst (parentOf k) with
    | none => exact isTrue (fun d hd => by cases hd)
    | some d0 =>
      by_cases he : d0 = dst
      · exact isTrue (fun d hd => by cases hd; exact he)
      · exact isFalse (fun hall => he (hall d0 rfl))
  have h2 : Decidable (∀ s, dst.get? k ≠ some (.symlink s)) := by
    cases h : dst.get? k with
    | none => exact isTrue (fun s hs => by cases hs)
    | some n =>
      cases n with
      | symlink t => exact isFalse (fun hall => hall t rfl)
      | dir => exact isTrue (fun s hs => by cases hs)
      | file m => exact isTrue (fun s hs => by cases hs)
  exact instDecidableAnd

theorem left_eq_of_noResidue {xw xw' : XWorld} {k : Engine.Path} (hl : Left xw xw' k) (hn : NoResidue xw.w.dst k) :
    xw' = xw := by
  rcases hl with rfl | ⟨d, hd, rfl⟩ | ⟨s, hs, rfl⟩
  · rfl
  · rw [hn.1 d hd]
  · exact absurd hs (hn.2 s)

/-- **the restriction of the fold theorem** (a predicate on the MODEL's sequential run from `st` over `ts`): every task
    whose `perform` fails, fails leaving nothing behind -/
def FailClean (cfg : Cfg) : Exec → List Task → Prop
  | _, [] => True
  | st, t :: ts => (perform cfg st.w t = none → NoResidue st.w.dst t.rel) ∧ FailClean cfg (execTask cfg noFaults st t) ts

instance (cfg : Cfg) : ∀ (st : Exec) (ts : List Task), Decidable (FailClean cfg st ts)
  | _, [] => isTrue trivial
  | st, t :: ts =>
    have : Decidable (FailClean cfg (execTask cfg noFaults st t) ts) := instDecidableFailClean cfg _ ts
    have : Decidable (perform cfg st.w t = none → NoResidue st.w.dst t.rel) := by
      cases h : perform cfg st.w t with
      | none =>
        by_cases hn : NoResidue st.w.dst t.rel
        · exact isTrue (fun _ => hn)
        · exact isFalse (fun hall => hn (hall rfl))
      | some w => exact isTrue (fun hc => by cases hc)
    by unfold FailClean; exact instDecidableAnd

/-- every error record of the statistics is one the abstraction reads (an action name of the report, a path below the
    root): then the model's error list is as long as `stats.errors` -/
def AllErrAbs (root : Rs.Path) (st : SyncStats) : Prop := ∀ r ∈ st.errors, (errAbs root r).isSome = true

theorem filterMap_length_of_all_some {α β : Type} (f : α → Option β) (l : List α) (h : ∀ a ∈ l, (f a).isSome = true) :
    (l.filterMap f).length = l.length := by
  induction l with
  | nil => rfl
  | cons a t ih =>
    obtain ⟨b, hb⟩ := Option.isSome_iff_exists.1 (h a (by simp))
    simp [List.filterMap_cons, hb, ih (fun x hx => h x (by simp [hx]))]

theorem absBook_errors_length (root : Rs.Path) (st : SyncStats) (log : List SyncEvent) (h : AllErrAbs root st) :
    (absBook root st log).errors.length = st.errors.length := by
  simp [absBook, filterMap_length_of_all_some _ _ h]

/-! ## 3. one task leaves root, source side and value ids alone -/

section step
variable (cfg : Cfg) (ew : EWorld) (task : SyncTask) (k : Engine.Path) (transferrer verifier : Rs.Opaque)
  (stats : SyncStats) (mode : ChecksumType) (limiter pm : Option Rs.Opaque)

theorem run_task_sameEnv (hok : TaskOK cfg ew.xw task k) {res : Except Rs.Err Unit} {st' : SyncStats} {ew' : EWorld}
    (h : runM (run_task (engineExt cfg) task transferrer verifier stats cfg.dryRun true mode limiter pm) ew =
      (.ok (res, st'), ew')) : SameEnv ew.xw ew'.xw := by
  obtain ⟨hk, hd, hsrc, hwork⟩ := hok
  have hran := (run_task_ran _ _ _ _ _ _ _ _ _ pm _ _ _ _).1 h
  cases hran with
  | noSource ha hs => exact SameEnv.refl _
  | xferErr ha source hs e w1 hx =>
    obtain ⟨hr, hsf, hi⟩ := hsrc source hs
    have hx' := xferCall_engine cfg ew task k transferrer hk hd source ha hs hr hsf hi
    cases hp : perform cfg ew.xw.w (absTaskE cfg ew.xw task k) with
    | some w' =>
      rw [hp] at hx'
      obtain ⟨r, hr'⟩ := hx'
      rw [hr'] at hx; cases hx
    | none =>
      rw [hp] at hx'
      obtain ⟨xw', hr', hl⟩ := hx'
      rw [hr'] at hx
      cases hx
      exact SameEnv.of_left hl
  | xferOk ha source hs r w1 w2 w' hx ht he =>
    obtain ⟨hr, hsf, hi⟩ := hsrc source hs
    have hx' := xferCall_engine cfg ew task k transferrer hk hd source ha hs hr hsf hi
    cases hp : perform cfg ew.xw.w (absTaskE cfg ew.xw task k) with
    | some w'' =>
      rw [hp] at hx'
      obtain ⟨r', hr'⟩ := hx'
      rw [hr'] at hx
      cases hx
      rw [throttle_engine] at ht
      cases ht
      rw [verifyPhase_engine, emit_engine] at he
      cases he
      exact ⟨rfl, rfl, rfl⟩
    | none =>
      rw [hp] at hx'
      obtain ⟨xw', hr', hl⟩ := hx'
      rw [hr'] at hx; cases hx
  | skip ha w' he =>
    rw [emit_engine] at he
    cases he
    exact SameEnv.refl _
  | delOk ha isDir st1 w1 w2 w' dres hp hdel hg he =>
    obtain ⟨n, hp'⟩ := deletePre_engine cfg ew task stats cfg.dryRun
    rw [hp'] at hp
    cases hp
    rw [hd, delete_engine_run cfg ew k transferrer hk] at hdel
    rw [emit_engine] at he
    cases he
    split at hdel
    · cases hdel; exact SameEnv.refl _
    · split at hdel <;> cases hdel <;> exact ⟨rfl, rfl, rfl⟩
  | delErr ha isDir st1 w1 w2 dres e hp hdel hg =>
    obtain ⟨n, hp'⟩ := deletePre_engine cfg ew task stats cfg.dryRun
    rw [hp'] at hp
    cases hp
    rw [hd, delete_engine_run cfg ew k transferrer hk] at hdel
    split at hdel
    · cases hdel; exact SameEnv.refl _
    · split at hdel <;> cases hdel <;> exact ⟨rfl, rfl, rfl⟩

/-! ## 4. one task: the bridge of `Props/GenEngineTask` with `Left` collapsed -/

/-- **ONE TASK.**  Under `TaskOK`, and when a failure of the model's `perform` for this task leaves nothing behind
    (`NoResidue`): `run_task` on the instance answers; the WHOLE abstraction afterwards — world included, `Ok` or `Err` —
    is `execTask cfg noFaults` of the abstraction before; the environment is kept; the result is `Ok` exactly when the
    model's `perform` succeeds; with verification off no verification failure is counted. -/
theorem run_task_step (hok : TaskOK cfg ew.xw task k)
    (hfc : perform cfg ew.xw.w (absTaskE cfg ew.xw task k) = none → NoResidue ew.xw.w.dst k) :
    ∃ res st' ew',
      runM (run_task (engineExt cfg) task transferrer verifier stats cfg.dryRun true mode limiter pm) ew =
        (.ok (res, st'), ew') ∧
      SameEnv ew.xw ew'.xw ∧
      absExec ew' st' = execTask cfg noFaults (absExec ew stats) (absTaskE cfg ew.xw task k) ∧
      (SyModel.Props.GenEngineTask.isOk res = (perform cfg ew.xw.w (absTaskE cfg ew.xw task k)).isSome) ∧
      (mode = .None → st'.verification_failures = stats.verification_failures) ∧
      (AllErrAbs ew.xw.root stats → AllErrAbs ew.xw.root st') := by
  have hok' := hok
  obtain ⟨hk, hd, hsrc, hwork⟩ := hok
  have hver : ∀ {res st' ew'},
      runM (run_task (engineExt cfg) task transferrer verifier stats cfg.dryRun true mode limiter pm) ew =
        (.ok (res, st'), ew') → mode = .None → st'.verification_failures = stats.verification_failures := by
    intro res st' ew' h hm
    have := (SyModel.Props.GenEngineTask.verification_iff_due (engineExt cfg) task transferrer verifier stats
      cfg.dryRun true mode limiter pm h).2
      (by rintro ⟨_, _, _, _, _, _, hne, _⟩; exact hne hm)
    exact this.2
  have herr : ∀ {res st' ew'},
      runM (run_task (engineExt cfg) task transferrer verifier stats cfg.dryRun true mode limiter pm) ew =
        (.ok (res, st'), ew') → AllErrAbs ew.xw.root stats → AllErrAbs ew.xw.root st' := by
    intro res st' ew' h hall
    have he := SyModel.Props.GenEngineTask.errors_iff_err (engineExt cfg) task transferrer verifier stats
      cfg.dryRun true mode limiter pm h
    rcases res with er | u
    · simp only [] at he
      intro r hr
      rw [he] at hr
      rcases List.mem_append.1 hr with hr | hr
      · exact hall r hr
      · have : r = SyModel.Props.GenEngineTask.errorRecord task er := by simpa using hr
        rw [this]
        unfold SyModel.Props.GenEngineTask.errorRecord
        rw [errAbs_record ew task k hk hd er]; rfl
    · simp only [] at he
      intro r hr; rw [he] at hr; exact hall r hr
  have hcu : (task.action = .Create ∨ task.action = .Update) →
      ∃ res st' ew',
        runM (run_task (engineExt cfg) task transferrer verifier stats cfg.dryRun true mode limiter pm) ew =
          (.ok (res, st'), ew') ∧
        SameEnv ew.xw ew'.xw ∧
        absExec ew' st' = execTask cfg noFaults (absExec ew stats) (absTaskE cfg ew.xw task k) ∧
        (SyModel.Props.GenEngineTask.isOk res = (perform cfg ew.xw.w (absTaskE cfg ew.xw task k)).isSome) ∧
        (mode = .None → st'.verification_failures = stats.verification_failures) ∧
        (AllErrAbs ew.xw.root stats → AllErrAbs ew.xw.root st') := fun ha => by
    obtain ⟨e, hs⟩ := Option.isSome_iff_exists.1 (hwork ha)
    obtain ⟨res, st', ew', h1, hroot, hb, hokc, herrc⟩ :=
      xfer_eq_execTask cfg ew task k transferrer verifier stats mode limiter pm hk hd e ha hs
        (hsrc e hs).1 (hsrc e hs).2.1 (hsrc e hs).2.2
    refine ⟨res, st', ew', h1, run_task_sameEnv cfg ew task k transferrer verifier stats mode limiter pm hok' h1,
      ?_, ?_, hver h1, herr h1⟩
    · rcases res with er | u
      · obtain ⟨hw, hl, hp⟩ := herrc er rfl
        have heq := left_eq_of_noResidue hl (hfc hp)
        show Exec.mk _ _ = _
        rw [hb, heq, ← hw]
      · have := (hokc u rfl).1
        show Exec.mk _ _ = _
        rw [this, hb]
    · rcases res with er | u
      · rw [(herrc er rfl).2.2]; rfl
      · have := (hokc u rfl).2
        rw [this]; rfl
  cases ha : task.action with
  | Create => exact hcu (.inl ha)
  | Update => exact hcu (.inr ha)
  | Skip =>
    obtain ⟨st', ew', h1, h2⟩ := skip_eq_execTask cfg ew task k transferrer verifier stats mode limiter pm hk hd ha
      cfg.dryRun
    refine ⟨_, st', ew', h1, run_task_sameEnv cfg ew task k transferrer verifier stats mode limiter pm hok' h1, h2, ?_,
      hver h1, herr h1⟩
    have : perform cfg ew.xw.w (absTaskE cfg ew.xw task k) = some ew.xw.w := by
      simp [perform, absTaskE, ha, absAct]
    rw [this]; rfl
  | Delete =>
    obtain ⟨st', ew', h1, h2⟩ := delete_eq_execTask cfg ew task k transferrer verifier stats mode limiter pm hk hd ha
    refine ⟨_, st', ew', h1, run_task_sameEnv cfg ew task k transferrer verifier stats mode limiter pm hok' h1, h2, ?_,
      hver h1, herr h1⟩
    have : absTaskE cfg ew.xw task k = ⟨.delete, k, (absTaskE cfg ew.xw task k).payload⟩ := by
      simp [absTaskE, ha, absAct]
    rw [this, perform_delete_at]
    cases cfg.dryRun
    · simp only [Bool.false_eq_true, if_false]
      rcases ew.xw.w.dst.get? k with _ | (m | _ | t) <;> rfl
    · rfl

end step

/-! ## 5. the whole list -/

/-- the model tasks a list of keyed tasks stands for -/
def absTasksE (cfg : Cfg) (xw : XWorld) (tks : List (SyncTask × Engine.Path)) : List Task :=
  tks.map fun tk => absTaskE cfg xw tk.1 tk.2

theorem absTasksE_congr (cfg : Cfg) {xw xw' : XWorld} (tks : List (SyncTask × Engine.Path)) (he : SameEnv xw xw') :
    absTasksE cfg xw' tks = absTasksE cfg xw tks := by
  unfold absTasksE
  exact List.map_congr_left fun tk _ => absTaskE_congr cfg tk.1 tk.2 he

/-- **THE EXECUTION STAGE (stage iii).**  The translated task body folded by `execLoop` over any list of keyed tasks
    satisfying `TaskOK`, from any world and any statistics record, in a run whose failed tasks leave nothing behind
    (`FailClean`, a predicate on the model's run): the loop never throws; every body answered; the abstraction of the
    final world / statistics / event stream IS the model's fold of `execTask cfg noFaults` over the abstracted tasks from
    the abstraction of the initial state; root text, source side and value ids of the world are kept; with verification
    off no verification failure is counted. -/
theorem execLoop_eq_foldl (cfg : Cfg) (transferrer verifier : Rs.Opaque) (mode : ChecksumType)
    (limiter pm : Option Rs.Opaque) :
    ∀ (tks : List (SyncTask × Engine.Path)) (ew : EWorld) (stats : SyncStats) (rs : List (Except Rs.Err Unit)),
      (∀ tk ∈ tks, TaskOK cfg ew.xw tk.1 tk.2) →
      FailClean cfg (absExec ew stats) (absTasksE cfg ew.xw tks) →
      ∃ st' rs' ew',
        runM (execLoop (engineExt cfg) transferrer verifier cfg.dryRun true mode limiter pm (tks.map (·.1)) stats rs)
          ew = (.ok (st', rs ++ rs'), ew') ∧
        SameEnv ew.xw ew'.xw ∧
        absExec ew' st' = (absTasksE cfg ew.xw tks).foldl (execTask cfg noFaults) (absExec ew stats) ∧
        rs'.length = tks.length ∧
        (mode = .None → st'.verification_failures = stats.verification_failures) ∧
        (AllErrAbs ew.xw.root stats → AllErrAbs ew.xw.root st') := by
  intro tks
  induction tks with
  | nil =>
    intro ew stats rs _ _
    exact ⟨stats, [], ew, by simp [execLoop], SameEnv.refl _, rfl, rfl, fun _ => rfl, fun h => h⟩
  | cons tk tks ih =>
    intro ew stats rs hok hfc
    obtain ⟨t, k⟩ := tk
    have hfc' : (perform cfg (absExec ew stats).w (absTaskE cfg ew.xw t k) = none →
        NoResidue (absExec ew stats).w.dst (absTaskE cfg ew.xw t k).rel) ∧
        FailClean cfg (execTask cfg noFaults (absExec ew stats) (absTaskE cfg ew.xw t k)) (absTasksE cfg ew.xw tks) :=
      hfc
    obtain ⟨res, st1, ew1, h1, henv, habs, _, hv1, he1⟩ :=
      run_task_step cfg ew t k transferrer verifier stats mode limiter pm (hok (t, k) (by simp)) hfc'.1
    have hok1 : ∀ tk ∈ tks, TaskOK cfg ew1.xw tk.1 tk.2 := fun tk htk => (hok tk (by simp [htk])).congr henv
    have hfc1 : FailClean cfg (absExec ew1 st1) (absTasksE cfg ew1.xw tks) := by
      rw [absTasksE_congr cfg tks henv, habs]; exact hfc'.2
    obtain ⟨st', rs', ew', h2, henv2, habs2, hlen, hv2, he2⟩ := ih ew1 st1 (rs ++ [res]) hok1 hfc1
    refine ⟨st', res :: rs', ew', ?_, henv.trans henv2, ?_, by simp [hlen], fun hm => (hv2 hm).trans (hv1 hm),
      fun hall => by have := he2 (by rw [henv.1]; exact he1 hall); rwa [henv.1] at this⟩
    · simp only [List.map_cons, execLoop]
      rw [runM_bind_ok h1, h2]
      simp
    · rw [habs2, absTasksE_congr cfg tks henv, habs]
      rfl

end SyModel.Lemmas.GenEngineRun
